#!/usr/bin/env python3
"""usage: tools/seed_prompt.py Cxx tag [extra hint]  -> prints the prompt for a seeding sub-agent (which sees only the property text and its own scratch
worktree /tmp/seed_<Cxx>_<tag>; results go to /tmp/seed_out/<Cxx>_<tag>) and creates that worktree.  Before use copy tools/baseline_*.sh to
/root/seedtools/ (the prompt points the agent there so that it never reads /verif); adopt the result with tools/adopt_seed.py."""
import json, subprocess, sys, os
pid, tag = sys.argv[1], sys.argv[2]
hint = sys.argv[3] if len(sys.argv) > 3 else ""
p = [json.loads(l) for l in open('/verif/properties.jsonl') if json.loads(l)['id'] == pid][0]
wt = "/tmp/seed_%s_%s" % (pid, tag)
out = "/tmp/seed_out/%s_%s" % (pid, tag)
if not os.path.exists(wt):
    subprocess.check_call(["git", "-C", "/repo", "worktree", "add", "-q", "--detach", wt, "HEAD"])
os.makedirs(out, exist_ok=True)
prop = {k: p[k] for k in ("id", "title", "statement", "quantifier", "why_tests_cant", "anchors")}
print(f"""You are helping evaluate a verification effort for the header-only C++17 library alifahrri/nmtools (a numpy-like ndarray
library: lazy views, broadcasting/slicing index math, ufuncs/reductions, evaluators).  You have your OWN scratch git
worktree of the library at {wt} .  Work only there and in {out} .  Do NOT read, list or touch /verif or /repo
(the one exception: you may run the three helper scripts in /root/seedtools, described below).  The sandbox is offline; g++ 12,
clang++-14, python3 are available.

This is a semantic property of the library that is supposed to hold for every input:

{json.dumps(prop, indent=1)}

YOUR TASK: write ONE realistic change (a "seeded defect") to the library sources under {wt}/include/nmtools that BREAKS this
property, while the library still compiles and the project's existing test suite still passes.  It must be the kind of
regression a maintainer could plausibly introduce (a refactor that is subtly wrong, a fast path, an off-by-one in a rarely
taken branch, a dropped normalisation, a wrong container bound ...), NOT a blatant break.  Crucially it must need something
SPECIFIC to manifest - an unusual input (particular rank / extent relation / sign / argument kind / container kind / layout),
a multi-step sequence of operations, a particular composition of operations, or two cooperating sites that each look fine
alone - so that ordinary use and the existing tests do not expose it at once.  {hint}

Deliverables, all in {out}/ :
 1. patch.diff  - `git -C {wt} diff` of your change (library headers only; do not edit tests).  Keep it small (a few lines to ~30).
 2. demo.cpp    - a single-file demonstration program: compiled with `g++ -std=c++17 -I<tree>/include demo.cpp -o demo` it must
                  exit 0 and print OK against the UNCHANGED tree (do NOT use git stash - the stash is shared with other people working in sibling worktrees; save your diff to a file and use `git apply -R` / `git apply`, or keep a second copy of the header) and exit non-zero, printing what differed,
                  against the tree with your change.  It must call the library's public API and compare with an expected value you
                  computed independently (hard-coded or by a plain loop).
 3. meta.json   - {{"property": "{pid}", "summary": "<what was changed, file and function>", "needs_to_manifest": "<the specific
                  condition>", "stays_correct": "<what common uses remain right>", "files_touched": [...], "baseline_tests_run": [...], "baseline_result": "..."}}
 4. README.md   - a short explanation (why it breaks the property, why the existing tests do not notice).

You MUST verify all of this yourself and report the evidence:
 a. the demo passes on the unchanged tree and fails with the change (show both outputs);
 b. the existing tests still pass with the change.  The full suite takes 40 minutes to build, so instead: find the test
    sources that (transitively) include the header(s) you changed and can reach the changed code, and compile + run the relevant
    ones with the suite's flags using
        /root/seedtools/baseline_one.sh {wt} tests/array/array/<name>.cpp [more .cpp ...]     (array tests; doctest)
        /root/seedtools/baseline_meta.sh {wt} tests/meta/<...>.cpp                             (meta tests)
        /root/seedtools/baseline_utl.sh {wt} <utl test names e.g. vector either>               (tests/utl/utl/src/<name>.cpp)
    Only these test directories are part of the project's suite as built here: tests/array (array/*.cpp, the eval tests),
    tests/meta, tests/utility, tests/utl.  NOT built: tests/index, tests/view, tests/functional, SIMD/CUDA/OpenCL tests, constexpr tests.
    A single array test can take 1-20 minutes to compile (kron.cpp ~20 min: avoid unless needed); run the ones that matter, several at once is fine
    but use at most ~4 parallel compile jobs.  Run each test on the unchanged tree too if it fails, to tell pre-existing failures from yours.
    If a relevant test fails because of your change, pick a different change.
 c. the change compiles with the library's normal usage (your demo plus the tests above are enough).

Your final message must contain: the summary, the exact condition needed to manifest, the demo output before/after, the
list of baseline tests you ran with their results, and confirm the four files exist in {out}/.  Leave the change APPLIED in
{wt} (I will inspect it with git diff) and leave no other files in /tmp.""")
