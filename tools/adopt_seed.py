#!/usr/bin/env python3
"""usage: tools/adopt_seed.py <seed_out dir> <name under seeded/> <Cxx[,Cyy...]> [tier]
Copies a sub-agent's seeded change to /verif/seeded/<name>/, re-verifies the demo (passes unchanged / fails patched) in a scratch
worktree, runs the named checks against the patched tree (VERIF_REPO) and records the outcome in meta.json."""
import json, os, shutil, subprocess, sys, tempfile
src, name, checks = sys.argv[1], sys.argv[2], sys.argv[3].split(",")
tier = sys.argv[4] if len(sys.argv) > 4 else "quick"
V = os.path.dirname(os.path.dirname(os.path.abspath(__file__)))
dst = os.path.join(V, "seeded", name)
os.makedirs(dst, exist_ok=True)
for f in ("patch.diff", "demo.cpp", "meta.json", "README.md"):
    if os.path.exists(os.path.join(src, f)):
        shutil.copy(os.path.join(src, f), os.path.join(dst, f))
meta = json.load(open(os.path.join(dst, "meta.json")))
wt = tempfile.mkdtemp(prefix="wt_adopt_", dir="/tmp")
os.rmdir(wt)
subprocess.check_call(["git", "-C", "/repo", "worktree", "add", "-q", "--detach", wt, "HEAD"])
try:
    def demo(tag):
        exe = wt + "_demo_" + tag
        r = subprocess.run(["g++", "-std=c++17", "-I" + wt + "/include", os.path.join(dst, "demo.cpp"), "-o", exe], capture_output=True, text=True)
        if r.returncode:
            return "compile-error: " + r.stderr[-300:]
        try:
            r = subprocess.run([exe], capture_output=True, text=True, timeout=600)
            rc = r.returncode
        except subprocess.TimeoutExpired:
            rc = "timeout"
        os.unlink(exe)
        return rc
    a = demo("a")
    subprocess.check_call(["git", "-C", wt, "apply", os.path.join(dst, "patch.diff")])
    b = demo("b")
    print("demo: unchanged exit=%s patched exit=%s" % (a, b))
    meta.setdefault("verified", [])
    if isinstance(meta["verified"], str):
        meta["verified"] = [meta["verified"]]
    meta["verified"].append("tools/adopt_seed.py: demo exit %s on the unchanged tree, %s with the patch" % (a, b))
    meta["origin"] = "fresh sub-agent given only the property text and a scratch worktree"
    cb = meta.setdefault("caught_by", {})
    for c in checks:
        env = dict(os.environ, VERIF_REPO=wt)
        r = subprocess.run([os.path.join(V, "check"), c, tier], capture_output=True, text=True, env=env, cwd=V)
        keys = sorted({l.split(" key=")[1].split(" ")[0] for l in r.stdout.splitlines() if l.startswith("VIOLATION") and " key=" in l})
        print("%s %s -> exit %d, %d violation keys: %s" % (c, tier, r.returncode, len(keys), ", ".join(keys[:6])))
        if r.returncode not in (0, 1):
            print(r.stdout[-1500:], r.stderr[-1500:])
        cb["%s %s" % (c, tier)] = (r.returncode == 1)
        meta["verified"].append("VERIF_REPO=<patched worktree> ./check %s %s -> exit %d (%d keys%s)" % (
            c, tier, r.returncode, len(keys), (": " + ", ".join(keys[:4])) if keys else ""))
    json.dump(meta, open(os.path.join(dst, "meta.json"), "w"), indent=1)
    ok = (a == 0 and b != 0)
    print("demo verified" if ok else "DEMO NOT VERIFIED")
finally:
    subprocess.call(["git", "-C", "/repo", "worktree", "remove", "--force", wt])
    shutil.rmtree(wt, ignore_errors=True)
