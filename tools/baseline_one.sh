#!/bin/sh
# usage: tools/baseline_one.sh <repo-dir> <test-source relative to repo, e.g. tests/array/array/flip.cpp> [more sources...]
# Compiles the given baseline test sources of <repo-dir> with the baseline's flags (hooks OFF) plus the doctest main and runs them.
# Exit status = doctest's. Build output goes to a temp dir that is removed.
set -u
R=$(realpath "$1"); shift
D=$(mktemp -d /tmp/bl1.XXXXXX)
trap 'rm -rf "$D"' EXIT
SUB=$(echo "$1" | cut -d/ -f2)   # array | meta | utility | utl
INC="-I$R/include -I$R/tests/include -I$R/tests/$SUB/include"
FLAGS="-Wno-error -O2 -g -DNDEBUG --std=c++17 -DNMTOOLS_TESTING_DOCTEST_DISABLE_BENCH"
OBJS=""
i=0
for s in "$@"; do
  i=$((i+1))
  ( c++ $FLAGS $INC -c "$R/$s" -o "$D/t$i.o" ) &
  OBJS="$OBJS $D/t$i.o"
done
MAIN=$R/tests/$SUB/tests.cpp
[ -f "$MAIN" ] || MAIN=$R/tests/array/tests.cpp
c++ $FLAGS $INC -c "$MAIN" -o "$D/main.o" &
wait
c++ $D/main.o $OBJS -o "$D/t" || { echo "BUILD FAILED"; exit 3; }
"$D/t" 2>&1 | tail -4
