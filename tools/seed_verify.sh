#!/bin/sh
# usage: tools/seed_verify.sh <dir with patch.diff and demo.cpp> [baseline test sources relative to repo ...]
# 1. demo passes on the unchanged tree, fails with the patch  2. listed baseline tests pass with the patch (hooks off)
set -u
D=$(realpath "$1"); shift
WT=/tmp/sv_$$
git -C /repo worktree add -q --detach "$WT" HEAD || exit 2
trap 'git -C /repo worktree remove --force "$WT" >/dev/null 2>&1; rm -rf "$WT" /tmp/sv_demo_$$*' EXIT
g++ -std=c++17 -I"$WT/include" "$D/demo.cpp" -o /tmp/sv_demo_$$_a 2>/tmp/sv_demo_$$_err || { echo "DEMO DOES NOT COMPILE ON UNCHANGED TREE"; head -5 /tmp/sv_demo_$$_err; exit 2; }
/tmp/sv_demo_$$_a >/dev/null 2>&1; A=$?
git -C "$WT" apply "$D/patch.diff" || { echo "PATCH DOES NOT APPLY"; exit 2; }
g++ -std=c++17 -I"$WT/include" "$D/demo.cpp" -o /tmp/sv_demo_$$_b 2>/tmp/sv_demo_$$_err || { echo "DEMO DOES NOT COMPILE WITH PATCH"; head -5 /tmp/sv_demo_$$_err; exit 2; }
/tmp/sv_demo_$$_b >/dev/null 2>&1; B=$?
echo "demo: unchanged exit=$A patched exit=$B"
if [ $# -gt 0 ]; then
  "$(dirname "$0")/baseline_one.sh" "$WT" "$@"
fi
[ "$A" = 0 ] && [ "$B" != 0 ]
