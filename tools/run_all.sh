#!/bin/sh
# usage: tools/run_all.sh quick|thorough [ids...]  -> runs the checks one after another, prints "Cxx exit=N wall=S"
TIER=${1:-quick}; shift
IDS=${*:-"C01 C02 C03 C04 C05 C06 C07 C08 C09 C10 C11 C12 C13 C14 C15 C16 C17 C18 C19 C20"}
cd "$(dirname "$0")/.." || exit 2
mkdir -p .build/logs
for id in $IDS; do
  s=$(date +%s)
  ./check $id $TIER > .build/logs/$id.$TIER.log 2>&1; rc=$?
  e=$(date +%s)
  echo "$id exit=$rc wall=$((e-s)) viol=$(grep -c '^VIOLATION' .build/logs/$id.$TIER.log) known=$(grep -c '^KNOWN-FINDING' .build/logs/$id.$TIER.log)"
done
