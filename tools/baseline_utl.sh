#!/bin/sh
# usage: tools/baseline_utl.sh <repo-dir> <utl test names...>   e.g. vector either maybe static_vector
# compiles tests/utl/utl/src/<name>.cpp with the baseline flags (hooks off) + doctest main and runs them
set -u
R=$(realpath "$1"); shift
D=$(mktemp -d /tmp/blu.XXXXXX)
trap 'rm -rf "$D"' EXIT
INC="-I$R/include -I$R/tests/include -I$R/tests/utl/utl/include"
FLAGS="-Wno-error -O2 -g -DNDEBUG --std=c++17"
OBJS=""
for n in "$@"; do ( c++ $FLAGS $INC -c "$R/tests/utl/utl/src/$n.cpp" -o "$D/$n.o" ) & OBJS="$OBJS $D/$n.o"; done
c++ $FLAGS $INC -c "$R/tests/utl/utl/tests.cpp" -o "$D/main.o" &
wait
c++ $D/main.o $OBJS -o "$D/t" || { echo "BUILD FAILED"; exit 3; }
"$D/t" 2>&1 | tail -4
