#!/bin/sh
# usage: tools/baseline_meta.sh <repo-dir> <test sources relative to repo under tests/meta ...>
set -u
R=$(realpath "$1"); shift
D=$(mktemp -d /tmp/blm.XXXXXX)
trap 'rm -rf "$D"' EXIT
INC="-I$R/include -I$R/tests/include -I$R/tests/meta/include"
FLAGS="-Wno-error -O2 -g -DNDEBUG -std=c++17 -DDEFER_STATIC_CHECK"
OBJS=""; i=0
for s in "$@"; do i=$((i+1)); ( c++ $FLAGS $INC -c "$R/$s" -o "$D/t$i.o" ) & OBJS="$OBJS $D/t$i.o"; done
c++ $FLAGS $INC -c "$R/tests/meta/tests.cpp" -o "$D/main.o" &
wait
c++ $D/main.o $OBJS -o "$D/t" || { echo "BUILD FAILED"; exit 3; }
"$D/t" 2>&1 | tail -4
