#!/bin/sh
# Offline setup: pre-build the harness binaries for the current /repo tree (cache in /verif/.build).
cd "$(dirname "$0")" || exit 1
exec python3-vt -m vf.prebuild
