// C04 (part e): split, diagonal, diagflat, tril, triu, where
#include "c04_common.hpp"
#include "nmtools/array/view/split.hpp"
#include "nmtools/array/view/diagonal.hpp"
#include "nmtools/array/view/diagflat.hpp"
#include "nmtools/array/view/tril.hpp"
#include "nmtools/array/view/triu.hpp"
#include "nmtools/array/view/where.hpp"

namespace view = nmtools::view;
using c04::BASE_A;
using c04::BASE_B;
using c04::BASE_C;

// split_i <shape> <sections int> <axis int> <k>   prints part k, then "NP <number of parts>"
VH_OP(split_i)
{
    auto s = in.vec();
    auto n = (int)in.i();
    auto ax = (int)in.i();
    auto k = (size_t)in.i();
    auto a = vh::make_arr<int>(s, BASE_A);
    auto parts = view::split(a, n, ax);
    auto np = (size_t)nm::len(parts);
    if (k < np) c04::emit_view_all(out, nm::at(parts, k));
    else out.tok("M 0 V N E N C N O N");
    out.tok("NP");
    out.i((long long)np);
}

// split_l <shape> <indices list> <axis int> <k>
VH_OP(split_l)
{
    auto s = in.vec();
    auto idx = in.vec();
    auto ax = (int)in.i();
    auto k = (size_t)in.i();
    auto a = vh::make_arr<int>(s, BASE_A);
    auto parts = view::split(a, vh::to_list<int>(idx), ax);
    auto np = (size_t)nm::len(parts);
    if (k < np) c04::emit_view_all(out, nm::at(parts, k));
    else out.tok("M 0 V N E N C N O N");
    out.tok("NP");
    out.i((long long)np);
}

// diagonal <shape> <offset int> <axis1 int> <axis2 int>
VH_OP(diagonal)
{
    auto s = in.vec();
    auto off = (int)in.i();
    auto a1 = (int)in.i();
    auto a2 = (int)in.i();
    auto a = vh::make_arr<int>(s, BASE_A);
    auto v = view::diagonal(a, off, a1, a2);
    c04::emit_view_all(out, v);
}

// diagonal_default <shape>
VH_OP(diagonal_default)
{
    auto s = in.vec();
    auto a = vh::make_arr<int>(s, BASE_A);
    auto v = view::diagonal(a);
    c04::emit_view_all(out, v);
}

// diagflat <shape> <k int>
VH_OP(diagflat)
{
    auto s = in.vec();
    auto k = (int)in.i();
    auto a = vh::make_arr<int>(s, BASE_A);
    auto v = view::diagflat(a, k);
    c04::emit_view_all(out, v);
}

// tril <shape> <k int>
VH_OP(tril)
{
    auto s = in.vec();
    auto k = (int)in.i();
    auto a = vh::make_arr<int>(s, BASE_A);
    auto v = view::tril(a, k);
    c04::emit_view_all(out, v);
}

// triu <shape> <k int>
VH_OP(triu)
{
    auto s = in.vec();
    auto k = (int)in.i();
    auto a = vh::make_arr<int>(s, BASE_A);
    auto v = view::triu(a, k);
    c04::emit_view_all(out, v);
}

// where <cond shape> <cond data list> <x shape> <y shape>    (operands broadcast against each other)
VH_OP(where)
{
    auto sc = in.vec();
    auto cond = in.vec();
    auto sx = in.vec();
    auto sy = in.vec();
    auto c = vh::make_arr_data<int>(sc, cond);
    auto x = vh::make_arr<int>(sx, BASE_B);
    auto y = vh::make_arr<int>(sy, BASE_C);
    auto v = view::where(c, x, y);
    c04::emit_view_all(out, v);
}

VH_MAIN()
