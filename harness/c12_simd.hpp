// C12: SIMD evaluation == scalar evaluation.  Shared by harness/c12_*.cpp.
//   -DC12_CTX=<n> selects the SIMD context (one binary per context and op group):
//      1 x86_SSE  2 x86_AVX  3 vector_128  4 vector_256  5 vector_512  6 simde_AVX512
//   the including .cpp defines one of C12_GROUP_UNARY / C12_GROUP_BINARY / C12_GROUP_REDUCE / C12_GROUP_MATMUL / C12_GROUP_INT.
// Every operand is a heap buffer of exactly n elements (dynamic ndarray over std::vector) so that a packed
// load/store that runs over the end of a buffer lands in an ASan red zone.
// For every case the record holds:  SC <scalar evaluator result>  SI <SIMD result>  OK <evaluator returned: 1|0|-1>
#ifndef VERIF_HARNESS_C12_SIMD_HPP
#define VERIF_HARNESS_C12_SIMD_HPP

#ifndef C12_CTX
#define C12_CTX 2
#endif

#if C12_CTX == 1
#include "nmtools/array/eval/simd/x86_sse.hpp"
#define C12_CTX_OBJ ::nmtools::array::simd::x86_SSE
#define C12_CTX_NAME "x86_SSE"
#elif C12_CTX == 2
#include "nmtools/array/eval/simd/x86_avx.hpp"
#define C12_CTX_OBJ ::nmtools::array::simd::x86_AVX
#define C12_CTX_NAME "x86_AVX"
#elif C12_CTX == 3
#include "nmtools/array/eval/simd/vector_128.hpp"
#define C12_CTX_OBJ ::nmtools::array::simd::vector_128
#define C12_CTX_NAME "vector_128"
#elif C12_CTX == 4
#include "nmtools/array/eval/simd/vector_256.hpp"
#define C12_CTX_OBJ ::nmtools::array::simd::vector_256
#define C12_CTX_NAME "vector_256"
#elif C12_CTX == 5
#include "nmtools/array/eval/simd/vector_512.hpp"
#define C12_CTX_OBJ ::nmtools::array::simd::vector_512
#define C12_CTX_NAME "vector_512"
#elif C12_CTX == 6
#include "nmtools/array/eval/simd/simde_avx512.hpp"
#define C12_CTX_OBJ ::nmtools::array::simd::simde_AVX512
#define C12_CTX_NAME "simde_AVX512"
#else
#error "unknown C12_CTX"
#endif

#include "common.hpp"
#include "nmtools/array/eval.hpp"
#include "nmtools/constants.hpp"
#include "nmtools/dtypes.hpp"

namespace simd = nmtools::array::simd;
namespace view = nmtools::view;

namespace c12
{
    template <typename T>
    using row_t = na::ndarray_t<nmtools_list<T>, nmtools_list<nm_size_t>>;
    template <typename T>
    using col_t = na::column_major_ndarray_t<nmtools_list<T>, nmtools_list<nm_size_t>>;

    // logical (C-order) data -> array of either layout; the buffer has exactly prod(shape) elements
    template <typename arr_t>
    arr_t make(const std::vector<long long>& shape, const std::vector<double>& data)
    {
        using T = meta::get_element_type_t<arr_t>;
        arr_t a;
        a.resize(vh::to_shape(shape));
        size_t k = 0;
        for (vh::Odo o(shape); !o.end; o.next()) {
            nm::apply_at(a, o.idx) = (T)data[k < data.size() ? k : 0];
            k++;
        }
        return a;
    }

    // what does the SIMD evaluator itself return (true = computed, false = "unsupported, nothing written")?
    template <typename view_t>
    int evaluator_returns(const view_t& v)
    {
        if constexpr (meta::is_maybe_v<view_t>) {
            if (!nm::has_value(v)) return -1;
            return evaluator_returns(*v);
        } else if constexpr (meta::is_either_v<view_t>) {
            return -2;
        } else {
            auto ev = na::evaluator<na::eval_result_t<>>(v, C12_CTX_OBJ);
            using ev_t = decltype(ev);
            using output_t = typename ev_t::output_type;
            using result_t = meta::transform_bounded_array_t<output_t>;
            auto output = result_t{};
            if constexpr (meta::is_resizable_v<result_t>) {
                auto inp_shape = nm::shape(v);
                nm::detail::apply_resize(output, inp_shape);
            }
            return ev(output) ? 1 : 0;
        }
    }

    // compile-probed on the unchanged tree: simde_AVX512 does not compile for hardshrink/hardswish/softshrink
    // (simde_knot_mask{8,16} / simde_kxor_mask{8,16} are not declared by the installed simde) and, for double, for matmul
    // (simd_op_t::fmadd calls the _ps intrinsic)
    template <typename T>
    constexpr bool simde_f8_excluded = (C12_CTX == 6) && std::is_same_v<T, double>;
    constexpr bool simde_excluded = (C12_CTX == 6);

    template <typename S, typename V>
    void emit_pair(vh::Out& out, const S& scalar_result, const V& simd_result, int ok)
    {
        out.tok("SC");
        vh::emit_array(out, scalar_result);
        out.tok("SI");
        vh::emit_array(out, simd_result);
        out.tok("OK");
        out.i(ok);
    }
} // namespace c12

// VIEW: the view expression; CALL(...): the public eager function with trailing context argument
#define C12_RUN(VIEW, SCALAR, SIMD)                                   \
    do {                                                              \
        auto c12_sc = SCALAR;                                         \
        auto c12_si = SIMD;                                           \
        int c12_ok = c12::evaluator_returns(VIEW);                    \
        c12::emit_pair(out, c12_sc, c12_si, c12_ok);                  \
    } while (0)

// =====================================================================================
#ifdef C12_GROUP_UNARY
#include "nmtools/array/array/ufuncs/sqrt.hpp"
#include "nmtools/array/array/ufuncs/ceil.hpp"
#include "nmtools/array/array/ufuncs/floor.hpp"
#include "nmtools/array/array/activations/hardtanh.hpp"
#include "nmtools/array/array/activations/hardshrink.hpp"
#include "nmtools/array/array/activations/hardswish.hpp"
#include "nmtools/array/array/activations/leaky_relu.hpp"
#include "nmtools/array/array/activations/prelu.hpp"
#include "nmtools/array/array/activations/relu.hpp"
#include "nmtools/array/array/activations/relu6.hpp"
#include "nmtools/array/array/activations/softshrink.hpp"
#include "nmtools/array/array/activations/softsign.hpp"

namespace c12
{
    template <typename T, typename arr_t>
    void unary(vh::Out& out, int uop, const arr_t& a, T p0, T p1)
    {
        switch (uop) {
        case 0: C12_RUN(view::sqrt(a), na::sqrt(a), na::sqrt(a, C12_CTX_OBJ)); break;
        case 1: C12_RUN(view::ceil(a), na::ceil(a), na::ceil(a, C12_CTX_OBJ)); break;
        case 2: C12_RUN(view::floor(a), na::floor(a), na::floor(a, C12_CTX_OBJ)); break;
        case 3: C12_RUN(view::relu(a), na::relu(a), na::relu(a, C12_CTX_OBJ)); break;
        case 4: C12_RUN(view::relu6(a), na::relu6(a), na::relu6(a, C12_CTX_OBJ)); break;
        case 5: C12_RUN(view::hardtanh(a, p0, p1), na::hardtanh(a, p0, p1), na::hardtanh(a, p0, p1, C12_CTX_OBJ)); break;
        case 6:
            if constexpr (c12::simde_excluded) out.tok("UNSUP");
            else C12_RUN(view::hardshrink(a, p0), na::hardshrink(a, p0), na::hardshrink(a, p0, C12_CTX_OBJ));
            break;
        case 7:
            if constexpr (c12::simde_excluded) out.tok("UNSUP");
            else C12_RUN(view::hardswish(a), na::hardswish(a), na::hardswish(a, C12_CTX_OBJ));
            break;
        case 8: C12_RUN(view::leaky_relu(a, p0), na::leaky_relu(a, p0), na::leaky_relu(a, p0, C12_CTX_OBJ)); break;
        case 9: C12_RUN(view::prelu(a, p0), na::prelu(a, p0), na::prelu(a, p0, C12_CTX_OBJ)); break;
        case 10:
            if constexpr (c12::simde_excluded) out.tok("UNSUP");
            else C12_RUN(view::softshrink(a, p0), na::softshrink(a, p0), na::softshrink(a, p0, C12_CTX_OBJ));
            break;
        case 11: C12_RUN(view::softsign(a), na::softsign(a), na::softsign(a, C12_CTX_OBJ)); break;
        default: out.tok("ERR uop");
        }
    }

    // column-major operand: one representative op (the layout handling is in the shared evaluator)
    template <typename T, typename arr_t>
    void unary_col(vh::Out& out, int uop, const arr_t& a)
    {
        switch (uop) {
        case 0: C12_RUN(view::sqrt(a), na::sqrt(a), na::sqrt(a, C12_CTX_OBJ)); break;
        case 3: C12_RUN(view::relu(a), na::relu(a), na::relu(a, C12_CTX_OBJ)); break;
        default: out.tok("ERR uop-col");
        }
    }

    template <typename T>
    void unary_t(vh::Args& in, vh::Out& out)
    {
        auto uop = (int)in.i();
        auto lay = (int)in.i();
        auto p0 = (T)in.d();
        auto p1 = (T)in.d();
        auto shape = in.vec();
        auto data = in.dvec();
        if (lay == 0) unary<T>(out, uop, make<row_t<T>>(shape, data), p0, p1);
        else unary_col<T>(out, uop, make<col_t<T>>(shape, data));
    }
} // namespace c12

// unary <dtype 4|8> <uop> <layout 0=row 1=col> p0 p1 shape data
VH_OP(unary)
{
    auto dt = in.i();
    if (dt == 4) c12::unary_t<float>(in, out);
    else c12::unary_t<double>(in, out);
}
#endif // C12_GROUP_UNARY

// =====================================================================================
#ifdef C12_GROUP_BINARY
#include "nmtools/array/array/ufuncs/add.hpp"
#include "nmtools/array/array/ufuncs/multiply.hpp"
#include "nmtools/array/array/ufuncs/subtract.hpp"
#include "nmtools/array/array/ufuncs/divide.hpp"

namespace c12
{
    template <typename L, typename R>
    void binary(vh::Out& out, int bop, const L& a, const R& b)
    {
        switch (bop) {
        case 0: C12_RUN(view::add(a, b), na::add(a, b), na::add(a, b, C12_CTX_OBJ)); break;
        case 1: C12_RUN(view::subtract(a, b), na::subtract(a, b), na::subtract(a, b, C12_CTX_OBJ)); break;
        case 2: C12_RUN(view::multiply(a, b), na::multiply(a, b), na::multiply(a, b, C12_CTX_OBJ)); break;
        case 3: C12_RUN(view::divide(a, b), na::divide(a, b), na::divide(a, b, C12_CTX_OBJ)); break;
        default: out.tok("ERR bop");
        }
    }

    template <typename L, typename R>
    void binary_col(vh::Out& out, int bop, const L& a, const R& b)
    {
        switch (bop) {
        case 1: C12_RUN(view::subtract(a, b), na::subtract(a, b), na::subtract(a, b, C12_CTX_OBJ)); break;
        default: out.tok("ERR bop-col");
        }
    }

    template <typename T>
    void binary_t(vh::Args& in, vh::Out& out)
    {
        auto bop = (int)in.i();
        auto lay = (int)in.i(); // bit0: lhs column-major, bit1: rhs column-major
        auto ls = in.vec();
        auto rs = in.vec();
        auto ld = in.dvec();
        auto rd = in.dvec();
        switch (lay) {
        case 0: binary(out, bop, make<row_t<T>>(ls, ld), make<row_t<T>>(rs, rd)); break;
        case 1: binary_col(out, bop, make<col_t<T>>(ls, ld), make<row_t<T>>(rs, rd)); break;
        case 2: binary_col(out, bop, make<row_t<T>>(ls, ld), make<col_t<T>>(rs, rd)); break;
        case 3: binary_col(out, bop, make<col_t<T>>(ls, ld), make<col_t<T>>(rs, rd)); break;
        default: out.tok("ERR lay");
        }
    }

    template <typename L, typename R>
    void outer(vh::Out& out, int bop, const L& a, const R& b)
    {
        switch (bop) {
        case 0: C12_RUN(view::outer_add(a, b, nm::None), na::add.outer(a, b, nm::None), na::add.outer(a, b, nm::None, C12_CTX_OBJ)); break;
        case 1: C12_RUN(view::outer_subtract(a, b, nm::None), na::subtract.outer(a, b, nm::None), na::subtract.outer(a, b, nm::None, C12_CTX_OBJ)); break;
        case 2: C12_RUN(view::outer_multiply(a, b, nm::None), na::multiply.outer(a, b, nm::None), na::multiply.outer(a, b, nm::None, C12_CTX_OBJ)); break;
        default: out.tok("ERR bop");
        }
    }

    template <typename L, typename R>
    void outer_col(vh::Out& out, int bop, const L& a, const R& b)
    {
        switch (bop) {
        case 1: C12_RUN(view::outer_subtract(a, b, nm::None), na::subtract.outer(a, b, nm::None), na::subtract.outer(a, b, nm::None, C12_CTX_OBJ)); break;
        default: out.tok("ERR bop-col");
        }
    }

    template <typename T>
    void outer_t(vh::Args& in, vh::Out& out)
    {
        auto bop = (int)in.i();
        auto lay = (int)in.i();
        auto ls = in.vec();
        auto rs = in.vec();
        auto ld = in.dvec();
        auto rd = in.dvec();
        switch (lay) {
        case 0: outer(out, bop, make<row_t<T>>(ls, ld), make<row_t<T>>(rs, rd)); break;
        case 3: outer_col(out, bop, make<col_t<T>>(ls, ld), make<col_t<T>>(rs, rd)); break;
        default: out.tok("ERR lay");
        }
    }
} // namespace c12

// binary <dtype 4|8> <bop 0 add 1 sub 2 mul 3 div> <layout bits> lshape rshape ldata rdata
VH_OP(binary)
{
    auto dt = in.i();
    if (dt == 4) c12::binary_t<float>(in, out);
    else c12::binary_t<double>(in, out);
}
// outer <dtype> <bop> <layout 0|3> lshape rshape ldata rdata
VH_OP(outer)
{
    auto dt = in.i();
    if (dt == 4) c12::outer_t<float>(in, out);
    else c12::outer_t<double>(in, out);
}
#endif // C12_GROUP_BINARY

// =====================================================================================
#ifdef C12_GROUP_REDUCE
#include "nmtools/array/array/ufuncs/add.hpp"
#include "nmtools/array/array/ufuncs/multiply.hpp"

namespace c12
{
    // rop 0 add, 1 multiply; the remaining reduce arguments are generic
    template <typename A, typename axis_t, typename dtype_t, typename initial_t, typename keepdims_t>
    void reduce(vh::Out& out, int rop, const A& a, axis_t axis, dtype_t dtype, initial_t initial, keepdims_t keepdims)
    {
        if (rop == 0) {
            C12_RUN(view::reduce_add(a, axis, dtype, initial, keepdims),
                    na::add.reduce(a, axis, dtype, initial, keepdims),
                    na::add.reduce(a, axis, dtype, initial, keepdims, C12_CTX_OBJ));
        } else {
            C12_RUN(view::reduce_multiply(a, axis, dtype, initial, keepdims),
                    na::multiply.reduce(a, axis, dtype, initial, keepdims),
                    na::multiply.reduce(a, axis, dtype, initial, keepdims, C12_CTX_OBJ));
        }
    }

    template <typename A, typename axis_t>
    void reduce_k(vh::Out& out, int rop, const A& a, axis_t axis, int keepdims)
    {
        if (keepdims) reduce(out, rop, a, axis, nm::None, nm::None, nm::True);
        else reduce(out, rop, a, axis, nm::None, nm::None, nm::False);
    }

    template <typename T>
    void reduce_t(vh::Args& in, vh::Out& out)
    {
        auto rop = (int)in.i();
        auto lay = (int)in.i();
        auto variant = (int)in.i(); // 0 plain, 1 dtype given, 2 initial given
        auto axis = (int)in.i();    // -99 = None
        auto keepdims = (int)in.i();
        auto initial = (T)in.d();
        auto shape = in.vec();
        auto data = in.dvec();
        if (lay == 1) {
            auto a = make<col_t<T>>(shape, data);
            if (rop != 0 || variant != 0 || keepdims != 0) { out.tok("ERR col-variant"); return; }
            if (axis == -99) reduce(out, 0, a, nm::None, nm::None, nm::None, nm::False);
            else reduce(out, 0, a, axis, nm::None, nm::None, nm::False);
            return;
        }
        auto a = make<row_t<T>>(shape, data);
        if (variant == 0) {
            if (axis == -99) reduce_k(out, rop, a, nm::None, keepdims);
            else reduce_k(out, rop, a, axis, keepdims);
        } else if (variant == 1) {
            // dtype argument given explicitly (same as the element type), keepdims False
            constexpr auto dtype = nm::dtype_t<T>{};
            if (axis == -99) reduce(out, rop, a, nm::None, dtype, nm::None, nm::False);
            else reduce(out, rop, a, axis, dtype, nm::None, nm::False);
        } else {
            // initial value given, keepdims False
            if (axis == -99) reduce(out, rop, a, nm::None, nm::None, initial, nm::False);
            else reduce(out, rop, a, axis, nm::None, initial, nm::False);
        }
    }
} // namespace c12

// reduce <dtype 4|8> <rop 0 add 1 mul> <layout> <variant> <axis|-99> <keepdims 0|1> <initial> shape data
VH_OP(reduce)
{
    auto dt = in.i();
    if (dt == 4) c12::reduce_t<float>(in, out);
    else c12::reduce_t<double>(in, out);
}
#endif // C12_GROUP_REDUCE

// =====================================================================================
#ifdef C12_GROUP_MATMUL
#include "nmtools/array/array/matmul.hpp"

namespace c12
{
    template <typename T>
    void matmul_t(vh::Args& in, vh::Out& out)
    {
        auto ls = in.vec();
        auto rs = in.vec();
        auto ld = in.dvec();
        auto rd = in.dvec();
        // the SIMD matmul evaluator statically requires a column-major rhs
        auto l = make<row_t<T>>(ls, ld);
        auto r = make<col_t<T>>(rs, rd);
        if constexpr (simde_f8_excluded<T>) out.tok("UNSUP");
        else C12_RUN(view::matmul(l, r), na::matmul(l, r), na::matmul(l, r, C12_CTX_OBJ));
    }
} // namespace c12

// matmul <dtype 4|8> lshape rshape ldata rdata
VH_OP(matmul)
{
    auto dt = in.i();
    if (dt == 4) c12::matmul_t<float>(in, out);
    else c12::matmul_t<double>(in, out);
}
#endif // C12_GROUP_MATMUL

// =====================================================================================
#ifdef C12_GROUP_INT
// 32-bit integer elements ("integers where provided"): binary add/subtract/multiply, add/multiply outer and reduce
#include "nmtools/array/array/ufuncs/add.hpp"
#include "nmtools/array/array/ufuncs/multiply.hpp"
#include "nmtools/array/array/ufuncs/subtract.hpp"

namespace c12
{
    using int_arr_t = row_t<int32_t>;

    template <typename A, typename axis_t, typename keepdims_t>
    void ireduce(vh::Out& out, int rop, const A& a, axis_t axis, keepdims_t keepdims)
    {
        if (rop == 0) {
            C12_RUN(view::reduce_add(a, axis, nm::None, nm::None, keepdims),
                    na::add.reduce(a, axis, nm::None, nm::None, keepdims),
                    na::add.reduce(a, axis, nm::None, nm::None, keepdims, C12_CTX_OBJ));
        } else {
            C12_RUN(view::reduce_multiply(a, axis, nm::None, nm::None, keepdims),
                    na::multiply.reduce(a, axis, nm::None, nm::None, keepdims),
                    na::multiply.reduce(a, axis, nm::None, nm::None, keepdims, C12_CTX_OBJ));
        }
    }
} // namespace c12

// ibinary <bop 0 add 1 sub 2 mul> lshape rshape ldata rdata
VH_OP(ibinary)
{
    auto bop = (int)in.i();
    auto ls = in.vec();
    auto rs = in.vec();
    auto ld = in.dvec();
    auto rd = in.dvec();
    auto a = c12::make<c12::int_arr_t>(ls, ld);
    auto b = c12::make<c12::int_arr_t>(rs, rd);
    switch (bop) {
    case 0: C12_RUN(view::add(a, b), na::add(a, b), na::add(a, b, C12_CTX_OBJ)); break;
    case 1: C12_RUN(view::subtract(a, b), na::subtract(a, b), na::subtract(a, b, C12_CTX_OBJ)); break;
    case 2: C12_RUN(view::multiply(a, b), na::multiply(a, b), na::multiply(a, b, C12_CTX_OBJ)); break;
    default: out.tok("ERR bop");
    }
}

// iouter <bop 0 add 2 mul> lshape rshape ldata rdata
VH_OP(iouter)
{
    auto bop = (int)in.i();
    auto ls = in.vec();
    auto rs = in.vec();
    auto ld = in.dvec();
    auto rd = in.dvec();
    auto a = c12::make<c12::int_arr_t>(ls, ld);
    auto b = c12::make<c12::int_arr_t>(rs, rd);
    switch (bop) {
    case 0: C12_RUN(view::outer_add(a, b, nm::None), na::add.outer(a, b, nm::None), na::add.outer(a, b, nm::None, C12_CTX_OBJ)); break;
    case 2: C12_RUN(view::outer_multiply(a, b, nm::None), na::multiply.outer(a, b, nm::None), na::multiply.outer(a, b, nm::None, C12_CTX_OBJ)); break;
    default: out.tok("ERR bop");
    }
}

// ireduce <rop 0 add 1 mul> <axis|-99> <keepdims 0|1> shape data
VH_OP(ireduce)
{
    auto rop = (int)in.i();
    auto axis = (int)in.i();
    auto keepdims = (int)in.i();
    auto shape = in.vec();
    auto data = in.dvec();
    auto a = c12::make<c12::int_arr_t>(shape, data);
    if (axis == -99) {
        if (keepdims) c12::ireduce(out, rop, a, nm::None, nm::True);
        else c12::ireduce(out, rop, a, nm::None, nm::False);
    } else {
        if (keepdims) c12::ireduce(out, rop, a, axis, nm::True);
        else c12::ireduce(out, rop, a, axis, nm::False);
    }
}
#endif // C12_GROUP_INT

VH_OP(ctxname)
{
    out.tok(C12_CTX_NAME);
}

VH_MAIN()

#endif // VERIF_HARNESS_C12_SIMD_HPP
