// C03 (part ct): rearranging views with COMPILE-TIME axes on sources of compile-time dimension 3 and on dynamic sources
//   <op>_ct <kind 0=fixed-dim 3, 1=dynamic> <shape (3 extents)> <axis ...>
#include "ctaxis.hpp"
#include "nmtools/array/view/flip.hpp"
#include "nmtools/array/view/expand_dims.hpp"
#include "nmtools/array/view/swapaxes.hpp"
#include "nmtools/array/view/moveaxis.hpp"
#include "nmtools/array/view/transpose.hpp"

namespace view = nmtools::view;
constexpr long long BASE = 100;

template <typename F>
static void with_source(int kind, const std::vector<long long>& shape, F&& f)
{
    if (kind == 0) { auto a = vh::make_fd<int, 3>(shape, BASE); f(a); }
    else           { auto a = vh::make_arr<int>(shape, BASE);  f(a); }
}

VH_OP(flip_ct)
{
    auto kind = (int)in.i(); auto shape = in.vec(); auto axis = in.i();
    with_source(kind, shape, [&](const auto& a) {
        if (!vh::with_ct<-3, 2>(axis, [&](auto ax) { vh::emit_view_all(out, view::flip(a, ax)); })) out.tok("ERR axis");
    });
}

VH_OP(expand_dims_ct)
{
    auto kind = (int)in.i(); auto shape = in.vec(); auto axis = in.i();
    with_source(kind, shape, [&](const auto& a) {
        if (!vh::with_ct<-4, 3>(axis, [&](auto ax) { vh::emit_view_all(out, view::expand_dims(a, ax)); })) out.tok("ERR axis");
    });
}

// pairs are selected by one code: a1*10+a2 shifted, enumerated explicitly to bound the instantiations
template <typename A, typename F>
static bool with_pair(long long a1, long long a2, F&& f)
{
#define VH_PAIR(x, y) if (a1 == (x) && a2 == (y)) { f(meta::ct_v<(x)>, meta::ct_v<(y)>); return true; }
    VH_PAIR(0, 1) VH_PAIR(0, -1) VH_PAIR(-1, 0) VH_PAIR(1, 2) VH_PAIR(-2, -1) VH_PAIR(2, 0) VH_PAIR(-3, -1) VH_PAIR(-1, -3) VH_PAIR(1, -2) VH_PAIR(2, 2)
#undef VH_PAIR
    return false;
}

VH_OP(swapaxes_ct)
{
    auto kind = (int)in.i(); auto shape = in.vec(); auto a1 = in.i(); auto a2 = in.i();
    with_source(kind, shape, [&](const auto& a) {
        if (!with_pair<int>(a1, a2, [&](auto x, auto y) { vh::emit_view_all(out, view::swapaxes(a, x, y)); })) out.tok("ERR axis");
    });
}

VH_OP(moveaxis_ct)
{
    auto kind = (int)in.i(); auto shape = in.vec(); auto a1 = in.i(); auto a2 = in.i();
    with_source(kind, shape, [&](const auto& a) {
        if (!with_pair<int>(a1, a2, [&](auto x, auto y) { vh::emit_view_all(out, view::moveaxis(a, x, y)); })) out.tok("ERR axis");
    });
}

VH_OP(transpose_ct)
{
    auto kind = (int)in.i(); auto shape = in.vec(); auto p = in.vec();
    with_source(kind, shape, [&](const auto& a) {
        auto go = [&](auto t) { vh::emit_view_all(out, view::transpose(a, t)); };
        using namespace nm::literals;
        long long code = p[0] * 100 + p[1] * 10 + p[2];
        switch (code) {
        case 12:  go(nmtools_tuple{0_ct, 1_ct, 2_ct}); break;
        case 21:  go(nmtools_tuple{0_ct, 2_ct, 1_ct}); break;
        case 102: go(nmtools_tuple{1_ct, 0_ct, 2_ct}); break;
        case 120: go(nmtools_tuple{1_ct, 2_ct, 0_ct}); break;
        case 201: go(nmtools_tuple{2_ct, 0_ct, 1_ct}); break;
        case 210: go(nmtools_tuple{2_ct, 1_ct, 0_ct}); break;
        default: out.tok("ERR perm");
        }
    });
}

VH_MAIN()
