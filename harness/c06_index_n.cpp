// C06 (index level, 3 and 4 operands): variadic broadcast_shape and its nested groupings.
#include "c06_common.hpp"
#include "nmtools/array/index/broadcast_shape.hpp"
#include "nmtools/array/index/broadcast_to.hpp"

namespace ix = nmtools::index;
using c06::emit_shape_result;

// bs3 <ka> <a> <kb> <b> <kc> <c>
//   -> V bs(a,b,c)  L bs(bs(a,b),c)  R bs(a,bs(b,c))
VH_OP(bs3)
{
    auto ka = (int)in.i();
    auto a = in.vec();
    auto kb = (int)in.i();
    auto b = in.vec();
    auto kc = (int)in.i();
    auto c = in.vec();
    bool ok = c06::with_shape<2, true, false>(ka, a, [&](const auto& sa) {
        bool ok2 = c06::with_shape<2, true, false>(kb, b, [&](const auto& sb) {
            bool ok3 = c06::with_shape<2, true, false>(kc, c, [&](const auto& sc) {
                const auto v = ix::broadcast_shape(sa, sb, sc);
                out.tok("V");
                emit_shape_result(out, v);
                const auto l = ix::broadcast_shape(ix::broadcast_shape(sa, sb), sc);
                out.tok("L");
                emit_shape_result(out, l);
                const auto r = ix::broadcast_shape(sa, ix::broadcast_shape(sb, sc));
                out.tok("R");
                emit_shape_result(out, r);
            });
            if (!ok3) out.tok("ERR kind-c");
        });
        if (!ok2) out.tok("ERR kind-b");
    });
    if (!ok) out.tok("ERR kind-a");
}

// bs4 <ka> <a> <kb> <b> <kc> <c> <kd> <d>   (kinds: list / static_vector / None)
//   -> V bs(a,b,c,d)  G bs(bs(a,b),bs(c,d))
VH_OP(bs4)
{
    auto ka = (int)in.i();
    auto a = in.vec();
    auto kb = (int)in.i();
    auto b = in.vec();
    auto kc = (int)in.i();
    auto c = in.vec();
    auto kd = (int)in.i();
    auto d = in.vec();
    bool ok = c06::with_shape<0, true, false>(ka, a, [&](const auto& sa) {
        bool ok2 = c06::with_shape<0, true, false>(kb, b, [&](const auto& sb) {
            bool ok3 = c06::with_shape<0, true, false>(kc, c, [&](const auto& sc) {
                bool ok4 = c06::with_shape<0, true, false>(kd, d, [&](const auto& sd) {
                    const auto v = ix::broadcast_shape(sa, sb, sc, sd);
                    out.tok("V");
                    emit_shape_result(out, v);
                    const auto g = ix::broadcast_shape(ix::broadcast_shape(sa, sb), ix::broadcast_shape(sc, sd));
                    out.tok("G");
                    emit_shape_result(out, g);
                });
                if (!ok4) out.tok("ERR kind-d");
            });
            if (!ok3) out.tok("ERR kind-c");
        });
        if (!ok2) out.tok("ERR kind-b");
    });
    if (!ok) out.tok("ERR kind-a");
}

VH_MAIN()
