// C16: matmul / matmulv2 on operands of COMPILE-TIME dimension (fixed-dim shape array, run-time extents): the branches of
// index::matmul / shape_matmul that are only taken when the number of dimensions is a constant
//   la_matmul_fd / la_matmulv2_fd <dtype> <lhs shape> <lhs data> <rhs shape> <rhs data>     (dims 2..4 on either side)
#include "c16_common.hpp"
#include "ctaxis.hpp"
#include "nmtools/array/view/matmul.hpp"

namespace view = nmtools::view;

template <typename T, size_t DIM>
static vh::fd_t<T, DIM> to_fd(const vh::Operand& o)
{
    auto a = vh::make_fd<T, DIM>(o.shape, 0);
    for (size_t k = 0; k < o.data.size(); k++) a.data()[k] = (T)o.data[k];
    return a;
}

template <typename T, typename F>
static void with_dims(vh::Out& out, const vh::Operand& lo, const vh::Operand& ro, F&& f)
{
    auto da = lo.shape.size(), db = ro.shape.size();
#define VH_DIMS(x, y) if (da == (x) && db == (y)) { f(to_fd<T, (x)>(lo), to_fd<T, (y)>(ro)); return; }
    VH_DIMS(2, 2) VH_DIMS(3, 2) VH_DIMS(2, 3) VH_DIMS(3, 3) VH_DIMS(4, 3) VH_DIMS(3, 4) VH_DIMS(4, 2) VH_DIMS(2, 4)
#undef VH_DIMS
    out.tok("ERR dims");
}

VH_OP(la_matmul_fd)
{
    if (in.s() != "i") { out.tok("ERR bad-dtype"); return; }      // int data only (compile cost)
    auto lo = vh::read_operand(in);
    auto ro = vh::read_operand(in);
    with_dims<int>(out, lo, ro, [&](const auto& a, const auto& b) { vh::emit_la(out, view::matmul(a, b)); });
}

VH_OP(la_matmulv2_fd)
{
    if (in.s() != "i") { out.tok("ERR bad-dtype"); return; }
    auto lo = vh::read_operand(in);
    auto ro = vh::read_operand(in);
    with_dims<int>(out, lo, ro, [&](const auto& a, const auto& b) { vh::emit_la(out, view::matmulv2(a, b)); });
}

VH_MAIN()
