// C04 (part g): generators full, zeros, ones and their _like forms
#include "c04_common.hpp"
#include "nmtools/array/view/full.hpp"
#include "nmtools/array/view/zeros.hpp"
#include "nmtools/array/view/ones.hpp"
#include "nmtools/array/view/full_like.hpp"
#include "nmtools/array/view/zeros_like.hpp"
#include "nmtools/array/view/ones_like.hpp"

namespace view = nmtools::view;
using c04::BASE_A;

// full <shape list> <fill int>
VH_OP(full)
{
    auto s = in.vec();
    auto f = (int)in.i();
    auto v = view::full(vh::to_list<int>(s), f);
    c04::emit_view_all(out, v);
}

VH_OP(zeros)
{
    auto s = in.vec();
    auto v = view::zeros(vh::to_list<int>(s), nm::int32);
    c04::emit_view_all(out, v);
}

VH_OP(ones)
{
    auto s = in.vec();
    auto v = view::ones(vh::to_list<int>(s), nm::float32);
    c04::emit_view_all(out, v);
}

// full_like <shape of the prototype> <fill int>
VH_OP(full_like)
{
    auto s = in.vec();
    auto f = (int)in.i();
    auto a = vh::make_arr<int>(s, BASE_A);
    auto v = view::full_like(a, f);
    c04::emit_view_all(out, v);
}

VH_OP(zeros_like)
{
    auto s = in.vec();
    auto a = vh::make_arr<int>(s, BASE_A);
    auto v = view::zeros_like(a);
    c04::emit_view_all(out, v);
}

// ones_like with an explicit dtype (float32) different from the prototype's
VH_OP(ones_like)
{
    auto s = in.vec();
    auto a = vh::make_arr<int>(s, BASE_A);
    auto v = view::ones_like(a, nm::float32);
    c04::emit_view_all(out, v);
}

VH_MAIN()
