// C08 shared machinery: reductions / accumulations on operands whose data come from the case file.
//
// Case line (after "<id> <op>"):
//   <shape vec> <n> <data...> <axis> <keepdims 0|1> <initial> <extra dvec> <ngroups> {<k> <flat index>*k}*ngroups
//   axis: kind I -> one int; kind L -> vec; kind N -> nothing
// Output: the view through vh::emit_view_all (an either is resolved first), then
//   X <tag of the reference result type> <tag of decltype(view(i...))> <N|L|R either side> <ngroups> <reference per group>
// The references are plain loops over std::vector data with the library's scalar functors: no view, no slicing,
// no evaluator.  The groups (which source elements, in which order) are computed by the Python side.
#ifndef VERIF_HARNESS_C08_COMMON_HPP
#define VERIF_HARNESS_C08_COMMON_HPP

#include "c07_common.hpp"
#include "ctaxis.hpp"
#include "nmtools/array/view/ufunc.hpp"
#include "nmtools/array/view/ufuncs/add.hpp"
#include "nmtools/array/view/ufuncs/divide.hpp"

namespace c08
{
    using vh::Args;
    using vh::Out;
    using c07::Operand;
    using c07::rd;

    struct AxI {};  // run-time int
    struct AxL {};  // run-time list of int
    struct AxN {};  // None
    struct AxC {};  // compile-time int (meta::ct_v<k>, k in -3..2 selected by the run-time value of the case file)
    struct AxS {};  // run-time list in a BOUNDED container that is not full (static_vector<int,2>, one entry = not full, or two), applied to a
                    // source of compile-time dimension 3 (fixed-dim shape array, run-time extents)
    struct KT {};   // keepdims = True (compile-time)
    struct KF {};   // keepdims = False (compile-time)
    struct KR {};   // keepdims = run-time bool
    struct IN {};   // no initial
    struct IY {};   // initial given

    template <typename AK>
    auto read_axis(Args& in)
    {
        if constexpr (std::is_same_v<AK, AxI> || std::is_same_v<AK, AxC>) return (int)in.i();
        else if constexpr (std::is_same_v<AK, AxL>) return vh::to_list<int>(in.vec());
        else if constexpr (std::is_same_v<AK, AxS>) {
            auto v = in.vec();
            nmtools_static_vector<int, 2> sv;
            sv.resize(v.size());
            for (size_t i = 0; i < v.size(); i++) sv[i] = (int)v[i];
            return sv;
        }
        else return nm::None;
    }

    // X <Rtag> <access tag> <either side>
    template <typename R, typename V>
    void emit_any(Out& out, const V& v, const char* side = "N")
    {
        if constexpr (meta::is_either_v<V>) {
            using L_t = meta::get_either_left_t<V>;
            using R_t = meta::get_either_right_t<V>;
            if (auto p = nm::get_if<L_t>(&v)) {
                emit_any<R>(out, *p, "L");
            } else {
                auto q = nm::get_if<R_t>(&v);
                emit_any<R>(out, *q, "R");
            }
        } else if constexpr (meta::is_maybe_v<V>) {
            using inner_t = meta::get_maybe_type_t<V>;
            if constexpr (meta::is_either_v<inner_t> || meta::is_maybe_v<inner_t>) {
                // maybe<either<...>> (composite wrappers with run-time keepdims)
                if (!nm::has_value(v)) {
                    out.tok("M 1 V N E N C N O N X");
                    out.tok(vh::type_tag<R>());
                    out.tok("??");
                    out.tok(side);
                } else {
                    emit_any<R>(out, *v, side);
                }
            } else {
                c07::emit<R>(out, v);
                out.tok(side);
            }
        } else {
            c07::emit<R>(out, v);
            out.tok(side);
        }
    }

    struct Groups
    {
        std::vector<std::vector<long long>> g;
        explicit Groups(Args& in)
        {
            auto n = in.i();
            for (long long k = 0; k < n; k++) g.push_back(in.vec());
        }
    };

    struct post_id
    {
        template <typename R>
        constexpr auto operator()(R acc, size_t) const { return acc; }
    };
    struct post_mean
    {
        template <typename R>
        constexpr auto operator()(R acc, size_t n) const { return view::divide_t{}(acc, n); }
    };

    // left fold of the designated elements in the given order, accumulator of type R, scalar functor op
    template <typename R, typename T, typename OP, typename I>
    R fold(const std::vector<long long>& g, const std::vector<T>& data, OP op, bool has_init, I init)
    {
        R acc{};
        size_t start = 0;
        if (has_init) acc = static_cast<R>(init);
        else { acc = static_cast<R>(data.at((size_t)g.at(0))); start = 1; }
        for (size_t k = start; k < g.size(); k++) acc = static_cast<R>(op(acc, data.at((size_t)g[k])));
        return acc;
    }

    template <typename R, typename POST>
    using post_result_t = decltype(std::declval<POST>()(std::declval<R>(), size_t{}));

    template <typename R, typename T, typename OP, typename I, typename POST>
    void emit_folds(Out& out, const Groups& gr, const std::vector<T>& data, OP op, bool has_init, I init, POST post)
    {
        out.i((long long)gr.g.size());
        for (auto& g : gr.g) out.num(post(fold<R>(g, data, op, has_init, init), g.size()));
    }

    // T element type, R fold type, I type of the initial value; vf(a, axis, initial-or-None, keepdims)
    template <typename T, typename R, typename I, typename AK, typename KK, typename IK, typename VF, typename OP, typename POST = post_id>
    void reduce_case(Args& in, Out& out, VF vf, OP op, POST post = POST{})
    {
        Operand<T> oa(in, 'A');
        auto axis = read_axis<AK>(in);
        bool kd = in.i() != 0;
        I init = rd<I>(in);
        Groups gr(in);
        using F = post_result_t<R, POST>;
        auto run = [&](const auto& a, const auto& axis_) {
            auto call = [&](auto keep) {
                if constexpr (std::is_same_v<IK, IY>) return vf(a, axis_, init, keep);
                else return vf(a, axis_, nm::None, keep);
            };
            if constexpr (std::is_same_v<KK, KT>) { auto v = call(nm::True); emit_any<F>(out, v); }
            else if constexpr (std::is_same_v<KK, KF>) { auto v = call(nm::False); emit_any<F>(out, v); }
            else { auto v = call(kd); emit_any<F>(out, v); }
        };
        if constexpr (std::is_same_v<AK, AxC>) {
            auto a = oa.arr();
            if (!vh::with_ct<-3, 2>(axis, [&](auto ax) { run(a, ax); })) { out.tok("ERR axis"); return; }
        } else if constexpr (std::is_same_v<AK, AxS>) {
            if (oa.shape.size() != 3) { out.tok("ERR dim"); return; }
            auto a = vh::make_fd<T, 3>(oa.shape, 0);
            for (size_t k = 0; k < oa.data.size(); k++) a.data()[k] = oa.data[k];
            run(a, axis);
        } else {
            auto a = oa.arr();
            run(a, axis);
        }
        emit_folds<R>(out, gr, oa.data, op, std::is_same_v<IK, IY>, init, post);
    }

    // accumulate-like: vf(a, axis); groups = for every output element its running prefix
    template <typename T, typename R, typename VF, typename OP>
    void accumulate_case(Args& in, Out& out, VF vf, OP op)
    {
        Operand<T> oa(in, 'A');
        int axis = (int)in.i();
        Groups gr(in);
        auto a = oa.arr();
        auto v = vf(a, axis);
        emit_any<R>(out, v);
        emit_folds<R>(out, gr, oa.data, op, false, 0, post_id{});
    }

    // the same with a compile-time axis
    template <typename T, typename R, typename VF, typename OP>
    void accumulate_case_ct(Args& in, Out& out, VF vf, OP op)
    {
        Operand<T> oa(in, 'A');
        int axis = (int)in.i();
        Groups gr(in);
        auto a = oa.arr();
        if (!vh::with_ct<-3, 2>(axis, [&](auto ax) { auto v = vf(a, ax); emit_any<R>(out, v); })) { out.tok("ERR axis"); return; }
        emit_folds<R>(out, gr, oa.data, op, false, 0, post_id{});
    }

    // call with no axis argument at all (defaults of the wrapper): vf(a)
    template <typename T, typename R, typename VF, typename OP>
    void default_case(Args& in, Out& out, VF vf, OP op)
    {
        Operand<T> oa(in, 'A');
        Groups gr(in);
        auto a = oa.arr();
        auto v = vf(a);
        emit_any<R>(out, v);
        emit_folds<R>(out, gr, oa.data, op, false, 0, post_id{});
    }

    // order-exposing op: f(acc,x) = acc*31 + x  (unsigned 64-bit, wraps)
    struct tag_op
    {
        template <typename T, typename U>
        constexpr auto operator()(const T& t, const U& u) const
        {
            return (unsigned long long)t * 31ull + (unsigned long long)u;
        }
    };

    template <typename DT, typename Fallback>
    using dtype_or_t = std::conditional_t<nm::is_none_v<DT>, Fallback, nm::get_dtype_t<DT>>;

    // element type the library promises for mean without dtype: integers -> float32
    template <typename T>
    using mean_default_t = std::conditional_t<std::is_integral_v<T>, float, T>;
} // namespace c08

#endif
