// C19: history driver for utl::tuple and utl::tuplev2 (vs std::tuple), three elements
#include "c19_elem.hpp"

namespace
{
    using c19::Counted;
    using c19::Elem;
    using c19::model_t;
    using c19::Step;
    using c19::VecInt;
    using c19::vid;

    template <template <typename...> typename Tpl, typename A, typename B, typename C, bool Convertible>
    struct TupleM
    {
        using L = Tpl<A, B, C>;
        using M = std::tuple<model_t<A>, model_t<B>, model_t<C>>;
        static constexpr int NS = 2;
        static constexpr bool refine_leak0 = false;
        c19::Slot<L> lib[2];
        std::optional<M> mod[2];
        int fill = 0, kstep = 0;

        void finish()
        {
            for (int s = 0; s < NS; s++) {
                lib[s].kill();
                mod[s].reset();
            }
        }
        void begin(int f)
        {
            finish();
            fill = f;
        }
        long refused() const { return 0; }
        const char* special() { return nullptr; }
        const char* first_name() const { return "size"; }
        void extra(std::string&) {}
        long block_bound() const
        {
            long per = Elem<A>::vectors + Elem<B>::vectors + Elem<C>::vectors;
            return per * ((long)mod[0].has_value() + (long)mod[1].has_value());
        }
        void state(bool islib, int s, std::string& out)
        {
            if (!mod[s]) {
                out += " -";
                return;
            }
            if (!islib) {
                const M& m = *mod[s];
                c19::put(out, 3);
                Elem<A>::print(out, std::get<0>(m));
                Elem<B>::print(out, std::get<1>(m));
                Elem<C>::print(out, std::get<2>(m));
                return;
            }
            L& l = *lib[s];
            const L& c = l;
            c19::put(out, (long long)utl::tuple_size<L>::value);
            switch (kstep % 3) {
            case 0:
                Elem<A>::print(out, utl::get<0>(c));
                Elem<B>::print(out, utl::get<1>(c));
                Elem<C>::print(out, utl::get<2>(c));
                break;
            case 1:
                Elem<A>::print(out, nm::get<0>(c));
                Elem<B>::print(out, nm::get<1>(c));
                Elem<C>::print(out, nm::get<2>(c));
                break;
            default:
                Elem<A>::print(out, utl::get<0>(l));
                Elem<B>::print(out, nm::get<1>(l));
                Elem<C>::print(out, utl::get<2>(l));
                break;
            }
        }
        const char* apply(const Step& st, int k)
        {
            kstep = k;
            const int x = st.x, a = st.a;
            switch (st.op) {
            case 0:
                if (!mod[x]) return "skip";
                lib[x].kill();
                mod[x].reset();
                return "destroy";
            case 1:
                if (mod[x]) return nullptr;
                lib[x].make(fill, [&](void* p) { new (p) L(); });
                mod[x].emplace();
                return "ctor_default";
            case 2: {
                if (mod[x]) return nullptr;
                {
                    A v0 = Elem<A>::lib(vid(k, 0));
                    B v1 = Elem<B>::lib(vid(k, 1));
                    C v2 = Elem<C>::lib(vid(k, 2));
                    lib[x].make(fill, [&](void* p) { new (p) L(v0, v1, v2); });
                }
                {
                    auto v0 = Elem<A>::mod(vid(k, 0));
                    auto v1 = Elem<B>::mod(vid(k, 1));
                    auto v2 = Elem<C>::mod(vid(k, 2));
                    mod[x].emplace(v0, v1, v2);
                }
                return "ctor_values";
            }
            case 3: {  // converting construction from a tuple of ints
                if constexpr (Convertible) {
                    if (mod[x]) return nullptr;
                    Tpl<int, int, int> src((int)vid(k, 0), (int)vid(k, 1), (int)vid(k, 2));
                    lib[x].make(fill, [&](void* p) { new (p) L(src); });
                    std::tuple<int, int, int> msrc((int)vid(k, 0), (int)vid(k, 1), (int)vid(k, 2));
                    mod[x].emplace(msrc);
                    return "ctor_convert";
                } else return "skip";
            }
            case 4:
                if (a == x || a < 0 || a >= NS || !mod[a]) return "skip";
                if (mod[x]) return nullptr;
                lib[x].make(fill, [&](void* p) { new (p) L(*lib[a]); });
                mod[x].emplace(*mod[a]);
                return "copy_ctor";
            case 5: {
                if (a < 0 || a >= NS || !mod[a] || !mod[x]) return "skip";
                L& dst = *lib[x];
                const L& src = *lib[a];
                dst = src;
                M tmp = *mod[a];
                *mod[x] = tmp;
                return a == x ? "assign_self" : "assign_other";
            }
            case 8: {
                if (!mod[x] || a < 0) return "skip";
                L& l = *lib[x];
                switch (a % 3) {
                case 0:
                    Elem<A>::mutate(utl::get<0>(l), vid(k, 0));
                    Elem<A>::mutate(std::get<0>(*mod[x]), vid(k, 0));
                    return "write_0";
                case 1:
                    Elem<B>::mutate(nm::get<1>(l), vid(k, 0));
                    Elem<B>::mutate(std::get<1>(*mod[x]), vid(k, 0));
                    return "write_1";
                default:
                    Elem<C>::mutate(utl::get<2>(l), vid(k, 0));
                    Elem<C>::mutate(std::get<2>(*mod[x]), vid(k, 0));
                    return "write_2";
                }
            }
            default: return "skip";
            }
        }
    };

    template <typename M>
    void go(vh::Args& in, vh::Out& out, int en)
    {
        if (en == 1) c19::op_enum<M>(in, out);
        else if (en == 2) c19::op_histq<M>(in, out);
        else c19::op_hist<M>(in, out);
    }
    void dispatch(vh::Args& in, vh::Out& out, int en)
    {
        auto kind = in.i();
        auto et = in.i();
        if (kind == 0 && et == 0) go<TupleM<utl::tuple, int, double, int, true>>(in, out, en);
        else if (kind == 0 && et == 1) go<TupleM<utl::tuple, Counted, int, VecInt, false>>(in, out, en);
        else if (kind == 1 && et == 0) go<TupleM<utl::tuplev2, int, double, int, true>>(in, out, en);
        else if (kind == 1 && et == 1) go<TupleM<utl::tuplev2, Counted, int, VecInt, false>>(in, out, en);
        else out.tok("ERR kind");
    }
} // namespace

// hist <kind 0=tuple 1=tuplev2> <etype 0=(int,double,int) 1=(counted,int,vector<int>)> <fill> <nsteps> (op x a)*
VH_OP(hist) { dispatch(in, out, 0); }
VH_OP(histq) { dispatch(in, out, 2); }
VH_OP(enum) { dispatch(in, out, 1); }

VH_MAIN()
