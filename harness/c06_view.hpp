// C06 helpers for the view-level harnesses: operands of a requested kind with unique labels.
#ifndef VERIF_HARNESS_C06_VIEW_HPP
#define VERIF_HARNESS_C06_VIEW_HPP

#include "viewcommon.hpp"
#include "c06_common.hpp"

namespace c06
{
    // operand kinds: 0 fully dynamic ndarray<int>, 1 hybrid (static_vector buffer + static_vector shape), 2 scalar int
    constexpr int A_DYN = 0, A_HYB = 1, A_NUM = 2;
    using hyb_t = na::ndarray_t<nmtools_static_vector<int, 700>, nmtools_static_vector<size_t, 6>>;

    template <bool WITH_HYB, bool WITH_NUM, typename F>
    bool with_operand(int kind, const std::vector<long long>& shape, long long base, F&& f)
    {
        if (kind == A_DYN) {
            if (shape.size() == 0) return false;
            const auto a = vh::make_arr<int>(shape, base, 1);
            f(a);
            return true;
        } else if (kind == A_HYB) {
            if constexpr (WITH_HYB) {
                if (shape.size() == 0 || shape.size() > 6 || vh::prod(shape) > 700) return false;
                hyb_t a;
                a.resize(vh::to_shape(shape));
                auto n = vh::prod(shape);
                for (long long k = 0; k < n; k++) a.data()[k] = (int)(base + k);
                const auto& ca = a;
                f(ca);
                return true;
            } else
                return false;
        } else if (kind == A_NUM) {
            if constexpr (WITH_NUM) {
                if (shape.size() != 0) return false;
                const int v = (int)base;
                f(v);
                return true;
            } else
                return false;
        }
        return false;
    }
} // namespace c06
#endif
