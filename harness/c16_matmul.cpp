// C16: matmul (slicing implementation) and matmulv2 (tile/reshape/transpose/multiply/sum pipeline)
#include "c16_common.hpp"
#include "nmtools/array/view/matmul.hpp"

namespace view = nmtools::view;

// la_matmul <dtype> <lhs shape> <lhs data> <rhs shape> <rhs data>
VH_OP(la_matmul)
{
    vh::with_dtype(in, out, [&](auto t) {
        using T = decltype(t);
        auto lo = vh::read_operand(in);
        auto ro = vh::read_operand(in);
        auto a = vh::to_arr<T>(lo);
        auto b = vh::to_arr<T>(ro);
        auto v = view::matmul(a, b);
        vh::emit_la(out, v);
    });
}

VH_OP(la_matmulv2)
{
    vh::with_dtype(in, out, [&](auto t) {
        using T = decltype(t);
        auto lo = vh::read_operand(in);
        auto ro = vh::read_operand(in);
        auto a = vh::to_arr<T>(lo);
        auto b = vh::to_arr<T>(ro);
        auto v = view::matmulv2(a, b);
        vh::emit_la(out, v);
    });
}

VH_MAIN()
