// C03 (part a): reshape, flatten, transpose, moveaxis, swapaxes on dynamic ndarrays with unique labels
#include "viewcommon.hpp"
#include "nmtools/array/view/reshape.hpp"
#include "nmtools/array/view/flatten.hpp"
#include "nmtools/array/view/transpose.hpp"
#include "nmtools/array/view/moveaxis.hpp"
#include "nmtools/array/view/swapaxes.hpp"

namespace view = nmtools::view;
constexpr long long BASE = 100;

// reshape <shape> <newshape>
VH_OP(reshape)
{
    auto shape = in.vec();
    auto ns = in.vec();
    auto a = vh::make_arr<int>(shape, BASE);
    auto v = view::reshape(a, vh::to_list<int>(ns));
    vh::emit_view_all(out, v);
}

VH_OP(flatten)
{
    auto shape = in.vec();
    auto a = vh::make_arr<int>(shape, BASE);
    auto v = view::flatten(a);
    vh::emit_view_all(out, v);
}

// transpose <shape> <axes>  (axes explicit, as a dynamic list)
VH_OP(transpose)
{
    auto shape = in.vec();
    auto axes = in.vec();
    auto a = vh::make_arr<int>(shape, BASE);
    auto v = view::transpose(a, vh::to_list<int>(axes));
    vh::emit_view_all(out, v);
}

// transpose_default <shape>
VH_OP(transpose_default)
{
    auto shape = in.vec();
    auto a = vh::make_arr<int>(shape, BASE);
    auto v = view::transpose(a);
    vh::emit_view_all(out, v);
}

// transpose(transpose(a,p),q)
VH_OP(transpose2)
{
    auto shape = in.vec();
    auto p = in.vec();
    auto q = in.vec();
    auto a = vh::make_arr<int>(shape, BASE);
    auto v1 = view::transpose(a, vh::to_list<int>(p));
    auto v = view::transpose(v1, vh::to_list<int>(q));
    vh::emit_view_all(out, v);
}

// moveaxis <shape> <source list> <destination list>
VH_OP(moveaxis)
{
    auto shape = in.vec();
    auto src = in.vec();
    auto dst = in.vec();
    auto a = vh::make_arr<int>(shape, BASE);
    auto v = view::moveaxis(a, vh::to_list<int>(src), vh::to_list<int>(dst));
    vh::emit_view_all(out, v);
}

// moveaxis1 <shape> <source int> <destination int>
VH_OP(moveaxis1)
{
    auto shape = in.vec();
    auto src = (int)in.i();
    auto dst = (int)in.i();
    auto a = vh::make_arr<int>(shape, BASE);
    auto v = view::moveaxis(a, src, dst);
    vh::emit_view_all(out, v);
}

// swapaxes <shape> <axis1> <axis2>
VH_OP(swapaxes)
{
    auto shape = in.vec();
    auto a1 = (int)in.i();
    auto a2 = (int)in.i();
    auto a = vh::make_arr<int>(shape, BASE);
    auto v = view::swapaxes(a, a1, a2);
    vh::emit_view_all(out, v);
}

VH_MAIN()
