// C05 index level: packed multi-axis patterns of length 3..4 (see c05_index.hpp for the case format)
#include "c05_index.hpp"

// length 3
IXP(m_I_I_I, I, I, I)
IXP(m_I_I_R, I, I, R)
IXP(m_I_R_I, I, R, I)
IXP(m_R_I_I, R, I, I)
IXP(m_I_R_R, I, R, R)
IXP(m_R_I_R, R, I, R)
IXP(m_R_R_I, R, R, I)
IXP(m_R_R_R, R, R, R)
IXP(m_E_I_I, E, I, I)
IXP(m_E_I_R, E, I, R)
IXP(m_E_R_I, E, R, I)
IXP(m_E_R_R, E, R, R)
IXP(m_I_E_I, I, E, I)
IXP(m_I_E_R, I, E, R)
IXP(m_R_E_I, R, E, I)
IXP(m_R_E_R, R, E, R)
IXP(m_I_I_E, I, I, E)
IXP(m_I_R_E, I, R, E)
IXP(m_R_I_E, R, I, E)
IXP(m_R_R_E, R, R, E)
// length 3 / 4 with None-patterns and an ellipsis standing for zero axes
IXP(m_Rc_Ra_Rb, Rc, Ra, Rb)
IXP(m_Rd_I_Re, Rd, I, Re)
IXP(m_Rn_Rc_I, Rn, Rc, I)
IXP(m_R_E_R_R, R, E, R, R)
IXP(m_E_R_I_R, E, R, I, R)
IXP(m_I_R_R_E, I, R, R, E)


VH_MAIN()
