// C06 (view level): view::broadcast_to(a, shape) with the target shape given as nmtools_array<size_t,N>, N = 1..4.
#include "c06_view.hpp"
#include "nmtools/array/view/broadcast_to.hpp"

namespace view = nmtools::view;

// bto <srckind 0> <dstkind 1> <src shape> <dst shape> <base>
VH_OP(bto)
{
    auto sk = (int)in.i();
    auto dk = (int)in.i();
    auto src = in.vec();
    auto dst = in.vec();
    auto base = in.i();
    if (dk != c06::K_ARRAY) {
        out.tok("ERR kind-dst");
        return;
    }
    bool ok = c06::with_operand<false, false>(sk, src, base, [&](const auto& a) {
        bool ok2 = c06::with_shape<4, false, false>(dk, dst, [&](const auto& d) {
            const auto v = view::broadcast_to(a, d);
            vh::emit_view_all(out, v);
        });
        if (!ok2) out.tok("ERR kind-dst");
    });
    if (!ok) out.tok("ERR kind-src");
}

VH_MAIN()
