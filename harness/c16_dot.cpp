// C16: dot and inner
#include "c16_common.hpp"
#include "nmtools/array/view/dot.hpp"
#include "nmtools/array/view/inner.hpp"

namespace view = nmtools::view;

// la_dot <dtype> <lhs shape> <lhs data> <rhs shape> <rhs data>
VH_OP(la_dot)
{
    vh::with_dtype(in, out, [&](auto t) {
        using T = decltype(t);
        auto lo = vh::read_operand(in);
        auto ro = vh::read_operand(in);
        auto a = vh::to_arr<T>(lo);
        auto b = vh::to_arr<T>(ro);
        auto v = view::dot(a, b);
        vh::emit_la(out, v);
    });
}

VH_OP(la_inner)
{
    vh::with_dtype(in, out, [&](auto t) {
        using T = decltype(t);
        auto lo = vh::read_operand(in);
        auto ro = vh::read_operand(in);
        auto a = vh::to_arr<T>(lo);
        auto b = vh::to_arr<T>(ro);
        auto v = view::inner(a, b);
        vh::emit_la(out, v);
    });
}

VH_MAIN()
