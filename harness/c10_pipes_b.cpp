// C10 pipelines (b): ufuncs and reductions over views
#include "pipes.hpp"
#include "nmtools/array/view/transpose.hpp"
#include "nmtools/array/view/reshape.hpp"
#include "nmtools/array/view/ufuncs/add.hpp"
#include "nmtools/array/view/ufuncs/multiply.hpp"
#include "nmtools/array/view/ufuncs/subtract.hpp"
#include "nmtools/array/view/sum.hpp"

namespace view = nmtools::view;

// p_add_transpose <shape> <axes> <shape_b> : add(transpose(a,axes), b)
VH_OP(p_add_transpose)
{
    auto shape = in.vec(); auto axes = in.vec(); auto sb = in.vec();
    auto a = vh::make_arr<int>(shape, 100);
    auto b = vh::make_arr<int>(sb, 1000, 7);
    vh::pipe2(out,
        [&]() { return view::transpose(a, vh::to_list<int>(axes)); },
        [&](const auto& x) { return view::add(x, b); });
}

// p_sum_add <shape_a> <shape_b> <axis> : sum(add(a,b), axis)
VH_OP(p_sum_add)
{
    auto sa = in.vec(); auto sb = in.vec(); auto axis = (int)in.i();
    auto a = vh::make_arr<int>(sa, 100);
    auto b = vh::make_arr<int>(sb, 1000, 7);
    vh::pipe2(out,
        [&]() { return view::add(a, b); },
        [&](const auto& x) { return view::sum(x, axis); });
}

// p_reshape_sum <shape> <axis> <newshape> : reshape(sum(a,axis), newshape)
VH_OP(p_reshape_sum)
{
    auto shape = in.vec(); auto axis = (int)in.i(); auto ns = in.vec();
    auto a = vh::make_arr<int>(shape, 100);
    vh::pipe2(out,
        [&]() { return view::sum(a, axis); },
        [&](const auto& x) { return view::reshape(x, vh::to_list<int>(ns)); });
}

// p_mul_sumkeep <shape> <axis> : multiply(sum(a,axis,None,None,True), a)
VH_OP(p_mul_sumkeep)
{
    auto shape = in.vec(); auto axis = (int)in.i();
    auto a = vh::make_arr<int>(shape, 1);
    vh::pipe2(out,
        [&]() { return view::sum(a, axis, nm::None, nm::None, nm::True); },
        [&](const auto& x) { return view::multiply(x, a); });
}

// p3_sum_mul_t <shape> <axes> <shape_b> <axis> : sum(multiply(transpose(a,axes), b), axis)
VH_OP(p3_sum_mul_t)
{
    auto shape = in.vec(); auto axes = in.vec(); auto sb = in.vec(); auto axis = (int)in.i();
    auto a = vh::make_arr<int>(shape, 1);
    auto b = vh::make_arr<int>(sb, 3, 2);
    vh::pipe3(out,
        [&]() { return view::transpose(a, vh::to_list<int>(axes)); },
        [&](const auto& x) { return view::multiply(x, b); },
        [&](const auto& x) { return view::sum(x, axis); });
}

// p_sub_views <shape> <axes> : subtract(transpose(a,axes), transpose(b,axes))  (binary tree: two inner views)
VH_OP(p_sub_views)
{
    auto shape = in.vec(); auto axes = in.vec();
    auto a = vh::make_arr<int>(shape, 100);
    auto b = vh::make_arr<int>(shape, 5000, 3);
    const auto tb = view::transpose(b, vh::to_list<int>(axes));
    vh::pipe2(out,
        [&]() { return view::transpose(a, vh::to_list<int>(axes)); },
        [&](const auto& x) { return view::subtract(x, tb); });
}

VH_MAIN()
