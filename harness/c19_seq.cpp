// C19: history driver for the sequence containers
//   utl::vector, utl::static_vector, nmtools::small_vector (all-utl configuration and default configuration), utl::array
// Every step is applied to the utl:: object and to a std::vector based model (with a capacity ceiling for
// static_vector and per-cell definedness: utl::vector value-initialises new cells like std::vector and they are
// compared with T(); for static_vector / small_vector cells created by a sized constructor / growing resize and
// never written are unspecified (stale after shrink+grow) and are never read or compared).
#include "c19_hist.hpp"
#include "nmtools/utility/small_vector.hpp"

namespace
{
    enum Kind { VEC = 0, SVEC = 1, SMALLU = 2, SMALLD = 3, ARR = 4 };
    constexpr int CAP = 4;   // static_vector capacity, small_vector threshold
    constexpr int ARRN = 3;

    template <typename T, int K>
    struct LibType;
    template <typename T>
    struct LibType<T, VEC> { using type = utl::vector<T>; };
    template <typename T>
    struct LibType<T, SVEC> { using type = utl::static_vector<T, CAP>; };
    template <typename T>
    struct LibType<T, SMALLU> { using type = nm::small_vector<T, CAP, utl::either, utl::static_vector, utl::vector>; };
    template <typename T>
    struct LibType<T, SMALLD> { using type = nm::small_vector<T, CAP>; };
    template <typename T>
    struct LibType<T, ARR> { using type = utl::array<T, ARRN>; };

    template <typename T>
    struct MVec
    {
        std::vector<T> v;
        std::vector<char> def;
    };

    template <typename T, int K>
    struct SeqM
    {
        using L = typename LibType<T, K>::type;
        static constexpr int NS = 2;
        static constexpr bool refine_leak0 = (K == VEC);  // zero-sized blocks only come from vector(0) there
        static constexpr bool is_small = (K == SMALLU || K == SMALLD);
        c19::Slot<L> lib[2];
        std::optional<MVec<T>> mod[2];
        int fill = 0;
        int kstep = 0;
        long refused_ = 0;
        const char* special_ = nullptr;

        void finish()
        {
            for (int s = 0; s < NS; s++) {
                lib[s].kill();
                mod[s].reset();
            }
        }
        void begin(int f)
        {
            finish();
            fill = f;
            refused_ = 0;
            special_ = nullptr;
        }
        long refused() const { return refused_; }
        const char* first_name() const { return "size"; }
        const char* special()
        {
            auto s = special_;
            special_ = nullptr;
            return s;
        }
        long block_bound() const
        {
            if constexpr (K == VEC || is_small) return (long)lib[0].live + (long)lib[1].live;
            else return 0;
        }
        void extra(std::string& t)
        {
            if constexpr (is_small) {
                for (int s = 0; s < NS; s++) t += !lib[s].live ? " x" : ((*lib[s]).is_static() ? " s" : " d");
            }
        }

        T read(int s, size_t i)
        {
            L& l = *lib[s];
            const L& c = l;
            switch (kstep % 6) {
            case 0: return l.at((typename L::size_type)i);
            case 1: return l[(typename L::size_type)i];
            case 2: return l.data()[i];
            case 3: return c.at((typename L::size_type)i);
            case 4: return c[(typename L::size_type)i];
            default: return c.data()[i];
            }
        }

        void state(bool islib, int s, std::string& out)
        {
            if (!mod[s]) {
                out += " -";
                return;
            }
            auto& m = *mod[s];
            if (!islib) {
                c19::put(out, (long long)m.v.size());
                for (size_t i = 0; i < m.v.size(); i++) {
                    if (m.def[i]) c19::put(out, c19::enc(m.v[i]));
                    else out += " u";
                }
                return;
            }
            auto n = (unsigned long long)(*lib[s]).size();
            c19::put(out, (long long)n);
            if (n != m.v.size()) return;  // never read cells the model does not vouch for
            for (size_t i = 0; i < m.v.size(); i++) {
                if (m.def[i]) c19::put(out, c19::enc(read(s, i)));
                else out += " u";
            }
        }

        template <typename... A>
        void construct(int x, A&&... a)
        {
            lib[x].make(fill, [&](void* p) { new (p) L(static_cast<A&&>(a)...); });
        }

        const char* apply(const c19::Step& st, int k)
        {
            kstep = k;
            const int x = st.x;
            bool st0 = false;
            if constexpr (is_small) st0 = lib[x].live && (*lib[x]).is_static();
            const char* cls = apply_(st, k);
            if constexpr (is_small) {
                if (lib[x].live && st0 && !(*lib[x]).is_static() && (st.op == 6 || st.op == 7)) {
                    return st.op == 6 ? "push_back_cross" : "resize_cross";
                }
            }
            return cls;
        }

        const char* apply_(const c19::Step& st, int k)
        {
            using c19::val_of;
            using c19::vid;
            const int x = st.x, a = st.a;
            switch (st.op) {
            case 0:  // destroy
                if (!mod[x]) return "skip";
                lib[x].kill();
                mod[x].reset();
                return "destroy";
            case 1:  // default construct
                if (mod[x]) return nullptr;
                if constexpr (K == ARR) lib[x].make(fill, [&](void* p) { new (p) L{}; });
                else construct(x);
                mod[x] = MVec<T>{};
                if constexpr (K == ARR) {
                    mod[x]->v.assign(ARRN, T{});
                    mod[x]->def.assign(ARRN, 1);
                }
                return "ctor_default";
            case 2:  // sized construct
                if constexpr (K == ARR) return "skip";
                else {
                    if (a < 0) return "skip";
                    if (K == SVEC && a > CAP) return "skip";
                    if (mod[x]) return nullptr;
                    construct(x, (typename L::size_type)a);
                    mod[x] = MVec<T>{};
                    mod[x]->v.assign((size_t)a, T{});
                    mod[x]->def.assign((size_t)a, K == VEC ? 1 : 0);  // utl::vector value-initialises like std::vector
                    return a == 0 ? "ctor_sized0" : "ctor_sized";
                }
            case 3: {  // variadic construct with a values
                T v0 = val_of<T>(vid(k, 0)), v1 = val_of<T>(vid(k, 1)), v2 = val_of<T>(vid(k, 2)), v3 = val_of<T>(vid(k, 3)), v4 = val_of<T>(vid(k, 4));
                int n = a;
                if (K != ARR && (n < 2 || n > 5 || (n == 5 && K == SVEC))) return "skip";
                if (mod[x]) return nullptr;
                if constexpr (K == ARR) {
                    n = ARRN;
                    lib[x].make(fill, [&](void* p) { new (p) L{v0, v1, v2}; });
                } else {
                    if (n == 2) construct(x, v0, v1);
                    else if (n == 3) construct(x, v0, v1, v2);
                    else if (n == 4) construct(x, v0, v1, v2, v3);
                    else if (n == 5 && K != SVEC) {
                        if constexpr (K != SVEC) construct(x, v0, v1, v2, v3, v4);
                    } else return "skip";
                }
                mod[x] = MVec<T>{};
                T vs[5] = {v0, v1, v2, v3, v4};
                for (int j = 0; j < n; j++) {
                    mod[x]->v.push_back(vs[j]);
                    mod[x]->def.push_back(1);
                }
                return "ctor_variadic";
            }
            case 4:  // copy construct x from a
                if (a == x || a < 0 || a >= NS || !mod[a]) return "skip";
                if (mod[x]) return nullptr;
                lib[x].make(fill, [&](void* p) { new (p) L(*lib[a]); });
                mod[x] = *mod[a];
                return "copy_ctor";
            case 5:  // assign x = a
                if (a < 0 || a >= NS || !mod[a] || !mod[x]) return "skip";
                {
                    L& dst = *lib[x];
                    const L& src = *lib[a];
                    dst = src;
                    auto tmp = *mod[a];
                    *mod[x] = tmp;
                }
                return a == x ? "assign_self" : "assign_other";
            case 6: {  // push_back
                if constexpr (K == ARR) return "skip";
                else {
                    if (!mod[x]) return "skip";
                    T v = val_of<T>(vid(k, 0));
                    bool full = (K == SVEC && mod[x]->v.size() >= (size_t)CAP);
                    (*lib[x]).push_back(v);
                    if (full) {
                        refused_++;
                        return "push_back_full";
                    }
                    mod[x]->v.push_back(v);
                    mod[x]->def.push_back(1);
                    return "push_back";
                }
            }
            case 7: {  // resize
                if constexpr (K == ARR) return "skip";
                else {
                    if (!mod[x] || a < 0) return "skip";
                    auto old = mod[x]->v.size();
                    (*lib[x]).resize((typename L::size_type)a);
                    if (K == SVEC && a > CAP) {
                        refused_++;
                        return "resize_over";
                    }
                    mod[x]->v.resize((size_t)a, T{});
                    mod[x]->def.resize((size_t)a, K == VEC ? 1 : 0);
                    return (size_t)a < old ? "resize_shrink" : ((size_t)a == old ? "resize_same" : "resize_grow");
                }
            }
            case 8: {  // write
                if (!mod[x] || mod[x]->v.empty() || a < 0) return "skip";
                size_t i = (size_t)a % mod[x]->v.size();
                T v = val_of<T>(vid(k, 0));
                L& l = *lib[x];
                switch (k % 3) {
                case 0: l.at((typename L::size_type)i) = v; break;
                case 1: l[(typename L::size_type)i] = v; break;
                default: l.data()[i] = v; break;
                }
                mod[x]->v[i] = v;
                mod[x]->def[i] = 1;
                return "write";
            }
            case 9: {  // read one defined cell through the const interface
                if (!mod[x] || mod[x]->v.empty() || a < 0) return "skip";
                size_t i = (size_t)a % mod[x]->v.size();
                if (!mod[x]->def[i]) return "skip";
                const L& c = *lib[x];
                volatile T sink = c.at((typename L::size_type)i);
                (void)sink;
                return "read";
            }
            case 10: {  // static_vector only: sized construction beyond the capacity (temporary object)
                if constexpr (K == SVEC) {
                    if (a <= CAP) return "skip";
                    L tmp((typename L::size_type)a);
                    refused_++;
                    if ((long long)tmp.size() > CAP) special_ = "size_exceeds_capacity";
                    return "ctor_sized_over";
                } else return "skip";
            }
            default: return "skip";
            }
        }
    };

    template <typename M>
    void go(vh::Args& in, vh::Out& out, int en)
    {
        if (en == 1) c19::op_enum<M>(in, out);
        else if (en == 2) c19::op_histq<M>(in, out);
        else c19::op_hist<M>(in, out);
    }
    template <int K>
    void dispatch(vh::Args& in, vh::Out& out, int en)
    {
        auto et = in.i();
        if (et == 0) go<SeqM<int, K>>(in, out, en);
        else if (et == 1) go<SeqM<double, K>>(in, out, en);
        else out.tok("ERR etype");
    }
    void dispatch_kind(vh::Args& in, vh::Out& out, int en)
    {
        auto kind = in.i();
        switch (kind) {
        case VEC: dispatch<VEC>(in, out, en); break;
        case SVEC: dispatch<SVEC>(in, out, en); break;
        case SMALLU: dispatch<SMALLU>(in, out, en); break;
        case SMALLD: dispatch<SMALLD>(in, out, en); break;
        case ARR: dispatch<ARR>(in, out, en); break;
        default: out.tok("ERR kind");
        }
    }
} // namespace

// hist <kind> <etype> <fill> <nsteps> (op x a)*
VH_OP(hist) { dispatch_kind(in, out, 0); }
VH_OP(histq) { dispatch_kind(in, out, 2); }
// enum <kind> <etype> <fill> <alphabet> <prefix> <depth>
VH_OP(enum) { dispatch_kind(in, out, 1); }

VH_MAIN()
