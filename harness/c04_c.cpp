// C04 (part c): expand, sliding_window on dynamic ndarrays with unique labels
#include "c04_common.hpp"
#include "nmtools/array/view/expand.hpp"
#include "nmtools/array/view/sliding_window.hpp"

namespace view = nmtools::view;
using c04::BASE_A;

// expand <shape> <axis int> <spacing int> <fill int>
VH_OP(expand)
{
    auto shape = in.vec();
    auto ax = (int)in.i();
    auto sp = (int)in.i();
    auto fill = (int)in.i();
    auto a = vh::make_arr<int>(shape, BASE_A);
    auto v = view::expand(a, ax, sp, fill);
    vh::emit_view_all(out, v);
}

// expand_l <shape> <axis list> <spacing int> <fill int>
VH_OP(expand_l)
{
    auto shape = in.vec();
    auto ax = in.vec();
    auto sp = (int)in.i();
    auto fill = (int)in.i();
    auto a = vh::make_arr<int>(shape, BASE_A);
    auto v = view::expand(a, vh::to_list<int>(ax), sp, fill);
    vh::emit_view_all(out, v);
}

// expand_ll <shape> <axis list> <spacing list> <fill int>
VH_OP(expand_ll)
{
    auto shape = in.vec();
    auto ax = in.vec();
    auto sp = in.vec();
    auto fill = (int)in.i();
    auto a = vh::make_arr<int>(shape, BASE_A);
    auto v = view::expand(a, vh::to_list<int>(ax), vh::to_list<int>(sp), fill);
    vh::emit_view_all(out, v);
}

// sliding_window <shape> <window int>      (axis=None; 1-d sources)
VH_OP(sliding_window)
{
    auto shape = in.vec();
    auto w = (int)in.i();
    auto a = vh::make_arr<int>(shape, BASE_A);
    auto v = view::sliding_window(a, w);
    c04::emit_view_all(out, v);
}

// sliding_window_ax <shape> <window int> <axis int>
VH_OP(sliding_window_ax)
{
    auto shape = in.vec();
    auto w = (int)in.i();
    auto ax = (int)in.i();
    auto a = vh::make_arr<int>(shape, BASE_A);
    auto v = view::sliding_window(a, w, ax);
    c04::emit_view_all(out, v);
}

// sliding_window_l <shape> <window list>   (axis=None: one window extent per axis)
VH_OP(sliding_window_l)
{
    auto shape = in.vec();
    auto w = in.vec();
    auto a = vh::make_arr<int>(shape, BASE_A);
    auto v = view::sliding_window(a, vh::to_list<int>(w));
    c04::emit_view_all(out, v);
}

// sliding_window_ll <shape> <window list> <axis list>
VH_OP(sliding_window_ll)
{
    auto shape = in.vec();
    auto w = in.vec();
    auto ax = in.vec();
    auto a = vh::make_arr<int>(shape, BASE_A);
    auto v = view::sliding_window(a, vh::to_list<int>(w), vh::to_list<int>(ax));
    c04::emit_view_all(out, v);
}

VH_MAIN()
