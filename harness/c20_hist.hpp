// C20: history driver over real array objects.
//
// A translation unit defines one or more configurations with
//     C20_CONFIG(name, array_type)
// (array_type must not contain a top-level comma: use a `using` alias) and ends with VH_MAIN().
// Each configuration registers the op `h_<name>`:
//
//   <id> h_<name> <nsteps> <step> <step> ...
//
// steps (all numbers are run-time values from the case file):
//   R <n> <s0..>         cur.resize(index array)            -> T | F | V(oid) | U(nsupported by the type)
//   r <n> <s0..>         cur.resize(s0,s1,..) (variadic)    -> T | F | V | U
//   q <n> <s0..>         cur.resize(static_vector index array) -> T | F | V | U
//   F <base>             cur(i...) = base + C-order position, for every index of the reported shape -> n | X (unsafe, skipped)
//   W <n> <i0..> <v>     cur(i...) = v                      -> OK | X
//   C                    oth = new A(cur) (copy constructor); swap(cur, oth)
//   A                    oth = cur (copy assignment);         swap(cur, oth)
//   G <base>             cur = dynamic array of the same shape holding base+position (generic operator=) -> OK | U
//   M <n> <s0..> <base>  cur = cast<A>(dynamic array of that shape holding base+position)                -> OK | U
//   K <kid>              r = cast(cur, kind)                -> U | OK <dump r>
//   T <tid>              r = cast<dtype>(cur)               -> U | OK <dump r>
// after every step both objects are dumped through their public API:
//   X <dump cur> Y <dump oth> [HALT]
// HALT: the driver stops a history as soon as the current object is not self-consistent any more, a refused resize
// changed the object or an accepted resize did not produce the requested shape (what follows would only be consequences).
// dump := <etag> <dim> <shape vec> <member-shape vec> <strides vec> <size> <member-size|-1> <buflen> <safe 0/1>
//         [<n> elems via a(i,j,k) ...] [<n> elems via packed index | 0] <nraw> raw buffer cells
#ifndef VERIF_C20_HIST_HPP
#define VERIF_C20_HIST_HPP

#include "common.hpp"
#include "nmtools/array/ndarray.hpp"
#include "nmtools/array/ndarray/ndarray.hpp"
#include "nmtools/array/ndarray/fixed.hpp"
#include "nmtools/array/ndarray/hybrid.hpp"
#include "nmtools/array/ndarray/dynamic.hpp"
#include "nmtools/utility/cast.hpp"
#include <memory>
#include <stdexcept>

namespace c20
{
    enum Cls : int { OTHER = 0, ND = 1, FIXED = 2, HYBRID = 3, DYNAMIC = 4 };

    template <typename A>
    struct cls { static constexpr int value = OTHER; };
    template <typename B, typename S, template <typename...> typename St, template <typename...> typename Off>
    struct cls<na::ndarray_t<B, S, St, Off>> { static constexpr int value = ND; };
    template <typename T, size_t... S>
    struct cls<na::fixed_ndarray<T, S...>> { static constexpr int value = FIXED; };
    template <typename T, size_t M, size_t D>
    struct cls<na::hybrid_ndarray<T, M, D>> { static constexpr int value = HYBRID; };
    template <typename T, template <typename...> typename S, template <typename...> typename SS>
    struct cls<na::dynamic_ndarray<T, S, SS>> { static constexpr int value = DYNAMIC; };
    template <typename A>
    constexpr int cls_v = cls<std::remove_cv_t<std::remove_reference_t<A>>>::value;

    template <typename A>
    using elem_t = meta::get_element_type_t<std::remove_cv_t<std::remove_reference_t<A>>>;

    // ---- raw buffer ---------------------------------------------------------
    template <typename A>
    long long buflen(const A& a)
    {
        if constexpr (cls_v<A> == ND) return (long long)nm::len(a.data_);
        else if constexpr (cls_v<A> == HYBRID) return (long long)a.buffer_.size();
        else if constexpr (cls_v<A> == DYNAMIC) return (long long)a.data.size();
        else if constexpr (cls_v<A> == FIXED) return (long long)A::numel_;
        else return -1;
    }

    template <typename A>
    auto rawat(const A& a, size_t k)
    {
        using T = elem_t<A>;
        if constexpr (cls_v<A> == ND) return (T)nm::at(a.data_, k);
        else if constexpr (cls_v<A> == HYBRID) return (T)a.buffer_[k];
        else if constexpr (cls_v<A> == DYNAMIC) return (T)a.data[k];
        else if constexpr (cls_v<A> == FIXED) return (T)(reinterpret_cast<const T*>(&a.data)[k]);
        else return T{};
    }

    // ---- compile-time dimension (0 = run time) ------------------------------------
    template <typename A>
    constexpr size_t static_dim()
    {
        if constexpr (cls_v<A> == FIXED) return A::dim();
        else if constexpr (cls_v<A> == HYBRID) return A::dim();
        else if constexpr (cls_v<A> == ND) {
            // tuple / array shapes fix the dimension at compile time (0 for resizable shape containers)
            constexpr auto N = meta::len_v<typename A::shape_type>;
            if constexpr (N > 0) return (size_t)N; else return 0;
        }
        else return 0;
    }

    // element access through the variadic call operator
    template <typename A>
    decltype(auto) elem(A& a, const std::vector<long long>& ix)
    {
        constexpr auto D = static_dim<std::remove_cv_t<A>>();
        if constexpr (D == 1) {
            if (ix.size() != 1) throw std::runtime_error("arity");
            return a((size_t)ix[0]);
        } else if constexpr (D == 2) {
            if (ix.size() != 2) throw std::runtime_error("arity");
            return a((size_t)ix[0], (size_t)ix[1]);
        } else if constexpr (D == 3) {
            if (ix.size() != 3) throw std::runtime_error("arity");
            return a((size_t)ix[0], (size_t)ix[1], (size_t)ix[2]);
        } else {
            static_assert(D == 0, "unsupported static dimension");
            switch (ix.size()) {
            case 1: return a((size_t)ix[0]);
            case 2: return a((size_t)ix[0], (size_t)ix[1]);
            case 3: return a((size_t)ix[0], (size_t)ix[1], (size_t)ix[2]);
            default: throw std::runtime_error("arity");
            }
        }
    }

    struct Info
    {
        std::vector<long long> shape;
        long long dim = 0;
        long long buflen = 0;
        bool safe = false;
    };

    template <typename A>
    Info info(const A& a)
    {
        Info r;
        r.dim = (long long)nm::dim(a);
        const auto shp = nm::shape(a);
        r.shape = vh::to_vec(shp);
        r.buflen = buflen(a);
        bool ok = (r.dim == (long long)r.shape.size()) && r.dim >= 1 && r.dim <= 3;
        for (auto e : r.shape) if (e < 0 || e > 64) ok = false;
        if (ok) {
            auto n = vh::prod(r.shape);
            if (n > 4096) ok = false;
            if (r.buflen >= 0 && n > r.buflen) ok = false;
        }
        r.safe = ok;
        return r;
    }

    // readable and product(shape) agrees with the buffer
    template <typename A>
    bool consistent(const A& a)
    {
        auto inf = info(a);
        if (!inf.safe) return false;
        auto n = vh::prod(inf.shape);
        if constexpr (cls_v<A> == HYBRID) return n <= inf.buflen;
        else return n == inf.buflen;
    }

    template <typename A>
    void dump(vh::Out& out, const A& a)
    {
        using T = elem_t<A>;
        out.tok(vh::type_tag<T>());
        auto inf = info(a);
        out.i(inf.dim);
        out.vec(inf.shape);
        {
            const auto ms = a.shape();
            out.vec(vh::to_vec(ms));
        }
        {
            const auto st = a.strides();
            out.vec(vh::to_vec(st));
        }
        out.i((long long)nm::size(a));
        if constexpr (cls_v<A> == ND) out.i((long long)a.size());
        else if constexpr (cls_v<A> == DYNAMIC || cls_v<A> == FIXED) out.i((long long)a.numel());
        else out.i(-1);
        out.i(inf.buflen);
        out.i(inf.safe ? 1 : 0);
        if (inf.safe) {
            auto n = vh::prod(inf.shape);
            out.i(n);
            for (vh::Odo o(inf.shape); !o.end; o.next()) {
                std::vector<long long> ix(o.idx.begin(), o.idx.end());
                out.num((T)elem(a, ix));
            }
            if constexpr (cls_v<A> == ND) {
                out.i(n);
                for (vh::Odo o(inf.shape); !o.end; o.next()) out.num((T)nm::apply_at(a, o.idx));
            } else {
                out.i(0);
            }
        }
        auto nraw = inf.buflen < 0 ? 0 : (inf.buflen > 256 ? 256 : inf.buflen);
        out.i(nraw);
        for (long long k = 0; k < nraw; k++) out.num(rawat(a, (size_t)k));
    }

    // ---- resize ---------------------------------------------------------------
    template <typename A>
    constexpr bool has_resize()
    {
        if constexpr (cls_v<A> == ND) return !meta::is_constant_index_array_v<typename A::shape_type>;
        else if constexpr (cls_v<A> == HYBRID || cls_v<A> == DYNAMIC) return true;
        else return false;
    }

    template <typename R>
    void emit_res(vh::Out& out, const R& r) { out.tok(r ? "T" : "F"); }

    template <typename A>
    void do_resize(vh::Out& out, A& a, const std::vector<long long>& s, int form)
    {
        const bool variadic = form == 1;
        [[maybe_unused]] auto as_svec = [&]() {
            nmtools_static_vector<nm_size_t, 4> sv;
            sv.resize(s.size());
            for (size_t i = 0; i < s.size(); i++) sv[i] = (nm_size_t)s[i];
            return sv;
        };
        if (form == 2 && s.size() > 4) { out.tok("U"); return; }
        if constexpr (!has_resize<A>()) {
            out.tok("U");
        } else if constexpr (cls_v<A> == HYBRID) {
            // the dimension is a template parameter: only requests of that dimension are expressible
            constexpr auto D = A::dim();
            if (s.size() != D) { out.tok("U"); return; }
            if (variadic) {
                if constexpr (D == 1) emit_res(out, a.resize((size_t)s[0]));
                else if constexpr (D == 2) emit_res(out, a.resize((size_t)s[0], (size_t)s[1]));
                else if constexpr (D == 3) emit_res(out, a.resize((size_t)s[0], (size_t)s[1], (size_t)s[2]));
                else out.tok("U");
            } else {
                typename A::shape_type sh{};
                for (size_t i = 0; i < D; i++) sh[i] = (size_t)s[i];
                emit_res(out, a.resize(sh));
            }
        } else if constexpr (cls_v<A> == DYNAMIC) {
            if (variadic) {
                switch (s.size()) {
                case 1: a.resize((size_t)s[0]); break;
                case 2: a.resize((size_t)s[0], (size_t)s[1]); break;
                case 3: a.resize((size_t)s[0], (size_t)s[1], (size_t)s[2]); break;
                default: out.tok("U"); return;
                }
            } else if (form == 2) {
                a.resize(as_svec());
            } else {
                a.resize(vh::to_shape(s));
            }
            out.tok("V");
        } else {
            if (variadic) {
                // a tuple shape fixes the arity of the variadic form at compile time
                constexpr bool tup = meta::is_tuple_v<typename A::shape_type>;
                constexpr auto D = static_dim<A>();
                if (tup && s.size() != D) { out.tok("U"); return; }
                switch (s.size()) {
                case 1: if constexpr (!tup || D == 1) emit_res(out, a.resize((size_t)s[0])); break;
                case 2: if constexpr (!tup || D == 2) emit_res(out, a.resize((size_t)s[0], (size_t)s[1])); break;
                case 3: if constexpr (!tup || D == 3) emit_res(out, a.resize((size_t)s[0], (size_t)s[1], (size_t)s[2])); break;
                default: out.tok("U"); break;
                }
            } else if (form == 2) {
                emit_res(out, a.resize(as_svec()));
            } else {
                emit_res(out, a.resize(vh::to_shape(s)));
            }
        }
    }

    template <typename A>
    void do_fill(vh::Out& out, A& a, long long base)
    {
        using T = elem_t<A>;
        auto inf = info(a);
        if (!inf.safe) { out.tok("X"); return; }
        long long k = 0;
        for (vh::Odo o(inf.shape); !o.end; o.next(), k++) {
            std::vector<long long> ix(o.idx.begin(), o.idx.end());
            elem(a, ix) = (T)(base + k);
        }
        out.i(k);
    }

    template <typename A>
    void do_write(vh::Out& out, A& a, const std::vector<long long>& ix, double v)
    {
        using T = elem_t<A>;
        auto inf = info(a);
        bool ok = inf.safe && ix.size() == inf.shape.size();
        if (ok) for (size_t i = 0; i < ix.size(); i++) if (ix[i] < 0 || ix[i] >= inf.shape[i]) ok = false;
        if (!ok) { out.tok("X"); return; }
        elem(a, ix) = (T)v;
        out.tok("OK");
    }

    // generic operator=(ndarray) of the legacy classes
    template <typename A>
    void do_generic_assign(vh::Out& out, A& a, long long base)
    {
        using T = elem_t<A>;
        if constexpr (cls_v<A> == ND) {
            out.tok("U");
        } else if constexpr (cls_v<A> == FIXED) {
            // fixed_ndarray only accepts fixed-size sources: the nested raw array of its own shape
            typename A::data_type tmp;
            auto* p = reinterpret_cast<T*>(&tmp);
            for (size_t k = 0; k < (size_t)A::numel_; k++) p[k] = (T)(base + (long long)k);
            a = std::move(tmp);
            out.tok("OK");
        } else {
            auto inf = info(a);
            if (!inf.safe) { out.tok("X"); return; }
            auto src = vh::make_arr<T>(inf.shape, base, 1);
            a = src;
            out.tok("OK");
        }
    }

    template <typename A>
    void do_cast_into(vh::Out& out, A& a, const std::vector<long long>& s, long long base)
    {
        using T = elem_t<A>;
        auto src = vh::make_arr<T>(s, base, 1);
#ifdef C20_NO_CAST_INTO
        (void)src; (void)a;
        out.tok("U");
#else
        a = nm::cast<A>(src);
        out.tok("OK");
#endif
    }

    // ---- casts --------------------------------------------------------------------
    template <typename A, typename kind_t>
    void cast_kind_one(vh::Out& out, const A& a, const kind_t& kind)
    {
        using R = meta::resolve_optype_t<nm::cast_kind_t, A, kind_t>;
        if constexpr (meta::is_fail_v<R>) {
            out.tok("U");
        } else {
            auto r = nm::cast(a, kind);
            out.tok("OK");
            dump(out, r);
        }
    }

#ifndef C20_KINDS
#define C20_KINDS 0x3ffff
#endif

    template <typename A>
    void do_cast_kind(vh::Out& out, const A& a, long long kid)
    {
        namespace k = na::kind;
        constexpr unsigned long mask = C20_KINDS;
#define C20_K(id, tag) case id: if constexpr ((mask >> id) & 1ul) cast_kind_one(out, a, tag); else out.tok("U"); break;
        switch (kid) {
            C20_K(0, k::ndarray_cs_fb)
            C20_K(1, k::ndarray_cs_hb)
            C20_K(2, k::ndarray_cs_db)
            C20_K(3, k::ndarray_fs_fb)
            C20_K(4, k::ndarray_fs_hb)
            C20_K(5, k::ndarray_fs_db)
            C20_K(6, k::ndarray_hs_fb)
            C20_K(7, k::ndarray_hs_hb)
            C20_K(8, k::ndarray_hs_db)
            C20_K(9, k::ndarray_ds_fb)
            C20_K(10, k::ndarray_ds_hb)
            C20_K(11, k::ndarray_ds_db)
            C20_K(12, k::ndarray_ls_fb)
            C20_K(13, k::ndarray_ls_hb)
            C20_K(14, k::ndarray_ls_db)
            C20_K(15, k::fixed)
            C20_K(16, k::hybrid)
            C20_K(17, k::dynamic)
        default: out.tok("U"); break;
        }
#undef C20_K
    }

    template <typename U, typename A>
    void cast_dtype_one(vh::Out& out, const A& a)
    {
        auto r = nm::cast<U>(a);
        out.tok("OK");
        dump(out, r);
    }

#ifndef C20_DTYPES
#define C20_DTYPES 0x1f
#endif

    template <typename A>
    void do_cast_dtype(vh::Out& out, const A& a, long long tid)
    {
        constexpr unsigned long mask = C20_DTYPES;
#define C20_T(id, type) case id: if constexpr ((mask >> id) & 1ul) cast_dtype_one<type>(out, a); else out.tok("U"); break;
        switch (tid) {
            C20_T(0, float)
            C20_T(1, double)
            C20_T(2, long long)
            C20_T(3, short)
            C20_T(4, unsigned char)
        default: out.tok("U"); break;
        }
#undef C20_T
    }

    template <typename A>
    void history(vh::Args& in, vh::Out& out)
    {
        auto cur = std::make_unique<A>();
        auto oth = std::make_unique<A>();
        out.tok("X"); dump(out, *cur);
        out.tok("Y"); dump(out, *oth);
        auto nsteps = in.i();
        std::string prevdump;
        {
            vh::Out tmp;
            dump(tmp, *cur);
            prevdump = tmp.buf;
        }
        for (long long s = 0; s < nsteps && !in.bad; s++) {
            std::string op = in.s();
            out.tok("|");
            out.tok(op);
            int resized = -1;   // 1 accepted, 0 refused
            std::vector<long long> reqshape;
            if (op == "R" || op == "r" || op == "q") {
                reqshape = in.vec();
                auto mark = out.buf.size();
                do_resize(out, *cur, reqshape, op == "r" ? 1 : (op == "q" ? 2 : 0));
                auto r = out.buf.substr(mark);
                if (r == " T" || r == " V") resized = 1;
                else if (r == " F") resized = 0;
            } else if (op == "F") {
                do_fill(out, *cur, in.i());
            } else if (op == "W") {
                auto ix = in.vec();
                auto v = in.d();
                do_write(out, *cur, ix, v);
            } else if (op == "C") {
                oth = std::make_unique<A>(*cur);
                std::swap(cur, oth);
                out.tok("OK");
            } else if (op == "A") {
                *oth = *cur;
                std::swap(cur, oth);
                out.tok("OK");
            } else if (op == "G") {
                do_generic_assign(out, *cur, in.i());
            } else if (op == "M") {
                auto shape = in.vec();
                auto base = in.i();
                do_cast_into(out, *cur, shape, base);
            } else if (op == "K") {
                do_cast_kind(out, *cur, in.i());
            } else if (op == "T") {
                do_cast_dtype(out, *cur, in.i());
            } else {
                out.tok("ERR");
                return;
            }
            out.tok("X");
            auto before = out.buf.size();
            dump(out, *cur);
            std::string curdump = out.buf.substr(before);
            out.tok("Y"); dump(out, *oth);
            // monitor of the driver itself: once the object is no longer self-consistent (or a refused resize has
            // changed it) further operations would only report consequences of that; stop the history here.
            bool halt = !consistent(*cur);
            if (resized == 0 && curdump != prevdump) halt = true;
            if (resized == 1 && info(*cur).shape != reqshape) halt = true;
            if (halt) { out.tok("HALT"); return; }
            prevdump = curdump;
        }
    }
} // namespace c20

#define C20_CONFIG(name, ...)                                                                     \
    static void vh_op_h_##name(vh::Args& in, vh::Out& out) { c20::history<__VA_ARGS__>(in, out); } \
    static vh::Reg vh_reg_h_##name("h_" #name, vh_op_h_##name);

#endif // VERIF_C20_HIST_HPP
