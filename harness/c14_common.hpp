// C14 helpers for the GENERATED translation units (vf/c14_gen.py):
// leaves with run-time shape/data, operand-pack / extracted-operand identity, compute-graph dump.
#ifndef VERIF_HARNESS_C14_COMMON_HPP
#define VERIF_HARNESS_C14_COMMON_HPP

#include "common.hpp"
#include "nmtools/array/functional/functor.hpp"
#include "nmtools/array/functional/combinator.hpp"

namespace fn = nmtools::functional;
namespace view = nmtools::view;
namespace cb = nmtools::combinator;

namespace c14
{
    // table of the leaf objects of one expression (addresses; for scalars also the value)
    struct Leaves
    {
        std::vector<const void*> addr;
        template <typename T>
        void add(const T& x) { addr.push_back((const void*)&x); }
        long long find(const void* p) const
        {
            for (size_t i = 0; i < addr.size(); i++) if (addr[i] == p) return (long long)i;
            return -1;
        }
    };

    // dynamic leaf: shape vec, data dvec
    template <typename T>
    vh::dyn_t<T> leaf(vh::Args& in)
    {
        auto shape = in.vec();
        auto data = in.dvec();
        return vh::make_arr_data<T>(shape, data);
    }

    // fixed-shape leaf: data only (shape is part of the type); tokens still carry the shape for symmetry
    template <typename A>
    A fixed_leaf(vh::Args& in)
    {
        using T = meta::get_element_type_t<A>;
        auto shape = in.vec();
        auto data = in.dvec();
        A a{};
        auto n = (size_t)nm::size(a);
        for (size_t k = 0; k < n && k < data.size(); k++) a.data()[k] = (T)data[k];
        return a;
    }

    template <typename T>
    T scalar(vh::Args& in) { return (T)in.d(); }

    // one element of an operand pack / extracted operands tuple / graph node payload:
    //   L <leaf index | -1>      array referenced by pointer or reference
    //   S <tag> <value>          number held by value
    //   V <emit_array>           a view / owned array held by value
    template <typename X>
    void emit_operand(vh::Out& out, const X& x, const Leaves& lv)
    {
        using U = meta::remove_cvref_t<X>;
        if constexpr (meta::is_pointer_v<U>) {
            using P = meta::remove_cvref_t<meta::remove_pointer_t<U>>;
            if constexpr (meta::is_view_v<P>) {
                out.tok("V");
                vh::emit_array(out, *x);
            } else {
                out.tok("L");
                out.i(lv.find((const void*)x));
            }
        } else if constexpr (meta::is_maybe_v<U>) {
            if (!nm::has_value(x)) { out.tok("N"); return; }
            emit_operand(out, nm::unwrap(x), lv);
        } else if constexpr (meta::is_view_v<U>) {
            out.tok("V");
            vh::emit_array(out, x);
        } else if constexpr (meta::is_num_v<U>) {
            out.tok("S");
            out.tok(vh::type_tag<U>());
            out.num(x);
        } else if constexpr (meta::is_ndarray_v<U>) {
            // held by reference (address of the original) or by value (address is not a leaf -> -1)
            out.tok("L");
            out.i(lv.find((const void*)&x));
        } else {
            out.tok("U");
        }
    }

    // "P <n> <operand>..." for a tuple of operands; a non-tuple is a pack of one
    template <typename T>
    void emit_pack(vh::Out& out, const T& t, const Leaves& lv)
    {
        using U = meta::remove_cvref_t<T>;
        if constexpr (meta::is_maybe_v<U>) {
            if (!nm::has_value(t)) { out.tok("P -1"); return; }
            emit_pack(out, nm::unwrap(t), lv);
        } else if constexpr (meta::is_tuple_v<U>) {
            constexpr auto N = meta::len_v<U>;
            out.tok("P");
            out.i((long long)N);
            meta::template_for<N>([&](auto i) {
                constexpr auto I = decltype(i)::value;
                // nm::get keeps reference-ness of tuple<const T&...> elements
                emit_operand(out, nm::get<I>(t), lv);
            });
        } else {
            out.tok("P");
            out.i(1);
            emit_operand(out, t, lv);
        }
    }

    // result of a functor call: either one array/view ("R1 <same type as ref> <array>") or an operand pack ("RP <pack>")
    template <typename ref_t, typename res_t>
    void emit_result(vh::Out& out, const ref_t&, const res_t& res, const Leaves& lv)
    {
        using U = meta::remove_cvref_t<res_t>;
        if constexpr (meta::is_either_v<U>) {
            // run-time keepdims: either<view, view>
            using lhs_t = meta::get_either_left_t<U>;
            using rhs_t = meta::get_either_right_t<U>;
            if (auto l = nm::get_if<lhs_t>(&res)) {
                out.tok("R1 2");
                vh::emit_array(out, *l);
            } else if (auto r = nm::get_if<rhs_t>(&res)) {
                out.tok("R1 2");
                vh::emit_array(out, *r);
            } else {
                out.tok("R1 2 N");
            }
        } else if constexpr (meta::is_tuple_v<U>) {
            out.tok("RP");
            emit_pack(out, res, lv);
        } else {
            out.tok("R1");
            out.i(std::is_same_v<meta::remove_cvref_t<ref_t>, U> ? 1 : 0);
            vh::emit_array(out, res);
        }
    }

    // static id of a (possibly maybe) view type
    template <typename V>
    long long view_id(const V&)
    {
        using U = meta::remove_cvref_t<V>;
        if constexpr (meta::is_maybe_v<U>) {
            using W = meta::remove_cvref_t<meta::get_maybe_type_t<U>>;
            return (long long)W::id_type::value;
        } else {
            return (long long)U::id_type::value;
        }
    }

    // "SV <k> <id> <has_value> <shape vec>"
    template <typename V>
    void emit_subview(vh::Out& out, int k, const V& v)
    {
        out.tok("SV");
        out.i(k);
        out.i(view_id(v));
        if constexpr (meta::is_maybe_v<V>) {
            if (!nm::has_value(v)) { out.i(0); out.i(0); return; }
            out.i(1);
            const auto shape = nm::shape(nm::unwrap(v));
            out.vec(vh::to_vec(shape));
        } else {
            out.i(1);
            const auto shape = nm::shape(v);
            out.vec(vh::to_vec(shape));
        }
    }

    // compute graph:
    //   G <n_nodes>  then per node:  N <id> L <leaf idx> | N <id> S <tag> <value> | N <id> F <n_operands> <operand ids...> <out shape vec> <elem tag>
    //   E <n_edges>  <from> <to> ...
    template <typename G>
    void emit_graph(vh::Out& out, const G& g, const Leaves& lv)
    {
        auto nodes = g.nodes();
        constexpr auto N = meta::len_v<decltype(nodes)>;
        out.tok("G");
        out.i((long long)N);
        meta::template_for<N>([&](auto i) {
            auto id = nm::at(nodes, i);
            using id_t = meta::remove_cvref_t<decltype(id)>;
            auto node = g.nodes(id);
            using node_t = meta::remove_cvref_pointer_t<decltype(node)>;
            out.tok("N");
            out.i((long long)id_t::value);
            constexpr bool buffered = (meta::is_ndarray_v<node_t> || meta::is_num_v<node_t>) && !meta::is_view_v<node_t>;
            if constexpr (buffered) {
                emit_operand(out, node, lv);
            } else {
                out.tok("F");
                using ops_t = meta::remove_cvref_t<decltype(node.operands)>;
                constexpr auto K = meta::len_v<ops_t>;
                out.i((long long)K);
                meta::template_for<K>([&](auto j) {
                    using oid_t = meta::remove_cvref_t<decltype(nm::at(node.operands, j))>;
                    out.i((long long)oid_t::value);
                });
                out.vec(vh::to_vec(node.output_shape));
                using elem_t = meta::type_t<meta::remove_cvref_t<decltype(node.output_element)>>;
                out.tok(vh::type_tag<elem_t>());
            }
        });
        auto edges = g.out_edges();
        constexpr auto E = meta::len_v<decltype(edges)>;
        out.tok("E");
        out.i((long long)E);
        meta::template_for<E>([&](auto i) {
            auto e = nm::at(edges, i);
            using from_t = meta::remove_cvref_t<decltype(nm::get<0>(e))>;
            using to_t = meta::remove_cvref_t<decltype(nm::get<1>(e))>;
            out.i((long long)from_t::value);
            out.i((long long)to_t::value);
        });
    }

    // extraction, part 1a: extracted operands of one view
    template <typename V>
    void emit_operands_of(vh::Out& out, const V& v, const Leaves& lv)
    {
        if constexpr (meta::is_maybe_v<V>) {
            if (!nm::has_value(v)) { out.tok("OPS NOVALUE"); return; }
            emit_operands_of(out, nm::unwrap(v), lv);
        } else {
            out.tok("OPS");
            auto ops = fn::get_function_operands(v);
            emit_pack(out, ops, lv);
        }
    }

    // extraction, part 1b: compute graph of one view
    template <typename V>
    void emit_graph_of(vh::Out& out, const V& v, const Leaves& lv)
    {
        if constexpr (meta::is_maybe_v<V>) {
            if (!nm::has_value(v)) { out.tok("GRAPH NOVALUE"); return; }
            emit_graph_of(out, nm::unwrap(v), lv);
        } else {
            out.tok("GRAPH");
            auto g = fn::get_compute_graph(v);
            emit_graph(out, nm::unwrap(g), lv);
        }
    }

    // extraction, part 2: composition applied to the extracted operands vs the view
    template <typename V>
    void emit_apply_of(vh::Out& out, const V& v, const Leaves& lv)
    {
        if constexpr (meta::is_maybe_v<V>) {
            if (!nm::has_value(v)) { out.tok("X NOVALUE"); return; }
            emit_apply_of(out, nm::unwrap(v), lv);
        } else {
            out.tok("X");
            out.tok("VIEW");
            vh::emit_array(out, v);
            auto comp = fn::get_function_composition(v);
            auto ops = fn::get_function_operands(v);
            out.tok("ARITY");
            out.i((long long)meta::remove_cvref_t<decltype(comp)>::arity);
            out.i((long long)meta::len_v<meta::remove_cvref_t<decltype(ops)>>);
            out.tok("APPLY");
            {
                auto res = fn::apply(comp, ops);
                out.i(std::is_same_v<meta::remove_cvref_t<decltype(nm::unwrap(res))>, meta::remove_cvref_t<V>> ? 1 : 0);
                vh::emit_array(out, res);
            }
        }
    }
} // namespace c14

#endif // VERIF_HARNESS_C14_COMMON_HPP
