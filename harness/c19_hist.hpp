// C19 history driver: shared machinery.
// MUST be the first include of a c19_*.cpp file: it redirects nmtools_malloc / nmtools_free /
// nmtools_memcpy (macros of nmtools/utl/vector.hpp) to a counting allocator that tracks the live set.
#ifndef VERIF_HARNESS_C19_HIST_HPP
#define VERIF_HARNESS_C19_HIST_HPP

#include <cstdio>
#include <cstdlib>
#include <cstring>
#include <cstdint>
#include <map>
#include <unordered_set>
#include <string>
#include <string_view>
#include <vector>
#include <array>
#include <tuple>
#include <optional>
#include <variant>
#include <new>

#if __has_include(<valgrind/valgrind.h>)
#include <valgrind/valgrind.h>
#include <valgrind/memcheck.h>
#define C19_VG_ERRORS() ((long)VALGRIND_COUNT_ERRORS)
#define C19_VG_UNDEF(p, n) ((void)VALGRIND_MAKE_MEM_UNDEFINED(p, n))
#else
#define C19_VG_ERRORS() (0L)
#define C19_VG_UNDEF(p, n) ((void)0)
#endif

namespace c19
{
    // ---------------------------------------------------------------- counting allocator
    struct Blk
    {
        size_t n;
        long epoch;
        int step;
    };
    struct AllocState
    {
        std::map<uintptr_t, Blk> live;
        std::unordered_set<uintptr_t> freed;
        long epoch = 0;
        int step = -1;
        // per-history counters
        long allocs = 0, frees = 0, free_null = 0, double_free = 0, unknown_free = 0, memcpys = 0, memcpy_oob = 0;
        // totals over the process
        long t_allocs = 0, t_frees = 0;
        void begin()
        {
            epoch++;
            step = -1;
            allocs = frees = free_null = double_free = unknown_free = memcpys = memcpy_oob = 0;
        }
        long live_now() const
        {
            long k = 0;
            for (auto it = live.rbegin(); it != live.rend(); ++it)
                if (it->second.epoch == epoch) k++;
            return k;
        }
    };
    inline AllocState& A()
    {
        static AllocState* a = new AllocState;  // never destroyed: frees may come from static destructors
        return *a;
    }
    inline void* c_malloc(size_t n)
    {
        void* p = ::malloc(n);
        if (p) {
            auto& a = A();
            a.live[(uintptr_t)p] = Blk{n, a.epoch, a.step};
            a.freed.erase((uintptr_t)p);
            a.allocs++;
            a.t_allocs++;
        }
        return p;
    }
    inline void c_free(void* p)
    {
        auto& a = A();
        if (!p) { a.free_null++; return; }
        auto it = a.live.find((uintptr_t)p);
        if (it == a.live.end()) {
            // never hand a pointer we do not own to ::free: record the event instead
            if (a.freed.count((uintptr_t)p)) a.double_free++;
            else a.unknown_free++;
            return;
        }
        a.live.erase(it);
        a.freed.insert((uintptr_t)p);
        a.frees++;
        a.t_frees++;
        ::free(p);
    }
    // a range that starts inside a tracked block must end inside it
    inline bool range_ok(const void* p, size_t n)
    {
        auto& a = A();
        auto u = (uintptr_t)p;
        auto it = a.live.upper_bound(u);
        if (it == a.live.begin()) return true;
        --it;
        auto lo = it->first;
        auto hi = lo + it->second.n;
        if (u > hi || (u == hi && it->second.n > 0)) return true;  // not inside a tracked block
        return u + n <= hi;
    }
    inline void* c_memcpy(void* d, const void* s, size_t n)
    {
        auto& a = A();
        a.memcpys++;
        if (!range_ok(d, n) || !range_ok(s, n)) {
            a.memcpy_oob++;
            return d;  // refuse: keep the process alive, the event is the verdict
        }
        if (n == 0) return d;
        return ::memcpy(d, s, n);
    }
    // blocks of the current history still alive: returns (count, count of zero-sized), releases them
    inline void reclaim_leaks(long& nleak, long& nleak0, int& first_step)
    {
        auto& a = A();
        nleak = nleak0 = 0;
        first_step = -1;
        std::vector<uintptr_t> dead;
        for (auto& kv : a.live)
            if (kv.second.epoch == a.epoch) {
                nleak++;
                if (kv.second.n == 0) nleak0++;
                if (first_step < 0 || kv.second.step < first_step) first_step = kv.second.step;
                dead.push_back(kv.first);
            }
        for (auto u : dead) {
            a.live.erase(u);
            ::free((void*)u);
        }
    }
    // live blocks of this history split by size class
    inline void live_split(long& n0, long& npos)
    {
        auto& a = A();
        n0 = npos = 0;
        for (auto it = a.live.rbegin(); it != a.live.rend(); ++it)
            if (it->second.epoch == a.epoch) {
                if (it->second.n == 0) n0++;
                else npos++;
            }
    }
} // namespace c19

#define nmtools_malloc ::c19::c_malloc
#define nmtools_free ::c19::c_free
#define nmtools_memcpy ::c19::c_memcpy

#include "common.hpp"
#include "nmtools/utl.hpp"
#include "nmtools/utility/get_if.hpp"
#include "nmtools/utility/utl/get_if.hpp"
#include "nmtools/utility/utl/get.hpp"

namespace utl = nmtools::utl;

namespace c19
{
    // ---------------------------------------------------------------- counted element type
    // Side 0 = library side, side 1 = model side: separate registries, so the number of live objects
    // held by the utl:: container can be compared with the number held by the std:: container.
    struct Registry
    {
        std::unordered_set<const void*> live;
        long ctor = 0, dtor = 0;
        long assign_to_dead = 0, from_dead = 0, dtor_dead = 0, ctor_over_live = 0;
        void begin()
        {
            live.clear();
            ctor = dtor = assign_to_dead = from_dead = dtor_dead = ctor_over_live = 0;
        }
        long events() const { return assign_to_dead + from_dead + dtor_dead + ctor_over_live; }
    };
    template <int Side>
    inline Registry& R()
    {
        static Registry* r = new Registry;
        return *r;
    }
    template <int Side>
    struct CountedT
    {
        long id;
        void born()
        {
            auto& r = R<Side>();
            r.ctor++;
            if (!r.live.insert(this).second) r.ctor_over_live++;
        }
        static bool alive(const CountedT* p) { return R<Side>().live.count(p) != 0; }
        CountedT() : id(0) { born(); }
        explicit CountedT(long v) : id(v) { born(); }
        CountedT(const CountedT& o) : id(0)
        {
            if (!alive(&o)) R<Side>().from_dead++;
            else id = o.id;
            born();
        }
        CountedT& operator=(const CountedT& o)
        {
            auto& r = R<Side>();
            if (!alive(this)) r.assign_to_dead++;
            if (!alive(&o)) r.from_dead++;
            else id = o.id;
            return *this;
        }
        ~CountedT()
        {
            auto& r = R<Side>();
            r.dtor++;
            if (!r.live.erase(this)) r.dtor_dead++;
            id = -777;
        }
    };
    using Counted = CountedT<0>;
    using CountedM = CountedT<1>;

    // ---------------------------------------------------------------- raw storage for the objects under test
    // Objects live in harness-owned storage that is filled with a chosen byte before construction, so that
    // "assignment into an unconstructed member" behaves the same way in every run.
    template <typename T>
    struct Slot
    {
        alignas(alignof(T) > 16 ? alignof(T) : 16) unsigned char raw[sizeof(T)];
        bool live = false;
        T* p() { return std::launder(reinterpret_cast<T*>(raw)); }
        const T* p() const { return std::launder(reinterpret_cast<const T*>(raw)); }
        T& operator*() { return *p(); }
        void kill()
        {
            if (live) {
                p()->~T();
                live = false;
            }
        }
        template <typename F>
        void make(int fill, F&& f)
        {
            kill();
            std::memset(raw, fill, sizeof raw);
            C19_VG_UNDEF(raw, sizeof raw);  // memcheck: the bytes have a fixed value but count as uninitialised
            f((void*)raw);
            live = true;
        }
        ~Slot() { kill(); }
    };

    // ---------------------------------------------------------------- history plumbing
    struct Step
    {
        int op, x, a;
    };

    struct HistResult
    {
        bool mismatch = false;
        int mismatch_step = -1;
        std::string lib, model;  // state strings at the first mismatch
        long obj_events = 0;
    };

    // unique ids: step k, j-th value of that step
    inline long vid(int k, int j) { return 100 + 10L * k + j; }

    template <typename T>
    inline T val_of(long id)
    {
        if constexpr (std::is_floating_point_v<T>) return (T)id + (T)0.25;
        else return (T)id;
    }
    template <typename T>
    inline long long enc(const T& v)
    {
        if constexpr (std::is_floating_point_v<T>) return (long long)(v * 4);
        else return (long long)v;
    }

    inline void put(std::string& s, long long v)
    {
        char b[32];
        char* e = b + sizeof b;
        char* p = e;
        unsigned long long u = v < 0 ? 0ULL - (unsigned long long)v : (unsigned long long)v;
        do {
            *--p = (char)('0' + u % 10);
            u /= 10;
        } while (u);
        if (v < 0) *--p = '-';
        *--p = ' ';
        s.append(p, (size_t)(e - p));
    }

    // ---------------------------------------------------------------- generic history runner
    // A machine M applies every step to the utl:: object(s) AND to the std:: model and can print the
    // observable state of each slot on either side.
    //   static constexpr int NS;                     number of slots
    //   void begin(int fill);                        forget everything; fill byte for raw storage
    //   const char* apply(const Step&, int k);       returns the operation class of the step
    //   void state(bool lib, int slot, std::string&) "-" | "<first> <rest...>"
    //   const char* first_name();                    what the first token of a state is (size/has_value/alt)
    //   long block_bound();                          max number of heap blocks the live objects may own
    //   long refused();                              cumulative number of refused (over-capacity) operations
    //   void extra(std::string&);                    implementation-visible extras (not compared)
    //   void finish();                               destroy whatever is left (after an aborted history)
    //   static constexpr bool refine_leak0;          a leak of zero-sized blocks only is its own symptom class
    struct Agg
    {
        // (opclass, symptom) -> count, witness
        struct Ent
        {
            long count = 0;
            std::vector<Step> wit;
            int fill = 0;
            int at = 0;
        };
        std::map<std::pair<std::string, std::string>, Ent> ents;
        std::map<std::string, long, std::less<>> opclasses;
        std::unordered_set<size_t> states;
        long hist = 0, steps = 0, allocs = 0, frees = 0, memcpys = 0, cap_events = 0, cap_refused = 0, at_events = 0;
        long obj_ctor = 0, obj_dtor = 0, harness_err = 0, undefined_cells = 0, crossings = 0;
    };

    inline long hook_viol(int site)
    {
#ifdef NMTOOLS_VERIF
        return (long)nm::verif::state.violations[site];
#else
        return 0;
#endif
    }
    inline long hook_ev(int site)
    {
#ifdef NMTOOLS_VERIF
        return (long)nm::verif::state.events[site];
#else
        return 0;
#endif
    }

    template <typename M>
    void run_history(M& m, const std::vector<Step>& steps, int fill, std::string* trace, Agg& agg)
    {
        auto& al = A();
        al.begin();
        R<0>().begin();
        R<1>().begin();
#ifdef NMTOOLS_VERIF
        nm::verif::reset();
#endif
        long vg_prev = C19_VG_ERRORS();
        m.begin(fill);
        // scratch buffers are reused across histories (millions of them per process)
        static std::vector<Step> all;
        static std::vector<std::pair<std::string, std::string>> found;
        static std::string ls, ms, whole;
        all.assign(steps.begin(), steps.end());
        found.clear();
        for (int s = 0; s < M::NS; s++) all.push_back(Step{0, s, 0});
        long excess_prev = 0, objdiff_prev = 0, ref_prev = 0, capv_prev = 0, bnd_prev = 0;
        long ev_prev[4] = {0, 0, 0, 0};
        long al_prev[3] = {0, 0, 0};
        bool aborted = false;
        agg.hist++;
        // A constructing step on a slot that still holds an object is preceded by a synthetic destroy step
        // (apply() returns nullptr to ask for it), so that what the destructor does is attributed to "destroy".
        for (size_t idx = 0; idx < all.size();) {
            Step st = all[idx];
            const int k = (int)idx;
            al.step = k;
            const char* c = m.apply(st, k);
            if (!c) {
                st = Step{0, st.x, 0};
                c = m.apply(st, k);
                if (!c) c = "skip";
            } else {
                idx++;
            }
            const char* cls = c;
            agg.steps++;
            {
                auto it = agg.opclasses.find(std::string_view(cls));
                if (it == agg.opclasses.end()) agg.opclasses.emplace(std::string(cls), 1);
                else it->second++;
            }
            size_t nfound0 = found.size();
            if (auto sp = m.special()) found.emplace_back(cls, sp);
            // ---- observable state, both sides
            whole.clear();
            const char* sym = nullptr;
            for (int s = 0; s < M::NS; s++) {
                ls.clear();
                ms.clear();
                m.state(true, s, ls);
                m.state(false, s, ms);
                whole += ls;
                whole += " ;";
                if (ls != ms && !sym) {
                    if (s != st.x) {
                        sym = "alias";  // an operation on slot x changed what another slot holds
                    } else {
                        // first token differs -> size / has_value / alt ; else element
                        auto fl = ls.substr(0, ls.find(' ', 1));
                        auto fm = ms.substr(0, ms.find(' ', 1));
                        sym = (fl != fm) ? m.first_name() : "element";
                    }
                }
            }
            agg.states.insert(std::hash<std::string>{}(whole));
            if (sym) found.emplace_back(cls, sym);
            // ---- allocator balance at the quiescent point
            long n0, npos;
            live_split(n0, npos);
            long bound = m.block_bound();
            long excess = n0 + npos - bound;
            if (excess < 0) excess = 0;
            if (excess > excess_prev) found.emplace_back(cls, (M::refine_leak0 && npos <= bound) ? "leak_block0" : "leak");
            excess_prev = excess;
            long objL = (long)R<0>().live.size(), objM = (long)R<1>().live.size();
            long objdiff = objL - objM;
            if (objdiff > objdiff_prev) found.emplace_back(cls, "object_leak");
            else if (objdiff < objdiff_prev && objdiff < 0) found.emplace_back(cls, "object_missing");
            objdiff_prev = objdiff;
            {
                auto& r = R<0>();
                long ev[4] = {r.assign_to_dead, r.from_dead, r.dtor_dead, r.ctor_over_live};
                static const char* nm_[4] = {"assign_unconstructed", "read_dead_object", "destroy_unconstructed", "construct_over_live"};
                for (int e = 0; e < 4; e++) {
                    if (ev[e] > ev_prev[e]) found.emplace_back(cls, nm_[e]);
                    ev_prev[e] = ev[e];
                }
                if (R<1>().events()) agg.harness_err++;
            }
            {
                long av[3] = {al.double_free, al.unknown_free, al.memcpy_oob};
                static const char* nm_[3] = {"double_free", "free_unknown", "memcpy_out_of_block"};
                for (int e = 0; e < 3; e++) {
                    if (av[e] > al_prev[e]) found.emplace_back(cls, nm_[e]);
                    al_prev[e] = av[e];
                }
            }
            // ---- hooks
            long capv = hook_viol(4), ref = m.refused();
            long dv = capv - capv_prev, dr = ref - ref_prev;
            if ((dv > 0) != (dr > 0)) found.emplace_back(cls, dr > 0 ? "capacity_hook_silent" : "capacity_hook_unexpected");
            capv_prev = capv;
            ref_prev = ref;
            long bnd = hook_viol(3) + hook_viol(5) + hook_viol(9);
            if (bnd > bnd_prev) found.emplace_back(cls, "bounds_hook");
            bnd_prev = bnd;
            long vg = C19_VG_ERRORS();
            if (vg > vg_prev) found.emplace_back(cls, "memcheck");
            vg_prev = vg;
            // an assignment into an unconstructed object implies the missing construction: one symptom, not two
            {
                bool au = false;
                for (size_t f = nfound0; f < found.size(); f++) au = au || found[f].second == "assign_unconstructed";
                if (au)
                    for (size_t f = nfound0; f < found.size();) {
                        if (found[f].second == "object_missing") found.erase(found.begin() + (long)f);
                        else f++;
                    }
            }
            if (trace) {
                std::string& t = *trace;
                t += " |";
                put(t, k);
                t += ' ';
                t += cls;
                t += " ;";
                t += whole;
                put(t, n0);
                put(t, npos);
                put(t, bound);
                put(t, objL);
                put(t, objM);
                put(t, dv);
                put(t, dr);
                m.extra(t);
                for (size_t f = nfound0; f < found.size(); f++) {
                    t += " !";
                    t += found[f].second;
                }
            }
            // the first deviating step ends the history: what follows would only be consequences of it
            if (found.size() > nfound0) {
                aborted = true;
                break;
            }
        }
        if (aborted) m.finish();
        long nl, nl0;
        int fs;
        reclaim_leaks(nl, nl0, fs);
        agg.allocs += al.allocs;
        agg.frees += al.frees;
        agg.memcpys += al.memcpys;
        agg.cap_events += hook_ev(4);
        agg.cap_refused += m.refused();
        agg.at_events += hook_ev(3) + hook_ev(5);
        agg.obj_ctor += R<0>().ctor;
        agg.obj_dtor += R<0>().dtor;
        R<0>().begin();
        R<1>().begin();
        for (auto& f : found) {
            auto& e = agg.ents[f];
            if (e.count++ == 0) {
                e.wit = steps;
                e.fill = fill;
            }
        }
    }

    inline std::vector<Step> read_steps(vh::Args& in)
    {
        auto n = in.i();
        std::vector<Step> v;
        for (long long i = 0; i < n; i++) {
            Step s;
            s.op = (int)in.i();
            s.x = (int)in.i();
            s.a = (int)in.i();
            v.push_back(s);
        }
        return v;
    }

    inline void emit_agg(vh::Out& out, const Agg& agg)
    {
        out.tok("AG");
        out.i(agg.hist);
        out.i(agg.steps);
        out.i((long long)agg.states.size());
        out.i(agg.allocs);
        out.i(agg.frees);
        out.i(agg.memcpys);
        out.i(agg.cap_events);
        out.i(agg.cap_refused);
        out.i(agg.at_events);
        out.i(agg.obj_ctor);
        out.i(agg.obj_dtor);
        out.i(agg.harness_err);
        out.i(agg.undefined_cells);
        out.i(agg.crossings);
        out.tok("OC");
        out.i((long long)agg.opclasses.size());
        for (auto& kv : agg.opclasses) {
            out.tok(kv.first);
            out.i(kv.second);
        }
        out.tok("KS");
        out.i((long long)agg.ents.size());
        for (auto& kv : agg.ents) {
            out.tok(kv.first.first);
            out.tok(kv.first.second);
            out.i(kv.second.count);
            out.i(kv.second.fill);
            out.i((long long)kv.second.wit.size());
            for (auto& s : kv.second.wit) {
                out.i(s.op);
                out.i(s.x);
                out.i(s.a);
            }
        }
    }

    // hist <fill> <steps>            : one history, full trace
    template <typename M>
    void op_hist(vh::Args& in, vh::Out& out)
    {
        int fill = (int)in.i();
        auto steps = read_steps(in);
        M m;
        Agg agg;
        std::string trace;
        run_history(m, steps, fill, &trace, agg);
        out.tok("T");
        out.buf += trace;
        out.tok("|E");
        emit_agg(out, agg);
    }

    // histq <fill> <steps>           : one history, summary only (verdict of the C++ side model)
    template <typename M>
    void op_histq(vh::Args& in, vh::Out& out)
    {
        int fill = (int)in.i();
        auto steps = read_steps(in);
        M m;
        Agg agg;
        run_history(m, steps, fill, nullptr, agg);
        emit_agg(out, agg);
    }

    // enum <fill> <alphabet> <prefix> <depth> : all histories prefix + w, w in alphabet^depth; summary only
    template <typename M>
    void op_enum(vh::Args& in, vh::Out& out)
    {
        int fill = (int)in.i();
        auto alpha = read_steps(in);
        auto prefix = read_steps(in);
        int depth = (int)in.i();
        M m;
        Agg agg;
        std::vector<size_t> odo((size_t)depth, 0);
        std::vector<Step> steps;
        bool end = alpha.empty() && depth > 0;
        while (!end) {
            steps = prefix;
            for (int d = 0; d < depth; d++) steps.push_back(alpha[odo[(size_t)d]]);
            run_history(m, steps, fill, nullptr, agg);
            int d = depth - 1;
            for (; d >= 0; d--) {
                if (++odo[(size_t)d] < alpha.size()) break;
                odo[(size_t)d] = 0;
            }
            if (d < 0) end = true;
        }
        emit_agg(out, agg);
    }
} // namespace c19

#endif // VERIF_HARNESS_C19_HIST_HPP
