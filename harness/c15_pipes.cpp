// C15 pipelines: a stage that may fail (returns Nothing) feeds further views / evaluation directly (no unwrapping).
#include "viewcommon.hpp"
#include "nmtools/array/view/transpose.hpp"
#include "nmtools/array/view/reshape.hpp"
#include "nmtools/array/view/broadcast_to.hpp"
#include "nmtools/array/view/ufuncs/add.hpp"
#include "nmtools/array/view/ufuncs/multiply.hpp"
#include "nmtools/array/view/sum.hpp"

namespace view = nmtools::view;

// stage results are recorded as: S1 <has_value> S2 <has_value> [S3 <has_value>] then the final view through all routes
template <typename T>
static void hv(vh::Out& out, const char* name, const T& x)
{
    out.tok(name);
    if constexpr (meta::is_maybe_v<T>) out.i(nm::has_value(x) ? 1 : 0);
    else out.i(2);
}

// q_t_reshape <shape> <newshape> <axes> : transpose(reshape(a,newshape),axes)
VH_OP(q_t_reshape)
{
    auto shape = in.vec(); auto ns = in.vec(); auto axes = in.vec();
    auto a = vh::make_arr<int>(shape, 100);
    auto v1 = view::reshape(a, vh::to_list<int>(ns));
    auto v2 = view::transpose(v1, vh::to_list<int>(axes));
    hv(out, "S1", v1); hv(out, "S2", v2);
    vh::emit_view_all(out, v2);
}

// q_add_reshape <shape> <newshape> <shape_b> : add(reshape(a,newshape), b)
VH_OP(q_add_reshape)
{
    auto shape = in.vec(); auto ns = in.vec(); auto sb = in.vec();
    auto a = vh::make_arr<int>(shape, 100);
    auto b = vh::make_arr<int>(sb, 1000, 7);
    auto v1 = view::reshape(a, vh::to_list<int>(ns));
    auto v2 = view::add(v1, b);
    hv(out, "S1", v1); hv(out, "S2", v2);
    vh::emit_view_all(out, v2);
}

// q_sum_reshape <shape> <newshape> <axis> : sum(reshape(a,newshape), axis)
VH_OP(q_sum_reshape)
{
    auto shape = in.vec(); auto ns = in.vec(); auto axis = (int)in.i();
    auto a = vh::make_arr<int>(shape, 100);
    auto v1 = view::reshape(a, vh::to_list<int>(ns));
    auto v2 = view::sum(v1, axis);
    hv(out, "S1", v1); hv(out, "S2", v2);
    vh::emit_view_all(out, v2);
}

// q_reshape_reshape <shape> <newshape1> <newshape2> : reshape(reshape(a,ns1),ns2)
VH_OP(q_reshape_reshape)
{
    auto shape = in.vec(); auto ns1 = in.vec(); auto ns2 = in.vec();
    auto a = vh::make_arr<int>(shape, 100);
    auto v1 = view::reshape(a, vh::to_list<int>(ns1));
    auto v2 = view::reshape(v1, vh::to_list<int>(ns2));
    hv(out, "S1", v1); hv(out, "S2", v2);
    vh::emit_view_all(out, v2);
}

// q_mul_add_bcast <shape_a> <shape_b> <shape_c> : multiply(add(a,b), c)      (broadcast failure at stage 1 or 2)
VH_OP(q_mul_add_bcast)
{
    auto sa = in.vec(); auto sb = in.vec(); auto sc = in.vec();
    auto a = vh::make_arr<int>(sa, 1);
    auto b = vh::make_arr<int>(sb, 2, 3);
    auto c = vh::make_arr<int>(sc, 5, 2);
    auto v1 = view::add(a, b);
    auto v2 = view::multiply(v1, c);
    hv(out, "S1", v1); hv(out, "S2", v2);
    vh::emit_view_all(out, v2);
}

// q3_t_bcast_reshape <shape> <newshape> <target> <axes> : transpose(broadcast_to(reshape(a,newshape),target),axes)
VH_OP(q3_t_bcast_reshape)
{
    auto shape = in.vec(); auto ns = in.vec(); auto target = in.vec(); auto axes = in.vec();
    auto a = vh::make_arr<int>(shape, 100);
    auto v1 = view::reshape(a, vh::to_list<int>(ns));
    auto v2 = view::broadcast_to(v1, vh::to_list<size_t>(target));
    auto v3 = view::transpose(v2, vh::to_list<int>(axes));
    hv(out, "S1", v1); hv(out, "S2", v2); hv(out, "S3", v3);
    vh::emit_view_all(out, v3);
}

// q3_sum_add_reshape <shape> <newshape> <shape_b> <axis> : sum(add(reshape(a,newshape),b),axis)
VH_OP(q3_sum_add_reshape)
{
    auto shape = in.vec(); auto ns = in.vec(); auto sb = in.vec(); auto axis = (int)in.i();
    auto a = vh::make_arr<int>(shape, 100);
    auto b = vh::make_arr<int>(sb, 1000, 7);
    auto v1 = view::reshape(a, vh::to_list<int>(ns));
    auto v2 = view::add(v1, b);
    auto v3 = view::sum(v2, axis);
    hv(out, "S1", v1); hv(out, "S2", v2); hv(out, "S3", v3);
    vh::emit_view_all(out, v3);
}

VH_MAIN()
