// C05 index level: packed multi-axis patterns of length 1..2 (see c05_index.hpp for the case format)
#include "c05_index.hpp"

// ---- multi axis (packed): integers / ellipsis / ranges in every position ------------
// length 2
IXP(m_I_I, I, I)
IXP(m_I_R, I, R)
IXP(m_R_I, R, I)
IXP(m_R_R, R, R)
IXP(m_I_E, I, E)
IXP(m_E_I, E, I)
IXP(m_R_E, R, E)
IXP(m_E_R, E, R)
IXP(m_E, E)
// length 2 with None-patterns mixed in
IXP(m_Ra_Rb, Ra, Rb)
IXP(m_Rc_Rd, Rc, Rd)
IXP(m_Re_Rf, Re, Rf)
IXP(m_Rg_Rh, Rg, Rh)
IXP(m_Ri_Rj, Ri, Rj)
IXP(m_Rn_I, Rn, I)
IXP(m_I_Rc, I, Rc)
IXP(m_E_Rd, E, Rd)
IXP(m_Rb_E, Rb, E)

VH_MAIN()
