// view / evaluation part of the generated C09/C11 programs
#ifndef VERIF_HARNESS_C09_VIEW_HPP
#define VERIF_HARNESS_C09_VIEW_HPP

#include "c09_common.hpp"
#include "nmtools/array/eval.hpp"

namespace c9
{
    // static knowledge of a (maybe) view type alone:  M <0|1> (NUM | FS .. FD .. FZ .. BD .. BZ ..)
    template <typename U>
    void emit_view_static_(Out& out)
    {
        if constexpr (meta::is_num_v<U>) {
            out.tok("NUM");
        } else {
            emit_array_traits_static<U>(out);
        }
    }

    template <typename view_t>
    void emit_view_static(Out& out)
    {
        out.tok("M");
        out.i(meta::is_maybe_v<view_t> ? 1 : 0);
        if constexpr (meta::is_maybe_v<view_t>) {
            emit_view_static_<rmcv<meta::get_maybe_type_t<view_t>>>(out);
        } else {
            emit_view_static_<view_t>(out);
        }
    }

    // VS <static traits of the view type> V <lazy view> VT <traits> E <evaluated> ET <traits>
    // (VS first: what the type claims is known even when reading the view throws)
    template <typename view_t>
    void emit_view(Out& out, const view_t& v)
    {
        out.tok("VS");
        emit_view_static<view_t>(out);
        out.tok("V");
        emit_arr(out, v);
        out.tok("VT");
        emit_array_traits(out, v);
        emit_hook_phase(out, "HK1");
        out.tok("E");
        if constexpr (meta::is_maybe_v<view_t>) {
            if (!nm::has_value(v)) {
                out.tok("N");
                out.tok("ET");
                out.tok("M 1 RN");
                emit_hook_phase(out, "HK2");
                return;
            }
            const auto& u = nm::unwrap(v);
            const auto r = na::eval(u, nm::None, nm::None, na::RowMajorResolver);
            emit_arr(out, r);
            out.tok("ET");
            emit_array_traits(out, r);
        } else {
            const auto r = na::eval(v, nm::None, nm::None, na::RowMajorResolver);
            emit_arr(out, r);
            out.tok("ET");
            emit_array_traits(out, r);
        }
        emit_hook_phase(out, "HK2");
    }
} // namespace c9
#endif
