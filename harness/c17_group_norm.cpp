// C17: group_norm
//   nn_group_norm <dtype f|d> <input> <num_groups> <weight> <bias> <eps>
#include "c16_common.hpp"
#include "nmtools/array/view/group_norm.hpp"

namespace view = nmtools::view;

VH_OP(nn_group_norm)
{
    vh::with_fdtype(in, out, [&](auto t) {
        using T = decltype(t);
        auto xo = vh::read_foperand(in);
        auto groups = (int)in.i();
        auto wo = vh::read_foperand(in);
        auto bo = vh::read_foperand(in);
        T eps = (T)in.d();
        auto x = vh::to_arr<T>(xo);
        auto w = vh::to_arr<T>(wo);
        auto b = vh::to_arr<T>(bo);
        auto v = view::group_norm(x, groups, w, b, eps);
        vh::emit_la(out, v);
    });
}

VH_MAIN()
