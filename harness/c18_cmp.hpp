// C18: isequal / isclose as comparison oracles.  One library call per case (a mismatch may abort the process).
//
//   <id> p_<KA>_<KB> <fn> <eps> <specA> <specB>
//   spec := <flag> <dim> <shape...> <n> <data...>        (data in C order; flag: has_value / alternative / unused)
//   fn   := 0 isequal(a,b) 1 isequal(b,a) 2 isclose(a,b,eps) 3 isclose(b,a,eps) 4 isequal(a,a) 5 isclose(a,a,eps)
//           6 apply_isequal(a,b) 7 apply_isclose(a,b)  8 isclose(a,b) (default eps)
//   record: T | F | U (the API does not accept the pairing: result is not a bool) | BAD (spec does not fit the kind)
//
// operand kinds (template parameter K of with_operand):
//   index arrays  0 list<int> 1 utl::static_vector<int,8> 2 std::array<int,N> 3 tuple<int xN> 4 hybrid_ndarray<int,8,1>
//   ndarrays     10 ndarray_t<list<int>,list> 11 ndarray_t<list<double>,list> 12 ndarray_t<list<int>,array<size_t,2>>
//                13 dynamic_ndarray<int> 14 hybrid_ndarray<int,12,2> 15 fixed_ndarray<int,2,3> 16 array<array<int,3>,2>
//                17 reshape view (unwrapped) over a flat int buffer   18 dynamic_ndarray<double>
//   scalars      20 int 21 double 22 long
//   optionals    30 maybe<ndarray int> 31 maybe<int> 32 maybe<list<int>> 33 maybe<ndarray double> 34 maybe<reshape view>
//   eithers      40 either<int, ndarray int>   42 either<double, ndarray double>
//                43 either<float, double>      44 either<ndarray double, dynamic_ndarray double>   (alternatives of the same concept)
//   tuples       50 tuple<int, ndarray int>    51 tuple<ndarray int, ndarray int> (data = both halves)  52 tuple<double, ndarray double>
#ifndef VERIF_C18_CMP_HPP
#define VERIF_C18_CMP_HPP

#include "common.hpp"
#include "nmtools/array/ndarray/ndarray.hpp"
#include "nmtools/array/ndarray/fixed.hpp"
#include "nmtools/array/ndarray/hybrid.hpp"
#include "nmtools/array/ndarray/dynamic.hpp"
#include "nmtools/array/view/reshape.hpp"
#include "nmtools/utility/isequal.hpp"
#include "nmtools/utility/isclose.hpp"
#include "nmtools/utility/apply_isequal.hpp"
#include "nmtools/utility/apply_isclose.hpp"

namespace view = nmtools::view;

namespace c18
{
    struct Spec
    {
        long long flag = 0;
        std::vector<long long> shape;
        std::vector<double> data;
        long long numel() const { return vh::prod(shape); }
    };

    inline Spec read_spec(vh::Args& in)
    {
        Spec s;
        s.flag = in.i();
        s.shape = in.vec();
        s.data = in.dvec();
        return s;
    }

    template <typename T>
    auto make_nd(const Spec& s)
    {
        return vh::make_arr_data<T>(s.shape, s.data);
    }

    template <typename T, size_t... Is>
    auto make_tuple_of(const Spec& s, std::index_sequence<Is...>)
    {
        return nmtools_tuple<decltype((void)Is, T{})...>{(T)s.data[Is]...};
    }

    // calls f(operand) ; returns false if the spec does not fit the kind
    template <int K, typename F>
    bool with_operand(const Spec& s, F&& f)
    {
        const auto n = (size_t)s.numel();
        const bool full = s.data.size() >= n;
        if constexpr (K == 0) {
            if (s.shape.size() != 1 || !full) return false;
            nmtools_list<int> x;
            for (size_t i = 0; i < n; i++) x.push_back((int)s.data[i]);
            f(x);
        } else if constexpr (K == 1) {
            if (s.shape.size() != 1 || !full || n > 8) return false;
            nmtools_static_vector<int, 8> x;
            x.resize(n);
            for (size_t i = 0; i < n; i++) x[i] = (int)s.data[i];
            f(x);
        } else if constexpr (K == 2) {
            if (s.shape.size() != 1 || !full) return false;
            switch (n) {
            case 1: { nmtools_array<int, 1> x{{(int)s.data[0]}}; f(x); break; }
            case 2: { nmtools_array<int, 2> x{{(int)s.data[0], (int)s.data[1]}}; f(x); break; }
            case 3: { nmtools_array<int, 3> x{{(int)s.data[0], (int)s.data[1], (int)s.data[2]}}; f(x); break; }
            default: return false;
            }
        } else if constexpr (K == 3) {
            if (s.shape.size() != 1 || !full) return false;
            switch (n) {
            case 1: { auto x = make_tuple_of<int>(s, std::make_index_sequence<1>{}); f(x); break; }
            case 2: { auto x = make_tuple_of<int>(s, std::make_index_sequence<2>{}); f(x); break; }
            case 3: { auto x = make_tuple_of<int>(s, std::make_index_sequence<3>{}); f(x); break; }
            default: return false;
            }
        } else if constexpr (K == 4) {
            if (s.shape.size() != 1 || !full || n > 8) return false;
            na::static_vector<int, 8> x;
            x.resize(n);
            for (size_t i = 0; i < n; i++) x[i] = (int)s.data[i];
            f(x);
        } else if constexpr (K == 10) {
            if (s.shape.empty() || !full) return false;
            auto x = make_nd<int>(s);
            f(x);
        } else if constexpr (K == 11) {
            if (s.shape.empty() || !full) return false;
            auto x = make_nd<double>(s);
            f(x);
        } else if constexpr (K == 12) {
            if (s.shape.size() != 2 || !full) return false;
            na::ndarray_t<nmtools_list<int>, nmtools_array<nm_size_t, 2>> x;
            if (!x.resize((nm_size_t)s.shape[0], (nm_size_t)s.shape[1])) return false;
            for (size_t i = 0; i < n; i++) x.data()[i] = (int)s.data[i];
            f(x);
        } else if constexpr (K == 13 || K == 18) {
            if (s.shape.empty() || !full) return false;
            using T = std::conditional_t<K == 13, int, double>;
            na::dynamic_ndarray<T> x;
            x.resize(vh::to_shape(s.shape));
            for (size_t i = 0; i < n; i++) x.data[i] = (T)s.data[i];
            f(x);
        } else if constexpr (K == 14) {
            if (s.shape.size() != 2 || !full || n > 12) return false;
            na::hybrid_ndarray<int, 12, 2> x;
            if (!x.resize((size_t)s.shape[0], (size_t)s.shape[1])) return false;
            for (size_t i = 0; i < n; i++) x.data()[i] = (int)s.data[i];
            f(x);
        } else if constexpr (K == 15) {
            if (s.shape != std::vector<long long>{2, 3} || !full) return false;
            na::fixed_ndarray<int, 2, 3> x{};
            for (size_t i = 0; i < 6; i++) x(i / 3, i % 3) = (int)s.data[i];
            f(x);
        } else if constexpr (K == 16) {
            if (s.shape != std::vector<long long>{2, 3} || !full) return false;
            nmtools_array<nmtools_array<int, 3>, 2> x{};
            for (size_t i = 0; i < 6; i++) x[i / 3][i % 3] = (int)s.data[i];
            f(x);
        } else if constexpr (K == 17 || K == 34) {
            if (s.shape.empty() || !full) return false;
            Spec flat = s;
            flat.shape = {(long long)n};
            auto buf = make_nd<int>(flat);
            const auto dst = vh::to_shape(s.shape);
            auto v = view::reshape(buf, dst);
            if constexpr (K == 17) {
                if (!nm::has_value(v)) return false;
                f(nm::unwrap(v));
            } else {
                using view_t = std::remove_cv_t<std::remove_reference_t<decltype(v)>>;
                if (s.flag) f(v);
                else { view_t e{meta::Nothing}; f(e); }
            }
        } else if constexpr (K == 20) {
            if (s.data.empty()) return false;
            int x = (int)s.data[0];
            f(x);
        } else if constexpr (K == 21) {
            if (s.data.empty()) return false;
            double x = s.data[0];
            f(x);
        } else if constexpr (K == 22) {
            if (s.data.empty()) return false;
            long x = (long)s.data[0];
            f(x);
        } else if constexpr (K == 30 || K == 33) {
            using T = std::conditional_t<K == 30, int, double>;
            using arr_t = vh::dyn_t<T>;
            if (s.flag) {
                if (s.shape.empty() || !full) return false;
                nmtools_maybe<arr_t> x{make_nd<T>(s)};
                f(x);
            } else {
                nmtools_maybe<arr_t> x{meta::Nothing};
                f(x);
            }
        } else if constexpr (K == 31) {
            if (s.flag) {
                if (s.data.empty()) return false;
                nmtools_maybe<int> x{(int)s.data[0]};
                f(x);
            } else {
                nmtools_maybe<int> x{meta::Nothing};
                f(x);
            }
        } else if constexpr (K == 32) {
            if (s.flag) {
                if (s.shape.size() != 1 || !full) return false;
                nmtools_list<int> l;
                for (size_t i = 0; i < n; i++) l.push_back((int)s.data[i]);
                nmtools_maybe<nmtools_list<int>> x{l};
                f(x);
            } else {
                nmtools_maybe<nmtools_list<int>> x{meta::Nothing};
                f(x);
            }
        } else if constexpr (K == 40 || K == 42) {
            using T = std::conditional_t<K == 40, int, double>;
            using arr_t = vh::dyn_t<T>;
            using either_t = nmtools_either<T, arr_t>;
            if (s.flag == 0) {
                if (s.data.empty()) return false;
                either_t x{(T)s.data[0]};
                f(x);
            } else {
                if (s.shape.empty() || !full) return false;
                either_t x{make_nd<T>(s)};
                f(x);
            }
        } else if constexpr (K == 43) {
            using either_t = nmtools_either<float, double>;
            if (s.data.empty()) return false;
            if (s.flag == 0) { either_t x{(float)s.data[0]}; f(x); }
            else             { either_t x{(double)s.data[0]}; f(x); }
        } else if constexpr (K == 44) {
            using either_t = nmtools_either<vh::dyn_t<double>, na::dynamic_ndarray<double>>;
            if (s.shape.empty() || !full) return false;
            if (s.flag == 0) {
                either_t x{make_nd<double>(s)};
                f(x);
            } else {
                na::dynamic_ndarray<double> y;
                y.resize(vh::to_shape(s.shape));
                for (size_t i = 0; i < n; i++) y.data[i] = (double)s.data[i];
                either_t x{y};
                f(x);
            }
        } else if constexpr (K == 50 || K == 52) {
            using T = std::conditional_t<K == 50, int, double>;
            // first component = flag (a scalar), second = the array
            if (s.shape.empty() || !full) return false;
            nmtools_tuple<T, vh::dyn_t<T>> x{(T)s.flag, make_nd<T>(s)};
            f(x);
        } else if constexpr (K == 51) {
            if (s.shape.empty() || s.data.size() < 2 * n) return false;
            Spec second = s;
            second.data.assign(s.data.begin() + (long)n, s.data.end());
            nmtools_tuple<vh::dyn_t<int>, vh::dyn_t<int>> x{make_nd<int>(s), make_nd<int>(second)};
            f(x);
        } else {
            static_assert(K < 0, "unknown operand kind");
        }
        return true;
    }

    template <typename R>
    void emit_bool(vh::Out& out, const R& r)
    {
        if constexpr (std::is_same_v<R, bool>) out.tok(r ? "T" : "F");
        else out.tok("U");
    }

    // EQ: isequal is instantiated for this pair, CL: isclose, AP: apply_isequal/apply_isclose, SYM: the swapped calls
    template <int KA, int KB, bool EQ, bool CL, bool AP, bool SYM>
    void compare(vh::Args& in, vh::Out& out)
    {
        auto fn = in.i();
        auto eps = in.d();
        auto sa = read_spec(in);
        auto sb = read_spec(in);
        bool done = false;
        bool oka = with_operand<KA>(sa, [&](const auto& a) {
            bool okb = with_operand<KB>(sb, [&](const auto& b) {
                using A = std::remove_cv_t<std::remove_reference_t<decltype(a)>>;
                using Bt = std::remove_cv_t<std::remove_reference_t<decltype(b)>>;
                // two packed operands (tuple / std::array) of different static length are rejected at compile time
                constexpr bool packed_mismatch = meta::has_tuple_size_v<A> && meta::has_tuple_size_v<Bt> && (meta::len_v<A> != meta::len_v<Bt>);
                done = true;
                if constexpr (packed_mismatch) {
                    out.tok("U");
                } else {
                    switch (fn) {
                    case 0: if constexpr (EQ) emit_bool(out, nm::utils::isequal(a, b)); else out.tok("U"); break;
                    case 1: if constexpr (EQ && SYM) emit_bool(out, nm::utils::isequal(b, a)); else out.tok("U"); break;
                    case 2: if constexpr (CL) emit_bool(out, nm::utils::isclose(a, b, eps)); else out.tok("U"); break;
                    case 3: if constexpr (CL && SYM) emit_bool(out, nm::utils::isclose(b, a, eps)); else out.tok("U"); break;
                    case 4: if constexpr (EQ) emit_bool(out, nm::utils::isequal(a, a)); else out.tok("U"); break;
                    case 5: if constexpr (CL) emit_bool(out, nm::utils::isclose(a, a, eps)); else out.tok("U"); break;
                    case 6: if constexpr (EQ && AP) emit_bool(out, nm::utils::apply_isequal(a, b)); else out.tok("U"); break;
                    case 7: if constexpr (CL && AP) emit_bool(out, nm::utils::apply_isclose(a, b)); else out.tok("U"); break;
                    case 8: if constexpr (CL) emit_bool(out, nm::utils::isclose(a, b)); else out.tok("U"); break;
                    default: out.tok("ERR"); break;
                    }
                }
            });
            if (!okb) { out.tok("BAD"); done = true; }
        });
        if (!oka && !done) out.tok("BAD");
    }
} // namespace c18

#define C18_PAIR(KA, KB, EQ, CL, AP, SYM) \
    static vh::Reg vh_reg_p_##KA##_##KB("p_" #KA "_" #KB, c18::compare<KA, KB, EQ, CL, AP, SYM>);

#endif // VERIF_C18_CMP_HPP
