// C17: conv1d, every parameter a run-time integer (bias on/off)
//   nn_conv1d <dtype> <input> <weight> <hasbias> [<bias>] <stride> <padding> <dilation> <groups>
#include "c16_common.hpp"
#include "nmtools/array/view/conv1d.hpp"

namespace view = nmtools::view;

VH_OP(nn_conv1d)
{
    vh::with_dtype(in, out, [&](auto t) {
        using T = decltype(t);
        auto xo = vh::read_operand(in);
        auto wo = vh::read_operand(in);
        auto hasbias = in.i();
        vh::Operand bo;
        if (hasbias) bo = vh::read_operand(in);
        auto stride = (int)in.i();
        auto padding = (int)in.i();
        auto dilation = (int)in.i();
        auto groups = (int)in.i();
        auto x = vh::to_arr<T>(xo);
        auto w = vh::to_arr<T>(wo);
        if (hasbias) {
            auto b = vh::to_arr<T>(bo);
            auto v = view::conv1d(x, w, b, stride, padding, dilation, groups);
            vh::emit_la(out, v);
        } else {
            auto v = view::conv1d(x, w, nm::None, stride, padding, dilation, groups);
            vh::emit_la(out, v);
        }
    });
}

VH_MAIN()
