// Compile-time-constant axis arguments for the value-level harnesses: the run-time axis read from the case file selects
// one of a small range of instantiations f(meta::ct_v<k>), so that the constant-index branches of the index functions
// (resolve_optype specialisations, `if constexpr (is_constant_index_v<...>)`) are executed by the same case grids.
// Sources with a compile-time dimension (fixed-dim shape array, run-time extents) are what makes dim<true> a constant.
#ifndef VERIF_HARNESS_CTAXIS_HPP
#define VERIF_HARNESS_CTAXIS_HPP

#include "viewcommon.hpp"

namespace vh
{
    // calls f(meta::ct_v<v>) for LO <= v <= HI; false if v is outside
    template <int LO, int HI, typename F>
    bool with_ct(long long v, F&& f)
    {
        if constexpr (LO > HI) {
            return false;
        } else {
            if (v == LO) { f(meta::ct_v<LO>); return true; }
            return with_ct<LO + 1, HI>(v, f);
        }
    }

    // fixed-dimension source (dimension known at compile time, extents at run time) with unique labels
    template <typename T, size_t DIM>
    using fd_t = na::ndarray_t<nmtools_list<T>, nmtools_array<nm_size_t, DIM>>;

    template <typename T, size_t DIM>
    fd_t<T, DIM> make_fd(const std::vector<long long>& shape, long long base, long long step = 1)
    {
        fd_t<T, DIM> a;
        nmtools_array<nm_size_t, DIM> s{};
        for (size_t i = 0; i < DIM; i++) s[i] = (nm_size_t)shape[i];
        a.resize(s);
        long long n = 1;
        for (auto e : shape) n *= e;
        for (long long k = 0; k < n; k++) a.data()[k] = (T)(base + k * step);
        return a;
    }
} // namespace vh

#endif
