// C04 (part f): generators arange, linspace, eye, identity, tri
#include "c04_common.hpp"
#include "nmtools/array/view/arange.hpp"
#include "nmtools/array/view/linspace.hpp"
#include "nmtools/array/view/eye.hpp"
#include "nmtools/array/view/identity.hpp"
#include "nmtools/array/view/tri.hpp"

namespace view = nmtools::view;

// arange3 <start int> <stop int> <step int>   dtype int32
VH_OP(arange3)
{
    auto start = (int)in.i();
    auto stop = (int)in.i();
    auto step = (int)in.i();
    auto v = view::arange(start, stop, step, nm::int32);
    c04::emit_view_all(out, v);
}

VH_OP(arange2)
{
    auto start = (int)in.i();
    auto stop = (int)in.i();
    auto v = view::arange(start, stop, nm::int32);
    c04::emit_view_all(out, v);
}

VH_OP(arange1)
{
    auto stop = (int)in.i();
    auto v = view::arange(stop, nm::int32);
    c04::emit_view_all(out, v);
}

// arange3f <start int> <stop int> <step float(hex)>   dtype float32
VH_OP(arange3f)
{
    auto start = (int)in.i();
    auto stop = (int)in.i();
    auto step = (float)in.d();
    auto v = view::arange(start, stop, step, nm::float32);
    c04::emit_view_all(out, v);
}

// linspace_f <start float> <stop float> <num int> <endpoint 0|1>
VH_OP(linspace_f)
{
    auto start = (float)in.d();
    auto stop = (float)in.d();
    auto num = (int)in.i();
    auto ep = in.i() != 0;
    auto v = view::linspace(start, stop, num, ep);
    c04::emit_view_all(out, v);
}

// linspace_i <start int> <stop int> <num int> <endpoint 0|1>   (element type float)
VH_OP(linspace_i)
{
    auto start = (int)in.i();
    auto stop = (int)in.i();
    auto num = (int)in.i();
    auto ep = in.i() != 0;
    auto v = view::linspace(start, stop, num, ep);
    c04::emit_view_all(out, v);
}

// eye <N> <M> <k>
VH_OP(eye)
{
    auto n = (int)in.i();
    auto m = (int)in.i();
    auto k = (int)in.i();
    auto v = view::eye(n, m, k, nm::int32);
    c04::emit_view_all(out, v);
}

// eye_n <N> <k>     (M=None)
VH_OP(eye_n)
{
    auto n = (int)in.i();
    auto k = (int)in.i();
    auto v = view::eye(n, nm::None, k, nm::int32);
    c04::emit_view_all(out, v);
}

VH_OP(identity)
{
    auto n = (int)in.i();
    auto v = view::identity(n, nm::int32);
    c04::emit_view_all(out, v);
}

// tri <N> <M> <k>
VH_OP(tri)
{
    auto n = (int)in.i();
    auto m = (int)in.i();
    auto k = (int)in.i();
    auto v = view::tri(n, m, k, nm::int32);
    c04::emit_view_all(out, v);
}

// tri_n <N> <k>     (M=None)
VH_OP(tri_n)
{
    auto n = (int)in.i();
    auto k = (int)in.i();
    auto v = view::tri(n, nm::None, k, nm::int32);
    c04::emit_view_all(out, v);
}

VH_MAIN()
