// C06 (index level, broadcast_to): shape_broadcast_to / origin_axes / index::broadcast_to (dst index -> src index).
#include "c06_common.hpp"
#include "nmtools/array/index/broadcast_shape.hpp"
#include "nmtools/array/index/broadcast_to.hpp"

namespace ix = nmtools::index;
using c06::emit_shape_result;

// sbt <ka> <src> <kb> <dst>
//   -> T <is_maybe> <has> [ SH shape FA free_axes OA origin_axes IDX n (src multi-index for every dst index in C order) ]
VH_OP(sbt)
{
    auto ka = (int)in.i();
    auto a = in.vec();
    auto kb = (int)in.i();
    auto b = in.vec();
    bool ok = c06::with_shape<3, false, false>(ka, a, [&](const auto& sa) {
        bool ok2 = c06::with_shape<3, false, false>(kb, b, [&](const auto& sb) {
            const auto r = ix::shape_broadcast_to(sa, sb);
            using r_t = meta::remove_cvref_t<decltype(r)>;
            out.tok("T");
            out.i(meta::is_maybe_v<r_t> ? 1 : 0);
            bool has = nm::has_value(r);
            out.i(has ? 1 : 0);
            if (!has) return;
            const auto& t = nm::unwrap(r);
            const auto shape = nm::get<0>(t);
            const auto free_axes = nm::get<1>(t);
            out.tok("SH");
            out.vec(vh::to_vec(shape));
            out.tok("FA");
            {
                auto n = (size_t)nm::len(free_axes);
                out.i((long long)n);
                for (size_t i = 0; i < n; i++) out.i(nm::at(free_axes, i) ? 1 : 0);
            }
            const auto so = ix::origin_axes(r);
            const auto origin = nm::get<1>(nm::unwrap(so));
            out.tok("OA");
            out.vec(vh::to_vec(origin));
            auto dv = vh::to_vec(shape);
            auto n = vh::prod(dv);
            out.tok("IDX");
            if (n > 4096 || dv.size() == 0 || a.size() == 0) {
                out.i(0);
                return;
            }
            out.i(n);
            for (vh::Odo o(dv); !o.end; o.next()) {
                const auto src_idx = ix::broadcast_to(o.idx, sa, sb, origin);
                out.vec(vh::to_vec(src_idx));
            }
        });
        if (!ok2) out.tok("ERR kind-b");
    });
    if (!ok) out.tok("ERR kind-a");
}

VH_MAIN()
