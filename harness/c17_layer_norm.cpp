// C17: layer_norm
//   nn_layer_norm <dtype f|d> <input> <weight> <bias> <eps> <use default eps 0|1>
#include "c16_common.hpp"
#include "nmtools/array/view/layer_norm.hpp"

namespace view = nmtools::view;

VH_OP(nn_layer_norm)
{
    vh::with_fdtype(in, out, [&](auto t) {
        using T = decltype(t);
        auto xo = vh::read_foperand(in);
        auto wo = vh::read_foperand(in);
        auto bo = vh::read_foperand(in);
        T eps = (T)in.d();
        auto dflt = in.i();
        auto x = vh::to_arr<T>(xo);
        auto w = vh::to_arr<T>(wo);
        auto b = vh::to_arr<T>(bo);
        if (dflt) {
            auto v = view::layer_norm(x, w, b);
            vh::emit_la(out, v);
        } else {
            auto v = view::layer_norm(x, w, b, eps);
            vh::emit_la(out, v);
        }
    });
}

VH_MAIN()
