// C17: conv2d, call forms with defaulted (None) parameters
//   nn_conv2d_form <form> <dtype f> <input> <weight> <hasbias> [<bias>] <sh> <sw> <ph> <pw> <dh> <dw> <groups>
//   form: 0 = (input, weight[, bias])   1 = stride int only (sh)     2 = padding int only (ph)
//         3 = dilation int only (dh)    4 = groups only (+bias)      5 = stride pair only      6 = stride pair + padding pair
#include "c16_common.hpp"
#include "nmtools/array/view/conv2d.hpp"

namespace view = nmtools::view;

VH_OP(nn_conv2d_form)
{
    auto form = in.i();
    vh::with_f(in, out, [&](auto t) {
        using T = decltype(t);
        auto xo = vh::read_operand(in);
        auto wo = vh::read_operand(in);
        auto hasbias = in.i();
        vh::Operand bo;
        if (hasbias) bo = vh::read_operand(in);
        nmtools_array<int, 2> stride{(int)in.i(), (int)in.i()};
        nmtools_array<int, 2> padding{(int)in.i(), (int)in.i()};
        nmtools_array<int, 2> dilation{(int)in.i(), (int)in.i()};
        auto groups = (int)in.i();
        auto x = vh::to_arr<T>(xo);
        auto w = vh::to_arr<T>(wo);
        auto b = vh::to_arr<T>(bo);
        constexpr auto None = nm::None;
        switch (form) {
        case 0:
            if (hasbias) { auto v = view::conv2d(x, w, b); vh::emit_la(out, v); }
            else { auto v = view::conv2d(x, w); vh::emit_la(out, v); }
            break;
        case 1: { auto v = view::conv2d(x, w, None, stride[0]); vh::emit_la(out, v); } break;
        case 2: { auto v = view::conv2d(x, w, None, None, padding[0]); vh::emit_la(out, v); } break;
        case 3: { auto v = view::conv2d(x, w, None, None, None, dilation[0]); vh::emit_la(out, v); } break;
        case 4: { auto v = view::conv2d(x, w, b, None, None, None, groups); vh::emit_la(out, v); } break;
        case 5: { auto v = view::conv2d(x, w, None, stride); vh::emit_la(out, v); } break;
        case 6: { auto v = view::conv2d(x, w, None, stride, padding); vh::emit_la(out, v); } break;
        default: out.tok("ERR bad-form");
        }
    });
}

VH_MAIN()
