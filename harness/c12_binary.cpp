// C12 harness, op group "binary" (see c12_simd.hpp); context chosen with -DC12_CTX=<n>
#define C12_GROUP_BINARY
#include "c12_simd.hpp"
