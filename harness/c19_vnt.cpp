// C19: history driver for utl::vector<E> with non-trivial / sum-type elements
//   E = counted type (constructor/destructor/assignment registry), utl::maybe<int>, utl::either<int,double>
// (the library itself instantiates utl::vector<utl::either<...>>, e.g. in index::matmul under NMTOOLS_DISABLE_STL).
// The model is a std::vector of the *printed tokens* the cells must show (element values are opaque unique labels;
// cells created by vector(n) / a growing resize show T(): 0 / empty optional / first alternative) and, for the counted
// type, a real std::vector<CountedM> whose number of live objects the library side has to match at every step.
#include "c19_elem.hpp"

namespace
{
    using c19::Counted;
    using c19::Step;
    using c19::vid;

    template <typename E>
    struct Cell;
    template <>
    struct Cell<Counted>
    {
        static Counted make(long id) { return Counted(id); }
        static void tok(std::string& s, const Counted& e) { c19::put(s, e.id); }
        static void mtok(std::string& s, long id) { c19::put(s, id); }
        static const char* dtok() { return " 0"; }
    };
    template <>
    struct Cell<utl::maybe<int>>
    {
        using E = utl::maybe<int>;
        static E make(long id) { return (id % 3 == 0) ? E(utl::nothing) : E((int)id); }
        static void tok(std::string& s, const E& e)
        {
            if (!e.has_value()) s += " N";
            else {
                s += " V";
                s += std::to_string(*e);
            }
        }
        static void mtok(std::string& s, long id)
        {
            std::optional<int> m;
            if (id % 3 != 0) m = (int)id;
            if (!m) s += " N";
            else {
                s += " V";
                s += std::to_string(*m);
            }
        }
        static const char* dtok() { return " N"; }   // std::optional<int>{}
    };
    template <>
    struct Cell<utl::either<int, double>>
    {
        using E = utl::either<int, double>;
        static E make(long id) { return (id % 2 == 0) ? E((int)id) : E((double)id + 0.25); }
        static void tok(std::string& s, const E& e)
        {
            if (e.index() == 0) {
                s += " L";
                s += std::to_string(*e.template get_if<int>());
            } else {
                s += " R";
                s += std::to_string((long long)(*e.template get_if<double>() * 4));
            }
        }
        static void mtok(std::string& s, long id)
        {
            std::variant<int, double> m;
            if (id % 2 == 0) m = (int)id;
            else m = (double)id + 0.25;
            if (m.index() == 0) {
                s += " L";
                s += std::to_string(std::get<0>(m));
            } else {
                s += " R";
                s += std::to_string((long long)(std::get<1>(m) * 4));
            }
        }
        static const char* dtok() { return " L0"; }  // std::variant<int,double>{}
    };

    // For the counted element type the model additionally holds a real std::vector<CountedM>, so that the number of
    // live element objects of utl::vector<Counted> is compared with what std::vector really holds at every step.
    template <typename E>
    struct Shadow
    {
        void sized(size_t) {}
        void push(long) {}
        void resize(size_t) {}
        void write(size_t, long) {}
    };
    template <>
    struct Shadow<Counted>
    {
        std::vector<c19::CountedM> o;
        void sized(size_t n) { o = std::vector<c19::CountedM>(n); }
        void push(long id)
        {
            c19::CountedM t(id);
            o.push_back(t);
        }
        void resize(size_t n) { o.resize(n); }
        void write(size_t i, long id)
        {
            c19::CountedM t(id);
            o[i] = t;
        }
    };

    template <typename E>
    struct MVec
    {
        std::vector<std::string> v;  // expected token of each cell
        std::vector<char> def;       // all cells are specified: utl::vector value-initialises like std::vector
        Shadow<E> sh;
    };

    template <typename E>
    struct VntM
    {
        using L = utl::vector<E>;
        static constexpr int NS = 2;
        static constexpr bool refine_leak0 = true;
        c19::Slot<L> lib[2];
        std::optional<MVec<E>> mod[2];
        int fill = 0, kstep = 0;

        void finish()
        {
            for (int s = 0; s < NS; s++) {
                lib[s].kill();
                mod[s].reset();
            }
        }
        void begin(int f)
        {
            finish();
            fill = f;
        }
        long refused() const { return 0; }
        const char* special() { return nullptr; }
        const char* first_name() const { return "size"; }
        void extra(std::string&) {}
        long block_bound() const { return (long)lib[0].live + (long)lib[1].live; }

        void state(bool islib, int s, std::string& out)
        {
            if (!mod[s]) {
                out += " -";
                return;
            }
            auto& m = *mod[s];
            if (!islib) {
                c19::put(out, (long long)m.v.size());
                for (size_t i = 0; i < m.v.size(); i++) out += m.def[i] ? m.v[i] : std::string(" u");
                return;
            }
            L& l = *lib[s];
            const L& c = l;
            auto n = (unsigned long long)c.size();
            c19::put(out, (long long)n);
            if (n != m.v.size()) return;
            for (size_t i = 0; i < m.v.size(); i++) {
                if (!m.def[i]) {
                    out += " u";
                    continue;
                }
                switch (kstep % 3) {
                case 0: Cell<E>::tok(out, c.at(i)); break;
                case 1: Cell<E>::tok(out, l[i]); break;
                default: Cell<E>::tok(out, c.data()[i]); break;
                }
            }
        }
        static std::string mt(long id)
        {
            std::string s;
            Cell<E>::mtok(s, id);
            return s;
        }
        const char* apply(const Step& st, int k)
        {
            kstep = k;
            const int x = st.x, a = st.a;
            switch (st.op) {
            case 0:
                if (!mod[x]) return "skip";
                lib[x].kill();
                mod[x].reset();
                return "destroy";
            case 1:
                if (mod[x]) return nullptr;
                lib[x].make(fill, [&](void* p) { new (p) L(); });
                mod[x].emplace();
                return "ctor_default";
            case 2:
                if (a < 0) return "skip";
                if (mod[x]) return nullptr;
                lib[x].make(fill, [&](void* p) { new (p) L((size_t)a); });
                mod[x].emplace();
                mod[x]->v.assign((size_t)a, std::string(Cell<E>::dtok()));
                mod[x]->def.assign((size_t)a, 1);
                mod[x]->sh.sized((size_t)a);
                return a == 0 ? "ctor_sized0" : "ctor_sized";
            case 3: {
                if (a != 2 && a != 3) return "skip";
                if (mod[x]) return nullptr;
                {
                    E v0 = Cell<E>::make(vid(k, 0)), v1 = Cell<E>::make(vid(k, 1)), v2 = Cell<E>::make(vid(k, 2));
                    if (a == 2) lib[x].make(fill, [&](void* p) { new (p) L(v0, v1); });
                    else lib[x].make(fill, [&](void* p) { new (p) L(v0, v1, v2); });
                }
                mod[x].emplace();
                for (int j = 0; j < a; j++) {
                    mod[x]->v.push_back(mt(vid(k, j)));
                    mod[x]->def.push_back(1);
                    mod[x]->sh.push(vid(k, j));
                }
                return "ctor_variadic";
            }
            case 4:
                if (a == x || a < 0 || a >= NS || !mod[a]) return "skip";
                if (mod[x]) return nullptr;
                lib[x].make(fill, [&](void* p) { new (p) L(*lib[a]); });
                mod[x].emplace(*mod[a]);
                return "copy_ctor";
            case 5: {
                if (a < 0 || a >= NS || !mod[a] || !mod[x]) return "skip";
                L& dst = *lib[x];
                const L& src = *lib[a];
                dst = src;
                MVec<E> tmp = *mod[a];
                *mod[x] = tmp;
                return a == x ? "assign_self" : "assign_other";
            }
            case 6: {
                if (!mod[x]) return "skip";
                {
                    E v = Cell<E>::make(vid(k, 0));
                    (*lib[x]).push_back(v);
                }
                mod[x]->v.push_back(mt(vid(k, 0)));
                mod[x]->def.push_back(1);
                mod[x]->sh.push(vid(k, 0));
                return "push_back";
            }
            case 7: {
                if (!mod[x] || a < 0) return "skip";
                auto old = mod[x]->v.size();
                (*lib[x]).resize((size_t)a);
                mod[x]->v.resize((size_t)a, std::string(Cell<E>::dtok()));
                mod[x]->def.resize((size_t)a, 1);
                mod[x]->sh.resize((size_t)a);
                return (size_t)a < old ? "resize_shrink" : ((size_t)a == old ? "resize_same" : "resize_grow");
            }
            case 8: {
                if (!mod[x] || mod[x]->v.empty() || a < 0) return "skip";
                size_t i = (size_t)a % mod[x]->v.size();
                bool was_def = mod[x]->def[i];
                {
                    E v = Cell<E>::make(vid(k, 0));
                    if (k % 2) (*lib[x]).at(i) = v;
                    else (*lib[x])[i] = v;
                }
                mod[x]->v[i] = mt(vid(k, 0));
                mod[x]->def[i] = 1;
                mod[x]->sh.write(i, vid(k, 0));
                return was_def ? "write" : "write_fresh";  // write_fresh: first write into a cell created by resize / sized ctor
            }
            case 9: {  // read one cell through the const interface
                if (!mod[x] || mod[x]->v.empty() || a < 0) return "skip";
                size_t i = (size_t)a % mod[x]->v.size();
                if (!mod[x]->def[i]) return "skip";
                const L& c = *lib[x];
                std::string sink;
                Cell<E>::tok(sink, c.at(i));
                return "read";
            }
            default: return "skip";
            }
        }
    };

    template <typename M>
    void go(vh::Args& in, vh::Out& out, int en)
    {
        if (en == 1) c19::op_enum<M>(in, out);
        else if (en == 2) c19::op_histq<M>(in, out);
        else c19::op_hist<M>(in, out);
    }
    void dispatch(vh::Args& in, vh::Out& out, int en)
    {
        (void)in.i();  // kind (always vector)
        auto et = in.i();
        if (et == 0) go<VntM<Counted>>(in, out, en);
        else if (et == 1) go<VntM<utl::maybe<int>>>(in, out, en);
        else if (et == 2) go<VntM<utl::either<int, double>>>(in, out, en);
        else out.tok("ERR etype");
    }
} // namespace

// hist <0> <etype 0=counted 1=maybe<int> 2=either<int,double>> <fill> <nsteps> (op x a)*
VH_OP(hist) { dispatch(in, out, 0); }
VH_OP(histq) { dispatch(in, out, 2); }
VH_OP(enum) { dispatch(in, out, 1); }

VH_MAIN()
