// C19: element types for maybe / either / tuple histories (library side type E, model side type ME)
#ifndef VERIF_HARNESS_C19_ELEM_HPP
#define VERIF_HARNESS_C19_ELEM_HPP

#include "c19_hist.hpp"

namespace c19
{
    using VecInt = utl::vector<int>;
    using VecIntM = std::vector<int>;

    template <typename E>
    struct Elem;

    template <>
    struct Elem<int>
    {
        using M = int;
        static constexpr int vectors = 0;
        static int lib(long id) { return (int)id; }
        static M mod(long id) { return (int)id; }
        static void mutate(int& e, long id) { e = (int)id; }
        template <typename X>
        static void print(std::string& s, const X& e) { put(s, e); }
    };
    template <>
    struct Elem<double>
    {
        using M = double;
        static constexpr int vectors = 0;
        static double lib(long id) { return (double)id + 0.25; }
        static M mod(long id) { return (double)id + 0.25; }
        static void mutate(double& e, long id) { e = (double)id + 0.25; }
        template <typename X>
        static void print(std::string& s, const X& e) { put(s, (long long)(e * 4)); }
    };
    template <>
    struct Elem<Counted>
    {
        using M = CountedM;
        static constexpr int vectors = 0;
        static Counted lib(long id) { return Counted(id); }
        static M mod(long id) { return CountedM(id); }
        template <typename X>
        static void mutate(X& e, long id) { e.id = id; }
        template <typename X>
        static void print(std::string& s, const X& e) { put(s, e.id); }
    };
    template <>
    struct Elem<VecInt>
    {
        using M = VecIntM;
        static constexpr int vectors = 1;
        static VecInt lib(long id)
        {
            VecInt v;
            for (long j = 0; j < id % 4; j++) v.push_back((int)(id * 10 + j));
            return v;
        }
        static M mod(long id)
        {
            M v;
            for (long j = 0; j < id % 4; j++) v.push_back((int)(id * 10 + j));
            return v;
        }
        template <typename X>
        static void mutate(X& e, long id) { e.push_back((int)id); }
        template <typename X>
        static void print(std::string& s, const X& e)
        {
            auto n = (unsigned long long)e.size();
            put(s, (long long)n);
            if (n > 64) return;  // garbage size: do not walk it
            for (size_t i = 0; i < n; i++) put(s, e[i]);
        }
    };
    template <typename E>
    using model_t = typename Elem<E>::M;
} // namespace c19

#endif // VERIF_HARNESS_C19_ELEM_HPP
