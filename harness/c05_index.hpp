// C05 (index level, shared by the c05_ix_*.cpp binaries): index::apply_shape_slice / index::apply_slice on run-time shapes.
//   packed ops   : <op> <shapekind> <shape vec> <3 tokens per part> <nq> <query vec>*
//   dynamic ops  : <op> <shapekind> <shape vec> <np> (<kind> a b c)*np <nq> <query vec>*
// output: SH <result shape vec> Q <count> (<dest index vec> <source index vec>)*
// nq == 0: the harness enumerates the reported result shape with its own odometer (first 64 indices).
#ifndef VERIF_HARNESS_C05_INDEX_HPP
#define VERIF_HARNESS_C05_INDEX_HPP
#include "c05_common.hpp"

using namespace c05;

constexpr long long QCAP = 64;

template <typename idx_t, typename shape_t, typename slices_t>
static void run_index(vh::Out& out, const shape_t& shape, const slices_t& slices, const std::vector<std::vector<long long>>& queries,
                      idx_t (*mk)(const std::vector<long long>&))
{
    const auto r = ix::apply_shape_slice(shape, slices);
    auto rv = vh::to_vec(r);
    out.tok("SH");
    out.vec(rv);
    std::vector<std::vector<long long>> qs = queries;
    if (qs.empty()) {
        bool ok = true;
        for (auto e : rv)
            if (e < 0 || e > 1000000) ok = false;
        if (ok) {
            long long cnt = 0;
            for (vh::Odo o(rv); !o.end && cnt < QCAP; o.next(), cnt++) {
                std::vector<long long> q;
                for (size_t k = 0; k < rv.size(); k++) q.push_back((long long)o.idx[k]);
                qs.push_back(q);
            }
        }
    }
    out.tok("Q");
    out.i((long long)qs.size());
    for (auto& q : qs) {
        const auto idx = mk(q);
        const auto s = ix::apply_slice(idx, shape, slices);
        out.vec(q);
        out.vec(vh::to_vec(s));
    }
}

template <typename T>
static nmtools_list<T> mk_list(const std::vector<long long>& v)
{
    return vh::to_list<T>(v);
}
template <typename T, size_t N>
static nmtools_array<T, N> mk_array(const std::vector<long long>& v)
{
    nmtools_array<T, N> a{};
    for (size_t i = 0; i < N && i < v.size(); i++) a[i] = (T)v[i];
    return a;
}

static std::vector<std::vector<long long>> read_queries(vh::Args& in)
{
    std::vector<std::vector<long long>> qs;
    auto nq = in.i();
    for (long long k = 0; k < nq; k++) qs.push_back(in.vec());
    return qs;
}

// NDIM: dimension of the source for the fixed-array shape kind (0: not available, e.g. ellipsis patterns)
// NRES: dimension of the result (= number of query components)
template <size_t NDIM, size_t NRES, typename slices_t>
static void dispatch(vh::Out& out, long long kind, const std::vector<long long>& shape, const slices_t& slices,
                     const std::vector<std::vector<long long>>& qs)
{
    if (kind == 0) {
        run_index<nmtools_list<size_t>>(out, vh::to_list<size_t>(shape), slices, qs, &mk_list<size_t>);
    } else if (kind == 2) {
        run_index<nmtools_list<int>>(out, vh::to_list<int>(shape), slices, qs, &mk_list<int>);
    } else if (kind == 1) {
        if constexpr (NDIM > 0 && NRES > 0) {
            if (shape.size() != NDIM) { out.tok("ERR dim"); return; }
            run_index<nmtools_array<size_t, NRES>>(out, mk_array<size_t, NDIM>(shape), slices, qs, &mk_array<size_t, NRES>);
        } else {
            out.tok("ERR kind");
        }
    } else {
        out.tok("ERR kind");
    }
}

template <typename T>
constexpr size_t is_int_part = std::is_integral_v<T> ? 1 : 0;
template <typename T>
constexpr size_t is_ell_part = std::is_same_v<T, ellipsis_t> ? 1 : 0;

template <typename... P>
static void run_packed(vh::Args& in, vh::Out& out)
{
    auto kind = in.i();
    auto shape = in.vec();
    const auto slices = read_pack<P...>(in);
    auto qs = read_queries(in);
    constexpr size_t NELL = (is_ell_part<P> + ...);
    constexpr size_t NINT = (is_int_part<P> + ...);
    constexpr size_t NDIM = NELL ? 0 : sizeof...(P);
    constexpr size_t NRES = NELL ? 0 : sizeof...(P) - NINT;
    dispatch<NDIM, NRES>(out, kind, shape, slices, qs);
}

#define IXP(name, ...) \
    VH_OP(name) { run_packed<__VA_ARGS__>(in, out); }

// ---- dynamic encodings ------------------------------------------------------------
template <typename slices_t>
static void run_dyn(vh::Args& in, vh::Out& out, slices_t (*reader)(vh::Args&))
{
    auto kind = in.i();
    auto shape = in.vec();
    const auto slices = reader(in);
    auto qs = read_queries(in);
    dispatch<0, 0>(out, kind, shape, slices, qs);
}
#define IXD(name, reader) \
    VH_OP(name) { run_dyn(in, out, &reader); }

using I = int;
using E = ellipsis_t;
using R = P_iii<int>;
using Rn = P_nn<int>;
using Ra = P_in<int>;
using Rb = P_ni<int>;
using Rc = P_nni<int>;
using Rd = P_ini<int>;
using Re = P_nii<int>;
using Rf = P_ii<int>;
using Rg = P_iin<int>;
using Rh = P_nin<int>;
using Ri = P_inn<int>;
using Rj = P_nnn<int>;
using A3 = nmtools_array<int, 3>;
using A2 = nmtools_array<int, 2>;
using A3l = nmtools_array<long long, 3>;

#endif
