// C06 (index level, pairs): broadcast_shape(a,b) for run-time shapes of any container kind (incl. None = scalar
// shape), plus nested calls that feed the maybe-valued result back as an operand.
#include "c06_common.hpp"
#include "nmtools/array/index/broadcast_shape.hpp"
#include "nmtools/array/index/broadcast_to.hpp"

namespace ix = nmtools::index;
using c06::emit_shape_result;

#ifndef C06_PAIR_MAXN
#define C06_PAIR_MAXN 4
#endif

// bs2 <ka> <a> <kb> <b>
//   -> P bs(a,b)  Q bs(b,a)  AA bs(a,a)  I bs(a,bs(a,b))  J bs(bs(a,b),b)
VH_OP(bs2)
{
    auto ka = (int)in.i();
    auto a = in.vec();
    auto kb = (int)in.i();
    auto b = in.vec();
    bool ok = c06::with_shape<C06_PAIR_MAXN, true, true>(ka, a, [&](const auto& sa) {
        bool ok2 = c06::with_shape<C06_PAIR_MAXN, true, true>(kb, b, [&](const auto& sb) {
            const auto p = ix::broadcast_shape(sa, sb);
            out.tok("P");
            emit_shape_result(out, p);
            const auto q = ix::broadcast_shape(sb, sa);
            out.tok("Q");
            emit_shape_result(out, q);
            const auto aa = ix::broadcast_shape(sa, sa);
            out.tok("AA");
            emit_shape_result(out, aa);
            // maybe-valued result fed back as an operand
            const auto i_ = ix::broadcast_shape(sa, p);
            out.tok("I");
            emit_shape_result(out, i_);
            const auto j_ = ix::broadcast_shape(p, sb);
            out.tok("J");
            emit_shape_result(out, j_);
        });
        if (!ok2) out.tok("ERR kind-b");
    });
    if (!ok) out.tok("ERR kind-a");
}

VH_MAIN()
