// C06 (index level): broadcast_shape for 2..4 run-time shapes of any container kind (incl. None = scalar shape),
// nested calls on the maybe-valued results, shape_broadcast_to / origin_axes / index::broadcast_to.
#include "c06_common.hpp"
#include "nmtools/array/index/broadcast_shape.hpp"
#include "nmtools/array/index/broadcast_to.hpp"

namespace ix = nmtools::index;
using c06::emit_shape_result;

#ifndef C06_PAIR_MAXN
#define C06_PAIR_MAXN 4
#endif

// bs2 <ka> <a> <kb> <b>
//   -> P bs(a,b)  Q bs(b,a)  AA bs(a,a)  I bs(a,bs(a,b))  J bs(bs(a,b),b)
VH_OP(bs2)
{
    auto ka = (int)in.i();
    auto a = in.vec();
    auto kb = (int)in.i();
    auto b = in.vec();
    bool ok = c06::with_shape<C06_PAIR_MAXN, true, true>(ka, a, [&](const auto& sa) {
        bool ok2 = c06::with_shape<C06_PAIR_MAXN, true, true>(kb, b, [&](const auto& sb) {
            const auto p = ix::broadcast_shape(sa, sb);
            out.tok("P");
            emit_shape_result(out, p);
            const auto q = ix::broadcast_shape(sb, sa);
            out.tok("Q");
            emit_shape_result(out, q);
            const auto aa = ix::broadcast_shape(sa, sa);
            out.tok("AA");
            emit_shape_result(out, aa);
            // maybe-valued result fed back as an operand
            const auto i_ = ix::broadcast_shape(sa, p);
            out.tok("I");
            emit_shape_result(out, i_);
            const auto j_ = ix::broadcast_shape(p, sb);
            out.tok("J");
            emit_shape_result(out, j_);
        });
        if (!ok2) out.tok("ERR kind-b");
    });
    if (!ok) out.tok("ERR kind-a");
}

// bs3 <ka> <a> <kb> <b> <kc> <c>
//   -> V bs(a,b,c)  L bs(bs(a,b),c)  R bs(a,bs(b,c))
VH_OP(bs3)
{
    auto ka = (int)in.i();
    auto a = in.vec();
    auto kb = (int)in.i();
    auto b = in.vec();
    auto kc = (int)in.i();
    auto c = in.vec();
    bool ok = c06::with_shape<2, true, false>(ka, a, [&](const auto& sa) {
        bool ok2 = c06::with_shape<2, true, false>(kb, b, [&](const auto& sb) {
            bool ok3 = c06::with_shape<2, true, false>(kc, c, [&](const auto& sc) {
                const auto v = ix::broadcast_shape(sa, sb, sc);
                out.tok("V");
                emit_shape_result(out, v);
                const auto l = ix::broadcast_shape(ix::broadcast_shape(sa, sb), sc);
                out.tok("L");
                emit_shape_result(out, l);
                const auto r = ix::broadcast_shape(sa, ix::broadcast_shape(sb, sc));
                out.tok("R");
                emit_shape_result(out, r);
            });
            if (!ok3) out.tok("ERR kind-c");
        });
        if (!ok2) out.tok("ERR kind-b");
    });
    if (!ok) out.tok("ERR kind-a");
}

// bs4 <ka> <a> <kb> <b> <kc> <c> <kd> <d>   (kinds: list / static_vector / None)
//   -> V bs(a,b,c,d)  G bs(bs(a,b),bs(c,d))
VH_OP(bs4)
{
    auto ka = (int)in.i();
    auto a = in.vec();
    auto kb = (int)in.i();
    auto b = in.vec();
    auto kc = (int)in.i();
    auto c = in.vec();
    auto kd = (int)in.i();
    auto d = in.vec();
    bool ok = c06::with_shape<0, true, false>(ka, a, [&](const auto& sa) {
        bool ok2 = c06::with_shape<0, true, false>(kb, b, [&](const auto& sb) {
            bool ok3 = c06::with_shape<0, true, false>(kc, c, [&](const auto& sc) {
                bool ok4 = c06::with_shape<0, true, false>(kd, d, [&](const auto& sd) {
                    const auto v = ix::broadcast_shape(sa, sb, sc, sd);
                    out.tok("V");
                    emit_shape_result(out, v);
                    const auto g = ix::broadcast_shape(ix::broadcast_shape(sa, sb), ix::broadcast_shape(sc, sd));
                    out.tok("G");
                    emit_shape_result(out, g);
                });
                if (!ok4) out.tok("ERR kind-d");
            });
            if (!ok3) out.tok("ERR kind-c");
        });
        if (!ok2) out.tok("ERR kind-b");
    });
    if (!ok) out.tok("ERR kind-a");
}

// sbt <ka> <src> <kb> <dst>
//   -> T <is_maybe> <has> [ SH shape FA free_axes OA origin_axes IDX n (src multi-index for every dst index in C order) ]
VH_OP(sbt)
{
    auto ka = (int)in.i();
    auto a = in.vec();
    auto kb = (int)in.i();
    auto b = in.vec();
    bool ok = c06::with_shape<3, false, false>(ka, a, [&](const auto& sa) {
        bool ok2 = c06::with_shape<3, false, false>(kb, b, [&](const auto& sb) {
            const auto r = ix::shape_broadcast_to(sa, sb);
            using r_t = meta::remove_cvref_t<decltype(r)>;
            out.tok("T");
            out.i(meta::is_maybe_v<r_t> ? 1 : 0);
            bool has = nm::has_value(r);
            out.i(has ? 1 : 0);
            if (!has) return;
            const auto& t = nm::unwrap(r);
            const auto shape = nm::get<0>(t);
            const auto free_axes = nm::get<1>(t);
            out.tok("SH");
            out.vec(vh::to_vec(shape));
            out.tok("FA");
            {
                auto n = (size_t)nm::len(free_axes);
                out.i((long long)n);
                for (size_t i = 0; i < n; i++) out.i(nm::at(free_axes, i) ? 1 : 0);
            }
            const auto so = ix::origin_axes(r);
            const auto origin = nm::get<1>(nm::unwrap(so));
            out.tok("OA");
            out.vec(vh::to_vec(origin));
            auto dv = vh::to_vec(shape);
            auto n = vh::prod(dv);
            out.tok("IDX");
            if (n > 4096 || dv.size() == 0 || a.size() == 0) {
                out.i(0);
                return;
            }
            out.i(n);
            for (vh::Odo o(dv); !o.end; o.next()) {
                const auto src_idx = ix::broadcast_to(o.idx, sa, sb, origin);
                out.vec(vh::to_vec(src_idx));
            }
        });
        if (!ok2) out.tok("ERR kind-b");
    });
    if (!ok) out.tok("ERR kind-a");
}

VH_MAIN()
