// C05 index level: run-time lists of either-typed parts (see c05_index.hpp for the case format)
#include "c05_index.hpp"

// lists of either<int, either<ellipsis, R>>
IXD(e1_iii, read_e1_list<P_iii<int>>)
IXD(e1_ii, read_e1_list<P_ii<int>>)
IXD(e1_nn, read_e1_list<P_nn<int>>)
IXD(e1_ni, read_e1_list<P_ni<int>>)
IXD(e1_in, read_e1_list<P_in<int>>)
IXD(e1_nni, read_e1_list<P_nni<int>>)
IXD(e1_ini, read_e1_list<P_ini<int>>)
IXD(e1_nii, read_e1_list<P_nii<int>>)
IXD(e1_a3, read_e1_list<A3>)
IXD(e1_a2, read_e1_list<A2>)
// the other nesting order
IXD(e2_iii, read_e2_list<P_iii<int>>)
IXD(e2_a3, read_e2_list<A3>)


VH_MAIN()
