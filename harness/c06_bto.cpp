// C06 (view level): view::broadcast_to(a, shape) with run-time target shapes given as list / static_vector,
// source = dynamic ndarray, hybrid ndarray or a scalar.  Every element is logged through all evaluation routes.
#include "c06_view.hpp"
#include "nmtools/array/view/broadcast_to.hpp"

namespace view = nmtools::view;

// bto <srckind> <dstkind> <src shape> <dst shape> <base>
VH_OP(bto)
{
    auto sk = (int)in.i();
    auto dk = (int)in.i();
    auto src = in.vec();
    auto dst = in.vec();
    auto base = in.i();
    bool ok = c06::with_operand<true, true>(sk, src, base, [&](const auto& a) {
        bool ok2 = c06::with_shape<0, false, false>(dk, dst, [&](const auto& d) {
            const auto v = view::broadcast_to(a, d);
            vh::emit_view_all(out, v);
        });
        if (!ok2) out.tok("ERR kind-dst");
    });
    if (!ok) out.tok("ERR kind-src");
}

VH_MAIN()
