// C08: references for the composite wrappers (var, stddev, vector_norm) written from their definitions with the
// library's scalar functors, evaluated in plain loops over the groups of source elements the Python side designates.
#ifndef VERIF_HARNESS_C08_STATS_HPP
#define VERIF_HARNESS_C08_STATS_HPP

#include "c08_common.hpp"
#include "nmtools/array/view/ufuncs/subtract.hpp"
#include "nmtools/array/view/ufuncs/fabs.hpp"
#include "nmtools/array/view/ufuncs/square.hpp"
#include "nmtools/array/view/ufuncs/sqrt.hpp"
#include "nmtools/array/view/ufuncs/power.hpp"

namespace c08
{
    // var = sum(square(fabs(x - mean))) / (N - ddof); DT = requested dtype (nm::none_t or a dtype_t)
    template <typename T, typename DT, bool SQRT>
    struct var_ref
    {
        using M = dtype_or_t<DT, mean_default_t<T>>;                 // accumulator of the mean
        using add_m = view::add_t<nm::none_t, nm::none_t, std::conditional_t<nm::is_none_v<DT>, M, nm::get_dtype_t<DT>>>;
        using MV = decltype(view::divide_t{}(std::declval<M>(), size_t{}));
        using D = decltype(view::fun::square{}(view::fun::fabs{}(view::subtract_t<>{}(std::declval<T>(), std::declval<MV>()))));
        using S = dtype_or_t<DT, D>;                                   // accumulator of the sum of squares
        using add_s = std::conditional_t<nm::is_none_v<DT>, view::add_t<>, view::add_t<nm::none_t, nm::none_t, S>>;
        using VR = decltype(view::divide_t{}(std::declval<S>(), size_t{}));
        using RES = std::conditional_t<SQRT, decltype(view::fun::sqrt{}(std::declval<VR>())), VR>;

        static RES eval(const std::vector<long long>& g, const std::vector<T>& data, size_t ddof)
        {
            M acc = static_cast<M>(data.at((size_t)g.at(0)));
            for (size_t k = 1; k < g.size(); k++) acc = static_cast<M>(add_m{}(acc, data.at((size_t)g[k])));
            MV mean = view::divide_t{}(acc, g.size());
            S s{};
            for (size_t k = 0; k < g.size(); k++) {
                D d = view::fun::square{}(view::fun::fabs{}(view::subtract_t<>{}(data.at((size_t)g[k]), mean)));
                if (k == 0) s = static_cast<S>(d);
                else s = static_cast<S>(add_s{}(s, d));
            }
            VR v = view::divide_t{}(s, g.size() - ddof);
            if constexpr (SQRT) return view::fun::sqrt{}(v);
            else return v;
        }
    };

    // <shape> <data> <axis> <keepdims> <ddof> <groups>; vf(a, axis, ddof, keepdims)
    template <typename T, typename DT, bool SQRT, typename AK, typename KK, typename VF>
    void var_case(Args& in, Out& out, VF vf)
    {
        Operand<T> oa(in, 'A');
        auto axis = read_axis<AK>(in);
        bool kd = in.i() != 0;
        size_t ddof = (size_t)in.i();
        Groups gr(in);
        auto a = oa.arr();
        using ref_t = var_ref<T, DT, SQRT>;
        using F = typename ref_t::RES;
        if constexpr (std::is_same_v<KK, KT>) { auto v = vf(a, axis, ddof, nm::True); emit_any<F>(out, v); }
        else if constexpr (std::is_same_v<KK, KF>) { auto v = vf(a, axis, ddof, nm::False); emit_any<F>(out, v); }
        else { auto v = vf(a, axis, ddof, kd); emit_any<F>(out, v); }
        out.i((long long)gr.g.size());
        for (auto& g : gr.g) out.num(ref_t::eval(g, oa.data, ddof));
    }

    // vector_norm = power(sum(power(fabs(x), ord)), 1.f/ord)
    template <typename T, typename AK, typename KK, typename VF>
    void norm_case(Args& in, Out& out, VF vf)
    {
        Operand<T> oa(in, 'A');
        auto axis = read_axis<AK>(in);
        bool kd = in.i() != 0;
        nm_index_t ord = (nm_index_t)in.i();
        Groups gr(in);
        auto a = oa.arr();
        using P = decltype(view::power_t<>{}(view::fun::fabs{}(std::declval<T>()), ord));
        using F = decltype(view::power_t<>{}(std::declval<P>(), 1.f / ord));
        if constexpr (std::is_same_v<KK, KT>) { auto v = vf(a, axis, nm::True, ord); emit_any<F>(out, v); }
        else if constexpr (std::is_same_v<KK, KF>) { auto v = vf(a, axis, nm::False, ord); emit_any<F>(out, v); }
        else { auto v = vf(a, axis, kd, ord); emit_any<F>(out, v); }
        out.i((long long)gr.g.size());
        for (auto& g : gr.g) {
            P acc{};
            for (size_t k = 0; k < g.size(); k++) {
                P p = view::power_t<>{}(view::fun::fabs{}(oa.data.at((size_t)g[k])), ord);
                if (k == 0) acc = p;
                else acc = static_cast<P>(view::add_t<>{}(acc, p));
            }
            out.num(view::power_t<>{}(acc, 1.f / ord));
        }
    }
} // namespace c08

#endif
