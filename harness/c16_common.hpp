// C16/C17 shared helpers: operands with explicit integer-valued data of a run-time selected element type.
//   <dtype token> : i (int32) | f (float) | d (double)
//   operand       : <shape vec> <data vec>   (data are small integers; converted to the element type)
#ifndef VERIF_HARNESS_C16_COMMON_HPP
#define VERIF_HARNESS_C16_COMMON_HPP

#include "viewcommon.hpp"

namespace vh
{
    struct Operand
    {
        std::vector<long long> shape;
        std::vector<long long> data;
    };

    inline Operand read_operand(Args& in)
    {
        Operand o;
        o.shape = in.vec();
        o.data = in.vec();
        return o;
    }

    template <typename T>
    dyn_t<T> to_arr(const Operand& o)
    {
        return make_arr_data<T>(o.shape, o.data);
    }

    // operand with floating point data given as hex floats / decimals
    struct FOperand
    {
        std::vector<long long> shape;
        std::vector<double> data;
    };

    inline FOperand read_foperand(Args& in)
    {
        FOperand o;
        o.shape = in.vec();
        o.data = in.dvec();
        return o;
    }

    template <typename T>
    dyn_t<T> to_arr(const FOperand& o)
    {
        return make_arr_data<T>(o.shape, o.data);
    }

    // dispatch over the element type token; f(type_tag) is called with a value of the element type
    template <typename F>
    void with_dtype(Args& in, Out& out, F&& f)
    {
        auto t = in.s();
        if (t == "i") f(int{});
        else if (t == "f") f(float{});
        else if (t == "d") f(double{});
        else out.tok("ERR bad-dtype");
    }

    template <typename F>
    void with_fdtype(Args& in, Out& out, F&& f)
    {
        auto t = in.s();
        if (t == "f") f(float{});
        else if (t == "d") f(double{});
        else out.tok("ERR bad-dtype");
    }

    // float only (call forms whose compile cost is high)
    template <typename F>
    void with_f(Args& in, Out& out, F&& f)
    {
        auto t = in.s();
        if (t == "f") f(float{});
        else out.tok("ERR bad-dtype");
    }

    // int32 and float
    template <typename F>
    void with_if(Args& in, Out& out, F&& f)
    {
        auto t = in.s();
        if (t == "i") f(int{});
        else if (t == "f") f(float{});
        else out.tok("ERR bad-dtype");
    }

    // emit_view_all + (for results that are arrays of dimension 0) the single element read with an empty index:
    //   ... X0 <tag> <value>
    template <typename view_t>
    void emit_dim0(Out& out, const view_t& v)
    {
        if constexpr (meta::is_maybe_v<view_t>) {
            if (nm::has_value(v)) emit_dim0(out, nm::unwrap(v));
        } else if constexpr (!meta::is_num_v<view_t>) {
            const auto shape = nm::shape(v);
            auto sv = to_vec(shape);
            if (sv.size() == 0) {
                using elem_t = meta::get_element_type_t<view_t>;
                nmtools_list<nm_size_t> idx;
                out.tok("X0");
                out.tok(type_tag<elem_t>());
                out.num(static_cast<elem_t>(nm::apply_at(v, idx)));
            }
        }
    }

    template <typename view_t>
    void emit_la(Out& out, const view_t& v)
    {
        emit_view_all(out, v);
        emit_dim0(out, v);
    }
} // namespace vh

#endif
