// C05 index level: run-time lists of one range type (see c05_index.hpp for the case format)
#include "c05_index.hpp"

// plain lists of one range type (no either): 12 None-patterns + index arrays
IXD(d_ii, read_plain_list<P_ii<int>>)
IXD(d_in, read_plain_list<P_in<int>>)
IXD(d_ni, read_plain_list<P_ni<int>>)
IXD(d_nn, read_plain_list<P_nn<int>>)
IXD(d_iii, read_plain_list<P_iii<int>>)
IXD(d_iin, read_plain_list<P_iin<int>>)
IXD(d_ini, read_plain_list<P_ini<int>>)
IXD(d_inn, read_plain_list<P_inn<int>>)
IXD(d_nii, read_plain_list<P_nii<int>>)
IXD(d_nin, read_plain_list<P_nin<int>>)
IXD(d_nni, read_plain_list<P_nni<int>>)
IXD(d_nnn, read_plain_list<P_nnn<int>>)
IXD(d_a3, read_plain_list<A3>)
IXD(d_a2, read_plain_list<A2>)
IXD(d_a3_l, read_plain_list<A3l>)

VH_MAIN()
