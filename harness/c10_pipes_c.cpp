// C10 pipelines (c): matmul / concatenate / pad / softmax over views
#include "pipes.hpp"
#include "nmtools/array/view/transpose.hpp"
#include "nmtools/array/view/matmul.hpp"
#include "nmtools/array/view/concatenate.hpp"
#include "nmtools/array/view/pad.hpp"
#include "nmtools/array/view/softmax.hpp"
#include "nmtools/array/view/ufuncs/add.hpp"
#include "nmtools/array/view/ufuncs/multiply.hpp"
#include "nmtools/array/view/ufuncs/tanh.hpp"
#include "nmtools/array/view/activations/relu.hpp"

namespace view = nmtools::view;

// p_matmul_t <shape_a> <axes> <shape_b> : matmul(transpose(a,axes), b)
VH_OP(p_matmul_t)
{
    auto sa = in.vec(); auto axes = in.vec(); auto sb = in.vec();
    auto a = vh::make_arr<int>(sa, 1);
    auto b = vh::make_arr<int>(sb, 2, 3);
    vh::pipe2(out,
        [&]() { return view::transpose(a, vh::to_list<int>(axes)); },
        [&](const auto& x) { return view::matmul(x, b); });
}

// p_concat_t <shape_a> <axes> <shape_b> <axis> : concatenate(transpose(a,axes), b, axis)
VH_OP(p_concat_t)
{
    auto sa = in.vec(); auto axes = in.vec(); auto sb = in.vec(); auto axis = (int)in.i();
    auto a = vh::make_arr<int>(sa, 100);
    auto b = vh::make_arr<int>(sb, 5000);
    vh::pipe2(out,
        [&]() { return view::transpose(a, vh::to_list<int>(axes)); },
        [&](const auto& x) { return view::concatenate(x, b, axis); });
}

// p_pad_mul <shape_a> <shape_b> <pads> : pad(multiply(a,b), pads, -9)
VH_OP(p_pad_mul)
{
    auto sa = in.vec(); auto sb = in.vec(); auto pads = in.vec();
    auto a = vh::make_arr<int>(sa, 1);
    auto b = vh::make_arr<int>(sb, 2, 3);
    vh::pipe2(out,
        [&]() { return view::multiply(a, b); },
        [&](const auto& x) { return view::pad(x, vh::to_list<int>(pads), -9); });
}

// p_softmax_add <shape_a> <shape_b> <axis> : softmax(add(a,b), axis)   (float)
VH_OP(p_softmax_add)
{
    auto sa = in.vec(); auto sb = in.vec(); auto axis = (int)in.i();
    auto a = vh::make_arr<float>(sa, 0, 1);
    auto b = vh::make_arr<float>(sb, -2, 1);
    for (long long k = 0; k < vh::prod(sa); k++) a.data()[k] *= 0.25f;
    vh::pipe2(out,
        [&]() { return view::add(a, b); },
        [&](const auto& x) { return view::softmax(x, axis); });
}

// p_add_tanh_relu <shape_a> <shape_b> : add(tanh(a), relu(b))   (float, binary tree)
VH_OP(p_add_tanh_relu)
{
    auto sa = in.vec(); auto sb = in.vec();
    auto a = vh::make_arr<float>(sa, -3, 1);
    auto b = vh::make_arr<float>(sb, -4, 1);
    for (long long k = 0; k < vh::prod(sa); k++) a.data()[k] *= 0.5f;
    const auto rb = view::relu(b);
    vh::pipe2(out,
        [&]() { return view::tanh(a); },
        [&](const auto& x) { return view::add(x, rb); });
}

VH_MAIN()
