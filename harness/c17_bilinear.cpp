// C17: bilinear (bias on/off)
//   nn_bilinear <dtype i|f> <a> <b> <weight> <hasbias> [<bias>]
#include "c16_common.hpp"
#include "nmtools/array/view/bilinear.hpp"

namespace view = nmtools::view;

VH_OP(nn_bilinear)
{
    vh::with_if(in, out, [&](auto t) {
        using T = decltype(t);
        auto ao = vh::read_operand(in);
        auto bo = vh::read_operand(in);
        auto wo = vh::read_operand(in);
        auto hasbias = in.i();
        auto a = vh::to_arr<T>(ao);
        auto b = vh::to_arr<T>(bo);
        auto w = vh::to_arr<T>(wo);
        if (hasbias) {
            auto co = vh::read_operand(in);
            auto c = vh::to_arr<T>(co);
            auto v = view::bilinear(a, b, w, c);
            vh::emit_la(out, v);
        } else {
            auto v = view::bilinear(a, b, w);
            vh::emit_la(out, v);
        }
    });
}

VH_MAIN()
