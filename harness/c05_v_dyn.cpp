// C05 view level: run-time slice lists (plain lists of one range type, lists of either-typed parts)
#include "c05_view.hpp"

VD(d_a3, read_plain_list<A3>)
VD(d_a2, read_plain_list<A2>)
VD(d_iii, read_plain_list<R>)
VD(d_nni, read_plain_list<Rc>)
VD(d_in, read_plain_list<Ra>)
VD(e1_iii, read_e1_list<R>)
VD(e1_nn, read_e1_list<Rn>)
VD(e1_ini, read_e1_list<Rd>)
VD(e1_a3, read_e1_list<A3>)
VD(e2_iii, read_e2_list<R>)

VH_MAIN()
