// C10 pipelines (a): indexing-only compositions
#include "pipes.hpp"
#include "nmtools/array/view/transpose.hpp"
#include "nmtools/array/view/reshape.hpp"
#include "nmtools/array/view/flip.hpp"
#include "nmtools/array/view/tile.hpp"
#include "nmtools/array/view/expand_dims.hpp"
#include "nmtools/array/view/broadcast_to.hpp"

namespace view = nmtools::view;

// p_transpose_reshape <shape> <newshape> <axes>  : transpose(reshape(a,newshape),axes)
VH_OP(p_transpose_reshape)
{
    auto shape = in.vec(); auto ns = in.vec(); auto axes = in.vec();
    auto a = vh::make_arr<int>(shape, 100);
    vh::pipe2(out,
        [&]() { return view::reshape(a, vh::to_list<int>(ns)); },
        [&](const auto& x) { return view::transpose(x, vh::to_list<int>(axes)); });
}

// p_reshape_transpose <shape> <axes> <newshape> : reshape(transpose(a,axes),newshape)
VH_OP(p_reshape_transpose)
{
    auto shape = in.vec(); auto axes = in.vec(); auto ns = in.vec();
    auto a = vh::make_arr<int>(shape, 100);
    vh::pipe2(out,
        [&]() { return view::transpose(a, vh::to_list<int>(axes)); },
        [&](const auto& x) { return view::reshape(x, vh::to_list<int>(ns)); });
}

// p_flip_tile <shape> <reps> <axis> : flip(tile(a,reps),axis)
VH_OP(p_flip_tile)
{
    auto shape = in.vec(); auto reps = in.vec(); auto axis = (int)in.i();
    auto a = vh::make_arr<int>(shape, 100);
    vh::pipe2(out,
        [&]() { return view::tile(a, vh::to_list<int>(reps)); },
        [&](const auto& x) { return view::flip(x, axis); });
}

// p_bcast_expand <shape> <axis> <target> : broadcast_to(expand_dims(a,axis),target)
VH_OP(p_bcast_expand)
{
    auto shape = in.vec(); auto axis = (int)in.i(); auto target = in.vec();
    auto a = vh::make_arr<int>(shape, 100);
    vh::pipe2(out,
        [&]() { return view::expand_dims(a, axis); },
        [&](const auto& x) { return view::broadcast_to(x, vh::to_list<size_t>(target)); });
}

// p3_t_r_f <shape> <axis> <newshape> <axes> : transpose(reshape(flip(a,axis),newshape),axes)
VH_OP(p3_t_r_f)
{
    auto shape = in.vec(); auto axis = (int)in.i(); auto ns = in.vec(); auto axes = in.vec();
    auto a = vh::make_arr<int>(shape, 100);
    vh::pipe3(out,
        [&]() { return view::flip(a, axis); },
        [&](const auto& x) { return view::reshape(x, vh::to_list<int>(ns)); },
        [&](const auto& x) { return view::transpose(x, vh::to_list<int>(axes)); });
}

VH_MAIN()
