// C04 (part a): tile, repeat, roll on dynamic ndarrays with unique labels; run-time argument kinds only
#include "c04_common.hpp"
#include "nmtools/array/view/tile.hpp"
#include "nmtools/array/view/repeat.hpp"
#include "nmtools/array/view/roll.hpp"

namespace view = nmtools::view;
using c04::BASE_A;

// tile <shape> <reps list>
VH_OP(tile)
{
    auto shape = in.vec();
    auto reps = in.vec();
    auto a = vh::make_arr<int>(shape, BASE_A);
    auto v = view::tile(a, vh::to_list<int>(reps));
    vh::emit_view_all(out, v);
}

// repeat <shape> <repeats int> <axis int>
VH_OP(repeat)
{
    auto shape = in.vec();
    auto r = (int)in.i();
    auto ax = (int)in.i();
    auto a = vh::make_arr<int>(shape, BASE_A);
    auto v = view::repeat(a, r, ax);
    vh::emit_view_all(out, v);
}

// repeat_none <shape> <repeats int>     (axis=None: flattened)
VH_OP(repeat_none)
{
    auto shape = in.vec();
    auto r = (int)in.i();
    auto a = vh::make_arr<int>(shape, BASE_A);
    auto v = view::repeat(a, r, nm::None);
    c04::emit_view_all(out, v);
}

// repeat_l <shape> <repeats list (one per element along axis)> <axis int>
VH_OP(repeat_l)
{
    auto shape = in.vec();
    auto r = in.vec();
    auto ax = (int)in.i();
    auto a = vh::make_arr<int>(shape, BASE_A);
    auto v = view::repeat(a, vh::to_list<int>(r), ax);
    vh::emit_view_all(out, v);
}

// roll <shape> <shift int> <axis int>
VH_OP(roll)
{
    auto shape = in.vec();
    auto s = (int)in.i();
    auto ax = (int)in.i();
    auto a = vh::make_arr<int>(shape, BASE_A);
    auto v = view::roll(a, s, ax);
    vh::emit_view_all(out, v);
}

// roll_none <shape> <shift int>     (axis=None: flattened roll, shape restored)
VH_OP(roll_none)
{
    auto shape = in.vec();
    auto s = (int)in.i();
    auto a = vh::make_arr<int>(shape, BASE_A);
    auto v = view::roll(a, s);
    vh::emit_view_all(out, v);
}

// roll_l <shape> <shift list> <axis list>
VH_OP(roll_l)
{
    auto shape = in.vec();
    auto s = in.vec();
    auto ax = in.vec();
    auto a = vh::make_arr<int>(shape, BASE_A);
    auto v = view::roll(a, vh::to_list<int>(s), vh::to_list<int>(ax));
    vh::emit_view_all(out, v);
}

// roll_sl <shape> <shift int> <axis list>
VH_OP(roll_sl)
{
    auto shape = in.vec();
    auto s = (int)in.i();
    auto ax = in.vec();
    auto a = vh::make_arr<int>(shape, BASE_A);
    auto v = view::roll(a, s, vh::to_list<int>(ax));
    vh::emit_view_all(out, v);
}

VH_MAIN()
