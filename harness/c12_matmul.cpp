// C12 harness, op group "matmul" (see c12_simd.hpp); context chosen with -DC12_CTX=<n>
#define C12_GROUP_MATMUL
#include "c12_simd.hpp"
