// C06 helpers: build a run-time shape container of a requested kind and hand it to a generic callable.
#ifndef VERIF_HARNESS_C06_COMMON_HPP
#define VERIF_HARNESS_C06_COMMON_HPP

#include "common.hpp"

namespace c06
{
    // kind codes used in the case files
    //   0 nmtools_list<size_t>      1 nmtools_array<size_t,N> (N = number of extents, 1..MAXN)
    //   3 nmtools_static_vector<size_t,8>     4 None (scalar shape; extents must be empty)
    //   5 nmtools_list<int>
    constexpr int K_LIST = 0, K_ARRAY = 1, K_SVEC = 3, K_NONE = 4, K_ILIST = 5;

    template <size_t N>
    nmtools_array<size_t, N> to_array(const std::vector<long long>& s)
    {
        nmtools_array<size_t, N> a{};
        for (size_t i = 0; i < N; i++) a[i] = (size_t)s[i];
        return a;
    }

    inline nmtools_static_vector<size_t, 8> to_svec(const std::vector<long long>& s)
    {
        nmtools_static_vector<size_t, 8> v;
        v.resize(s.size());
        for (size_t i = 0; i < s.size(); i++) v[i] = (size_t)s[i];
        return v;
    }

    // calls f(container) ; returns false when the (kind, dim) combination is not instantiated
    template <int MAXN, bool WITH_NONE, bool WITH_ILIST, typename F>
    bool with_shape(int kind, const std::vector<long long>& s, F&& f)
    {
        if (kind == K_LIST) {
            f(vh::to_list<size_t>(s));
            return true;
        } else if (kind == K_SVEC) {
            if (s.size() > 8) return false;
            f(to_svec(s));
            return true;
        } else if (kind == K_NONE) {
            if constexpr (WITH_NONE) {
                if (s.size() != 0) return false;
                f(nm::None);
                return true;
            } else
                return false;
        } else if (kind == K_ILIST) {
            if constexpr (WITH_ILIST) {
                f(vh::to_list<int>(s));
                return true;
            } else
                return false;
        } else if (kind == K_ARRAY) {
            bool done = false;
            if constexpr (MAXN > 0) {
                meta::template_for<MAXN>([&](auto i) {
                    constexpr size_t N = decltype(i)::value + 1;
                    if (s.size() == N) {
                        f(to_array<N>(s));
                        done = true;
                    }
                });
            }
            return done;
        }
        return false;
    }

    // "Y <is_maybe> <has_value> <container tag> <vec>"
    template <typename R>
    void emit_shape_result(vh::Out& out, const R& r)
    {
        out.tok("Y");
        out.i(meta::is_maybe_v<R> ? 1 : 0);
        bool has = nm::has_value(r);
        out.i(has ? 1 : 0);
        if (has) out.vec(vh::to_vec(r));
    }
} // namespace c06

#endif
