// C05 (index level): index::apply_shape_slice / index::apply_slice on run-time shapes.
//   packed ops   : <op> <shapekind> <shape vec> <3 tokens per part> <nq> <query vec>*
//   dynamic ops  : <op> <shapekind> <shape vec> <np> (<kind> a b c)*np <nq> <query vec>*
// output: SH <result shape vec> Q <count> (<dest index vec> <source index vec>)*
// nq == 0: the harness enumerates the reported result shape with its own odometer (first 64 indices).
#include "c05_common.hpp"

using namespace c05;

constexpr long long QCAP = 64;

template <typename idx_t, typename shape_t, typename slices_t>
static void run_index(vh::Out& out, const shape_t& shape, const slices_t& slices, const std::vector<std::vector<long long>>& queries,
                      idx_t (*mk)(const std::vector<long long>&))
{
    const auto r = ix::apply_shape_slice(shape, slices);
    auto rv = vh::to_vec(r);
    out.tok("SH");
    out.vec(rv);
    std::vector<std::vector<long long>> qs = queries;
    if (qs.empty()) {
        bool ok = true;
        for (auto e : rv)
            if (e < 0 || e > 1000000) ok = false;
        if (ok) {
            long long cnt = 0;
            for (vh::Odo o(rv); !o.end && cnt < QCAP; o.next(), cnt++) {
                std::vector<long long> q;
                for (size_t k = 0; k < rv.size(); k++) q.push_back((long long)o.idx[k]);
                qs.push_back(q);
            }
        }
    }
    out.tok("Q");
    out.i((long long)qs.size());
    for (auto& q : qs) {
        const auto idx = mk(q);
        const auto s = ix::apply_slice(idx, shape, slices);
        out.vec(q);
        out.vec(vh::to_vec(s));
    }
}

template <typename T>
static nmtools_list<T> mk_list(const std::vector<long long>& v)
{
    return vh::to_list<T>(v);
}
template <typename T, size_t N>
static nmtools_array<T, N> mk_array(const std::vector<long long>& v)
{
    nmtools_array<T, N> a{};
    for (size_t i = 0; i < N && i < v.size(); i++) a[i] = (T)v[i];
    return a;
}

static std::vector<std::vector<long long>> read_queries(vh::Args& in)
{
    std::vector<std::vector<long long>> qs;
    auto nq = in.i();
    for (long long k = 0; k < nq; k++) qs.push_back(in.vec());
    return qs;
}

// NDIM: dimension of the source for the fixed-array shape kind (0: not available, e.g. ellipsis patterns)
// NRES: dimension of the result (= number of query components)
template <size_t NDIM, size_t NRES, typename slices_t>
static void dispatch(vh::Out& out, long long kind, const std::vector<long long>& shape, const slices_t& slices,
                     const std::vector<std::vector<long long>>& qs)
{
    if (kind == 0) {
        run_index<nmtools_list<size_t>>(out, vh::to_list<size_t>(shape), slices, qs, &mk_list<size_t>);
    } else if (kind == 2) {
        run_index<nmtools_list<int>>(out, vh::to_list<int>(shape), slices, qs, &mk_list<int>);
    } else if (kind == 1) {
        if constexpr (NDIM > 0 && NRES > 0) {
            if (shape.size() != NDIM) { out.tok("ERR dim"); return; }
            run_index<nmtools_array<size_t, NRES>>(out, mk_array<size_t, NDIM>(shape), slices, qs, &mk_array<size_t, NRES>);
        } else {
            out.tok("ERR kind");
        }
    } else {
        out.tok("ERR kind");
    }
}

template <typename T>
constexpr size_t is_int_part = std::is_integral_v<T> ? 1 : 0;
template <typename T>
constexpr size_t is_ell_part = std::is_same_v<T, ellipsis_t> ? 1 : 0;

template <typename... P>
static void run_packed(vh::Args& in, vh::Out& out)
{
    auto kind = in.i();
    auto shape = in.vec();
    const auto slices = read_pack<P...>(in);
    auto qs = read_queries(in);
    constexpr size_t NELL = (is_ell_part<P> + ...);
    constexpr size_t NINT = (is_int_part<P> + ...);
    constexpr size_t NDIM = NELL ? 0 : sizeof...(P);
    constexpr size_t NRES = NELL ? 0 : sizeof...(P) - NINT;
    dispatch<NDIM, NRES>(out, kind, shape, slices, qs);
}

#define IXP(name, ...) \
    VH_OP(name) { run_packed<__VA_ARGS__>(in, out); }

// ---- single axis: 12 None-patterns x {int, long long} -------------------------------
#define SINGLE(T, sfx)                   \
    IXP(p_ii_##sfx, P_ii<T>)             \
    IXP(p_in_##sfx, P_in<T>)             \
    IXP(p_ni_##sfx, P_ni<T>)             \
    IXP(p_nn_##sfx, P_nn<T>)             \
    IXP(p_iii_##sfx, P_iii<T>)           \
    IXP(p_iin_##sfx, P_iin<T>)           \
    IXP(p_ini_##sfx, P_ini<T>)           \
    IXP(p_inn_##sfx, P_inn<T>)           \
    IXP(p_nii_##sfx, P_nii<T>)           \
    IXP(p_nin_##sfx, P_nin<T>)           \
    IXP(p_nni_##sfx, P_nni<T>)           \
    IXP(p_nnn_##sfx, P_nnn<T>)
SINGLE(int, i)
SINGLE(long long, l)
// index arrays as packed parts
IXP(p_a3_i, nmtools_array<int, 3>)
IXP(p_a2_i, nmtools_array<int, 2>)
IXP(p_a3_l, nmtools_array<long long, 3>)
// a single integer (result has dimension 0)
IXP(p_I, int)

// ---- multi axis (packed): integers / ellipsis / ranges in every position ------------
using I = int;
using E = ellipsis_t;
using R = P_iii<int>;
using Rn = P_nn<int>;
using Ra = P_in<int>;
using Rb = P_ni<int>;
using Rc = P_nni<int>;
using Rd = P_ini<int>;
using Re = P_nii<int>;
using Rf = P_ii<int>;
using Rg = P_iin<int>;
using Rh = P_nin<int>;
using Ri = P_inn<int>;
using Rj = P_nnn<int>;
// length 2
IXP(m_I_I, I, I)
IXP(m_I_R, I, R)
IXP(m_R_I, R, I)
IXP(m_R_R, R, R)
IXP(m_I_E, I, E)
IXP(m_E_I, E, I)
IXP(m_R_E, R, E)
IXP(m_E_R, E, R)
IXP(m_E, E)
// length 2 with None-patterns mixed in
IXP(m_Ra_Rb, Ra, Rb)
IXP(m_Rc_Rd, Rc, Rd)
IXP(m_Re_Rf, Re, Rf)
IXP(m_Rg_Rh, Rg, Rh)
IXP(m_Ri_Rj, Ri, Rj)
IXP(m_Rn_I, Rn, I)
IXP(m_I_Rc, I, Rc)
IXP(m_E_Rd, E, Rd)
IXP(m_Rb_E, Rb, E)
// length 3
IXP(m_I_I_I, I, I, I)
IXP(m_I_I_R, I, I, R)
IXP(m_I_R_I, I, R, I)
IXP(m_R_I_I, R, I, I)
IXP(m_I_R_R, I, R, R)
IXP(m_R_I_R, R, I, R)
IXP(m_R_R_I, R, R, I)
IXP(m_R_R_R, R, R, R)
IXP(m_E_I_I, E, I, I)
IXP(m_E_I_R, E, I, R)
IXP(m_E_R_I, E, R, I)
IXP(m_E_R_R, E, R, R)
IXP(m_I_E_I, I, E, I)
IXP(m_I_E_R, I, E, R)
IXP(m_R_E_I, R, E, I)
IXP(m_R_E_R, R, E, R)
IXP(m_I_I_E, I, I, E)
IXP(m_I_R_E, I, R, E)
IXP(m_R_I_E, R, I, E)
IXP(m_R_R_E, R, R, E)
// length 3 / 4 with None-patterns and an ellipsis standing for zero axes
IXP(m_Rc_Ra_Rb, Rc, Ra, Rb)
IXP(m_Rd_I_Re, Rd, I, Re)
IXP(m_Rn_Rc_I, Rn, Rc, I)
IXP(m_R_E_R_R, R, E, R, R)
IXP(m_E_R_I_R, E, R, I, R)
IXP(m_I_R_R_E, I, R, R, E)

// ---- dynamic encodings ------------------------------------------------------------
template <typename slices_t>
static void run_dyn(vh::Args& in, vh::Out& out, slices_t (*reader)(vh::Args&))
{
    auto kind = in.i();
    auto shape = in.vec();
    const auto slices = reader(in);
    auto qs = read_queries(in);
    dispatch<0, 0>(out, kind, shape, slices, qs);
}
#define IXD(name, reader) \
    VH_OP(name) { run_dyn(in, out, &reader); }

// plain lists of one range type (no either): 12 None-patterns + index arrays
IXD(d_ii, read_plain_list<P_ii<int>>)
IXD(d_in, read_plain_list<P_in<int>>)
IXD(d_ni, read_plain_list<P_ni<int>>)
IXD(d_nn, read_plain_list<P_nn<int>>)
IXD(d_iii, read_plain_list<P_iii<int>>)
IXD(d_iin, read_plain_list<P_iin<int>>)
IXD(d_ini, read_plain_list<P_ini<int>>)
IXD(d_inn, read_plain_list<P_inn<int>>)
IXD(d_nii, read_plain_list<P_nii<int>>)
IXD(d_nin, read_plain_list<P_nin<int>>)
IXD(d_nni, read_plain_list<P_nni<int>>)
IXD(d_nnn, read_plain_list<P_nnn<int>>)
using A3 = nmtools_array<int, 3>;
using A2 = nmtools_array<int, 2>;
IXD(d_a3, read_plain_list<A3>)
IXD(d_a2, read_plain_list<A2>)
IXD(d_a3_l, read_plain_list<nmtools_array<long long, 3>>)
// lists of either<int, either<ellipsis, R>>
IXD(e1_iii, read_e1_list<P_iii<int>>)
IXD(e1_ii, read_e1_list<P_ii<int>>)
IXD(e1_nn, read_e1_list<P_nn<int>>)
IXD(e1_ni, read_e1_list<P_ni<int>>)
IXD(e1_in, read_e1_list<P_in<int>>)
IXD(e1_nni, read_e1_list<P_nni<int>>)
IXD(e1_ini, read_e1_list<P_ini<int>>)
IXD(e1_nii, read_e1_list<P_nii<int>>)
IXD(e1_a3, read_e1_list<A3>)
IXD(e1_a2, read_e1_list<A2>)
// the other nesting order
IXD(e2_iii, read_e2_list<P_iii<int>>)
IXD(e2_a3, read_e2_list<A3>)

VH_MAIN()
