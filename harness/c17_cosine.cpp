// C17: cosine_similarity
//   nn_cosine_similarity <dtype f|d> <a> <b> <axis> <eps> <defaults 0|1>
#include "c16_common.hpp"
#include "nmtools/array/view/cosine_similarity.hpp"

namespace view = nmtools::view;

VH_OP(nn_cosine_similarity)
{
    vh::with_fdtype(in, out, [&](auto t) {
        using T = decltype(t);
        auto ao = vh::read_foperand(in);
        auto bo = vh::read_foperand(in);
        auto axis = (int)in.i();
        T eps = (T)in.d();
        auto dflt = in.i();
        auto a = vh::to_arr<T>(ao);
        auto b = vh::to_arr<T>(bo);
        if (dflt) {
            auto v = view::cosine_similarity(a, b);
            vh::emit_la(out, v);
        } else {
            auto v = view::cosine_similarity(a, b, axis, eps);
            vh::emit_la(out, v);
        }
    });
}

VH_MAIN()
