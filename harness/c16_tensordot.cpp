// C16: tensordot with a run-time integer number of axes, the default (2), and explicit axis lists
#include "c16_common.hpp"
#include "nmtools/array/view/tensordot.hpp"

namespace view = nmtools::view;

// la_tensordot_n <dtype> <lhs> <rhs> <n>
VH_OP(la_tensordot_n)
{
    vh::with_dtype(in, out, [&](auto t) {
        using T = decltype(t);
        auto lo = vh::read_operand(in);
        auto ro = vh::read_operand(in);
        auto n = (int)in.i();
        auto a = vh::to_arr<T>(lo);
        auto b = vh::to_arr<T>(ro);
        auto v = view::tensordot(a, b, n);
        vh::emit_la(out, v);
    });
}

// la_tensordot_default <dtype> <lhs> <rhs>
VH_OP(la_tensordot_default)
{
    vh::with_dtype(in, out, [&](auto t) {
        using T = decltype(t);
        auto lo = vh::read_operand(in);
        auto ro = vh::read_operand(in);
        auto a = vh::to_arr<T>(lo);
        auto b = vh::to_arr<T>(ro);
        auto v = view::tensordot(a, b);
        vh::emit_la(out, v);
    });
}

// la_tensordot_axes <dtype> <lhs> <rhs> <lhs axes> <rhs axes>
VH_OP(la_tensordot_axes)
{
    vh::with_dtype(in, out, [&](auto t) {
        using T = decltype(t);
        auto lo = vh::read_operand(in);
        auto ro = vh::read_operand(in);
        auto la = in.vec();
        auto ra = in.vec();
        auto a = vh::to_arr<T>(lo);
        auto b = vh::to_arr<T>(ro);
        auto axes = nmtools_tuple<nmtools_list<int>, nmtools_list<int>>{vh::to_list<int>(la), vh::to_list<int>(ra)};
        auto v = view::tensordot(a, b, axes);
        vh::emit_la(out, v);
    });
}

VH_MAIN()
