// Helpers for the GENERATED type-level programs of C09 / C11 (see vf/c09_gen.py).
// The generated code itself only uses nmtools_* macros (so that it means the same under -DNMTOOLS_DISABLE_STL);
// this header and common.hpp are harness code and may use std::.
#ifndef VERIF_HARNESS_C09_COMMON_HPP
#define VERIF_HARNESS_C09_COMMON_HPP

#include "common.hpp"
#include "nmtools/constants.hpp"
#include "nmtools/utility/cast.hpp"

namespace kind = nmtools::array::kind;
namespace ix = nmtools::index;

namespace c9
{
    using vh::Out;
    using vec_t = std::vector<long long>;

    template <typename T>
    using rmcv = std::remove_cv_t<std::remove_reference_t<T>>;

    template <typename T>
    struct is_bool_const : std::false_type {};
    template <bool B>
    struct is_bool_const<std::integral_constant<bool, B>> : std::true_type {};

    // --- normalised emission of any result of an index function --------------------------------------
    //   N                      nothing (maybe without value)
    //   NONE                   None
    //   I <v>                  a single index / number / boolean
    //   V <n> <v...>           index array of any kind
    //   T <n> <item...>        heterogeneous tuple (items recursively)
    //   E <0|1> <item>         either (which alternative)
    //   A .. / S ..            ndarray / scalar (vh::emit_array)
    template <typename T>
    void emit_any(Out& out, const T& r)
    {
        if constexpr (meta::is_maybe_v<T>) {
            if (!nm::has_value(r)) { out.tok("N"); return; }
            emit_any(out, nm::unwrap(r));
        } else if constexpr (nm::is_none_v<T>) {
            out.tok("NONE");
        } else if constexpr (meta::is_fail_v<T>) {
            static_assert(!meta::is_fail_v<T>, "library returned an error type for this configuration");
        } else if constexpr (meta::is_true_type_v<T> || meta::is_false_type_v<T>) {
            out.tok("I");
            out.i(T::value ? 1 : 0);
        } else if constexpr (std::is_same_v<T, bool>) {
            out.tok("I");
            out.i(r ? 1 : 0);
        } else if constexpr (meta::is_constant_index_v<T>) {
            out.tok("I");
            out.i((long long)T::value);
        } else if constexpr (meta::is_index_v<T>) {
            out.tok("I");
            if constexpr (meta::is_clipped_integer_v<T>) {
                using v_t = typename T::value_type;
                out.num((v_t)r);
            } else {
                out.num(r);
            }
        } else if constexpr (std::is_arithmetic_v<T>) {
            out.tok("I");
            out.num(r);
        } else if constexpr (meta::is_index_array_v<T> || meta::is_constant_index_array_v<T> || meta::is_clipped_index_array_v<T>) {
            out.tok("V");
            out.vec(vh::to_vec(r));
        } else if constexpr (meta::is_either_v<T>) {
            using left_t = meta::get_either_left_t<T>;
            using right_t = meta::get_either_right_t<T>;
            out.tok("E");
            if (auto p = nm::get_if<left_t>(&r)) {
                out.i(0);
                emit_any(out, *p);
            } else if (auto q = nm::get_if<right_t>(&r)) {
                out.i(1);
                emit_any(out, *q);
            } else {
                out.i(-1);
            }
        } else if constexpr (meta::is_tuple_v<T>) {
            constexpr auto N = meta::len_v<T>;
            out.tok("T");
            out.i((long long)N);
            meta::template_for<N>([&](auto i) {
                constexpr auto I = decltype(i)::value;
                emit_any(out, nm::get<I>(r));
            });
        } else if constexpr (meta::is_ndarray_v<T> || meta::is_num_v<T>) {
            vh::emit_array(out, r);
        } else {
            static_assert(meta::is_ndarray_v<T>, "c9::emit_any: unsupported result type");
        }
    }

    // --- static knowledge of an index-like result type ----------------------------------------------
    //   K <kind>  kind in: none idx_ct idx_cl idx_rt arr_ct arr_cl arr_fx arr_bd arr_dy tuple other
    //   for idx_cl:  MX <max> MN <min>
    //   for arr_ct:  CV <n> <v...>      (meta::to_value_v)
    //   for arr_cl:  MX <n> <max...>    (meta::to_value_v gives the maxima)
    //   LEN <n|F>  (meta::len_v, 0 when not fixed)   BSZ <n|F> (meta::bounded_size_v)
    template <typename fail_or_num_t>
    void emit_num_or_fail(Out& out, const fail_or_num_t& v)
    {
        if constexpr (meta::is_fail_v<fail_or_num_t>) {
            out.tok("F");
        } else {
            out.i((long long)v);
        }
    }

    template <typename T>
    void emit_index_traits_(Out& out)
    {
        out.tok("K");
        if constexpr (nm::is_none_v<T>) {
            out.tok("none");
        } else if constexpr (meta::is_constant_index_v<T> || meta::is_true_type_v<T> || meta::is_false_type_v<T>) {
            out.tok("idx_ct");
            out.tok("CV");
            out.i((long long)T::value);
        } else if constexpr (meta::is_clipped_integer_v<T>) {
            out.tok("idx_cl");
            out.tok("MX");
            out.i((long long)T::max);
            out.tok("MN");
            out.i((long long)T::min);
        } else if constexpr (meta::is_index_v<T> || std::is_arithmetic_v<T>) {
            out.tok("idx_rt");
        } else if constexpr (meta::is_constant_index_array_v<T>) {
            out.tok("arr_ct");
            out.tok("CV");
            out.vec(vh::to_vec(meta::to_value_v<T>));
        } else if constexpr (meta::is_clipped_index_array_v<T>) {
            out.tok("arr_cl");
            out.tok("MX");
            out.vec(vh::to_vec(meta::to_value_v<T>));
            out.tok("LEN");
            out.i((long long)meta::len_v<T>);
            out.tok("BSZ");
            emit_num_or_fail(out, meta::bounded_size_v<T>);
        } else if constexpr (meta::is_index_array_v<T>) {
            if constexpr (meta::is_fixed_index_array_v<T>) out.tok("arr_fx");
            else if constexpr (meta::is_hybrid_index_array_v<T>) out.tok("arr_bd");
            else out.tok("arr_dy");
            out.tok("LEN");
            out.i((long long)meta::len_v<T>);
            out.tok("BSZ");
            emit_num_or_fail(out, meta::bounded_size_v<T>);
        } else if constexpr (meta::is_tuple_v<T>) {
            out.tok("tuple");
        } else {
            out.tok("other");
        }
    }

    template <typename T>
    void emit_index_traits(Out& out)
    {
        out.tok("M");
        out.i(meta::is_maybe_v<T> ? 1 : 0);
        if constexpr (meta::is_maybe_v<T>) {
            using U = rmcv<meta::get_maybe_type_t<T>>;
            emit_index_traits_<U>(out);
        } else {
            emit_index_traits_<T>(out);
        }
    }

    // --- static knowledge of an array / view type next to the run-time object --------------------------
    //   FS <n v..|F> FD <v|F> FZ <v|F> BD <v|F> BZ <v|F>   RS <n v..> RD <v> RZ <v>
    template <typename T>
    void emit_array_traits_static(Out& out)
    {
        constexpr auto fs = meta::fixed_shape_v<T>;
        constexpr auto fd = meta::fixed_dim_v<T>;
        constexpr auto fz = meta::fixed_size_v<T>;
        constexpr auto bd = meta::bounded_dim_v<T>;
        constexpr auto bz = meta::bounded_size_v<T>;
        out.tok("FS");
        if constexpr (meta::is_fail_v<decltype(fs)>) out.tok("F");
        else out.vec(vh::to_vec(fs));
        out.tok("FD");
        emit_num_or_fail(out, fd);
        out.tok("FZ");
        emit_num_or_fail(out, fz);
        out.tok("BD");
        emit_num_or_fail(out, bd);
        out.tok("BZ");
        emit_num_or_fail(out, bz);
    }

    // shape of any array / view as a vector; a view whose dimension is decided at run time (e.g. run-time keepdims)
    // reports its shape as an either of two index arrays
    template <typename shape_t>
    vec_t shape_to_vec(const shape_t& shape)
    {
        if constexpr (meta::is_either_v<shape_t>) {
            using left_t = meta::get_either_left_t<shape_t>;
            using right_t = meta::get_either_right_t<shape_t>;
            if (auto p = nm::get_if<left_t>(&shape)) return shape_to_vec(*p);
            if (auto q = nm::get_if<right_t>(&shape)) return shape_to_vec(*q);
            return vec_t{};
        } else {
            return vh::to_vec(shape);
        }
    }

    template <typename T>
    void emit_array_runtime(Out& out, const T& a)
    {
        const auto shape = nm::shape(a);
        out.tok("RS");
        out.vec(shape_to_vec(shape));
        out.tok("RD");
        out.i((long long)nm::dim(a));
        out.tok("RZ");
        out.i((long long)nm::size(a));
    }

    template <typename T>
    void emit_array_traits(Out& out, const T& a)
    {
        out.tok("M");
        out.i(meta::is_maybe_v<T> ? 1 : 0);
        if constexpr (meta::is_maybe_v<T>) {
            using U = rmcv<meta::get_maybe_type_t<T>>;
            if constexpr (meta::is_num_v<U>) {
                out.tok("NUM");
            } else {
                emit_array_traits_static<U>(out);
                if (nm::has_value(a)) {
                    emit_array_runtime(out, nm::unwrap(a));
                } else {
                    out.tok("RN");
                }
            }
        } else if constexpr (meta::is_num_v<T>) {
            out.tok("NUM");
        } else {
            emit_array_traits_static<T>(out);
            emit_array_runtime(out, a);
        }
    }

    // --- argument builders (harness side; the element values come from the case line) ------------------
    template <typename A>
    void fill_seq(A& a, const vec_t& v)
    {
        using e_t = rmcv<decltype(nm::at(a, 0))>;
        for (size_t i = 0; i < v.size(); i++) {
            if constexpr (meta::is_clipped_integer_v<e_t>) {
                using v_t = typename e_t::value_type;
                nm::at(a, i) = (v_t)v[i];
            } else {
                nm::at(a, i) = (e_t)v[i];
            }
        }
    }

    inline bool same(const vec_t& a, std::initializer_list<long long> b)
    {
        return a == vec_t(b);
    }

    // fill an ndarray of any kind with labels base + C-order position, through the logical index
    template <typename A>
    void fill_labels(A& a, long long base)
    {
        using elem_t = meta::get_element_type_t<A>;
        const auto shape = nm::shape(a);
        auto sv = vh::to_vec(shape);
        long long label = base;
        constexpr auto fd = meta::fixed_dim_v<A>;
        for (vh::Odo o(sv); !o.end; o.next()) {
            if constexpr (!meta::is_fail_v<decltype(fd)>) {
                // raw / nested / fixed / hybrid arrays only take an index of fixed length
                nmtools_array<nm_size_t, (nm_size_t)fd> idx{};
                for (nm_size_t i = 0; i < (nm_size_t)fd; i++) idx[i] = o.idx[i];
                nm::apply_at(a, idx) = (elem_t)label;
            } else {
                nm::apply_at(a, o.idx) = (elem_t)label;
            }
            label++;
        }
    }
    // same format as vh::emit_array; elements are read with an index of FIXED length whenever the type has a fixed
    // dimension (raw / nested / fixed / hybrid arrays and views over them do not take a dynamic index)
    template <typename array_t>
    void emit_arr(Out& out, const array_t& a)
    {
        if constexpr (meta::is_maybe_v<array_t>) {
            if (!nm::has_value(a)) { out.tok("N"); return; }
            emit_arr(out, nm::unwrap(a));
        } else if constexpr (meta::is_num_v<array_t>) {
            vh::emit_array(out, a);
        } else {
            using elem_t = meta::get_element_type_t<array_t>;
            const auto shape = nm::shape(a);
            auto sv = shape_to_vec(shape);
            out.tok("A");
            out.tok(vh::type_tag<elem_t>());
            out.vec(sv);
            auto n = vh::prod(sv);
            if (n > vh::MAX_EMIT || n < 0) { out.i(-1); return; }
            out.i(n);
            // (a 0-dimensional array has one element, read with the empty index - same convention as vh::emit_array)
            constexpr auto fd = meta::fixed_dim_v<array_t>;
            for (vh::Odo o(sv); !o.end; o.next()) {
                if constexpr (!meta::is_fail_v<decltype(fd)>) {
                    if constexpr ((nm_size_t)fd > 0) {
                        nmtools_array<nm_size_t, (nm_size_t)fd> idx{};
                        for (nm_size_t i = 0; i < (nm_size_t)fd && i < sv.size(); i++) idx[i] = o.idx[i];
                        out.num(static_cast<elem_t>(nm::apply_at(a, idx)));
                    } else {
                        out.num(static_cast<elem_t>(nm::apply_at(a, o.idx)));
                    }
                } else {
                    out.num(static_cast<elem_t>(nm::apply_at(a, o.idx)));
                }
            }
        }
    }
    // hook counters of one phase of a generated instance (then reset):
    //   <tag> <clamp violations> <value> <bound> <events> <capacity violations> <value> <bound> <events> P <clamp_placeholder events>
    // phases: HK0 = operands / arguments built, HK1 = library call (view built and read), HK2 = evaluation
    // clamp_placeholder (site 11): a clamp of the placeholder shape of a default-constructed ndarray (overwritten by resize) -
    // counted, never a violation; trees whose verif.hpp has no such site print 0
    inline void emit_hook_phase(Out& out, const char* tag)
    {
        out.tok(tag);
#ifdef NMTOOLS_VERIF
        const int sites[2] = {nm::verif::CLAMP, nm::verif::SVEC_CAPACITY};
        for (int s : sites) {
            out.u(nm::verif::state.violations[s]);
            out.i(nm::verif::state.first[s][0]);
            out.i(nm::verif::state.first[s][1]);
            out.u(nm::verif::state.events[s]);
        }
        out.tok("P");
        constexpr size_t n_sites = sizeof(nm::verif::state.events) / sizeof(nm::verif::state.events[0]);
        if constexpr (n_sites > 11) {
            out.u(nm::verif::state.events[n_sites > 11 ? 11 : 0]);
        } else {
            out.u(0);
        }
        nm::verif::reset();
#else
        out.tok("0 0 0 0 0 0 0 0 P 0");
#endif
    }
} // namespace c9

#endif
