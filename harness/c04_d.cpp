// C04 (part d): concatenate, stack, hstack, vstack, dstack, column_stack; two operands with disjoint labels
#include "c04_common.hpp"
#include "nmtools/array/view/concatenate.hpp"
#include "nmtools/array/view/stack.hpp"
#include "nmtools/array/view/hstack.hpp"
#include "nmtools/array/view/vstack.hpp"
#include "nmtools/array/view/dstack.hpp"
#include "nmtools/array/view/column_stack.hpp"

namespace view = nmtools::view;
using c04::BASE_A;
using c04::BASE_B;

// concatenate <shape a> <shape b> <axis int>
VH_OP(concatenate)
{
    auto s1 = in.vec();
    auto s2 = in.vec();
    auto ax = (int)in.i();
    auto a = vh::make_arr<int>(s1, BASE_A);
    auto b = vh::make_arr<int>(s2, BASE_B);
    auto v = view::concatenate(a, b, ax);
    c04::emit_view_all(out, v);
}

// concatenate_none <shape a> <shape b>    (axis=None: both flattened)
VH_OP(concatenate_none)
{
    auto s1 = in.vec();
    auto s2 = in.vec();
    auto a = vh::make_arr<int>(s1, BASE_A);
    auto b = vh::make_arr<int>(s2, BASE_B);
    auto v = view::concatenate(a, b, nm::None);
    c04::emit_view_all(out, v);
}

// stack <shape a> <shape b> <axis int>
VH_OP(stack)
{
    auto s1 = in.vec();
    auto s2 = in.vec();
    auto ax = (int)in.i();
    auto a = vh::make_arr<int>(s1, BASE_A);
    auto b = vh::make_arr<int>(s2, BASE_B);
    auto v = view::stack(a, b, ax);
    c04::emit_view_all(out, v);
}

VH_OP(hstack)
{
    auto s1 = in.vec();
    auto s2 = in.vec();
    auto a = vh::make_arr<int>(s1, BASE_A);
    auto b = vh::make_arr<int>(s2, BASE_B);
    auto v = view::hstack(a, b);
    c04::emit_view_all(out, v);
}

VH_OP(vstack)
{
    auto s1 = in.vec();
    auto s2 = in.vec();
    auto a = vh::make_arr<int>(s1, BASE_A);
    auto b = vh::make_arr<int>(s2, BASE_B);
    auto v = view::vstack(a, b);
    c04::emit_view_all(out, v);
}

VH_OP(dstack)
{
    auto s1 = in.vec();
    auto s2 = in.vec();
    auto a = vh::make_arr<int>(s1, BASE_A);
    auto b = vh::make_arr<int>(s2, BASE_B);
    auto v = view::dstack(a, b);
    c04::emit_view_all(out, v);
}

VH_OP(column_stack)
{
    auto s1 = in.vec();
    auto s2 = in.vec();
    auto a = vh::make_arr<int>(s1, BASE_A);
    auto b = vh::make_arr<int>(s2, BASE_B);
    auto v = view::column_stack(a, b);
    c04::emit_view_all(out, v);
}

VH_MAIN()
