// C05 (view level, shared by the c05_v_*.cpp binaries)
//   packed ops   : <op> <shape vec> <3 tokens per part>
//   dynamic ops  : <op> <shape vec> <np> (<kind> a b c)*np
// the source is the fully dynamic ndarray with labels 100 + flat offset; output = vh::emit_view_all
#ifndef VERIF_HARNESS_C05_VIEW_HPP
#define VERIF_HARNESS_C05_VIEW_HPP
#include "viewcommon.hpp"
#include "c05_common.hpp"
#include "nmtools/array/view/slice.hpp"
#include "nmtools/array/view/mutable_slice.hpp"
#include <tuple>

namespace view = nmtools::view;
using namespace c05;

constexpr long long LABEL0 = 100;

// Monitor in front of the element reads: map every result index through the index-level functions the view uses and
// refuse to evaluate when a source index leaves the source shape (reported as "OOB <result shape> <result index> <source index>"),
// so that a wrong slice computation is a recorded event instead of thousands of process deaths.
template <typename slices_t>
static bool precheck(vh::Out& out, const std::vector<long long>& shape, const slices_t& slices)
{
    const auto src_shape = vh::to_shape(shape);
    const auto dshape = ix::apply_shape_slice(src_shape, slices);
    auto dv = vh::to_vec(dshape);
    auto n = vh::prod(dv);
    bool bad = false;
    for (auto e : dv)
        if (e < 0 || e > vh::MAX_EMIT) bad = true;
    if (bad || n > vh::MAX_EMIT) {
        out.tok("OOB");
        out.vec(dv);
        out.tok("0 0");
        return false;
    }
    if (dv.empty()) dv.push_back(1);   // 0-d result: one element, mapped from the empty index
    for (vh::Odo o(dv); !o.end; o.next()) {
        nmtools_list<nm_size_t> idx;
        if (vh::to_vec(dshape).size()) idx = o.idx;
        const auto src = ix::apply_slice(idx, src_shape, slices);
        auto sv = vh::to_vec(src);
        bool in = sv.size() == shape.size();
        for (size_t k = 0; in && k < sv.size(); k++)
            if (sv[k] < 0 || sv[k] >= shape[k]) in = false;
        if (!in) {
            out.tok("OOB");
            out.vec(vh::to_vec(dshape));
            out.vec(vh::to_vec(idx));
            out.vec(sv);
            return false;
        }
    }
    return true;
}

// view::apply_slice(array, slices)
template <typename slices_t>
static void run_view(vh::Out& out, const std::vector<long long>& shape, const slices_t& slices)
{
    if (!precheck(out, shape, slices)) return;
    auto a = vh::make_arr<int>(shape, LABEL0, 1);
    auto v = view::apply_slice(a, slices);
    vh::emit_view_all(out, v);
}

template <typename... P>
static void run_view_packed(vh::Args& in, vh::Out& out)
{
    auto shape = in.vec();
    const auto slices = read_pack<P...>(in);
    run_view(out, shape, slices);
}
#define VP(name, ...) \
    VH_OP(name) { run_view_packed<__VA_ARGS__>(in, out); }

template <typename slices_t>
static void run_view_dyn(vh::Args& in, vh::Out& out, slices_t (*reader)(vh::Args&))
{
    auto shape = in.vec();
    const auto slices = reader(in);
    run_view(out, shape, slices);
}
#define VD(name, reader) \
    VH_OP(name) { run_view_dyn(in, out, &reader); }

// view::slice(array, parts...)  (the variadic front end)
template <typename array_t, typename pack_t, size_t... Is>
static auto call_slice(const array_t& a, const pack_t& pack, std::index_sequence<Is...>)
{
    return view::slice(a, nm::get<Is>(pack)...);
}
template <typename... P>
static void run_view_variadic(vh::Args& in, vh::Out& out)
{
    auto shape = in.vec();
    const auto slices = read_pack<P...>(in);
    if constexpr (sizeof...(P) > 1) {
        if (!precheck(out, shape, slices)) return;
    }
    auto a = vh::make_arr<int>(shape, LABEL0, 1);
    auto v = call_slice(a, slices, std::make_index_sequence<sizeof...(P)>{});
    vh::emit_view_all(out, v);
}
#define VS(name, ...) \
    VH_OP(name) { run_view_variadic<__VA_ARGS__>(in, out); }

// view::apply_mutable_slice: write label 5000+k through the k-th element of the view (own odometer), dump the source buffer
template <typename... P>
static void run_view_mutable(vh::Args& in, vh::Out& out)
{
    auto shape = in.vec();
    const auto slices = read_pack<P...>(in);
    if (!precheck(out, shape, slices)) return;
    auto a = vh::make_arr<int>(shape, LABEL0, 1);
    auto mv = view::apply_mutable_slice(a, slices);
    const auto dshape = nm::shape(mv);
    auto sv = vh::to_vec(dshape);
    out.tok("SH");
    out.vec(sv);
    long long lab = 5000;
    long long n = vh::prod(sv);
    if (n >= 0 && n <= vh::MAX_EMIT && sv.size() > 0) {
        for (vh::Odo o(sv); !o.end; o.next()) nm::apply_at(mv, o.idx) = (int)lab++;
    }
    out.tok("BUF");
    out.i(vh::prod(shape));
    for (long long k = 0; k < vh::prod(shape); k++) out.i(a.data()[k]);
}
#define VM(name, ...) \
    VH_OP(name) { run_view_mutable<__VA_ARGS__>(in, out); }

using I = int;
using E = ellipsis_t;
using R = P_iii<int>;
using Rn = P_nn<int>;
using Ra = P_in<int>;
using Rb = P_ni<int>;
using Rc = P_nni<int>;
using Rd = P_ini<int>;
using Re = P_nii<int>;
using Rf = P_ii<int>;
using Rg = P_iin<int>;
using Rh = P_nin<int>;
using Ri = P_inn<int>;
using Rj = P_nnn<int>;
using A3 = nmtools_array<int, 3>;
using A2 = nmtools_array<int, 2>;

#endif
