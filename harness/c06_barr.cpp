// C06 (view level): view::broadcast_arrays(a,b[,c]) on dynamic / hybrid ndarrays and scalars with unique labels.
// The result is a (maybe) tuple of views: every member is logged through all evaluation routes.
#include "c06_view.hpp"
#include "nmtools/array/view/broadcast_arrays.hpp"

namespace view = nmtools::view;

template <typename result_t>
static void emit_tuple(vh::Out& out, const result_t& r)
{
    out.tok("R");
    out.i(meta::is_maybe_v<result_t> ? 1 : 0);
    bool has = nm::has_value(r);
    out.i(has ? 1 : 0);
    if (!has) return;
    const auto& t = nm::unwrap(r);
    constexpr auto N = meta::len_v<meta::remove_cvref_t<decltype(t)>>;
    out.i((long long)N);
    meta::template_for<N>([&](auto i) {
        constexpr auto I = decltype(i)::value;
        vh::emit_view_all(out, nm::get<I>(t));
    });
}

// barr2 <ka> <kb> <shape a> <shape b> <base a> <base b>
VH_OP(barr2)
{
    auto ka = (int)in.i();
    auto kb = (int)in.i();
    auto sa = in.vec();
    auto sb = in.vec();
    auto ba = in.i();
    auto bb = in.i();
    if (ka == c06::A_NUM && kb == c06::A_NUM) {
        out.tok("ERR both-scalar");
        return;
    }
    if (ka == c06::A_HYB && kb != c06::A_DYN) {
        out.tok("ERR combo");
        return;
    }
    bool ok = c06::with_operand<true, true>(ka, sa, ba, [&](const auto& a) {
        using a_t = meta::remove_cvref_t<decltype(a)>;
        if constexpr (meta::is_num_v<a_t>) {
            // (scalar, dyn)
            bool ok2 = c06::with_operand<false, false>(kb, sb, bb, [&](const auto& b) { emit_tuple(out, view::broadcast_arrays(a, b)); });
            if (!ok2) out.tok("ERR kind-b");
        } else if constexpr (std::is_same_v<a_t, c06::hyb_t>) {
            // (hybrid, dyn)
            bool ok2 = c06::with_operand<false, false>(kb, sb, bb, [&](const auto& b) { emit_tuple(out, view::broadcast_arrays(a, b)); });
            if (!ok2) out.tok("ERR kind-b");
        } else {
            // (dyn, dyn|hybrid|scalar)
            bool ok2 = c06::with_operand<true, true>(kb, sb, bb, [&](const auto& b) { emit_tuple(out, view::broadcast_arrays(a, b)); });
            if (!ok2) out.tok("ERR kind-b");
        }
    });
    if (!ok) out.tok("ERR kind-a");
}

// barr3 <kb> <shape a> <shape b> <shape c> <base a> <base b> <base c>     a, c dynamic; b dynamic or scalar
VH_OP(barr3)
{
    auto kb = (int)in.i();
    auto sa = in.vec();
    auto sb = in.vec();
    auto sc = in.vec();
    auto ba = in.i();
    auto bb = in.i();
    auto bc = in.i();
    if (sa.size() == 0 || sc.size() == 0) {
        out.tok("ERR kind");
        return;
    }
    const auto a = vh::make_arr<int>(sa, ba, 1);
    const auto c = vh::make_arr<int>(sc, bc, 1);
    bool ok = c06::with_operand<false, true>(kb, sb, bb, [&](const auto& b) { emit_tuple(out, view::broadcast_arrays(a, b, c)); });
    if (!ok) out.tok("ERR kind-b");
}

VH_MAIN()
