// C01: multi-index <-> flat offset addressing (index functions, run-time container kinds)
#include "common.hpp"
#include "nmtools/array/index/compute_strides.hpp"
#include "nmtools/array/index/compute_offset.hpp"
#include "nmtools/array/index/compute_indices.hpp"
#include "nmtools/array/index/ndindex.hpp"
#include "nmtools/array/index/product.hpp"
#include <tuple>

namespace ix = nmtools::index;

// emit an index container of any kind
template <typename V>
static void emit_idx(vh::Out& out, const V& v)
{
    out.vec(vh::to_vec(v));
}

// run the round trip for one shape container `shape` and the offsets
template <typename shape_t>
static void roundtrip(vh::Out& out, const shape_t& shape, const std::vector<long long>& offsets)
{
    using elem_t = meta::get_index_element_type_t<shape_t>;
    const auto strides = ix::compute_strides(shape);
    out.tok("ST");
    emit_idx(out, strides);
    out.tok("PR");
    out.num((unsigned long long)ix::product(shape));
    for (auto off : offsets) {
        const auto indices = ix::compute_indices((elem_t)off, shape);
        const auto indices2 = ix::compute_indices((elem_t)off, shape, strides);
        const auto off2 = ix::compute_offset(indices, strides);
        out.tok("O");
        out.i(off);
        emit_idx(out, indices);
        emit_idx(out, indices2);
        out.num((unsigned long long)off2);
    }
}

// multi-index -> offset -> multi-index
template <typename shape_t, typename idx_t>
static void roundtrip_idx(vh::Out& out, const shape_t& shape, const idx_t& idx)
{
    const auto strides = ix::compute_strides(shape);
    const auto off = ix::compute_offset(idx, strides);
    const auto back = ix::compute_indices(off, shape, strides);
    out.tok("I");
    out.num((unsigned long long)off);
    emit_idx(out, back);
}

template <typename T, size_t N, size_t... Is>
static auto make_tuple_n(const std::vector<long long>& v, std::index_sequence<Is...>)
{
    return nmtools_tuple{(T)v[Is]...};
}

template <typename T, size_t N>
static void run_fixed(int kind, vh::Out& out, const std::vector<long long>& shape, const std::vector<long long>& offsets, const std::vector<std::vector<long long>>& idxs)
{
    if (kind == 1) {
        nmtools_array<T, N> s{};
        for (size_t i = 0; i < N; i++) s[i] = (T)shape[i];
        roundtrip(out, s, offsets);
        for (auto& ix_ : idxs) {
            nmtools_array<T, N> m{};
            for (size_t i = 0; i < N; i++) m[i] = (T)ix_[i];
            roundtrip_idx(out, s, m);
        }
    } else {
        if constexpr (N >= 2) {
            const auto s = make_tuple_n<T, N>(shape, std::make_index_sequence<N>{});
            roundtrip(out, s, offsets);
            for (auto& ix_ : idxs) {
                const auto m = make_tuple_n<T, N>(ix_, std::make_index_sequence<N>{});
                roundtrip_idx(out, s, m);
            }
        } else {
            const auto s = nmtools_tuple<T>{(T)shape[0]};
            roundtrip(out, s, offsets);
            for (auto& ix_ : idxs) {
                const auto m = nmtools_tuple<T>{(T)ix_[0]};
                roundtrip_idx(out, s, m);
            }
        }
    }
}

template <typename T>
static void run_kind(int kind, vh::Out& out, const std::vector<long long>& shape, const std::vector<long long>& offsets, const std::vector<std::vector<long long>>& idxs)
{
    if (kind == 0) {
        auto s = vh::to_list<T>(shape);
        roundtrip(out, s, offsets);
        for (auto& ix_ : idxs) roundtrip_idx(out, s, vh::to_list<T>(ix_));
    } else if (kind == 3) {
        nmtools_static_vector<T, 8> s;
        s.resize(shape.size());
        for (size_t i = 0; i < shape.size(); i++) s[i] = (T)shape[i];
        roundtrip(out, s, offsets);
        for (auto& ix_ : idxs) {
            nmtools_static_vector<T, 8> m;
            m.resize(ix_.size());
            for (size_t i = 0; i < ix_.size(); i++) m[i] = (T)ix_[i];
            roundtrip_idx(out, s, m);
        }
    } else {
        switch (shape.size()) {
        case 1: run_fixed<T, 1>(kind, out, shape, offsets, idxs); break;
        case 2: run_fixed<T, 2>(kind, out, shape, offsets, idxs); break;
        case 3: run_fixed<T, 3>(kind, out, shape, offsets, idxs); break;
        case 4: run_fixed<T, 4>(kind, out, shape, offsets, idxs); break;
        case 5: run_fixed<T, 5>(kind, out, shape, offsets, idxs); break;
        case 6: run_fixed<T, 6>(kind, out, shape, offsets, idxs); break;
        default: out.tok("ERR dim"); break;
        }
    }
}

// roundtrip <kind 0=list 1=array 2=tuple 3=static_vector> <etype 0=int 1=size_t 2=int64 3=uint32> shape offsets nidx idx...
VH_OP(roundtrip)
{
    auto kind = (int)in.i();
    auto et = (int)in.i();
    auto shape = in.vec();
    auto offsets = in.vec();
    auto nidx = in.i();
    std::vector<std::vector<long long>> idxs;
    for (long long k = 0; k < nidx; k++) idxs.push_back(in.vec());
    switch (et) {
    case 0: run_kind<int>(kind, out, shape, offsets, idxs); break;
    case 1: run_kind<size_t>(kind, out, shape, offsets, idxs); break;
    case 2: run_kind<int64_t>(kind, out, shape, offsets, idxs); break;
    case 3: run_kind<uint32_t>(kind, out, shape, offsets, idxs); break;
    default: out.tok("ERR etype");
    }
}

// multi-index -> flat offset where every extent, stride and index fits the containers' (narrow) element type but the flat offset
// does not: compute_offset returns nm_size_t, each term must be formed in that type.
// offset_wide <kind 0=list 1=array 3=static_vector> <etype 0=int 3=uint32> strides nidx idx...
template <typename T>
static void offset_wide_kind(int kind, vh::Out& out, const std::vector<long long>& strides, const std::vector<std::vector<long long>>& idxs)
{
    auto emit = [&](const auto& st, const auto& ix_) {
        const auto off = ix::compute_offset(ix_, st);
        out.tok("W");
        out.num((unsigned long long)off);
    };
    if (kind == 0) {
        const auto st = vh::to_list<T>(strides);
        for (auto& i_ : idxs) emit(st, vh::to_list<T>(i_));
    } else if (kind == 3) {
        nmtools_static_vector<T, 8> st;
        st.resize(strides.size());
        for (size_t i = 0; i < strides.size(); i++) st[i] = (T)strides[i];
        for (auto& i_ : idxs) {
            nmtools_static_vector<T, 8> m;
            m.resize(i_.size());
            for (size_t i = 0; i < i_.size(); i++) m[i] = (T)i_[i];
            emit(st, m);
        }
    } else {
        auto fixed = [&](auto n_) {
            constexpr size_t N = decltype(n_)::value;
            nmtools_array<T, N> st{};
            for (size_t i = 0; i < N; i++) st[i] = (T)strides[i];
            for (auto& i_ : idxs) {
                nmtools_array<T, N> m{};
                for (size_t i = 0; i < N; i++) m[i] = (T)i_[i];
                emit(st, m);
            }
        };
        switch (strides.size()) {
        case 2: fixed(std::integral_constant<size_t, 2>{}); break;
        case 3: fixed(std::integral_constant<size_t, 3>{}); break;
        case 4: fixed(std::integral_constant<size_t, 4>{}); break;
        default: out.tok("ERR dim"); break;
        }
    }
}

VH_OP(offset_wide)
{
    auto kind = (int)in.i();
    auto et = (int)in.i();
    auto strides = in.vec();
    auto nidx = in.i();
    std::vector<std::vector<long long>> idxs;
    for (long long k = 0; k < nidx; k++) idxs.push_back(in.vec());
    switch (et) {
    case 0: offset_wide_kind<int>(kind, out, strides, idxs); break;
    case 3: offset_wide_kind<uint32_t>(kind, out, strides, idxs); break;
    default: out.tok("ERR etype");
    }
}

template <typename shape_t>
static void do_ndindex(vh::Out& out, const shape_t& shape)
{
    auto nd = ix::ndindex(shape);
    auto n = nd.size();
    out.tok("ND");
    out.i((long long)n);
    for (size_t k = 0; k < n; k++) emit_idx(out, nd[k]);
}

// ndindex <kind 0=list 1=array 3=static_vector> shape
VH_OP(ndindex)
{
    auto kind = (int)in.i();
    auto shape = in.vec();
    if (kind == 0) {
        do_ndindex(out, vh::to_list<size_t>(shape));
    } else if (kind == 3) {
        nmtools_static_vector<size_t, 8> s;
        s.resize(shape.size());
        for (size_t i = 0; i < shape.size(); i++) s[i] = (size_t)shape[i];
        do_ndindex(out, s);
    } else {
        auto f = [&](auto n) {
            constexpr size_t N = decltype(n)::value;
            nmtools_array<size_t, N> s{};
            for (size_t i = 0; i < N; i++) s[i] = (size_t)shape[i];
            do_ndindex(out, s);
        };
        switch (shape.size()) {
        case 1: f(meta::ct_v<1>); break;
        case 2: f(meta::ct_v<2>); break;
        case 3: f(meta::ct_v<3>); break;
        case 4: f(meta::ct_v<4>); break;
        case 5: f(meta::ct_v<5>); break;
        default: out.tok("ERR dim");
        }
    }
}

// layout: write label(i) through a(i...) for every multi-index (own odometer), dump buffer.
template <typename arr_t>
static void do_layout(vh::Out& out, const std::vector<long long>& shape)
{
    arr_t a;
    bool ok = a.resize(vh::to_shape(shape));
    out.tok(ok ? "OK" : "FAIL");
    auto n = vh::prod(shape);
    // poison
    for (long long k = 0; k < n; k++) a.data()[k] = -1;
    long long label = 0;
    for (vh::Odo o(shape); !o.end; o.next()) {
        nm::apply_at(a, o.idx) = (int)(1000 + label);
        label++;
    }
    out.tok("BUF");
    out.i(n);
    for (long long k = 0; k < n; k++) out.i(a.data()[k]);
    // read back through the const interface and through variadic indices for dim<=3
    const arr_t& ca = a;
    out.tok("RD");
    for (vh::Odo o(shape); !o.end; o.next()) out.i(nm::apply_at(ca, o.idx));
    out.tok("VA");
    if (shape.size() == 1) {
        for (size_t i = 0; i < (size_t)shape[0]; i++) out.i(ca(i));
    } else if (shape.size() == 2) {
        for (size_t i = 0; i < (size_t)shape[0]; i++)
            for (size_t j = 0; j < (size_t)shape[1]; j++) out.i(ca(i, j));
    } else if (shape.size() == 3) {
        for (size_t i = 0; i < (size_t)shape[0]; i++)
            for (size_t j = 0; j < (size_t)shape[1]; j++)
                for (size_t k = 0; k < (size_t)shape[2]; k++) out.i(ca(i, j, k));
    }
    out.tok("SH");
    out.vec(vh::to_vec(nm::shape(ca)));
    out.tok("STR");
    out.vec(vh::to_vec(ca.strides()));
}

// layout <0=row 1=col> <buffer kind 0=list 1=static_vector<int,700>> shape
VH_OP(layout)
{
    auto lay = in.i();
    auto bk = in.i();
    auto shape = in.vec();
    using shp = nmtools_list<size_t>;
    if (lay == 0 && bk == 0) do_layout<na::ndarray_t<nmtools_list<int>, shp>>(out, shape);
    else if (lay == 1 && bk == 0) do_layout<na::column_major_ndarray_t<nmtools_list<int>, shp>>(out, shape);
    else if (lay == 0 && bk == 1) do_layout<na::ndarray_t<nmtools_static_vector<int, 700>, nmtools_static_vector<size_t, 6>>>(out, shape);
    else if (lay == 1 && bk == 1) do_layout<na::column_major_ndarray_t<nmtools_static_vector<int, 700>, nmtools_static_vector<size_t, 6>>>(out, shape);
    else out.tok("ERR");
}

VH_MAIN()
