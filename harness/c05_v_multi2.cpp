// C05 view level: packed multi-axis patterns of length 2
#include "c05_view.hpp"

VP(m_I_I, I, I)
VP(m_I_R, I, R)
VP(m_R_I, R, I)
VP(m_R_R, R, R)
VP(m_I_E, I, E)
VP(m_E_I, E, I)
VP(m_R_E, R, E)
VP(m_E_R, E, R)
VP(m_Ra_Rb, Ra, Rb)
VP(m_Rc_Rd, Rc, Rd)
VP(m_Re_Rf, Re, Rf)
VP(m_Rg_Rh, Rg, Rh)
VP(m_Ri_Rj, Ri, Rj)
VP(m_Rn_I, Rn, I)
VP(m_I_Rc, I, Rc)
VP(m_E_Rd, E, Rd)
VP(m_Rb_E, Rb, E)

VH_MAIN()
