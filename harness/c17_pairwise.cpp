// C17: pairwise_distance
//   nn_pairwise_distance <dtype f|d> <a> <b> <ord> <eps> <keepdims 0|1> <defaults 0|1>
#include "c16_common.hpp"
#include "nmtools/array/view/pairwise_distance.hpp"

namespace view = nmtools::view;

VH_OP(nn_pairwise_distance)
{
    vh::with_fdtype(in, out, [&](auto t) {
        using T = decltype(t);
        auto ao = vh::read_foperand(in);
        auto bo = vh::read_foperand(in);
        auto ord = (int)in.i();
        T eps = (T)in.d();
        auto keepdims = in.i();
        auto dflt = in.i();
        auto a = vh::to_arr<T>(ao);
        auto b = vh::to_arr<T>(bo);
        if (dflt) {
            auto v = view::pairwise_distance(a, b);
            vh::emit_la(out, v);
        } else if (keepdims) {
            auto v = view::pairwise_distance(a, b, ord, eps, nm::True);
            vh::emit_la(out, v);
        } else {
            auto v = view::pairwise_distance(a, b, ord, eps);
            vh::emit_la(out, v);
        }
    });
}

VH_MAIN()
