// C13: host simulation of the device kernels of the CUDA/HIP/SYCL contexts.
//
// What is mirrored (copied from include/nmtools/array/eval/cuda/{evaluator,context}.hpp, cuda API calls replaced
// by host memory):
//   evaluator:  f = get_function_composition(view); operands = get_function_operands(view); context->run(f,output,operands)
//   run:        number operands by value, array operands -> create_array(*arg)   (device copy + static_vector<size_t,8> shape + dim)
//   run_:       out_shape = shape<false,true>(output); out_dim = len(out_shape); out buffer; shape buffer;
//               kernel<<<grid,block>>>(f, out, out_shape_ptr, out_dim, utl::tuple{operands...})
// What is *executed* (the library's own code, called exactly as the __global__ kernels call it):
//   create_mutable_array<0>(out,out_shape_ptr,out_dim); functional::apply(fun,operands);
//   assign_result(output,result,thread_id,block_id,block_size)
#ifndef VERIF_C13_DEVSIM_HPP
#define VERIF_C13_DEVSIM_HPP

#include "common.hpp"
#include "nmtools/array/eval.hpp"
#include "nmtools/array/eval/kernel_helper.hpp"
#include "nmtools/array/functional/functor.hpp"
#include "nmtools/array/functional/function_composition.hpp"
#include "nmtools/utility/tuple_cat.hpp"
#include "nmtools/utility/data.hpp"

#include <atomic>
#include <memory>
#include <thread>

namespace c13
{
    namespace fn = nm::functional;

    // ------------------------------------------------------------------
    // "device" memory: separate heap blocks holding copies (cudaMalloc + cudaMemcpyHostToDevice),
    // with a snapshot to verify that a launch never modifies an operand.
    struct DeviceMem
    {
        struct Block
        {
            std::unique_ptr<unsigned char[]> mem;
            std::vector<unsigned char> snapshot;
            size_t bytes;
        };
        std::vector<Block> blocks;

        template <typename T>
        T* upload(const T* src, size_t n)
        {
            Block b;
            b.bytes = n * sizeof(T);
            // alignment of new unsigned char[] is sufficient for fundamental element types
            b.mem.reset(new unsigned char[b.bytes ? b.bytes : 1]);
            if (b.bytes) std::memcpy(b.mem.get(), src, b.bytes);
            b.snapshot.assign(b.mem.get(), b.mem.get() + b.bytes);
            T* p = reinterpret_cast<T*>(b.mem.get());
            blocks.push_back(std::move(b));
            return p;
        }

        bool intact() const
        {
            for (auto& b : blocks)
                if (b.bytes && std::memcmp(b.mem.get(), b.snapshot.data(), b.bytes) != 0) return false;
            return true;
        }
    };

    using device_shape_t = nmtools_static_vector<size_t, 8>;

    // mirrors cuda::context_t::create_array (hip: identical)
    template <typename array_t>
    auto create_device_array(DeviceMem& mem, const array_t& array)
    {
        static_assert(meta::is_ndarray_v<array_t> && !meta::is_view_v<array_t>, "unsupported array type for create_array");
        const auto buffer = nm::data(array);
        const auto numel = nm::size(array);
        const auto shape = nm::shape(array);
        const auto dim = nm::dim(array);

        using element_t = meta::get_element_type_t<array_t>;
        using dim_t = meta::remove_cvref_t<decltype(dim)>;

        element_t* device_raw_ptr = mem.upload(buffer, (size_t)numel);

        auto device_shape = device_shape_t{};
        device_shape.resize(dim);
        for (size_t i = 0; i < (size_t)dim; i++) {
            nm::at(device_shape, i) = nm::at(shape, i);
        }
        using device_array_t = na::device_array<element_t, device_shape_t, dim_t>;
        return device_array_t{device_raw_ptr, device_shape, dim};
    }

    // mirrors cuda::context_t::run : builds the pack of kernel arguments
    template <typename operands_t>
    auto upload_operands(DeviceMem& mem, const operands_t& args_pack)
    {
        constexpr auto N = meta::len_v<operands_t>;
        return meta::template_reduce<N>([&](auto init, auto index) {
            const auto& arg_i = nm::get<decltype(index)::value>(args_pack);
            using arg_t = meta::remove_cvref_t<decltype(arg_i)>;
            if constexpr (meta::is_num_v<arg_t>) {
                return nm::utility::tuple_append(init, arg_i);
            } else if constexpr (meta::is_pointer_v<arg_t>) {
                auto device_array = create_device_array(mem, *arg_i);
                return nm::utility::tuple_append(init, device_array);
            } else {
                auto device_array = create_device_array(mem, arg_i);
                return nm::utility::tuple_append(init, device_array);
            }
        }, nmtools_tuple<>{});
    }

    template <typename pack_t, size_t... Is>
    auto to_utl_tuple(const pack_t& pack, std::index_sequence<Is...>)
    {
        // run_: utl::tuple{get_(nmtools::get<Is>(args_pack))...}
        return nm::utl::tuple{nm::get<Is>(pack)...};
    }

    // ------------------------------------------------------------------
    // body of nm_cuda_run_function / nm_hip_run_function / the sycl parallel_for lambda; kernel arguments by value
    template <auto out_static_dim = 0, typename function_t, typename out_t, typename out_shape_t, typename out_dim_t, typename operands_t>
    inline void kernel_body(const function_t fun, out_t* out, const out_shape_t* out_shape_ptr, const out_dim_t out_dim,
                            const operands_t operands, size_t thread_x, size_t block_x, size_t block_dim_x)
    {
        auto output = na::create_mutable_array<out_static_dim>(out, out_shape_ptr, out_dim);
        auto result = fn::apply(fun, operands);
        auto thread_id = na::kernel_size<size_t>{{thread_x, 0, 0}};
        auto block_id = na::kernel_size<size_t>{{block_x, 0, 0}};
        auto block_size = na::kernel_size<size_t>{{block_dim_x, 1, 1}};
        na::assign_result(output, result, thread_id, block_id, block_size);
    }

    // ------------------------------------------------------------------
    // second operand route (the OpenCL kernels' way, and the literal text of the property): the kernel receives raw
    // (pointer, shape pointer, dim) triples and every thread rebuilds its operands with create_array<0>(ptr,shape_ptr,dim)
    // (= view::reshape(view::ref(ptr,numel),create_vector(shape_ptr,dim))) before applying the function.
    using cl_size_t = uint32_t;
    template <typename T>
    struct RawOperand
    {
        const T* ptr;
        const cl_size_t* shape_ptr;
        cl_size_t dim;
    };

    template <typename T>
    struct is_raw_operand : std::false_type {};
    template <typename T>
    struct is_raw_operand<RawOperand<T>> : std::true_type {};

    struct ShapeMem
    {
        std::vector<std::unique_ptr<std::vector<cl_size_t>>> bufs;
        std::vector<std::vector<cl_size_t>> snapshots;
        bool intact() const
        {
            for (size_t i = 0; i < bufs.size(); i++) if (*bufs[i] != snapshots[i]) return false;
            return true;
        }
    };

    template <typename x_t>
    auto to_raw(ShapeMem& sm, const x_t& x)
    {
        if constexpr (meta::is_num_v<x_t>) {
            return x;
        } else {
            // x is the device_array built by create_device_array: same device buffer, shape copied to a uint32 buffer
            using T = typename x_t::value_type;
            auto v = std::make_unique<std::vector<cl_size_t>>();
            for (size_t i = 0; i < (size_t)x.dim_; i++) v->push_back((cl_size_t)nm::at(x.shape_, i));
            sm.snapshots.push_back(*v);
            RawOperand<T> r{x.data_, v->data(), (cl_size_t)x.dim_};
            sm.bufs.push_back(std::move(v));
            return r;
        }
    }

    template <typename pack_t, size_t... Is>
    auto to_raw_tuple(ShapeMem& sm, const pack_t& pack, std::index_sequence<Is...>)
    {
        return nm::utl::tuple{to_raw(sm, nm::get<Is>(pack))...};
    }

    template <typename x_t>
    auto rebuild_operand(const x_t& x)
    {
        if constexpr (is_raw_operand<x_t>::value) return na::create_array<0>(x.ptr, x.shape_ptr, x.dim);
        else return x;
    }

    template <typename raw_t, size_t... Is>
    auto rebuild_operands(const raw_t& raw, std::index_sequence<Is...>)
    {
        return nm::utl::tuple{rebuild_operand(nm::get<Is>(raw))...};
    }

    template <auto out_static_dim = 0, typename function_t, typename out_t, typename out_shape_t, typename out_dim_t, typename raw_t>
    inline void kernel_body_raw(const function_t fun, out_t* out, const out_shape_t* out_shape_ptr, const out_dim_t out_dim,
                                const raw_t raw, size_t thread_x, size_t block_x, size_t block_dim_x)
    {
        constexpr auto N = meta::len_v<raw_t>;
        auto operands = rebuild_operands(raw, std::make_index_sequence<N>{});
        auto output = na::create_mutable_array<out_static_dim>(out, out_shape_ptr, out_dim);
        auto result = fn::apply(fun, operands);
        auto thread_id = na::kernel_size<size_t>{{thread_x, 0, 0}};
        auto block_id = na::kernel_size<size_t>{{block_x, 0, 0}};
        auto block_size = na::kernel_size<size_t>{{block_dim_x, 1, 1}};
        na::assign_result(output, result, thread_id, block_id, block_size);
    }

    // geometry of one launch.  style 0: cuda/hip (thread = gid % bs, block = gid / bs, block_size = bs)
    //                          style 1: sycl     (thread = gid, block = 0, block_size = 1)
    struct Launch
    {
        int mt;                 // 0 sequential (per-thread write-set monitor), >0: number of host threads
        int route;              // 0: device_array operands (cuda/hip/sycl kernels), 1: raw triples + create_array (opencl way)
        int style;
        size_t bs;
        size_t nblocks;
        std::vector<long long> order;   // global thread ids in execution order (sequential: may repeat an id)
    };

    inline void split_gid(const Launch& L, size_t gid, size_t& t, size_t& b, size_t& bdim)
    {
        if (L.style == 1) { t = gid; b = 0; bdim = 1; }
        else { t = gid % L.bs; b = gid / L.bs; bdim = L.bs; }
    }

    template <typename T>
    inline bool same_bits(const T& a, const T& b)
    {
        return std::memcmp(&a, &b, sizeof(T)) == 0;
    }

    constexpr long long SENTINEL = -77770000;
    constexpr long long GUARDVAL = -88880000;

    // elementwise comparison of two arrays (either may be a maybe) with the harness' own odometer
    template <typename lhs_t, typename rhs_t>
    bool arrays_equal(const lhs_t& lhs, const rhs_t& rhs)
    {
        if constexpr (meta::is_maybe_v<lhs_t>) {
            if (!nm::has_value(lhs)) return false;
            return arrays_equal(nm::unwrap(lhs), rhs);
        } else if constexpr (meta::is_maybe_v<rhs_t>) {
            if (!nm::has_value(rhs)) return false;
            return arrays_equal(lhs, nm::unwrap(rhs));
        } else if constexpr (meta::is_num_v<lhs_t> || meta::is_num_v<rhs_t>) {
            return false;
        } else {
            const auto ls = nm::shape(lhs);
            const auto rs = nm::shape(rhs);
            auto lv = vh::to_vec(ls), rv = vh::to_vec(rs);
            if (lv != rv) return false;
            using le_t = meta::get_element_type_t<lhs_t>;
            using re_t = meta::get_element_type_t<rhs_t>;
            if constexpr (!std::is_same_v<le_t, re_t>) return false;
            else {
                for (vh::Odo o(lv); !o.end; o.next()) {
                    le_t x = nm::apply_at(lhs, o.idx);
                    re_t y = nm::apply_at(rhs, o.idx);
                    if (!same_bits(x, y)) return false;
                }
                return true;
            }
        }
    }

    // runs all launches of a case on one (unwrapped, non-num) view
    template <bool WITH_RAW, typename view_t>
    void run_view(vh::Args& in, vh::Out& out, const view_t& view)
    {
        // ---- host evaluation (oracle #1, plus the output object the evaluator would allocate)
        auto host = na::eval(view, nm::None, nm::None, na::RowMajorResolver);
        using host_t = decltype(host);
        if constexpr (meta::is_maybe_v<host_t> || meta::is_num_v<host_t> || !meta::is_ndarray_v<host_t>) {
            out.tok("UNSUPPORTED-OUTPUT");
            return;
        } else {
            out.tok("HOST");
            vh::emit_array(out, host);

            // ---- evaluator_t<view,cuda context>::operator()(output)
            auto f = fn::get_function_composition(view);
            const auto& operands = fn::get_function_operands(view);

            // ---- context_t::run
            DeviceMem mem;
            auto gpu_args_pack = upload_operands(mem, operands);
            constexpr auto NARGS = meta::len_v<decltype(gpu_args_pack)>;
            const auto kernel_operands = to_utl_tuple(gpu_args_pack, std::make_index_sequence<NARGS>{});
            ShapeMem shapemem;
            [[maybe_unused]] const auto raw_operands = to_raw_tuple(shapemem, gpu_args_pack, std::make_index_sequence<NARGS>{});
            // ---- extraction check on the host side: apply(composition, device operands), evaluated lazily on one host thread,
            //      must already be the view.  If it is not, no launch can reproduce host evaluation: report and skip the launches.
            {
                const auto extracted = fn::apply(f, kernel_operands);
                // a mis-composed view may throw std::out_of_range while it is read (std::vector::at / std::array::at)
                vh::Out xout;
                bool same = false, threw = false;
                try {
                    vh::emit_array(xout, extracted);
                    same = arrays_equal(host, extracted);
                } catch (const std::exception&) {
                    threw = true;
                }
                out.tok("X");
                if (threw) {
                    out.tok("T");
                } else {
                    out.buf += xout.buf;
                }
                if (!same) {
                    out.tok("NL 0 0 -");
                    return;
                }
            }

            // ---- context_t::run_
            using out_element_t = meta::get_element_type_t<host_t>;
            const auto out_size = (size_t)nm::size(host);
            const auto out_shape = nm::shape<false, /*disable_clipped_index*/ true>(host);
            const auto out_dim = nm::len(out_shape);
            using out_shape_elem_t = meta::get_index_element_type_t<meta::remove_cvref_t<decltype(out_shape)>>;
            std::vector<out_shape_elem_t> shape_buffer;   // create_buffer(out_shape)
            for (size_t i = 0; i < (size_t)out_dim; i++) shape_buffer.push_back((out_shape_elem_t)nm::at(out_shape, i));
            const auto shape_snapshot = shape_buffer;

            // one simulated device thread
            auto one_thread = [&](int route, out_element_t* optr, const out_shape_elem_t* sptr, size_t t, size_t b, size_t bd) {
                if constexpr (WITH_RAW) {
                    if (route == 1) { kernel_body_raw<0>(f, optr, sptr, out_dim, raw_operands, t, b, bd); return; }
                }
                kernel_body<0>(f, optr, sptr, out_dim, kernel_operands, t, b, bd);
            };

            const auto nlaunch = in.i();
            const auto guard = (size_t)in.i();
            out.tok("NL");
            out.i(nlaunch);
            out.i((long long)out_size);
            out.tok(vh::type_tag<out_element_t>());

            std::vector<out_element_t> prev;
            for (long long li = 0; li < nlaunch; li++) {
                Launch L;
                L.mt = (int)in.i();
                L.route = (int)in.i();
                L.style = (int)in.i();
                L.bs = (size_t)in.i();
                L.nblocks = (size_t)in.i();
                L.order = in.vec();
                if (in.bad || L.bs == 0) { out.tok("ERR bad-launch"); return; }
                if (L.route == 1 && !WITH_RAW) { out.tok("ERR no-raw-route"); return; }

                // output_buffer = create_buffer<out_element_t>(out_size), here with guard regions on both sides
                std::vector<out_element_t> buf(guard + out_size + guard);
                for (size_t k = 0; k < buf.size(); k++)
                    buf[k] = (k < guard || k >= guard + out_size) ? (out_element_t)GUARDVAL : (out_element_t)SENTINEL;
                out_element_t* out_ptr = buf.data() + guard;
                const out_shape_elem_t* shape_ptr = shape_buffer.data();

#ifdef NMTOOLS_VERIF
                nm::verif::reset();
#endif
                long long stray = 0;       // cells other than the thread's own that changed during one thread
                long long oob_writes = 0;  // cells changed by a thread with gid >= size
                long long own_writes = 0;  // threads with gid < size after which out[gid] differs from the sentinel
                long long executed = 0, executed_in = 0;
                if (L.mt <= 0) {
                    std::vector<out_element_t> shadow = buf;
                    for (auto g : L.order) {
                        size_t gid = (size_t)g, t, b, bd;
                        split_gid(L, gid, t, b, bd);
                        one_thread(L.route, out_ptr, shape_ptr, t, b, bd);
                        executed++;
                        if (gid < out_size) executed_in++;
                        for (size_t k = 0; k < buf.size(); k++) {
                            if (!same_bits(buf[k], shadow[k])) {
                                if (gid >= out_size) oob_writes++;
                                else if (k != guard + gid) stray++;
                                shadow[k] = buf[k];
                            }
                        }
                        if (gid < out_size && !same_bits(buf[guard + gid], (out_element_t)SENTINEL)) own_writes++;
                    }
                } else {
                    // real concurrency: P host threads, static partition of the launch, released together
                    const size_t P = (size_t)L.mt;
                    std::atomic<int> go{0};
                    std::vector<std::thread> pool;
                    const auto* order = &L.order;
                    for (size_t w = 0; w < P; w++) {
                        pool.emplace_back([&, w]() {
                            while (go.load(std::memory_order_acquire) == 0) std::this_thread::yield();
                            for (size_t k = w; k < order->size(); k += P) {
                                size_t gid = (size_t)(*order)[k], t, b, bd;
                                split_gid(L, gid, t, b, bd);
                                one_thread(L.route, out_ptr, shape_ptr, t, b, bd);
                            }
                        });
                    }
                    go.store(1, std::memory_order_release);
                    for (auto& th : pool) th.join();
                    for (auto g : L.order) { executed++; if ((size_t)g < out_size) executed_in++; }
                    stray = -1; oob_writes = -1; own_writes = -1;
                }
                unsigned long long hev = 0, hvi = 0;
                long long hf0 = 0, hf1 = 0;
#ifdef NMTOOLS_VERIF
                hev = nm::verif::state.events[nm::verif::KERNEL_WRITE];
                hvi = nm::verif::state.violations[nm::verif::KERNEL_WRITE];
                hf0 = nm::verif::state.first[nm::verif::KERNEL_WRITE][0];
                hf1 = nm::verif::state.first[nm::verif::KERNEL_WRITE][1];
#endif
                out.tok("L");
                out.i(executed);
                out.i(executed_in);
                out.u(hev);
                out.u(hvi);
                out.i(hf0);
                out.i(hf1);
                out.i(stray);
                out.i(oob_writes);
                out.i(own_writes);
                out.i(mem.intact() && shapemem.intact() ? 1 : 0);
                out.i(shape_buffer == shape_snapshot ? 1 : 0);
                // bounds-hook violations at any other site during this launch: "<nsites> {site first0 first1}"
                {
                    std::vector<long long> hv;
#ifdef NMTOOLS_VERIF
                    for (int s = 0; s < nm::verif::NUM_SITES; s++) {
                        if (s == nm::verif::KERNEL_WRITE || s == nm::verif::CLAMP || s == nm::verif::EVAL_SKIP) continue;
                        if (nm::verif::state.violations[s]) {
                            hv.push_back(s);
                            hv.push_back(nm::verif::state.first[s][0]);
                            hv.push_back(nm::verif::state.first[s][1]);
                        }
                    }
#endif
                    out.vec(hv);
                }
                bool same = prev.size() == buf.size();
                for (size_t k = 0; same && k < buf.size(); k++) same = same_bits(prev[k], buf[k]);
                if (same) {
                    out.tok("SAME");
                } else {
                    out.tok("BUF");
                    out.i((long long)buf.size());
                    for (auto& x : buf) out.num(x);
                    prev = buf;
                }
            }
        }
    }

    template <bool WITH_RAW, typename view_t>
    void run_any(vh::Args& in, vh::Out& out, const view_t& view)
    {
        if constexpr (meta::is_maybe_v<view_t>) {
            out.tok("M 1");
            if (!nm::has_value(view)) { out.tok("NOVIEW"); return; }
            run_view<WITH_RAW>(in, out, nm::unwrap(view));
        } else {
            out.tok("M 0");
            run_view<WITH_RAW>(in, out, view);
        }
    }

    // operands of a case: up to three arrays of element type T, values num/den
    template <typename T>
    struct Operands
    {
        vh::dyn_t<T> a, b, c;
        std::vector<long long> p;   // integer parameters (axes, shapes, ...)
    };

    template <typename T>
    vh::dyn_t<T> read_array(vh::Args& in, long long den)
    {
        auto shape = in.vec();
        auto data = in.vec();
        vh::dyn_t<T> r;
        if (shape.empty()) { shape.push_back(1); }
        r.resize(vh::to_shape(shape));
        auto n = vh::prod(shape);
        for (long long k = 0; k < n; k++) {
            long long v = k < (long long)data.size() ? data[(size_t)k] : 0;
            if constexpr (std::is_floating_point_v<T>) r.data()[k] = (T)v / (T)den;
            else r.data()[k] = (T)(v / den);
        }
        return r;
    }

    // case line:  <id> run <pipeline> <den> <A shape> <A data> <B shape> <B data> <C shape> <C data> <params>
    //             <nlaunch> <guard> { <mt> <route> <style> <bs> <nblocks> <order> }*
    template <typename T>
    Operands<T> read_operands(vh::Args& in)
    {
        Operands<T> o;
        auto den = in.i();
        if (den == 0) den = 1;
        o.a = read_array<T>(in, den);
        o.b = read_array<T>(in, den);
        o.c = read_array<T>(in, den);
        o.p = in.vec();
        return o;
    }

    inline long long par(const std::vector<long long>& p, size_t i, long long dflt = 0)
    {
        return i < p.size() ? p[i] : dflt;
    }

    template <typename I = int>
    nmtools_list<I> parlist(const std::vector<long long>& p, size_t from, size_t n)
    {
        nmtools_list<I> r;
        for (size_t i = 0; i < n; i++) r.push_back((I)par(p, from + i));
        return r;
    }
} // namespace c13

#endif
