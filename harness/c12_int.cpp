// C12 harness, op group "int" (see c12_simd.hpp); context chosen with -DC12_CTX=<n>
#define C12_GROUP_INT
#include "c12_simd.hpp"
