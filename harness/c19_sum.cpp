// C19: history driver for utl::maybe (vs std::optional) and utl::either (vs std::variant)
// element types: int, double, a counted non-trivial type (constructor/destructor balance, assignment into
// unconstructed storage) and utl::vector<int> (heap blocks through the counting allocator).
#include "c19_elem.hpp"

namespace
{
    using c19::Counted;
    using c19::Elem;
    using c19::model_t;
    using c19::Step;
    using c19::VecInt;
    using c19::vid;

    // ------------------------------------------------------------------ maybe
    template <typename E>
    struct MaybeM
    {
        using L = utl::maybe<E>;
        using ME = model_t<E>;
        using M = std::optional<ME>;
        static constexpr int NS = 2;
        static constexpr bool refine_leak0 = false;
        c19::Slot<L> lib[2];
        std::optional<M> mod[2];
        int fill = 0, kstep = 0;
        std::string clsbuf;

        void finish()
        {
            for (int s = 0; s < NS; s++) {
                lib[s].kill();
                mod[s].reset();
            }
        }
        void begin(int f)
        {
            finish();
            fill = f;
        }
        long refused() const { return 0; }
        const char* special() { return nullptr; }
        const char* first_name() const { return "has_value"; }
        void extra(std::string&) {}
        long block_bound() const
        {
            long b = 0;
            for (int s = 0; s < NS; s++)
                if (mod[s] && mod[s]->has_value()) b += Elem<E>::vectors;
            return b;
        }
        char hv(int s) const { return (mod[s] && mod[s]->has_value()) ? 'V' : 'N'; }
        const char* cls(const char* base, const char* suffix)
        {
            clsbuf = base;
            clsbuf += suffix;
            return clsbuf.c_str();
        }
        void state(bool islib, int s, std::string& out)
        {
            if (!mod[s]) {
                out += " -";
                return;
            }
            if (!islib) {
                const M& m = *mod[s];
                c19::put(out, m.has_value() ? 1 : 0);
                if (m.has_value()) Elem<E>::print(out, *m);
                return;
            }
            L& l = *lib[s];
            const L& c = l;
            bool h = (kstep % 2) ? c.has_value() : static_cast<bool>(c);
            c19::put(out, h ? 1 : 0);
            if (h != mod[s]->has_value()) return;  // do not read a value the model does not vouch for
            if (h) {
                switch (kstep % 4) {
                case 0: Elem<E>::print(out, l.value()); break;
                case 1: Elem<E>::print(out, *l); break;
                case 2: Elem<E>::print(out, c.value()); break;
                default: Elem<E>::print(out, *c); break;
                }
            }
        }
        const char* apply(const Step& st, int k)
        {
            kstep = k;
            const int x = st.x, a = st.a;
            switch (st.op) {
            case 0:
                if (!mod[x]) return "skip";
                {
                    char b[2] = {hv(x), 0};
                    cls("destroy_", b);
                }
                lib[x].kill();
                mod[x].reset();
                return clsbuf.c_str();
            case 1:
                if (mod[x]) return nullptr;
                lib[x].make(fill, [&](void* p) { new (p) L(); });
                mod[x].emplace();
                return "ctor_default";
            case 2:
                if (mod[x]) return nullptr;
                lib[x].make(fill, [&](void* p) { new (p) L(utl::nothing); });
                mod[x].emplace();
                return "ctor_nothing";
            case 3: {
                if (mod[x]) return nullptr;
                {
                    E v = Elem<E>::lib(vid(k, 0));
                    lib[x].make(fill, [&](void* p) { new (p) L(v); });
                }
                {
                    ME v = Elem<E>::mod(vid(k, 0));
                    mod[x].emplace(std::in_place, v);
                }
                return "ctor_val";
            }
            case 4: {
                if (a == x || a < 0 || a >= NS || !mod[a]) return "skip";
                if (mod[x]) return nullptr;
                lib[x].make(fill, [&](void* p) { new (p) L(*lib[a]); });
                mod[x].emplace(*mod[a]);
                char b[2] = {hv(a), 0};
                return cls("copy_ctor_", b);
            }
            case 5: {
                if (a < 0 || a >= NS || !mod[a] || !mod[x]) return "skip";
                char b[6] = {'d', hv(x), '_', 's', hv(a), 0};
                L& dst = *lib[x];
                const L& src = *lib[a];
                dst = src;
                M tmp = *mod[a];
                *mod[x] = tmp;
                return cls(a == x ? "assign_self_" : "assign_other_", b);
            }
            case 6: {
                if (!mod[x]) return "skip";
                char b[3] = {'d', hv(x), 0};
                {
                    E v = Elem<E>::lib(vid(k, 0));
                    *lib[x] = v;
                }
                {
                    ME v = Elem<E>::mod(vid(k, 0));
                    *mod[x] = v;
                }
                return cls("assign_val_", b);
            }
            case 7: {
                if (!mod[x]) return "skip";
                char b[3] = {'d', hv(x), 0};
                *lib[x] = utl::nothing;
                *mod[x] = std::nullopt;
                return cls("assign_nothing_", b);
            }
            case 8: {
                if (!mod[x] || !mod[x]->has_value()) return "skip";
                if (!(*lib[x]).has_value()) return "skip";  // state mismatch is reported by the comparison
                Elem<E>::mutate((k % 2) ? *(*lib[x]) : (*lib[x]).value(), vid(k, 0));
                Elem<E>::mutate(**mod[x], vid(k, 0));
                return "mutate";
            }
            default: return "skip";
            }
        }
    };

    // ------------------------------------------------------------------ either
    template <typename A, typename B>
    struct EitherM
    {
        using L = utl::either<A, B>;
        using MA = model_t<A>;
        using MB = model_t<B>;
        using M = std::variant<MA, MB>;
        static constexpr int NS = 2;
        static constexpr bool refine_leak0 = false;
        c19::Slot<L> lib[2];
        std::optional<M> mod[2];
        int fill = 0, kstep = 0;
        std::string clsbuf;

        void finish()
        {
            for (int s = 0; s < NS; s++) {
                lib[s].kill();
                mod[s].reset();
            }
        }
        void begin(int f)
        {
            finish();
            fill = f;
        }
        long refused() const { return 0; }
        const char* special() { return nullptr; }
        const char* first_name() const { return "alternative"; }
        void extra(std::string&) {}
        long block_bound() const
        {
            long b = 0;
            for (int s = 0; s < NS; s++)
                if (mod[s]) b += (mod[s]->index() == 0) ? Elem<A>::vectors : Elem<B>::vectors;
            return b;
        }
        char alt(int s) const { return (mod[s] && mod[s]->index() == 1) ? 'R' : 'L'; }
        const char* cls(const char* base, const char* suffix)
        {
            clsbuf = base;
            clsbuf += suffix;
            return clsbuf.c_str();
        }
        void state(bool islib, int s, std::string& out)
        {
            if (!mod[s]) {
                out += " -";
                return;
            }
            if (!islib) {
                const M& m = *mod[s];
                c19::put(out, (long long)m.index());
                out += " ok";
                if (m.index() == 0) Elem<A>::print(out, std::get<0>(m));
                else Elem<B>::print(out, std::get<1>(m));
                return;
            }
            L& l = *lib[s];
            const L& c = l;
            auto idx = (long long)c.index();
            c19::put(out, idx);
            if (idx != (long long)mod[s]->index()) return;
            const A* pa;
            const B* pb;
            switch (kstep % 3) {
            case 0:
                pa = c.template get_if<A>();
                pb = c.template get_if<B>();
                break;
            case 1:
                pa = nm::get_if<A>(&c);
                pb = nm::get_if<B>(&c);
                break;
            default:
                pa = nm::get_if<A>(&l);
                pb = l.template get_if<B>();
                break;
            }
            bool ok = (idx == 0) ? (pa && !pb) : (pb && !pa);
            out += ok ? " ok" : " bad";
            if (!ok) return;
            if (idx == 0) Elem<A>::print(out, *pa);
            else Elem<B>::print(out, *pb);
        }
        const char* apply(const Step& st, int k)
        {
            kstep = k;
            const int x = st.x, a = st.a;
            switch (st.op) {
            case 0:
                if (!mod[x]) return "skip";
                {
                    char b[2] = {alt(x), 0};
                    cls("destroy_", b);
                }
                lib[x].kill();
                mod[x].reset();
                return clsbuf.c_str();
            case 1:
                if (mod[x]) return nullptr;
                lib[x].make(fill, [&](void* p) { new (p) L(); });
                mod[x].emplace();
                return "ctor_default";
            case 2: {
                if (mod[x]) return nullptr;
                {
                    A v = Elem<A>::lib(vid(k, 0));
                    lib[x].make(fill, [&](void* p) { new (p) L(v); });
                }
                {
                    MA v = Elem<A>::mod(vid(k, 0));
                    mod[x].emplace(std::in_place_index<0>, v);
                }
                return "ctor_left";
            }
            case 3: {
                if (mod[x]) return nullptr;
                {
                    B v = Elem<B>::lib(vid(k, 0));
                    lib[x].make(fill, [&](void* p) { new (p) L(v); });
                }
                {
                    MB v = Elem<B>::mod(vid(k, 0));
                    mod[x].emplace(std::in_place_index<1>, v);
                }
                return "ctor_right";
            }
            case 4: {
                if (a == x || a < 0 || a >= NS || !mod[a]) return "skip";
                if (mod[x]) return nullptr;
                lib[x].make(fill, [&](void* p) { new (p) L(*lib[a]); });
                mod[x].emplace(*mod[a]);
                char b[2] = {alt(a), 0};
                return cls("copy_ctor_", b);
            }
            case 5: {
                if (a < 0 || a >= NS || !mod[a] || !mod[x]) return "skip";
                char b[6] = {'d', alt(x), '_', 's', alt(a), 0};
                L& dst = *lib[x];
                const L& src = *lib[a];
                dst = src;
                M tmp = *mod[a];
                *mod[x] = tmp;
                return cls(a == x ? "assign_self_" : "assign_other_", b);
            }
            case 6: {
                if (!mod[x]) return "skip";
                char b[3] = {'d', alt(x), 0};
                {
                    A v = Elem<A>::lib(vid(k, 0));
                    *lib[x] = v;
                }
                {
                    MA v = Elem<A>::mod(vid(k, 0));
                    mod[x]->template emplace<0>(v);
                }
                return cls("assign_left_", b);
            }
            case 7: {
                if (!mod[x]) return "skip";
                char b[3] = {'d', alt(x), 0};
                {
                    B v = Elem<B>::lib(vid(k, 0));
                    *lib[x] = v;
                }
                {
                    MB v = Elem<B>::mod(vid(k, 0));
                    mod[x]->template emplace<1>(v);
                }
                return cls("assign_right_", b);
            }
            case 8: {
                if (!mod[x]) return "skip";
                L& l = *lib[x];
                if ((long long)l.index() != (long long)mod[x]->index()) return "skip";
                if (mod[x]->index() == 0) {
                    auto p = l.template get_if<A>();
                    if (!p) return "skip";
                    Elem<A>::mutate(*p, vid(k, 0));
                    Elem<A>::mutate(std::get<0>(*mod[x]), vid(k, 0));
                    return "mutate_L";
                } else {
                    auto p = nm::get_if<B>(&l);
                    if (!p) return "skip";
                    Elem<B>::mutate(*p, vid(k, 0));
                    Elem<B>::mutate(std::get<1>(*mod[x]), vid(k, 0));
                    return "mutate_R";
                }
            }
            default: return "skip";
            }
        }
    };

    template <typename M>
    void go(vh::Args& in, vh::Out& out, int en)
    {
        if (en == 1) c19::op_enum<M>(in, out);
        else if (en == 2) c19::op_histq<M>(in, out);
        else c19::op_hist<M>(in, out);
    }
    void dispatch(vh::Args& in, vh::Out& out, int en)
    {
        auto kind = in.i();
        auto et = in.i();
        if (kind == 0) {
            switch (et) {
            case 0: go<MaybeM<int>>(in, out, en); break;
            case 1: go<MaybeM<double>>(in, out, en); break;
            case 2: go<MaybeM<Counted>>(in, out, en); break;
            case 3: go<MaybeM<VecInt>>(in, out, en); break;
            default: out.tok("ERR etype");
            }
        } else if (kind == 1) {
            switch (et) {
            case 0: go<EitherM<int, double>>(in, out, en); break;
            case 1: go<EitherM<Counted, int>>(in, out, en); break;
            case 2: go<EitherM<int, Counted>>(in, out, en); break;
            case 3: go<EitherM<VecInt, int>>(in, out, en); break;
            case 4: go<EitherM<int, VecInt>>(in, out, en); break;
            default: out.tok("ERR etype");
            }
        } else out.tok("ERR kind");
    }
} // namespace

// hist <kind 0=maybe 1=either> <etype> <fill> <nsteps> (op x a)*
VH_OP(hist) { dispatch(in, out, 0); }
VH_OP(histq) { dispatch(in, out, 2); }
// enum <kind> <etype> <fill> <alphabet> <prefix> <depth>
VH_OP(enum) { dispatch(in, out, 1); }

VH_MAIN()
