// C07 shared machinery: element-wise functions on operands whose data come from the case file.
//
// Case line (after "<id> <op>"):
//   <form> <operand>{arity} <npairs*arity> <flat data index>...
// form: one letter per operand
//   A  dynamic ndarray            operand = <shape vec> <n> <data...>
//   S  scalar (num)               operand = 0 1 <value>
//   T  view::transpose(base,axes) operand = <base shape vec> <n> <data...> <axes vec>
//   L  view::apply_slice(base,..) operand = <base shape vec> <n> <data...> <starts vec> <stops vec>
// Output: the view through vh::emit_view_all, then
//   X <tag of decltype(scalar_op(a,b))> <tag of decltype(view(i...))> <n> <scalar_op applied to the designated scalars>
// The scalar results are computed in a plain loop over std::vector data: no view, no broadcasting, no evaluator.
#ifndef VERIF_HARNESS_C07_COMMON_HPP
#define VERIF_HARNESS_C07_COMMON_HPP

#include "viewcommon.hpp"
#include <stdexcept>
#include "nmtools/array/view/transpose.hpp"
#include "nmtools/array/view/slice.hpp"
#include "nmtools/array/view/ufunc.hpp"

namespace view = nmtools::view;

namespace c07
{
    using vh::Args;
    using vh::Out;

    template <typename T>
    T rd(Args& in)
    {
        if constexpr (std::is_floating_point_v<T>) return (T)in.d();
        else if constexpr (std::is_same_v<T, bool>) return in.i() != 0;
        else if constexpr (std::is_unsigned_v<T>) return (T)in.u();
        else return (T)in.i();
    }

    template <typename T>
    struct Operand
    {
        std::vector<long long> shape;
        std::vector<T> data;
        std::vector<long long> aux0, aux1;
        Operand(Args& in, char form)
        {
            shape = in.vec();
            auto n = in.i();
            for (long long k = 0; k < n; k++) data.push_back(rd<T>(in));
            if (form == 'T') aux0 = in.vec();
            if (form == 'L') { aux0 = in.vec(); aux1 = in.vec(); }
        }
        vh::dyn_t<T> arr() const
        {
            vh::dyn_t<T> a;
            a.resize(vh::to_shape(shape));
            if ((long long)data.size() != vh::prod(shape)) throw std::runtime_error("operand data/shape mismatch");
            for (size_t k = 0; k < data.size(); k++) a.data()[k] = data[k];
            return a;
        }
        T scalar() const { return data.at(0); }
        auto axes() const { return vh::to_list<int>(aux0); }
        auto slices() const
        {
            nmtools_list<nmtools_array<int, 2>> s;
            s.resize(aux0.size());
            for (size_t k = 0; k < aux0.size(); k++) s[k] = {(int)aux0[k], (int)aux1[k]};
            return s;
        }
    };

    template <typename view_t>
    const char* access_tag()
    {
        if constexpr (meta::is_maybe_v<view_t>) {
            return access_tag<meta::get_maybe_type_t<view_t>>();
        } else if constexpr (meta::is_num_v<view_t>) {
            return vh::type_tag<meta::get_element_type_t<view_t>>();
        } else {
            using r_t = decltype(nm::apply_at(std::declval<const view_t&>(), std::declval<const nmtools_list<nm_size_t>&>()));
            return vh::type_tag<r_t>();
        }
    }

    // vh::emit_view_all reads the raw buffer of the column-major result through data(); a bool result lives in a
    // std::vector<bool> whose data() does not compile.  Same record for bool-valued views, with an empty CB section.
    template <typename view_t>
    void emit_eval_routes_bool(Out& out, const view_t& v)
    {
        if constexpr (meta::is_maybe_v<view_t>) {
            if (!nm::has_value(v)) { out.tok("E N C N O N"); return; }
            emit_eval_routes_bool(out, nm::unwrap(v));
        } else if constexpr (meta::is_num_v<view_t>) {
            vh::emit_eval_routes(out, v);
        } else {
            out.tok("E");
            { auto r = na::eval(v, nm::None, nm::None, na::RowMajorResolver); vh::emit_array(out, r); }
            out.tok("C");
            { auto r = na::eval(v, nm::None, nm::None, na::ColumnMajorResolver); vh::emit_array(out, r); }
            out.tok("CB"); out.i(0);
            out.tok("O");
            vh::dyn_t<int> o;
            const auto shape = nm::shape(v);
            auto sv = vh::to_vec(shape);
            auto n = vh::prod(sv);
            if (sv.size() == 0 || n > vh::MAX_EMIT) { out.tok("N"); }
            else {
                o.resize(vh::to_shape(sv));
                for (long long k = 0; k < n; k++) o.data()[k] = (int)vh::SENTINEL;
                na::eval(v, nm::None, o, na::RowMajorResolver);
                vh::emit_array(out, o);
            }
        }
    }

    template <typename view_t>
    struct inner_elem { using type = meta::get_element_type_t<view_t>; };
    template <typename view_t>
    struct inner_elem<nmtools_maybe<view_t>> { using type = meta::get_element_type_t<view_t>; };

    template <typename view_t>
    void emit_view_all_any(Out& out, const view_t& v)
    {
        using elem_t = typename inner_elem<view_t>::type;
        if constexpr (std::is_same_v<elem_t, bool>) {
            out.tok("M");
            out.i(meta::is_maybe_v<view_t> ? 1 : 0);
            out.tok("V");
            vh::emit_array(out, v);
            emit_eval_routes_bool(out, v);
        } else {
            vh::emit_view_all(out, v);
        }
    }

    template <typename R, typename view_t>
    void emit(Out& out, const view_t& v)
    {
        emit_view_all_any(out, v);
        out.tok("X");
        out.tok(vh::type_tag<R>());
        out.tok(access_tag<view_t>());
    }

    // which operand forms are instantiated for an op
    enum : unsigned {
        F_A = 1, F_S = 2, F_T = 4, F_L = 8,                                        // unary
        F_AA = 1, F_AS = 2, F_SA = 4, F_SS = 8, F_TA = 16, F_AL = 32, F_TL = 64,   // binary
        F_AAA = 1, F_ASS = 2, F_SAA = 4, F_AAS = 8, F_ASA = 16, F_TAL = 32, F_SSS = 64, // ternary
    };

    template <unsigned MASK, typename A, typename VF, typename SF>
    void unary(Args& in, Out& out, VF vf, SF sf)
    {
        std::string form = in.s();
        Operand<A> oa(in, form.size() > 0 ? form[0] : '?');
        auto pairs = in.vec();
        using R = decltype(sf(std::declval<A>()));
        bool done = false;
        if constexpr ((MASK & F_A) != 0) if (form == "A") {
            auto a = oa.arr();
            auto v = vf(a);
            emit<R>(out, v); done = true;
        }
        if constexpr ((MASK & F_S) != 0) if (form == "S") {
            A a = oa.scalar();
            auto v = vf(a);
            emit<R>(out, v); done = true;
        }
        if constexpr ((MASK & F_T) != 0) if (form == "T") {
            auto a = oa.arr();
            auto ta = view::transpose(a, oa.axes());
            auto v = vf(ta);
            emit<R>(out, v); done = true;
        }
        if constexpr ((MASK & F_L) != 0) if (form == "L") {
            auto a = oa.arr();
            auto la = view::apply_slice(a, oa.slices());
            auto v = vf(la);
            emit<R>(out, v); done = true;
        }
        if (!done) { out.tok("ERR form-not-built"); return; }
        out.i((long long)pairs.size());
        for (auto k : pairs) out.num(static_cast<R>(sf(oa.data.at((size_t)k))));
    }

    template <unsigned MASK, typename A, typename B, typename VF, typename SF>
    void binary(Args& in, Out& out, VF vf, SF sf)
    {
        std::string form = in.s();
        Operand<A> oa(in, form.size() > 0 ? form[0] : '?');
        Operand<B> ob(in, form.size() > 1 ? form[1] : '?');
        auto pairs = in.vec();
        using R = decltype(sf(std::declval<A>(), std::declval<B>()));
        bool done = false;
        if constexpr ((MASK & F_AA) != 0) if (form == "AA") {
            auto a = oa.arr(); auto b = ob.arr();
            auto v = vf(a, b);
            emit<R>(out, v); done = true;
        }
        if constexpr ((MASK & F_AS) != 0) if (form == "AS") {
            auto a = oa.arr(); B b = ob.scalar();
            auto v = vf(a, b);
            emit<R>(out, v); done = true;
        }
        if constexpr ((MASK & F_SA) != 0) if (form == "SA") {
            A a = oa.scalar(); auto b = ob.arr();
            auto v = vf(a, b);
            emit<R>(out, v); done = true;
        }
        if constexpr ((MASK & F_SS) != 0) if (form == "SS") {
            A a = oa.scalar(); B b = ob.scalar();
            auto v = vf(a, b);
            emit<R>(out, v); done = true;
        }
        if constexpr ((MASK & F_TA) != 0) if (form == "TA") {
            auto a = oa.arr(); auto b = ob.arr();
            auto ta = view::transpose(a, oa.axes());
            auto v = vf(ta, b);
            emit<R>(out, v); done = true;
        }
        if constexpr ((MASK & F_AL) != 0) if (form == "AL") {
            auto a = oa.arr(); auto b = ob.arr();
            auto lb = view::apply_slice(b, ob.slices());
            auto v = vf(a, lb);
            emit<R>(out, v); done = true;
        }
        if constexpr ((MASK & F_TL) != 0) if (form == "TL") {
            auto a = oa.arr(); auto b = ob.arr();
            auto ta = view::transpose(a, oa.axes());
            auto lb = view::apply_slice(b, ob.slices());
            auto v = vf(ta, lb);
            emit<R>(out, v); done = true;
        }
        if (!done) { out.tok("ERR form-not-built"); return; }
        out.i((long long)pairs.size() / 2);
        for (size_t k = 0; k + 1 < pairs.size(); k += 2)
            out.num(static_cast<R>(sf(oa.data.at((size_t)pairs[k]), ob.data.at((size_t)pairs[k + 1]))));
    }

    template <unsigned MASK, typename A, typename B, typename C, typename VF, typename SF>
    void ternary(Args& in, Out& out, VF vf, SF sf)
    {
        std::string form = in.s();
        Operand<A> oa(in, form.size() > 0 ? form[0] : '?');
        Operand<B> ob(in, form.size() > 1 ? form[1] : '?');
        Operand<C> oc(in, form.size() > 2 ? form[2] : '?');
        auto pairs = in.vec();
        using R = decltype(sf(std::declval<A>(), std::declval<B>(), std::declval<C>()));
        bool done = false;
        if constexpr ((MASK & F_AAA) != 0) if (form == "AAA") {
            auto a = oa.arr(); auto b = ob.arr(); auto c = oc.arr();
            auto v = vf(a, b, c);
            emit<R>(out, v); done = true;
        }
        if constexpr ((MASK & F_ASS) != 0) if (form == "ASS") {
            auto a = oa.arr(); B b = ob.scalar(); C c = oc.scalar();
            auto v = vf(a, b, c);
            emit<R>(out, v); done = true;
        }
        if constexpr ((MASK & F_SAA) != 0) if (form == "SAA") {
            A a = oa.scalar(); auto b = ob.arr(); auto c = oc.arr();
            auto v = vf(a, b, c);
            emit<R>(out, v); done = true;
        }
        if constexpr ((MASK & F_AAS) != 0) if (form == "AAS") {
            auto a = oa.arr(); auto b = ob.arr(); C c = oc.scalar();
            auto v = vf(a, b, c);
            emit<R>(out, v); done = true;
        }
        if constexpr ((MASK & F_ASA) != 0) if (form == "ASA") {
            auto a = oa.arr(); B b = ob.scalar(); auto c = oc.arr();
            auto v = vf(a, b, c);
            emit<R>(out, v); done = true;
        }
        if constexpr ((MASK & F_TAL) != 0) if (form == "TAL") {
            auto a = oa.arr(); auto b = ob.arr(); auto c = oc.arr();
            auto ta = view::transpose(a, oa.axes());
            auto lc = view::apply_slice(c, oc.slices());
            auto v = vf(ta, b, lc);
            emit<R>(out, v); done = true;
        }
        if (!done) { out.tok("ERR form-not-built"); return; }
        out.i((long long)pairs.size() / 3);
        for (size_t k = 0; k + 2 < pairs.size(); k += 3)
            out.num(static_cast<R>(sf(oa.data.at((size_t)pairs[k]), ob.data.at((size_t)pairs[k + 1]), oc.data.at((size_t)pairs[k + 2]))));
    }

    // outer: <shapeA> <dataA> <shapeB> <dataB>; all pairs (i,j) in C order are the designated scalars
    template <typename A, typename B, typename VF, typename SF>
    void outer(Args& in, Out& out, VF vf, SF sf)
    {
        Operand<A> oa(in, 'A');
        Operand<B> ob(in, 'A');
        using R = decltype(sf(std::declval<A>(), std::declval<B>()));
        auto a = oa.arr(); auto b = ob.arr();
        auto v = vf(a, b);
        emit<R>(out, v);
        out.i((long long)(oa.data.size() * ob.data.size()));
        for (auto x : oa.data)
            for (auto y : ob.data) out.num(static_cast<R>(sf(x, y)));
    }
} // namespace c07

#endif
