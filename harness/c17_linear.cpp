// C17: linear (bias on/off)
//   nn_linear <dtype> <input> <weight> <hasbias> [<bias>]
#include "c16_common.hpp"
#include "nmtools/array/view/linear.hpp"

namespace view = nmtools::view;

VH_OP(nn_linear)
{
    vh::with_dtype(in, out, [&](auto t) {
        using T = decltype(t);
        auto xo = vh::read_operand(in);
        auto wo = vh::read_operand(in);
        auto hasbias = in.i();
        auto x = vh::to_arr<T>(xo);
        auto w = vh::to_arr<T>(wo);
        if (hasbias) {
            auto bo = vh::read_operand(in);
            auto b = vh::to_arr<T>(bo);
            auto v = view::linear(x, w, b);
            vh::emit_la(out, v);
        } else {
            auto v = view::linear(x, w);
            vh::emit_la(out, v);
        }
    });
}

VH_MAIN()
