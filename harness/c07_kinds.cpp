// C07 (operand kinds): binary ufuncs over operands of DIFFERENT array kinds - a compile-time-shaped array (fixed_ndarray / raw) with a
// hybrid_ndarray (fixed dimension, run-time extents, bounded buffer) or a dynamic ndarray of lower / equal rank, in both orders.  The
// broadcast shape of such a pair is a tuple of clipped integers: a branch of shape_broadcast_to / broadcast_shape of its own.
//   uf_kinds <fn 0 add 1 subtract 2 multiply> <order 0 fixed-first 1 fixed-second> <fcode 0:(2,3) 1:(3,2) 2:(2,2,3)> <fixed data vec>
//            <okind 0 hybrid 1 dynamic> <other shape vec> <other data vec>
#include "viewcommon.hpp"
#include "nmtools/array/ndarray/fixed.hpp"
#include "nmtools/array/ndarray/hybrid.hpp"
#include "nmtools/array/view/ufuncs/add.hpp"
#include "nmtools/array/view/ufuncs/subtract.hpp"
#include "nmtools/array/view/ufuncs/multiply.hpp"

namespace view = nmtools::view;

template <typename A, typename B>
static void apply_fn(vh::Out& out, long long fn, long long order, const A& f, const B& o)
{
    auto go = [&](const auto& x, const auto& y) {
        switch (fn) {
        case 0: vh::emit_view_all(out, view::add(x, y)); break;
        case 1: vh::emit_view_all(out, view::subtract(x, y)); break;
        case 2: vh::emit_view_all(out, view::multiply(x, y)); break;
        default: out.tok("ERR fn");
        }
    };
    if (order == 0) go(f, o); else go(o, f);
}

template <typename F>
static void with_other(vh::Out& out, long long okind, const std::vector<long long>& shape, const std::vector<long long>& data, F&& f)
{
    if (okind == 1) {
        auto b = vh::make_arr_data<int>(shape, data);
        f(b);
        return;
    }
    auto fill = [&](auto& h) { for (size_t k = 0; k < data.size(); k++) h.data()[k] = (int)data[k]; };
    if (shape.size() == 1) { na::hybrid_ndarray<int, 12, 1> h; h.resize((size_t)shape[0]); fill(h); f(h); }
    else if (shape.size() == 2) { na::hybrid_ndarray<int, 12, 2> h; h.resize((size_t)shape[0], (size_t)shape[1]); fill(h); f(h); }
    else if (shape.size() == 3) { na::hybrid_ndarray<int, 12, 3> h; h.resize((size_t)shape[0], (size_t)shape[1], (size_t)shape[2]); fill(h); f(h); }
    else out.tok("ERR dim");
}

VH_OP(uf_kinds)
{
    auto fn = in.i(); auto order = in.i(); auto fcode = in.i(); auto fdata = in.vec();
    auto okind = in.i(); auto oshape = in.vec(); auto odata = in.vec();
    auto run = [&](auto& fx) {
        int* flat = reinterpret_cast<int*>(&fx.data);          // nested raw array of ints: contiguous
        for (size_t k = 0; k < fdata.size(); k++) flat[k] = (int)fdata[k];
        with_other(out, okind, oshape, odata, [&](const auto& o) { apply_fn(out, fn, order, fx, o); });
    };
    if (fcode == 0) { na::fixed_ndarray<int, 2, 3> fx; run(fx); }
    else if (fcode == 1) { na::fixed_ndarray<int, 3, 2> fx; run(fx); }
    else if (fcode == 2) { na::fixed_ndarray<int, 2, 2, 3> fx; run(fx); }
    else out.tok("ERR fcode");
}

VH_MAIN()
