// C16: kron
#include "c16_common.hpp"
#include "nmtools/array/view/kron.hpp"

namespace view = nmtools::view;

VH_OP(la_kron)
{
    vh::with_dtype(in, out, [&](auto t) {
        using T = decltype(t);
        auto lo = vh::read_operand(in);
        auto ro = vh::read_operand(in);
        auto a = vh::to_arr<T>(lo);
        auto b = vh::to_arr<T>(ro);
        auto v = view::kron(a, b);
        vh::emit_la(out, v);
    });
}

VH_MAIN()
