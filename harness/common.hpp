// Runner skeleton shared by all harness binaries.
//   runner <cases-file> <out-file>
// cases-file: one case per line:  <id> <op> <tok> <tok> ...
// out-file:   "B <id>" before the library is entered, "R <id> <tokens...>" after.
#ifndef VERIF_HARNESS_COMMON_HPP
#define VERIF_HARNESS_COMMON_HPP

#include <cstdio>
#include <cstdlib>
#include <cstring>
#include <cinttypes>
#include <string>
#include <vector>
#include <map>
#include <type_traits>
#include <exception>
#include <limits>

#include "nmtools/meta.hpp"
#include "nmtools/utility/at.hpp"
#include "nmtools/utility/shape.hpp"
#include "nmtools/utility/unwrap.hpp"
#include "nmtools/utility/has_value.hpp"
#include "nmtools/array/ndarray.hpp"

namespace nm = nmtools;
namespace na = nmtools::array;
namespace meta = nmtools::meta;

namespace vh
{
    struct Args
    {
        std::vector<std::string> tok;
        size_t pos = 0;
        bool bad = false;
        bool done() const { return pos >= tok.size(); }
        const std::string& s()
        {
            static const std::string empty = "0";
            if (pos >= tok.size()) { bad = true; return empty; }
            return tok[pos++];
        }
        long long i() { return std::strtoll(s().c_str(), nullptr, 10); }
        unsigned long long u() { return std::strtoull(s().c_str(), nullptr, 10); }
        double d() { return std::strtod(s().c_str(), nullptr); }
        // length-prefixed vector
        std::vector<long long> vec()
        {
            auto n = i();
            std::vector<long long> v;
            for (long long k = 0; k < n; k++) v.push_back(i());
            return v;
        }
        std::vector<double> dvec()
        {
            auto n = i();
            std::vector<double> v;
            for (long long k = 0; k < n; k++) v.push_back(d());
            return v;
        }
    };

    struct Out
    {
        std::string buf;
        void tok(const char* s) { buf += ' '; buf += s; }
        void tok(const std::string& s) { buf += ' '; buf += s; }
        void i(long long v) { char b[32]; snprintf(b, sizeof b, " %lld", v); buf += b; }
        void u(unsigned long long v) { char b[32]; snprintf(b, sizeof b, " %llu", v); buf += b; }
        void d(double v) { char b[64]; snprintf(b, sizeof b, " %a", v); buf += b; }
        template <typename T>
        void num(T v)
        {
            if constexpr (std::is_same_v<T, bool>) {
                i(v ? 1 : 0);
            } else if constexpr (std::is_floating_point_v<T>) {
                d((double)v);
            } else if constexpr (std::is_integral_v<T> && std::is_unsigned_v<T>) {
                u((unsigned long long)v);
            } else if constexpr (std::is_integral_v<T>) {
                i((long long)v);
            } else {
                // index-like wrapper (clipped integer, constant)
                i((long long)v);
            }
        }
        template <typename V>
        void vec(const V& v)
        {
            i((long long)v.size());
            for (auto x : v) i((long long)x);
        }
    };

    using fn_t = void (*)(Args&, Out&);
    inline std::map<std::string, fn_t>& registry()
    {
        static std::map<std::string, fn_t> r;
        return r;
    }
    struct Reg
    {
        Reg(const char* name, fn_t f) { registry()[name] = f; }
    };

    template <typename T>
    const char* type_tag()
    {
        using U = std::remove_cv_t<std::remove_reference_t<T>>;
        if constexpr (std::is_same_v<U, bool>) return "b1";
        else if constexpr (std::is_same_v<U, float>) return "f4";
        else if constexpr (std::is_same_v<U, double>) return "f8";
        else if constexpr (std::is_same_v<U, long double>) return "f16";
        else if constexpr (std::is_integral_v<U> && std::is_signed_v<U>) {
            if constexpr (sizeof(U) == 1) return "i1";
            else if constexpr (sizeof(U) == 2) return "i2";
            else if constexpr (sizeof(U) == 4) return "i4";
            else return "i8";
        } else if constexpr (std::is_integral_v<U>) {
            if constexpr (sizeof(U) == 1) return "u1";
            else if constexpr (sizeof(U) == 2) return "u2";
            else if constexpr (sizeof(U) == 4) return "u4";
            else return "u8";
        } else return "??";
    }

    // ---- shapes of every kind -> std::vector<long long> ------------------
    template <typename shape_t>
    std::vector<long long> to_vec(const shape_t& shape)
    {
        std::vector<long long> r;
        if constexpr (nm::is_none_v<shape_t>) {
            return r;
        } else if constexpr (meta::is_maybe_v<shape_t>) {
            if (nm::has_value(shape)) return to_vec(nm::unwrap(shape));
            return r;
        } else if constexpr (meta::is_constant_index_array_v<shape_t>) {
            constexpr auto v = meta::to_value_v<shape_t>;
            constexpr auto N = meta::len_v<decltype(v)>;
            meta::template_for<N>([&](auto i) { r.push_back((long long)nm::at(v, i)); });
            return r;
        } else if constexpr (meta::is_constant_index_v<shape_t>) {
            r.push_back((long long)shape_t::value);
            return r;
        } else if constexpr (meta::is_index_v<shape_t>) {
            r.push_back((long long)shape);
            return r;
        } else if constexpr (meta::is_tuple_v<shape_t>) {
            constexpr auto N = meta::len_v<shape_t>;
            meta::template_for<N>([&](auto i) {
                constexpr auto I = decltype(i)::value;
                r.push_back((long long)nm::get<I>(shape));
            });
            return r;
        } else {
            auto n = (size_t)nm::len(shape);
            for (size_t i = 0; i < n; i++) r.push_back((long long)nm::at(shape, i));
            return r;
        }
    }

    inline long long prod(const std::vector<long long>& s)
    {
        long long p = 1;
        for (auto x : s) p *= x;
        return p;
    }

    // odometer independent of the library's ndindex
    struct Odo
    {
        std::vector<long long> shape;
        nmtools_list<nm_size_t> idx;
        bool end;
        explicit Odo(const std::vector<long long>& s) : shape(s), end(false)
        {
            idx.resize(s.size());
            for (size_t i = 0; i < s.size(); i++) { idx[i] = 0; if (s[i] <= 0) end = true; }
        }
        void next()
        {
            for (size_t k = shape.size(); k-- > 0;) {
                idx[k] = idx[k] + 1;
                if ((long long)idx[k] < shape[k]) return;
                idx[k] = 0;
            }
            end = true;
        }
    };

    constexpr long long MAX_EMIT = 20000;

    template <typename array_t>
    void emit_value(Out& out, const array_t& a);

    // emit "A <tag> <dim> <shape...> <n> <elems...>"  or "N" (nothing) or "S <tag> <value>" (scalar)
    template <typename array_t>
    void emit_array(Out& out, const array_t& a)
    {
        if constexpr (meta::is_maybe_v<array_t>) {
            if (!nm::has_value(a)) { out.tok("N"); return; }
            emit_array(out, nm::unwrap(a));
        } else if constexpr (meta::is_num_v<array_t>) {
            out.tok("S");
            if constexpr (std::is_arithmetic_v<array_t>) {
                out.tok(type_tag<array_t>());
                out.num(a);
            } else {
                using elem_t = meta::get_element_type_t<array_t>;
                out.tok(type_tag<elem_t>());
                out.num(static_cast<elem_t>(a));
            }
        } else {
            using elem_t = meta::get_element_type_t<array_t>;
            const auto shape = nm::shape(a);
            auto sv = to_vec(shape);
            out.tok("A");
            out.tok(type_tag<elem_t>());
            out.vec(sv);
            auto n = prod(sv);
            if (n > MAX_EMIT || n < 0) { out.i(-1); return; }
            out.i(n);
            for (Odo o(sv); !o.end; o.next()) {
                out.num(static_cast<elem_t>(nm::apply_at(a, o.idx)));
            }
        }
    }

    // hook counters: " | H site:events:violations:first0:first1 ..."
    inline void emit_hooks(Out& out)
    {
#ifdef NMTOOLS_VERIF
        out.tok("|H");
        for (int s = 0; s < nm::verif::NUM_SITES; s++) {
            auto e = nm::verif::state.events[s];
            auto v = nm::verif::state.violations[s];
            if (e || v) {
                char b[160];
                snprintf(b, sizeof b, "%d:%llu:%llu:%lld:%lld", s, e, v, nm::verif::state.first[s][0], nm::verif::state.first[s][1]);
                out.tok(b);
            }
        }
#endif
    }

    inline int main_loop(int argc, char** argv)
    {
        if (argc < 3) { fprintf(stderr, "usage: %s cases out\n", argv[0]); return 2; }
        if (std::strcmp(argv[1], "--list") == 0) {
            for (auto& kv : registry()) printf("%s\n", kv.first.c_str());
            return 0;
        }
        FILE* fi = fopen(argv[1], "r");
        FILE* fo = fopen(argv[2], "w");
        if (!fi || !fo) { fprintf(stderr, "cannot open files\n"); return 2; }
        char* line = nullptr;
        size_t cap = 0;
        ssize_t len;
        while ((len = getline(&line, &cap, fi)) > 0) {
            Args in;
            {
                char* save = nullptr;
                for (char* t = strtok_r(line, " \t\r\n", &save); t; t = strtok_r(nullptr, " \t\r\n", &save)) in.tok.push_back(t);
            }
            if (in.tok.size() < 2) continue;
            std::string id = in.s();
            std::string op = in.s();
            fprintf(fo, "B %s\n", id.c_str());
            fflush(fo);
            Out out;
#ifdef NMTOOLS_VERIF
            nm::verif::reset();
#endif
            auto it = registry().find(op);
            if (it == registry().end()) {
                out.tok("ERR unknown-op");
            } else {
                try {
                    it->second(in, out);
                    if (in.bad) out.tok("ERR short-args");
                } catch (const std::exception& e) {
                    out.tok("EXC");
                    std::string w = e.what();
                    for (auto& c : w) if (c == ' ' || c == '\n') c = '_';
                    out.tok(w);
                }
            }
            emit_hooks(out);
            fprintf(fo, "R %s%s\n", id.c_str(), out.buf.c_str());
            fflush(fo);
        }
        free(line);
        fclose(fi);
        fclose(fo);
        return 0;
    }
} // namespace vh

#define VH_OP(name)                                          \
    static void vh_op_##name(vh::Args& in, vh::Out& out);    \
    static vh::Reg vh_reg_##name(#name, vh_op_##name);       \
    static void vh_op_##name([[maybe_unused]] vh::Args& in, [[maybe_unused]] vh::Out& out)

#define VH_MAIN() int main(int argc, char** argv) { return vh::main_loop(argc, argv); }

// dynamic ndarray helpers ------------------------------------------------
namespace vh
{
    template <typename T>
    using dyn_t = na::ndarray_t<nmtools_list<T>, nmtools_list<nm_size_t>>;

    template <typename V>
    nmtools_list<nm_size_t> to_shape(const V& v)
    {
        nmtools_list<nm_size_t> s;
        s.resize(v.size());
        for (size_t i = 0; i < v.size(); i++) s[i] = (nm_size_t)v[i];
        return s;
    }

    template <typename I, typename V>
    nmtools_list<I> to_list(const V& v)
    {
        nmtools_list<I> s;
        s.resize(v.size());
        for (size_t i = 0; i < v.size(); i++) s[i] = (I)v[i];
        return s;
    }

    // a.flat[k] = base + k*step
    template <typename T>
    dyn_t<T> make_arr(const std::vector<long long>& shape, long long base = 0, long long step = 1)
    {
        dyn_t<T> a;
        a.resize(to_shape(shape));
        auto n = prod(shape);
        for (long long k = 0; k < n; k++) a.data()[k] = (T)(base + k * step);
        return a;
    }

    // explicit data
    template <typename T, typename D>
    dyn_t<T> make_arr_data(const std::vector<long long>& shape, const std::vector<D>& data)
    {
        dyn_t<T> a;
        a.resize(to_shape(shape));
        auto n = prod(shape);
        for (long long k = 0; k < n && k < (long long)data.size(); k++) a.data()[k] = (T)data[(size_t)k];
        return a;
    }
} // namespace vh

#endif // VERIF_HARNESS_COMMON_HPP
