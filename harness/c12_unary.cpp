// C12 harness, op group "unary" (see c12_simd.hpp); context chosen with -DC12_CTX=<n>
#define C12_GROUP_UNARY
#include "c12_simd.hpp"
