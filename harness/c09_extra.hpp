// helpers of the second wave of generated C09/C11 operations (vf/c09_ops2.py); separate header so that the programs of the
// first wave do not depend on it
#ifndef VERIF_HARNESS_C09_EXTRA_HPP
#define VERIF_HARNESS_C09_EXTRA_HPP

#include "c09_common.hpp"

namespace c9
{
    // fill an ndarray of any kind with labels (base + C-order position) % mod, through the logical index
    // (condition operands: zero / non-zero)
    template <typename A>
    void fill_labels_mod(A& a, long long base, long long mod)
    {
        using elem_t = meta::get_element_type_t<A>;
        const auto shape = nm::shape(a);
        auto sv = vh::to_vec(shape);
        long long label = base;
        constexpr auto fd = meta::fixed_dim_v<A>;
        for (vh::Odo o(sv); !o.end; o.next()) {
            const auto value = (elem_t)(((label % mod) + mod) % mod);
            if constexpr (!meta::is_fail_v<decltype(fd)>) {
                nmtools_array<nm_size_t, (nm_size_t)fd> idx{};
                for (nm_size_t i = 0; i < (nm_size_t)fd; i++) idx[i] = o.idx[i];
                nm::apply_at(a, idx) = value;
            } else {
                nm::apply_at(a, o.idx) = value;
            }
            label++;
        }
    }
} // namespace c9
#endif
