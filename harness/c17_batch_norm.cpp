// C17: batch_norm
//   nn_batch_norm <dtype f|d> <input> <mean> <var> <weight> <bias> <eps> <use default eps 0|1>
#include "c16_common.hpp"
#include "nmtools/array/view/batch_norm.hpp"

namespace view = nmtools::view;

VH_OP(nn_batch_norm)
{
    vh::with_fdtype(in, out, [&](auto t) {
        using T = decltype(t);
        auto xo = vh::read_foperand(in);
        auto mo = vh::read_foperand(in);
        auto vo = vh::read_foperand(in);
        auto wo = vh::read_foperand(in);
        auto bo = vh::read_foperand(in);
        T eps = (T)in.d();
        auto dflt = in.i();
        auto x = vh::to_arr<T>(xo);
        auto m = vh::to_arr<T>(mo);
        auto va = vh::to_arr<T>(vo);
        auto w = vh::to_arr<T>(wo);
        auto b = vh::to_arr<T>(bo);
        if (dflt) {
            auto v = view::batch_norm(x, m, va, w, b);
            vh::emit_la(out, v);
        } else {
            auto v = view::batch_norm(x, m, va, w, b, eps);
            vh::emit_la(out, v);
        }
    });
}

VH_MAIN()
