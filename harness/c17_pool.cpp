// C17: max / avg pooling (kernel and stride pairs, run-time ceil mode)
//   nn_max_pool2d <dtype> <array> <kh> <kw> <sh> <sw> <ceil>
#include "c16_common.hpp"
#include "nmtools/array/view/pooling.hpp"

namespace view = nmtools::view;

VH_OP(nn_max_pool2d)
{
    vh::with_dtype(in, out, [&](auto t) {
        using T = decltype(t);
        auto xo = vh::read_operand(in);
        nmtools_array<int, 2> kernel{(int)in.i(), (int)in.i()};
        nmtools_array<int, 2> stride{(int)in.i(), (int)in.i()};
        int ceil_mode = (int)in.i();
        auto x = vh::to_arr<T>(xo);
        auto v = view::max_pool2d(x, kernel, stride, ceil_mode);
        vh::emit_la(out, v);
    });
}

VH_OP(nn_avg_pool2d)
{
    vh::with_dtype(in, out, [&](auto t) {
        using T = decltype(t);
        auto xo = vh::read_operand(in);
        nmtools_array<int, 2> kernel{(int)in.i(), (int)in.i()};
        nmtools_array<int, 2> stride{(int)in.i(), (int)in.i()};
        int ceil_mode = (int)in.i();
        auto x = vh::to_arr<T>(xo);
        auto v = view::avg_pool2d(x, kernel, stride, ceil_mode);
        vh::emit_la(out, v);
    });
}

// the same with ceil_mode given as a COMPILE-TIME constant (nm::True / nm::False); float data only
//   nn_max_pool2d_ct / nn_avg_pool2d_ct f <array> <kh> <kw> <sh> <sw> <ceil>
template <typename F>
static void pool_ct(vh::Args& in, vh::Out& out, F&& f)
{
    if (in.s() != "f") { out.tok("ERR bad-dtype"); return; }
    auto xo = vh::read_operand(in);
    nmtools_array<int, 2> kernel{(int)in.i(), (int)in.i()};
    nmtools_array<int, 2> stride{(int)in.i(), (int)in.i()};
    int ceil_mode = (int)in.i();
    auto x = vh::to_arr<float>(xo);
    if (ceil_mode) f(x, kernel, stride, nm::True);
    else f(x, kernel, stride, nm::False);
}

VH_OP(nn_max_pool2d_ct)
{
    pool_ct(in, out, [&](const auto& x, const auto& k, const auto& s, auto c) { vh::emit_la(out, view::max_pool2d(x, k, s, c)); });
}

VH_OP(nn_avg_pool2d_ct)
{
    pool_ct(in, out, [&](const auto& x, const auto& k, const auto& s, auto c) { vh::emit_la(out, view::avg_pool2d(x, k, s, c)); });
}

VH_MAIN()
