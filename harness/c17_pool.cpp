// C17: max / avg pooling (kernel and stride pairs, run-time ceil mode)
//   nn_max_pool2d <dtype> <array> <kh> <kw> <sh> <sw> <ceil>
#include "c16_common.hpp"
#include "nmtools/array/view/pooling.hpp"

namespace view = nmtools::view;

VH_OP(nn_max_pool2d)
{
    vh::with_dtype(in, out, [&](auto t) {
        using T = decltype(t);
        auto xo = vh::read_operand(in);
        nmtools_array<int, 2> kernel{(int)in.i(), (int)in.i()};
        nmtools_array<int, 2> stride{(int)in.i(), (int)in.i()};
        int ceil_mode = (int)in.i();
        auto x = vh::to_arr<T>(xo);
        auto v = view::max_pool2d(x, kernel, stride, ceil_mode);
        vh::emit_la(out, v);
    });
}

VH_OP(nn_avg_pool2d)
{
    vh::with_dtype(in, out, [&](auto t) {
        using T = decltype(t);
        auto xo = vh::read_operand(in);
        nmtools_array<int, 2> kernel{(int)in.i(), (int)in.i()};
        nmtools_array<int, 2> stride{(int)in.i(), (int)in.i()};
        int ceil_mode = (int)in.i();
        auto x = vh::to_arr<T>(xo);
        auto v = view::avg_pool2d(x, kernel, stride, ceil_mode);
        vh::emit_la(out, v);
    });
}

VH_MAIN()
