// C05 view level: packed multi-axis patterns of length 3 with an ellipsis in every position
#include "c05_view.hpp"

VP(m_E_I_I, E, I, I)
VP(m_E_I_R, E, I, R)
VP(m_E_R_I, E, R, I)
VP(m_E_R_R, E, R, R)
VP(m_I_E_I, I, E, I)
VP(m_I_E_R, I, E, R)
VP(m_R_E_I, R, E, I)
VP(m_R_E_R, R, E, R)
VP(m_I_I_E, I, I, E)
VP(m_I_R_E, I, R, E)
VP(m_R_I_E, R, I, E)
VP(m_R_R_E, R, R, E)

VH_MAIN()
