// Emission of a view through every evaluation route (shared by the value-level harnesses).
//   V <lazy view>  E <eval row-major>  C <eval column-major> CB <raw buffer>  O <eval into supplied output>
//   [OC <eval into a supplied COLUMN-MAJOR output with the default (row-major) resolver>]
#ifndef VERIF_HARNESS_VIEWCOMMON_HPP
#define VERIF_HARNESS_VIEWCOMMON_HPP

#include "common.hpp"
#include "nmtools/array/eval.hpp"

namespace vh
{
    constexpr long long SENTINEL = -77770000;

    template <typename T>
    struct is_bool_like : std::false_type {};
    template <>
    struct is_bool_like<bool> : std::true_type {};

    template <typename view_t>
    void emit_eval_routes(Out& out, const view_t& v)
    {
        if constexpr (meta::is_maybe_v<view_t>) {
            if (!nm::has_value(v)) {
                out.tok("E N C N O N");
                return;
            }
            emit_eval_routes(out, nm::unwrap(v));
        } else if constexpr (meta::is_num_v<view_t>) {
            out.tok("E");
            {
                auto r = na::eval(v, nm::None, nm::None, na::RowMajorResolver);
                emit_array(out, r);
            }
            out.tok("C N O N");
        } else {
            using elem_t = meta::get_element_type_t<view_t>;
            out.tok("E");
            {
                auto r = na::eval(v, nm::None, nm::None, na::RowMajorResolver);
                emit_array(out, r);
            }
            out.tok("C");
            {
                auto r = na::eval(v, nm::None, nm::None, na::ColumnMajorResolver);
                emit_array(out, r);
                out.tok("CB");
                if constexpr (meta::is_maybe_v<decltype(r)>) {
                    out.i(0);
                } else if constexpr (meta::is_num_v<decltype(r)>) {
                    out.i(0);
                } else if constexpr (std::is_same_v<elem_t, bool>) {
                    // std::vector<bool> has no usable data(): no raw-buffer section for bool results
                    out.i(0);
                } else {
                    auto n = (long long)nm::size(r);
                    if (n > MAX_EMIT) n = 0;
                    out.i(n);
                    for (long long k = 0; k < n; k++) out.num(static_cast<elem_t>(r.data()[k]));
                }
            }
            out.tok("O");
            {
                // caller-supplied output of the right shape, pre-filled with a sentinel
                using oelem_t = std::conditional_t<std::is_same_v<elem_t, bool>, int, elem_t>;
                dyn_t<oelem_t> o;
                const auto shape = nm::shape(v);
                auto sv = to_vec(shape);
                auto n = prod(sv);
                if (sv.size() == 0 || n > MAX_EMIT) {
                    out.tok("N");
                } else {
                    o.resize(to_shape(sv));
                    oelem_t sentinel = std::is_floating_point_v<oelem_t> ? (oelem_t)SENTINEL : (oelem_t)(sizeof(oelem_t) >= 4 ? SENTINEL : 113);
                    for (long long k = 0; k < n; k++) o.data()[k] = sentinel;
                    na::eval(v, nm::None, o, na::RowMajorResolver);
                    emit_array(out, o);
                    // the same into a caller-supplied column-major output (the layout of a supplied output is independent of
                    // the resolver, which only types the results the evaluator allocates itself)
                    if constexpr (!std::is_same_v<elem_t, bool>) {
                        out.tok("OC");
                        na::column_major_ndarray_t<nmtools_list<oelem_t>, nmtools_list<nm_size_t>> oc;
                        oc.resize(to_shape(sv));
                        for (long long k = 0; k < n; k++) oc.data()[k] = sentinel;
                        na::eval(v, nm::None, oc, na::RowMajorResolver);
                        emit_array(out, oc);
                    }
                }
            }
        }
    }

    template <typename view_t>
    void emit_view_all(Out& out, const view_t& v)
    {
        out.tok("M");
        out.i(meta::is_maybe_v<view_t> ? 1 : 0);
        out.tok("V");
        emit_array(out, v);
        emit_eval_routes(out, v);
    }
} // namespace vh

#endif
