// C04 helpers: lazy emission for views whose shape has a compile-time number of dimensions (such views only
// accept a fixed-size packed index, e.g. repeat(axis=None), take(axis=None), eye, tri, arange, linspace ...).
// Output format identical to vh::emit_view_all.
#ifndef VERIF_HARNESS_C04_COMMON_HPP
#define VERIF_HARNESS_C04_COMMON_HPP

#include "viewcommon.hpp"

namespace c04
{
    constexpr long long BASE_A = 100;   // labels of the first operand
    constexpr long long BASE_B = 500;   // labels of the second operand
    constexpr long long BASE_C = 900;   // labels of the third operand

    // like vh::emit_array, but the packed index has the kind the view's shape suggests
    template <typename array_t>
    void emit_lazy(vh::Out& out, const array_t& a)
    {
        if constexpr (meta::is_maybe_v<array_t>) {
            if (!nm::has_value(a)) { out.tok("N"); return; }
            emit_lazy(out, nm::unwrap(a));
        } else if constexpr (meta::is_num_v<array_t>) {
            vh::emit_array(out, a);
        } else {
            const auto shape = nm::shape(a);
            using shape_t = meta::remove_cvref_t<decltype(shape)>;
            constexpr auto N = meta::len_v<shape_t>;
            if constexpr (N > 0) {
                using elem_t = meta::get_element_type_t<array_t>;
                auto sv = vh::to_vec(shape);
                out.tok("A");
                out.tok(vh::type_tag<elem_t>());
                out.vec(sv);
                auto n = vh::prod(sv);
                if (n > vh::MAX_EMIT || n < 0) { out.i(-1); return; }
                out.i(n);
                for (vh::Odo o(sv); !o.end; o.next()) {
                    nmtools_array<nm_size_t, (size_t)N> idx{};
                    for (size_t k = 0; k < (size_t)N; k++) idx[k] = o.idx[k];
                    out.num(static_cast<elem_t>(nm::apply_at(a, idx)));
                }
            } else {
                vh::emit_array(out, a);
            }
        }
    }

    template <typename view_t>
    void emit_view_all(vh::Out& out, const view_t& v)
    {
        out.tok("M");
        out.i(meta::is_maybe_v<view_t> ? 1 : 0);
        out.tok("V");
        emit_lazy(out, v);
        vh::emit_eval_routes(out, v);
    }
} // namespace c04

#endif
