// C17: conv2d with COMPILE-TIME per-axis stride and dilation pairs (tuple{a_ct, b_ct}); padding stays run-time
//   nn_conv2d_ct f <input> <weight> 0 <sh> <sw> <ph> <pw> <dh> <dw> 1       (same line as nn_conv2d_list, no bias, groups 1)
#include "c16_common.hpp"
#include "nmtools/array/view/conv2d.hpp"

namespace view = nmtools::view;

template <typename F>
static bool with_pair(long long a, long long b, F&& f)
{
#define VH_PAIR(x, y) if (a == (x) && b == (y)) { f(nmtools_tuple{nm::meta::ct_v<(x)>, nm::meta::ct_v<(y)>}); return true; }
    VH_PAIR(1, 1) VH_PAIR(1, 2) VH_PAIR(2, 1) VH_PAIR(2, 2)
#undef VH_PAIR
    return false;
}

VH_OP(nn_conv2d_ct)
{
    if (in.s() != "f") { out.tok("ERR bad-dtype"); return; }
    using T = float;
    auto xo = vh::read_operand(in);
    auto wo = vh::read_operand(in);
    if (in.i() != 0) { out.tok("ERR bias"); return; }
    long long sh = in.i(), sw = in.i();
    nmtools_array<int, 2> padding{(int)in.i(), (int)in.i()};
    long long dh = in.i(), dw = in.i();
    auto groups = (int)in.i();
    auto x = vh::to_arr<T>(xo);
    auto w = vh::to_arr<T>(wo);
    bool ok = with_pair(sh, sw, [&](auto stride) {
        bool ok2 = with_pair(dh, dw, [&](auto dilation) {
            auto v = view::conv2d(x, w, nm::None, stride, padding, dilation, groups);
            vh::emit_la(out, v);
        });
        if (!ok2) out.tok("ERR dilation");
    });
    if (!ok) out.tok("ERR stride");
}

VH_MAIN()
