// C05 index level: packed single-axis None-patterns (see c05_index.hpp for the case format)
#include "c05_index.hpp"

// ---- single axis: 12 None-patterns x {int, long long} -------------------------------
#define SINGLE(T, sfx)                   \
    IXP(p_ii_##sfx, P_ii<T>)             \
    IXP(p_in_##sfx, P_in<T>)             \
    IXP(p_ni_##sfx, P_ni<T>)             \
    IXP(p_nn_##sfx, P_nn<T>)             \
    IXP(p_iii_##sfx, P_iii<T>)           \
    IXP(p_iin_##sfx, P_iin<T>)           \
    IXP(p_ini_##sfx, P_ini<T>)           \
    IXP(p_inn_##sfx, P_inn<T>)           \
    IXP(p_nii_##sfx, P_nii<T>)           \
    IXP(p_nin_##sfx, P_nin<T>)           \
    IXP(p_nni_##sfx, P_nni<T>)           \
    IXP(p_nnn_##sfx, P_nnn<T>)
SINGLE(int, i)
SINGLE(long long, l)
// index arrays as packed parts
using PA3 = nmtools_array<int, 3>;
using PA2 = nmtools_array<int, 2>;
using PA3l = nmtools_array<long long, 3>;
IXP(p_a3_i, PA3)
IXP(p_a2_i, PA2)
IXP(p_a3_l, PA3l)
// a single integer (result has dimension 0)
IXP(p_I, int)


VH_MAIN()
