// C03 (part b): expand_dims, squeeze, atleast_nd, flip on dynamic ndarrays with unique labels
#include "viewcommon.hpp"
#include "nmtools/array/view/expand_dims.hpp"
#include "nmtools/array/view/squeeze.hpp"
#include "nmtools/array/view/atleast_nd.hpp"
#include "nmtools/array/view/flip.hpp"

namespace view = nmtools::view;
constexpr long long BASE = 100;

// expand_dims <shape> <axes list>
VH_OP(expand_dims)
{
    auto shape = in.vec();
    auto axes = in.vec();
    auto a = vh::make_arr<int>(shape, BASE);
    auto v = view::expand_dims(a, vh::to_list<int>(axes));
    vh::emit_view_all(out, v);
}

// expand_dims1 <shape> <axis int>
VH_OP(expand_dims1)
{
    auto shape = in.vec();
    auto axis = (int)in.i();
    auto a = vh::make_arr<int>(shape, BASE);
    auto v = view::expand_dims(a, axis);
    vh::emit_view_all(out, v);
}

VH_OP(squeeze)
{
    auto shape = in.vec();
    auto a = vh::make_arr<int>(shape, BASE);
    auto v = view::squeeze(a);
    vh::emit_view_all(out, v);
}

VH_OP(atleast_1d)
{
    auto shape = in.vec();
    if (shape.size() == 0) {
        auto v = view::atleast_1d(137);
        vh::emit_view_all(out, v);
    } else {
        auto a = vh::make_arr<int>(shape, BASE);
        auto v = view::atleast_1d(a);
        vh::emit_view_all(out, v);
    }
}

VH_OP(atleast_2d)
{
    auto shape = in.vec();
    if (shape.size() == 0) {
        auto v = view::atleast_2d(137);
        vh::emit_view_all(out, v);
    } else {
        auto a = vh::make_arr<int>(shape, BASE);
        auto v = view::atleast_2d(a);
        vh::emit_view_all(out, v);
    }
}

// atleast_nd <shape> <nd run-time>
VH_OP(atleast_nd)
{
    auto shape = in.vec();
    auto nd = (size_t)in.i();
    auto a = vh::make_arr<int>(shape, BASE);
    auto v = view::atleast_nd(a, nd);
    vh::emit_view_all(out, v);
}

// flip <shape> <axes list>
VH_OP(flip)
{
    auto shape = in.vec();
    auto axes = in.vec();
    auto a = vh::make_arr<int>(shape, BASE);
    auto v = view::flip(a, vh::to_list<int>(axes));
    vh::emit_view_all(out, v);
}

// flip1 <shape> <axis int>
VH_OP(flip1)
{
    auto shape = in.vec();
    auto axis = (int)in.i();
    auto a = vh::make_arr<int>(shape, BASE);
    auto v = view::flip(a, axis);
    vh::emit_view_all(out, v);
}

// flip_none <shape>   (axis=None: all axes)
VH_OP(flip_none)
{
    auto shape = in.vec();
    auto a = vh::make_arr<int>(shape, BASE);
    auto v = view::flip(a, nm::None);
    vh::emit_view_all(out, v);
}

VH_OP(flipud)
{
    auto shape = in.vec();
    auto a = vh::make_arr<int>(shape, BASE);
    auto v = view::flipud(a);
    vh::emit_view_all(out, v);
}

VH_OP(fliplr)
{
    auto shape = in.vec();
    auto a = vh::make_arr<int>(shape, BASE);
    auto v = view::fliplr(a);
    vh::emit_view_all(out, v);
}

// flip(flip(a,ax1),ax2)
VH_OP(flip2)
{
    auto shape = in.vec();
    auto ax1 = (int)in.i();
    auto ax2 = (int)in.i();
    auto a = vh::make_arr<int>(shape, BASE);
    auto v1 = view::flip(a, ax1);
    auto v = view::flip(v1, ax2);
    vh::emit_view_all(out, v);
}

VH_MAIN()
