// C17: softmax / softmin over a run-time axis
//   nn_softmax <dtype f|d> <input (float data)> <axis>
#include "c16_common.hpp"
#include "nmtools/array/view/softmax.hpp"
#include "nmtools/array/view/softmin.hpp"

namespace view = nmtools::view;

VH_OP(nn_softmax)
{
    vh::with_fdtype(in, out, [&](auto t) {
        using T = decltype(t);
        auto xo = vh::read_foperand(in);
        auto axis = (int)in.i();
        auto x = vh::to_arr<T>(xo);
        auto v = view::softmax(x, axis);
        vh::emit_la(out, v);
    });
}

VH_OP(nn_softmin)
{
    vh::with_fdtype(in, out, [&](auto t) {
        using T = decltype(t);
        auto xo = vh::read_foperand(in);
        auto axis = (int)in.i();
        auto x = vh::to_arr<T>(xo);
        auto v = view::softmin(x, axis);
        vh::emit_la(out, v);
    });
}

VH_MAIN()
