// C20 (second half): writing through mutable views changes exactly the addressed source element.
//
// A TU does   using Src = <source array class>;  #define C20_MV_NAME <name>  #include "c20_mview.hpp"
// and gets the ops (S = source shape; the source holds label(p) = p at C-order position p before the view is made)
//   mv_<name>_ref      <S>
//   mv_<name>_flatten  <S>
//   mv_<name>_reshape  <S> <dst shape>
//   mv_<name>_slice2   <S> <k> k x (start stop)          list of (start,stop) slices
//   mv_<name>_slice3   <S> <k> k x (start stop step)     list of (start,stop,step) slices
//   mv_<name>_sliceN   <S> <k> k x (stop)                list of (None,stop) slices
//   mv_<name>_assign   <S> <k> k x (start stop) <base>   view = dynamic array of the view's shape holding base+position
// record:  SRC <ok> | V <has_value> <view shape vec> <nwrites>  { W <value read back through the view> <nchanged> (<pos> <new value>)* }*
//          E <n> <final source elements in C order>
// every write stores 1000+k (k = C-order position in the view) through the view; <nchanged> is the number of source cells
// whose value (read through the source's own a(i...)) differs before/after that single write.
#ifndef VERIF_C20_MVIEW_HPP
#define VERIF_C20_MVIEW_HPP

#include "c20_hist.hpp"
#include "nmtools/array/view/mutable_ref.hpp"
#include "nmtools/array/view/mutable_flatten.hpp"
#include "nmtools/array/view/mutable_reshape.hpp"
#include "nmtools/array/view/mutable_slice.hpp"

namespace view = nmtools::view;

namespace c20mv
{
    using c20::cls_v;

    template <typename A>
    constexpr size_t other_dim()
    {
        // nested std::array / 1-D std::array
        return (size_t)meta::fixed_dim_v<A>;
    }

    template <typename A>
    decltype(auto) src_elem(A& a, const std::vector<long long>& ix)
    {
        if constexpr (cls_v<A> != c20::OTHER) {
            return c20::elem(a, ix);
        } else {
            constexpr auto D = other_dim<std::remove_cv_t<A>>();
            if (ix.size() != D) throw std::runtime_error("arity");
            if constexpr (D == 1) return nm::at(a, (size_t)ix[0]);
            else if constexpr (D == 2) return nm::at(a, (size_t)ix[0], (size_t)ix[1]);
            else return nm::at(a, (size_t)ix[0], (size_t)ix[1], (size_t)ix[2]);
        }
    }

    // give the source the requested shape (true if it has it afterwards) and label it
    template <typename A>
    bool make_src(A& a, const std::vector<long long>& s)
    {
        if constexpr (cls_v<A> == c20::ND) {
            if constexpr (c20::has_resize<A>()) {
                if (!a.resize(vh::to_shape(s))) return false;
            }
        } else if constexpr (cls_v<A> == c20::DYNAMIC) {
            a.resize(vh::to_shape(s));
        } else if constexpr (cls_v<A> == c20::HYBRID) {
            constexpr auto D = A::dim();
            if (s.size() != D) return false;
            typename A::shape_type sh{};
            for (size_t i = 0; i < D; i++) sh[i] = (size_t)s[i];
            if (!a.resize(sh)) return false;
        }
        const auto shp = nm::shape(a);
        if (vh::to_vec(shp) != s) return false;
        long long p = 0;
        for (vh::Odo o(s); !o.end; o.next(), p++) {
            std::vector<long long> ix(o.idx.begin(), o.idx.end());
            src_elem(a, ix) = (c20::elem_t<A>)p;
        }
        return true;
    }

    template <typename A>
    std::vector<long long> snapshot(const A& a, const std::vector<long long>& s)
    {
        std::vector<long long> r;
        for (vh::Odo o(s); !o.end; o.next()) {
            std::vector<long long> ix(o.idx.begin(), o.idx.end());
            r.push_back((long long)src_elem(a, ix));
        }
        return r;
    }

    // element of a view by a run-time index: views whose dimension is a compile-time constant take a fixed-length index
    template <typename V>
    decltype(auto) view_at(V& v, const nmtools_list<nm_size_t>& idx)
    {
        using shape_t = std::remove_cv_t<std::remove_reference_t<decltype(nm::shape(v))>>;
        constexpr auto D = meta::len_v<shape_t>;
        if constexpr (D > 0) {
            nmtools_array<nm_size_t, (size_t)D> ix{};
            if (idx.size() != (size_t)D) throw std::runtime_error("view arity");
            for (size_t i = 0; i < (size_t)D; i++) ix[i] = idx[i];
            return nm::apply_at(v, ix);
        } else {
            return nm::apply_at(v, idx);
        }
    }

    // write through every index of the (unwrapped) view, diff the source after each write
    template <typename A, typename V>
    void write_all(vh::Out& out, A& a, const std::vector<long long>& s, V& v)
    {
        const auto vshape = nm::shape(v);
        auto vs = vh::to_vec(vshape);
        out.vec(vs);
        bool ok = vs.size() >= 1 && vs.size() <= 3;
        for (auto e : vs) if (e < 0 || e > 64) ok = false;
        if (!ok) { out.i(-1); return; }
        out.i(vh::prod(vs));
        auto before = snapshot(a, s);
        long long k = 0;
        for (vh::Odo o(vs); !o.end; o.next(), k++) {
            view_at(v, o.idx) = (c20::elem_t<A>)(1000 + k);
            out.tok("W");
            out.i((long long)view_at(v, o.idx));
            auto after = snapshot(a, s);
            long long nch = 0;
            for (size_t p = 0; p < after.size(); p++) if (after[p] != before[p]) nch++;
            out.i(nch);
            for (size_t p = 0; p < after.size(); p++) if (after[p] != before[p]) { out.i((long long)p); out.i(after[p]); }
            before = after;
        }
    }

    template <typename A, typename V>
    void run_view(vh::Out& out, A& a, const std::vector<long long>& s, V&& v)
    {
        out.tok("V");
        using view_t = std::remove_reference_t<V>;
        if constexpr (meta::is_maybe_v<view_t>) {
            if (!nm::has_value(v)) { out.i(0); }
            else {
                out.i(1);
                auto u = nm::unwrap(v);
                write_all(out, a, s, u);
            }
        } else {
            out.i(2);
            write_all(out, a, s, v);
        }
        auto fin = snapshot(a, s);
        out.tok("E");
        out.vec(fin);
    }

    template <typename A>
    struct Ops
    {
        static bool prep(vh::Args& in, vh::Out& out, A& a, std::vector<long long>& s)
        {
            s = in.vec();
            bool ok = make_src(a, s);
            out.tok("SRC");
            out.i(ok ? 1 : 0);
            return ok;
        }
        static void ref(vh::Args& in, vh::Out& out)
        {
            auto ap = std::make_unique<A>(); std::vector<long long> s;
            if (!prep(in, out, *ap, s)) return;
            auto v = view::mutable_ref(*ap);
            run_view(out, *ap, s, v);
        }
        static void flatten(vh::Args& in, vh::Out& out)
        {
            auto ap = std::make_unique<A>(); std::vector<long long> s;
            if (!prep(in, out, *ap, s)) return;
            auto v = view::mutable_flatten(*ap);
            run_view(out, *ap, s, v);
        }
        static void reshape(vh::Args& in, vh::Out& out)
        {
            auto ap = std::make_unique<A>(); std::vector<long long> s;
            if (!prep(in, out, *ap, s)) return;
            auto dst = vh::to_shape(in.vec());
            auto v = view::mutable_reshape(*ap, dst);
            run_view(out, *ap, s, v);
        }
        static void slice2(vh::Args& in, vh::Out& out)
        {
            auto ap = std::make_unique<A>(); std::vector<long long> s;
            if (!prep(in, out, *ap, s)) return;
            using slice_t = nmtools_tuple<int, int>;
            nmtools_list<slice_t> sl;
            auto k = in.i();
            for (long long i = 0; i < k; i++) { int b = (int)in.i(); int e = (int)in.i(); sl.push_back(slice_t{b, e}); }
            auto v = view::apply_mutable_slice(*ap, sl);
            run_view(out, *ap, s, v);
        }
        static void slice3(vh::Args& in, vh::Out& out)
        {
            auto ap = std::make_unique<A>(); std::vector<long long> s;
            if (!prep(in, out, *ap, s)) return;
            using slice_t = nmtools_tuple<int, int, int>;
            nmtools_list<slice_t> sl;
            auto k = in.i();
            for (long long i = 0; i < k; i++) { int b = (int)in.i(); int e = (int)in.i(); int st = (int)in.i(); sl.push_back(slice_t{b, e, st}); }
            auto v = view::apply_mutable_slice(*ap, sl);
            run_view(out, *ap, s, v);
        }
        static void sliceN(vh::Args& in, vh::Out& out)
        {
            auto ap = std::make_unique<A>(); std::vector<long long> s;
            if (!prep(in, out, *ap, s)) return;
            using slice_t = nmtools_tuple<nm::none_t, int>;
            nmtools_list<slice_t> sl;
            auto k = in.i();
            for (long long i = 0; i < k; i++) { int e = (int)in.i(); sl.push_back(slice_t{nm::None, e}); }
            auto v = view::apply_mutable_slice(*ap, sl);
            run_view(out, *ap, s, v);
        }
        // whole-view assignment  view = array
        static void assign(vh::Args& in, vh::Out& out)
        {
            auto ap = std::make_unique<A>(); std::vector<long long> s;
            if (!prep(in, out, *ap, s)) return;
            using slice_t = nmtools_tuple<int, int>;
            nmtools_list<slice_t> sl;
            auto k = in.i();
            for (long long i = 0; i < k; i++) { int b = (int)in.i(); int e = (int)in.i(); sl.push_back(slice_t{b, e}); }
            auto base = in.i();
            auto v = view::apply_mutable_slice(*ap, sl);
            out.tok("V");
            auto doit = [&](auto& u) {
                const auto vshape = nm::shape(u);
                auto vs = vh::to_vec(vshape);
                out.vec(vs);
                auto rhs = vh::make_arr<c20::elem_t<A>>(vs, base, 1);
                u = rhs;
            };
            if constexpr (meta::is_maybe_v<decltype(v)>) {
                if (!nm::has_value(v)) { out.i(0); }
                else { out.i(1); auto u = nm::unwrap(v); doit(u); }
            } else {
                out.i(2);
                doit(v);
            }
            auto fin = snapshot(*ap, s);
            out.tok("E");
            out.vec(fin);
        }
    };
} // namespace c20mv

#define C20_MV_CAT2(a, b, c) a##b##c
#define C20_MV_CAT(a, b, c) C20_MV_CAT2(a, b, c)
#define C20_MV_STR2(x) #x
#define C20_MV_STR(x) C20_MV_STR2(x)
#define C20_MV_REG(op) static vh::Reg C20_MV_CAT(vh_reg_mv_, C20_MV_NAME, _##op)("mv_" C20_MV_STR(C20_MV_NAME) "_" #op, c20mv::Ops<Src>::op);

C20_MV_REG(ref)
#ifndef C20_MV_REF_ONLY
C20_MV_REG(flatten)
C20_MV_REG(reshape)
C20_MV_REG(slice2)
C20_MV_REG(slice3)
C20_MV_REG(sliceN)
C20_MV_REG(assign)
#endif

#endif // VERIF_C20_MVIEW_HPP
