// C17: conv1d, call forms with defaulted (None) parameters
//   nn_conv1d_form <form> <dtype f> <input> <weight> <hasbias> [<bias>] <stride> <padding> <dilation> <groups>
//   form: 0 = (input, weight[, bias])          1 = stride only      2 = padding only
//         3 = dilation only                    4 = groups only (stride/padding/dilation None)
#include "c16_common.hpp"
#include "nmtools/array/view/conv1d.hpp"

namespace view = nmtools::view;

VH_OP(nn_conv1d_form)
{
    auto form = in.i();
    vh::with_f(in, out, [&](auto t) {
        using T = decltype(t);
        auto xo = vh::read_operand(in);
        auto wo = vh::read_operand(in);
        auto hasbias = in.i();
        vh::Operand bo;
        if (hasbias) bo = vh::read_operand(in);
        auto stride = (int)in.i();
        auto padding = (int)in.i();
        auto dilation = (int)in.i();
        auto groups = (int)in.i();
        auto x = vh::to_arr<T>(xo);
        auto w = vh::to_arr<T>(wo);
        auto b = vh::to_arr<T>(bo);
        constexpr auto None = nm::None;
        switch (form) {
        case 0:
            if (hasbias) { auto v = view::conv1d(x, w, b); vh::emit_la(out, v); }
            else { auto v = view::conv1d(x, w); vh::emit_la(out, v); }
            break;
        case 1: { auto v = view::conv1d(x, w, None, stride); vh::emit_la(out, v); } break;
        case 2: { auto v = view::conv1d(x, w, None, None, padding); vh::emit_la(out, v); } break;
        case 3: { auto v = view::conv1d(x, w, None, None, None, dilation); vh::emit_la(out, v); } break;
        case 4: { auto v = view::conv1d(x, w, b, None, None, None, groups); vh::emit_la(out, v); } break;
        default: out.tok("ERR bad-form");
        }
    });
}

VH_MAIN()
