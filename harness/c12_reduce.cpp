// C12 harness, op group "reduce" (see c12_simd.hpp); context chosen with -DC12_CTX=<n>
#define C12_GROUP_REDUCE
#include "c12_simd.hpp"
