// C04 (part b): pad, take, compress, resize on dynamic ndarrays with unique labels
#include "c04_common.hpp"
#include "nmtools/array/view/pad.hpp"
#include "nmtools/array/view/take.hpp"
#include "nmtools/array/view/compress.hpp"
#include "nmtools/array/view/resize.hpp"

namespace view = nmtools::view;
using c04::BASE_A;

// pad <shape> <pad_width list, ONNX order b0,b1,..,e0,e1,..> <fill int>
VH_OP(pad)
{
    auto shape = in.vec();
    auto w = in.vec();
    auto fill = (int)in.i();
    auto a = vh::make_arr<int>(shape, BASE_A);
    auto v = view::pad(a, vh::to_list<int>(w), fill);
    vh::emit_view_all(out, v);
}

// take <shape> <indices list> <axis int>
VH_OP(take)
{
    auto shape = in.vec();
    auto idx = in.vec();
    auto ax = (int)in.i();
    auto a = vh::make_arr<int>(shape, BASE_A);
    auto v = view::take(a, vh::to_list<int>(idx), ax);
    vh::emit_view_all(out, v);
}

// take_none <shape> <indices list>    (axis=None: flat indices)
VH_OP(take_none)
{
    auto shape = in.vec();
    auto idx = in.vec();
    auto a = vh::make_arr<int>(shape, BASE_A);
    auto v = view::take(a, vh::to_list<int>(idx), nm::None);
    c04::emit_view_all(out, v);
}

// compress <shape> <condition list (0/non-0)> <axis int>
VH_OP(compress)
{
    auto shape = in.vec();
    auto c = in.vec();
    auto ax = (int)in.i();
    auto a = vh::make_arr<int>(shape, BASE_A);
    auto v = view::compress(vh::to_list<int>(c), a, ax);
    vh::emit_view_all(out, v);
}

// compress_none <shape> <condition list>   (axis=None: flattened)
VH_OP(compress_none)
{
    auto shape = in.vec();
    auto c = in.vec();
    auto a = vh::make_arr<int>(shape, BASE_A);
    auto v = view::compress(vh::to_list<int>(c), a, nm::None);
    c04::emit_view_all(out, v);
}

// resize <shape> <dst shape list>
VH_OP(resize)
{
    auto shape = in.vec();
    auto ds = in.vec();
    auto a = vh::make_arr<int>(shape, BASE_A);
    auto v = view::resize(a, vh::to_list<int>(ds));
    vh::emit_view_all(out, v);
}

VH_MAIN()
