// C17: conv2d with stride / padding / dilation given per axis (pairs), bias on/off
//   nn_conv2d_list <dtype f> <input> <weight> <hasbias> [<bias>] <sh> <sw> <ph> <pw> <dh> <dw> <groups>
#include "c16_common.hpp"
#include "nmtools/array/view/conv2d.hpp"

namespace view = nmtools::view;

VH_OP(nn_conv2d_list)
{
    vh::with_f(in, out, [&](auto t) {
        using T = decltype(t);
        auto xo = vh::read_operand(in);
        auto wo = vh::read_operand(in);
        auto hasbias = in.i();
        vh::Operand bo;
        if (hasbias) bo = vh::read_operand(in);
        nmtools_array<int, 2> stride{(int)in.i(), (int)in.i()};
        nmtools_array<int, 2> padding{(int)in.i(), (int)in.i()};
        nmtools_array<int, 2> dilation{(int)in.i(), (int)in.i()};
        auto groups = (int)in.i();
        auto x = vh::to_arr<T>(xo);
        auto w = vh::to_arr<T>(wo);
        if (hasbias) {
            auto b = vh::to_arr<T>(bo);
            auto v = view::conv2d(x, w, b, stride, padding, dilation, groups);
            vh::emit_la(out, v);
        } else {
            auto v = view::conv2d(x, w, nm::None, stride, padding, dilation, groups);
            vh::emit_la(out, v);
        }
    });
}

VH_MAIN()
