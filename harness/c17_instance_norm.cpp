// C17: instance_norm (1d, 2d)
//   nn_instance_norm <nd 1|2> <dtype f|d> <input> <weight> <bias> <eps>
#include "c16_common.hpp"
#include "nmtools/array/view/instance_norm.hpp"

namespace view = nmtools::view;

VH_OP(nn_instance_norm)
{
    auto nd = in.i();
    vh::with_fdtype(in, out, [&](auto t) {
        using T = decltype(t);
        auto xo = vh::read_foperand(in);
        auto wo = vh::read_foperand(in);
        auto bo = vh::read_foperand(in);
        T eps = (T)in.d();
        auto x = vh::to_arr<T>(xo);
        auto w = vh::to_arr<T>(wo);
        auto b = vh::to_arr<T>(bo);
        if (nd == 1) {
            auto v = view::instance_norm_1d(x, w, b, eps);
            vh::emit_la(out, v);
        } else if (nd == 2) {
            auto v = view::instance_norm_2d(x, w, b, eps);
            vh::emit_la(out, v);
        } else {
            out.tok("ERR bad-nd");
        }
    });
}

VH_MAIN()
