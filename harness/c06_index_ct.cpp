// C06 (index level, mixed knowledge): broadcast_shape of a compile-time-constant or clipped shape with a run-time shape
// (list / array<N> / static_vector / None), both operand orders.
#include "c06_common.hpp"
#include "nmtools/array/index/broadcast_shape.hpp"

namespace ix = nmtools::index;
using namespace nmtools::literals;
using c06::emit_shape_result;

// kind 7 (only here): nmtools_static_vector<size_t,2>, i.e. a bound not larger than the other operand's length
constexpr int K_SVEC2 = 7;

template <typename A, typename F>
static void pair_with(vh::Out& out, const A& sa, int kb, const std::vector<long long>& b, F&&)
{
    auto body = [&](const auto& sb) {
        const auto p = ix::broadcast_shape(sa, sb);
        out.tok("P");
        emit_shape_result(out, p);
        const auto q = ix::broadcast_shape(sb, sa);
        out.tok("Q");
        emit_shape_result(out, q);
    };
    if (kb == K_SVEC2) {
        if (b.size() > 2) {
            out.tok("ERR kind-b");
            return;
        }
        nmtools_static_vector<size_t, 2> sb;
        sb.resize(b.size());
        for (size_t i = 0; i < b.size(); i++) sb[i] = (size_t)b[i];
        body(sb);
        return;
    }
    bool ok = c06::with_shape<3, true, false>(kb, b, body);
    if (!ok) out.tok("ERR kind-b");
}

template <size_t N>
static auto clip_array(const std::vector<long long>& v)
{
    nmtools_array<nm::clipped_size_t<4>, N> a{};
    for (size_t i = 0; i < N; i++) a[i] = (size_t)v[i];
    return a;
}

// bsm <menu> <a> <kb> <b>
//   menu 0..3, 6, 7: constant shapes (2,3) (1,3) (3) (2,1,3) (3,1) (2,3,1)   (a must repeat the values; it is only echoed)
//   menu 4: tuple<clipped_size_t<2>, clipped_size_t<3>> holding the run-time values a (a[0]<=2, a[1]<=3)
//   menu 5: nmtools_array<clipped_size_t<4>, N> holding the run-time values a (N = 1..3, values <= 4)
VH_OP(bsm)
{
    auto menu = (int)in.i();
    auto a = in.vec();
    auto kb = (int)in.i();
    auto b = in.vec();
    out.tok("A");
    switch (menu) {
    case 0: { const auto sa = nmtools_tuple{2_ct, 3_ct}; out.vec(vh::to_vec(sa)); pair_with(out, sa, kb, b, 0); } break;
    case 1: { const auto sa = nmtools_tuple{1_ct, 3_ct}; out.vec(vh::to_vec(sa)); pair_with(out, sa, kb, b, 0); } break;
    case 2: { const auto sa = nmtools_tuple{3_ct}; out.vec(vh::to_vec(sa)); pair_with(out, sa, kb, b, 0); } break;
    case 3: { const auto sa = nmtools_tuple{2_ct, 1_ct, 3_ct}; out.vec(vh::to_vec(sa)); pair_with(out, sa, kb, b, 0); } break;
    // constant shapes with a TRAILING extent 1 (longer than a run-time partner: the 1 is paired with the partner's last axis)
    case 6: { const auto sa = nmtools_tuple{3_ct, 1_ct}; out.vec(vh::to_vec(sa)); pair_with(out, sa, kb, b, 0); } break;
    case 7: { const auto sa = nmtools_tuple{2_ct, 3_ct, 1_ct}; out.vec(vh::to_vec(sa)); pair_with(out, sa, kb, b, 0); } break;
    case 4: {
        if (a.size() != 2 || a[0] > 2 || a[1] > 3) { out.tok("ERR menu4"); return; }
        const auto sa = nmtools_tuple<nm::clipped_size_t<2>, nm::clipped_size_t<3>>{nm::clipped_size_t<2>{(size_t)a[0]}, nm::clipped_size_t<3>{(size_t)a[1]}};
        out.vec(vh::to_vec(sa));
        pair_with(out, sa, kb, b, 0);
    } break;
    case 5: {
        for (auto x : a) if (x > 4) { out.tok("ERR menu5"); return; }
        if (a.size() == 1) { const auto sa = clip_array<1>(a); out.vec(vh::to_vec(sa)); pair_with(out, sa, kb, b, 0); }
        else if (a.size() == 2) { const auto sa = clip_array<2>(a); out.vec(vh::to_vec(sa)); pair_with(out, sa, kb, b, 0); }
        else if (a.size() == 3) { const auto sa = clip_array<3>(a); out.vec(vh::to_vec(sa)); pair_with(out, sa, kb, b, 0); }
        else out.tok("ERR menu5-dim");
    } break;
    default: out.tok("ERR menu");
    }
}

VH_MAIN()
