// C16: outer, vecdot (keepdims off/on), trace (run-time offset / axes)
#include "c16_common.hpp"
#include "nmtools/array/view/outer.hpp"
#include "nmtools/array/view/vecdot.hpp"
#include "nmtools/array/view/trace.hpp"

namespace view = nmtools::view;

VH_OP(la_outer)
{
    vh::with_dtype(in, out, [&](auto t) {
        using T = decltype(t);
        auto lo = vh::read_operand(in);
        auto ro = vh::read_operand(in);
        auto a = vh::to_arr<T>(lo);
        auto b = vh::to_arr<T>(ro);
        auto v = view::outer(a, b);
        vh::emit_la(out, v);
    });
}

// la_vecdot <dtype> <lhs> <rhs> <keepdims 0|1>
VH_OP(la_vecdot)
{
    vh::with_dtype(in, out, [&](auto t) {
        using T = decltype(t);
        auto lo = vh::read_operand(in);
        auto ro = vh::read_operand(in);
        auto keepdims = in.i();
        auto a = vh::to_arr<T>(lo);
        auto b = vh::to_arr<T>(ro);
        if (keepdims) {
            auto v = view::vecdot(a, b, nm::None, nm::True);
            vh::emit_la(out, v);
        } else {
            auto v = view::vecdot(a, b);
            vh::emit_la(out, v);
        }
    });
}

// la_trace <dtype> <a> <offset> <axis1> <axis2>
VH_OP(la_trace)
{
    vh::with_dtype(in, out, [&](auto t) {
        using T = decltype(t);
        auto ao = vh::read_operand(in);
        auto offset = (int)in.i();
        auto axis1 = (int)in.i();
        auto axis2 = (int)in.i();
        auto a = vh::to_arr<T>(ao);
        auto v = view::trace(a, offset, axis1, axis2);
        vh::emit_la(out, v);
    });
}

// la_trace_default <dtype> <a>      (offset 0, axes 0 and 1 as compile-time defaults)
VH_OP(la_trace_default)
{
    vh::with_dtype(in, out, [&](auto t) {
        using T = decltype(t);
        auto ao = vh::read_operand(in);
        auto a = vh::to_arr<T>(ao);
        auto v = view::trace(a);
        vh::emit_la(out, v);
    });
}

VH_MAIN()
