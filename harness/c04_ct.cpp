// C04 (part ct): selecting / replicating / joining views with COMPILE-TIME axes on sources of compile-time dimension 3 (kind 0)
// and on dynamic sources (kind 1)
#include "ctaxis.hpp"
#include "c04_common.hpp"
#include "nmtools/array/view/take.hpp"
#include "nmtools/array/view/repeat.hpp"
#include "nmtools/array/view/roll.hpp"
#include "nmtools/array/view/concatenate.hpp"
#include "nmtools/array/view/stack.hpp"
#include "nmtools/array/view/diagonal.hpp"

namespace view = nmtools::view;
using c04::BASE_A;
using c04::BASE_B;

template <typename F>
static void with_source(int kind, const std::vector<long long>& shape, long long base, F&& f)
{
    if (kind == 0) { auto a = vh::make_fd<int, 3>(shape, base); f(a); }
    else           { auto a = vh::make_arr<int>(shape, base);  f(a); }
}

// take_ct <kind> <shape> <indices list> <axis>
VH_OP(take_ct)
{
    auto kind = (int)in.i(); auto shape = in.vec(); auto idx = in.vec(); auto axis = in.i();
    with_source(kind, shape, BASE_A, [&](const auto& a) {
        if (!vh::with_ct<-3, 2>(axis, [&](auto ax) { c04::emit_view_all(out, view::take(a, vh::to_list<int>(idx), ax)); })) out.tok("ERR axis");
    });
}

// repeat_ct <kind> <shape> <repeats int> <axis>
VH_OP(repeat_ct)
{
    auto kind = (int)in.i(); auto shape = in.vec(); auto r = (int)in.i(); auto axis = in.i();
    with_source(kind, shape, BASE_A, [&](const auto& a) {
        if (!vh::with_ct<-3, 2>(axis, [&](auto ax) { c04::emit_view_all(out, view::repeat(a, r, ax)); })) out.tok("ERR axis");
    });
}

// roll_ct <kind> <shape> <shift int> <axis>
VH_OP(roll_ct)
{
    auto kind = (int)in.i(); auto shape = in.vec(); auto s = (int)in.i(); auto axis = in.i();
    with_source(kind, shape, BASE_A, [&](const auto& a) {
        if (!vh::with_ct<-3, 2>(axis, [&](auto ax) { c04::emit_view_all(out, view::roll(a, s, ax)); })) out.tok("ERR axis");
    });
}

// concatenate_ct <kind> <shape a> <shape b> <axis 0..2>      (a negative constant axis is rejected at compile time)
VH_OP(concatenate_ct)
{
    auto kind = (int)in.i(); auto s1 = in.vec(); auto s2 = in.vec(); auto axis = in.i();
    with_source(kind, s1, BASE_A, [&](const auto& a) {
        with_source(kind, s2, BASE_B, [&](const auto& b) {
            if (!vh::with_ct<0, 2>(axis, [&](auto ax) { c04::emit_view_all(out, view::concatenate(a, b, ax)); })) out.tok("ERR axis");
        });
    });
}

// diagonal_ct <kind> <shape> <offset int> <axis1> <axis2>
VH_OP(diagonal_ct)
{
    auto kind = (int)in.i(); auto shape = in.vec(); auto off = (int)in.i(); auto a1 = in.i(); auto a2 = in.i();
    with_source(kind, shape, BASE_A, [&](const auto& a) {
        bool ok = false;
#define VH_PAIR(x, y) if (a1 == (x) && a2 == (y)) { c04::emit_view_all(out, view::diagonal(a, off, meta::ct_v<(x)>, meta::ct_v<(y)>)); ok = true; }
        VH_PAIR(0, 1) VH_PAIR(1, 0) VH_PAIR(0, 2) VH_PAIR(2, 0) VH_PAIR(1, 2) VH_PAIR(-1, -2) VH_PAIR(-2, -1) VH_PAIR(0, -1) VH_PAIR(-1, 0) VH_PAIR(-3, -1)
#undef VH_PAIR
        if (!ok) out.tok("ERR axis");
    });
}

VH_MAIN()
