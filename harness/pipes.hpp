// Composition pipelines: fused (view of view, evaluated once) vs staged (inner evaluated to an array first).
//   F <emit_view_all of outer(inner(a))>   G <emit_view_all of outer(eval(inner(a)))>
#ifndef VERIF_HARNESS_PIPES_HPP
#define VERIF_HARNESS_PIPES_HPP

#include "viewcommon.hpp"

namespace vh
{
    // continuation-passing unwrap: calls f(value) if x holds a value, otherwise prints NOTHING
    template <typename X, typename F>
    void with_value(Out& out, const X& x, F&& f)
    {
        if constexpr (meta::is_maybe_v<X>) {
            if (nm::has_value(x)) {
                f(nm::unwrap(x));
            } else {
                out.tok("NOTHING");
            }
        } else {
            f(x);
        }
    }

    // two stages: inner: () -> view ; outer: (operand) -> view
    template <typename inner_f, typename outer_f>
    void pipe2(Out& out, inner_f&& inner, outer_f&& outer)
    {
        const auto v1 = inner();
        out.tok("F");
        with_value(out, v1, [&](const auto& u1) {
            const auto v2 = outer(u1);
            emit_view_all(out, v2);
        });
        out.tok("G");
        with_value(out, v1, [&](const auto& u1) {
            const auto e1 = na::eval(u1, nm::None, nm::None, na::RowMajorResolver);
            with_value(out, e1, [&](const auto& a1) {
                const auto v2 = outer(a1);
                emit_view_all(out, v2);
            });
        });
    }

    // three stages
    template <typename f1_t, typename f2_t, typename f3_t>
    void pipe3(Out& out, f1_t&& f1, f2_t&& f2, f3_t&& f3)
    {
        const auto v1 = f1();
        out.tok("F");
        with_value(out, v1, [&](const auto& u1) {
            const auto v2 = f2(u1);
            with_value(out, v2, [&](const auto& u2) {
                const auto v3 = f3(u2);
                emit_view_all(out, v3);
            });
        });
        out.tok("G");
        with_value(out, v1, [&](const auto& u1) {
            const auto e1 = na::eval(u1, nm::None, nm::None, na::RowMajorResolver);
            with_value(out, e1, [&](const auto& a1) {
                const auto v2 = f2(a1);
                with_value(out, v2, [&](const auto& u2) {
                    const auto e2 = na::eval(u2, nm::None, nm::None, na::RowMajorResolver);
                    with_value(out, e2, [&](const auto& a2) {
                        const auto v3 = f3(a2);
                        emit_view_all(out, v3);
                    });
                });
            });
        });
    }
} // namespace vh

#endif
