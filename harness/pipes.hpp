// Composition pipelines: fused (view of view, evaluated once) vs staged (inner evaluated to an array first).
//   F <emit_view_all of outer(inner(a))>   G <emit_view_all of outer(eval(inner(a)))>
#ifndef VERIF_HARNESS_PIPES_HPP
#define VERIF_HARNESS_PIPES_HPP

#include "viewcommon.hpp"
#include <stdexcept>

namespace vh
{
    // continuation-passing unwrap: calls f(value) if x holds a value, otherwise prints NOTHING
    template <typename X, typename F>
    void with_value(Out& out, const X& x, F&& f)
    {
        if constexpr (meta::is_maybe_v<X>) {
            if (nm::has_value(x)) {
                f(nm::unwrap(x));
            } else {
                out.tok("NOTHING");
            }
        } else {
            f(x);
        }
    }

    // two stages: inner: () -> view ; outer: (operand) -> view
    template <typename inner_f, typename outer_f>
    void pipe2(Out& out, inner_f&& inner, outer_f&& outer)
    {
        const auto v1 = inner();
        out.tok("F");
        with_value(out, v1, [&](const auto& u1) {
            const auto v2 = outer(u1);
            emit_view_all(out, v2);
        });
        out.tok("G");
        with_value(out, v1, [&](const auto& u1) {
            const auto e1 = na::eval(u1, nm::None, nm::None, na::RowMajorResolver);
            with_value(out, e1, [&](const auto& a1) {
                const auto v2 = outer(a1);
                emit_view_all(out, v2);
            });
        });
    }

    // three stages
    template <typename f1_t, typename f2_t, typename f3_t>
    void pipe3(Out& out, f1_t&& f1, f2_t&& f2, f3_t&& f3)
    {
        const auto v1 = f1();
        out.tok("F");
        with_value(out, v1, [&](const auto& u1) {
            const auto v2 = f2(u1);
            with_value(out, v2, [&](const auto& u2) {
                const auto v3 = f3(u2);
                emit_view_all(out, v3);
            });
        });
        out.tok("G");
        with_value(out, v1, [&](const auto& u1) {
            const auto e1 = na::eval(u1, nm::None, nm::None, na::RowMajorResolver);
            with_value(out, e1, [&](const auto& a1) {
                const auto v2 = f2(a1);
                with_value(out, v2, [&](const auto& u2) {
                    const auto e2 = na::eval(u2, nm::None, nm::None, na::RowMajorResolver);
                    with_value(out, e2, [&](const auto& a2) {
                        const auto v3 = f3(a2);
                        emit_view_all(out, v3);
                    });
                });
            });
        });
    }

    // ------------------------------------------------------------------------------------------------------------
    // generated pipelines (vf/c10_gen.py): leaves of several storage kinds, binary trees
    // ------------------------------------------------------------------------------------------------------------

    // hybrid leaf: run-time shape, elements in a bounded buffer (result storage may be inferred as bounded)
    template <typename T, size_t CAP>
    using hyb_t = na::ndarray_t<nmtools_static_vector<T, CAP>, nmtools_list<nm_size_t>>;

    struct kind_dyn {};
    template <size_t CAP>
    struct kind_hyb {};

    template <typename T, typename D>
    auto make_leaf(kind_dyn, const std::vector<long long>& shape, const std::vector<D>& data)
    {
        return make_arr_data<T>(shape, data);
    }

    template <typename T, size_t CAP, typename D>
    auto make_leaf(kind_hyb<CAP>, const std::vector<long long>& shape, const std::vector<D>& data)
    {
        hyb_t<T, CAP> a;
        auto n = prod(shape);
        if (n < 0 || n > (long long)CAP || !a.resize(to_shape(shape))) {
            throw std::runtime_error("leaf-exceeds-capacity");   // a generator error (reported as EXC), never a verdict
        }
        for (long long k = 0; k < n && k < (long long)data.size(); k++) a.data()[k] = (T)data[(size_t)k];
        return a;
    }

    // run-time list of (start, stop, step) triples: "n  a b c  a b c ..."
    inline nmtools_list<nmtools_array<int, 3>> read_slices(Args& in)
    {
        nmtools_list<nmtools_array<int, 3>> sl;
        auto n = in.i();
        for (long long k = 0; k < n; k++) {
            auto a = (int)in.i();
            auto b = (int)in.i();
            auto c = (int)in.i();
            sl.push_back(nmtools_array<int, 3>{a, b, c});
        }
        return sl;
    }

    // one operand of a tree node: make() -> view (or maybe<view>); k(operand) is called with the view itself (fused)
    // or with the view evaluated to a concrete array (staged; a maybe<view> is handed to eval as it is, so that eval's own
    // lifting of optional views is exercised). A Nothing at any level prints NOTHING once.
    template <bool staged, typename make_t, typename cont_t>
    void feed(Out& out, make_t&& make, cont_t&& k)
    {
        const auto v = make();
        if constexpr (staged) {
            const auto e = na::eval(v, nm::None, nm::None, na::RowMajorResolver);
            with_value(out, e, [&](const auto& a) { k(a); });
        } else {
            with_value(out, v, [&](const auto& u) { k(u); });
        }
    }

    // two stages, "lifted": the inner result is handed to the outer operation exactly as returned (an optional view stays
    // optional: the outer operation's own lifting of optional operands is exercised); staged: eval(inner) - an optional
    // array if the inner view is optional - handed to the outer operation as it is
    template <typename inner_f, typename outer_f>
    void pipe2_lifted(Out& out, inner_f&& inner, outer_f&& outer)
    {
        const auto v1 = inner();
        out.tok("F");
        {
            const auto v2 = outer(v1);
            emit_view_all(out, v2);
        }
        out.tok("G");
        {
            const auto e1 = na::eval(v1, nm::None, nm::None, na::RowMajorResolver);
            const auto v2 = outer(e1);
            emit_view_all(out, v2);
        }
    }

    // F <body(fused)> G <body(staged)>
    template <typename body_t>
    void fused_staged(Out& out, body_t&& body)
    {
        out.tok("F");
        body(std::false_type{});
        out.tok("G");
        body(std::true_type{});
    }

    // binary tree  op(f(a), g(b)):  f, g: () -> view ; op: (x, y) -> view
    template <typename f_t, typename g_t, typename op_t>
    void tree2(Out& out, f_t&& f, g_t&& g, op_t&& op)
    {
        fused_staged(out, [&](auto staged) {
            constexpr bool S = decltype(staged)::value;
            feed<S>(out, f, [&](const auto& x) {
                feed<S>(out, g, [&](const auto& y) {
                    const auto v = op(x, y);
                    emit_view_all(out, v);
                });
            });
        });
    }

    // depth 3:  top(op(f(a), g(b)))
    template <typename f_t, typename g_t, typename op_t, typename top_t>
    void tree3_top(Out& out, f_t&& f, g_t&& g, op_t&& op, top_t&& top)
    {
        fused_staged(out, [&](auto staged) {
            constexpr bool S = decltype(staged)::value;
            feed<S>(out, f, [&](const auto& x) {
                feed<S>(out, g, [&](const auto& y) {
                    feed<S>(out, [&]() { return op(x, y); }, [&](const auto& z) {
                        const auto v = top(z);
                        emit_view_all(out, v);
                    });
                });
            });
        });
    }

    // depth 3:  op(h(f(a)), g(b))
    template <typename f_t, typename h_t, typename g_t, typename op_t>
    void tree3_left(Out& out, f_t&& f, h_t&& h, g_t&& g, op_t&& op)
    {
        fused_staged(out, [&](auto staged) {
            constexpr bool S = decltype(staged)::value;
            feed<S>(out, f, [&](const auto& x0) {
                feed<S>(out, [&]() { return h(x0); }, [&](const auto& x) {
                    feed<S>(out, g, [&](const auto& y) {
                        const auto v = op(x, y);
                        emit_view_all(out, v);
                    });
                });
            });
        });
    }

    // depth 3:  op(f(a), h(g(b)))
    template <typename f_t, typename g_t, typename h_t, typename op_t>
    void tree3_right(Out& out, f_t&& f, g_t&& g, h_t&& h, op_t&& op)
    {
        fused_staged(out, [&](auto staged) {
            constexpr bool S = decltype(staged)::value;
            feed<S>(out, f, [&](const auto& x) {
                feed<S>(out, g, [&](const auto& y0) {
                    feed<S>(out, [&]() { return h(y0); }, [&](const auto& y) {
                        const auto v = op(x, y);
                        emit_view_all(out, v);
                    });
                });
            });
        });
    }
} // namespace vh

#endif
