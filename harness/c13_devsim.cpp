// C13: per-thread device kernel body on the host (see c13_devsim.hpp); one binary per pipeline group (-DC13_GROUP=k)
#include "c13_devsim.hpp"
#include "nmtools/array/view.hpp"
#include "nmtools/array/functional.hpp"
#include "nmtools/array/view/cumsum.hpp"
#include "nmtools/array/view/moveaxis.hpp"
#include "nmtools/array/view/hstack.hpp"
#include "nmtools/array/view/vstack.hpp"
#include "nmtools/array/view/prod.hpp"
#include "nmtools/array/view/cumprod.hpp"
#include "nmtools/array/view/softmax.hpp"
#include "nmtools/array/view/swapaxes.hpp"
#include "nmtools/array/view/roll.hpp"
#include "nmtools/array/functional/cumsum.hpp"
#include "nmtools/array/functional/moveaxis.hpp"
#include "nmtools/array/functional/hstack.hpp"
#include "nmtools/array/functional/vstack.hpp"
#include "nmtools/array/functional/prod.hpp"
#include "nmtools/array/functional/cumprod.hpp"
#include "nmtools/array/functional/softmax.hpp"
#include "nmtools/array/functional/roll.hpp"

namespace view = nm::view;

#ifndef C13_GROUP
#define C13_GROUP 0
#endif

#define I(k) ((int)c13::par(p, (size_t)(k)))
#define L(from, n) c13::parlist<int>(p, (size_t)(from), (size_t)(n))
#define LS(from, n) c13::parlist<size_t>(p, (size_t)(from), (size_t)(n))

// run <pipeline> <den> <A shape> <A data> <B shape> <B data> <C shape> <C data> <params> <nlaunch> <guard> {launch}*
VH_OP(run)
{
    const auto pid = in.i();
    switch (pid) {
#define C13_PIPE(ID, T, RAW, ...)                                   \
    case ID: {                                                      \
        auto o = c13::read_operands<T>(in);                         \
        [[maybe_unused]] const auto& a = o.a;                       \
        [[maybe_unused]] const auto& b = o.b;                       \
        [[maybe_unused]] const auto& c = o.c;                       \
        [[maybe_unused]] const auto& p = o.p;                       \
        const auto v = __VA_ARGS__;                                 \
        c13::run_any<(RAW) != 0>(in, out, v);                       \
    } break;
#include "c13_pipes.def"
#undef C13_PIPE
    default:
        out.tok("ERR unknown-pipeline");
    }
}

VH_MAIN()
