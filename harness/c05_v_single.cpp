// C05 view level: one part (12 None-patterns, index arrays, an integer), view::slice front end, mutable slices
#include "c05_view.hpp"

VP(v_ii, P_ii<int>)
VP(v_in, P_in<int>)
VP(v_ni, P_ni<int>)
VP(v_nn, P_nn<int>)
VP(v_iii, P_iii<int>)
VP(v_iin, P_iin<int>)
VP(v_ini, P_ini<int>)
VP(v_inn, P_inn<int>)
VP(v_nii, P_nii<int>)
VP(v_nin, P_nin<int>)
VP(v_nni, P_nni<int>)
VP(v_nnn, P_nnn<int>)
VP(v_a3, A3)
VP(v_a2, A2)
VP(v_I, I)
VP(v_E, E)

// view::slice(a, parts...): a single range part is the CTAD case
VS(vs_ii, Rf)
VS(vs_iii, R)
VS(vs_I, I)
VS(vs_R_R, R, R)
VS(vs_I_R, I, R)
VS(vs_R_I, R, I)
VS(vs_E_R, E, R)
VS(vs_Rc_Rd, Rc, Rd)
VS(vs_R_E_I, R, E, I)

VM(vm_iii, R)
VM(vm_nni, Rc)
VM(vm_in, Ra)
VM(vm_I_R, I, R)
VM(vm_R_E, R, E)
VM(vm_E_I_Rb, E, I, Rb)

VH_MAIN()
