// C05 view level: packed multi-axis patterns of length 3 (no ellipsis) and 3..4 with None-patterns
#include "c05_view.hpp"

VP(m_I_I_I, I, I, I)
VP(m_I_I_R, I, I, R)
VP(m_I_R_I, I, R, I)
VP(m_R_I_I, R, I, I)
VP(m_I_R_R, I, R, R)
VP(m_R_I_R, R, I, R)
VP(m_R_R_I, R, R, I)
VP(m_R_R_R, R, R, R)
VP(m_Rc_Ra_Rb, Rc, Ra, Rb)
VP(m_Rd_I_Re, Rd, I, Re)
VP(m_Rn_Rc_I, Rn, Rc, I)
VP(m_R_E_R_R, R, E, R, R)
VP(m_E_R_I_R, E, R, I, R)
VP(m_I_R_R_E, I, R, R, E)

VH_MAIN()
