// C05 helpers: slice parts of any type are read from the case file as THREE tokens each
//   integer part      : v  0 0
//   ellipsis          : 0  0 0
//   range (any kind)  : start stop step   (positions whose type is none_t ignore the token)
// so that one case format serves every type pattern.
#ifndef VERIF_HARNESS_C05_COMMON_HPP
#define VERIF_HARNESS_C05_COMMON_HPP

#include "common.hpp"
#include "nmtools/constants.hpp"
#include "nmtools/array/index/slice.hpp"

namespace c05
{
    namespace ix = nmtools::index;
    using nm::None;
    using nm::none_t;
    using nm::ellipsis_t;
    using nm::Ellipsis;

    // scalar positions inside a range
    template <typename T>
    struct rd
    {
        static T get(vh::Args& in) { return (T)in.i(); }
    };
    template <>
    struct rd<none_t>
    {
        static none_t get(vh::Args& in) { in.i(); return None; }
    };

    template <typename T>
    struct part
    {
        static_assert(std::is_integral_v<T>, "unsupported slice part type");
        static T get(vh::Args& in)
        {
            auto v = in.i();
            in.i();
            in.i();
            return (T)v;
        }
    };
    template <>
    struct part<ellipsis_t>
    {
        static ellipsis_t get(vh::Args& in)
        {
            in.i();
            in.i();
            in.i();
            return Ellipsis;
        }
    };
    template <typename A, typename B>
    struct part<nmtools_tuple<A, B>>
    {
        static nmtools_tuple<A, B> get(vh::Args& in)
        {
            auto a = rd<A>::get(in);
            auto b = rd<B>::get(in);
            in.i();
            return nmtools_tuple<A, B>{a, b};
        }
    };
    template <typename A, typename B, typename C>
    struct part<nmtools_tuple<A, B, C>>
    {
        static nmtools_tuple<A, B, C> get(vh::Args& in)
        {
            auto a = rd<A>::get(in);
            auto b = rd<B>::get(in);
            auto c = rd<C>::get(in);
            return nmtools_tuple<A, B, C>{a, b, c};
        }
    };
    template <typename T>
    struct part<nmtools_array<T, 2>>
    {
        static nmtools_array<T, 2> get(vh::Args& in)
        {
            auto a = (T)in.i();
            auto b = (T)in.i();
            in.i();
            return nmtools_array<T, 2>{a, b};
        }
    };
    template <typename T>
    struct part<nmtools_array<T, 3>>
    {
        static nmtools_array<T, 3> get(vh::Args& in)
        {
            auto a = (T)in.i();
            auto b = (T)in.i();
            auto c = (T)in.i();
            return nmtools_array<T, 3>{a, b, c};
        }
    };

    // the 12 packed None-patterns over an integer type T
    template <typename T> using P_ii = nmtools_tuple<T, T>;
    template <typename T> using P_in = nmtools_tuple<T, none_t>;
    template <typename T> using P_ni = nmtools_tuple<none_t, T>;
    template <typename T> using P_nn = nmtools_tuple<none_t, none_t>;
    template <typename T> using P_iii = nmtools_tuple<T, T, T>;
    template <typename T> using P_iin = nmtools_tuple<T, T, none_t>;
    template <typename T> using P_ini = nmtools_tuple<T, none_t, T>;
    template <typename T> using P_inn = nmtools_tuple<T, none_t, none_t>;
    template <typename T> using P_nii = nmtools_tuple<none_t, T, T>;
    template <typename T> using P_nin = nmtools_tuple<none_t, T, none_t>;
    template <typename T> using P_nni = nmtools_tuple<none_t, none_t, T>;
    template <typename T> using P_nnn = nmtools_tuple<none_t, none_t, none_t>;

    // tuple of parts, read left to right (braced-init-list order is guaranteed)
    template <typename... P>
    nmtools_tuple<P...> read_pack(vh::Args& in)
    {
        return nmtools_tuple<P...>{part<P>::get(in)...};
    }

    // run-time list of either-typed parts: kind 0 int, 1 ellipsis, 2 range (R)
    // E1<R> = either<int, either<ellipsis_t, R>>
    template <typename R>
    using E1 = nmtools_either<int, nmtools_either<ellipsis_t, R>>;
    // E2<R> = either<either<R, ellipsis_t>, int>   (other nesting order)
    template <typename R>
    using E2 = nmtools_either<nmtools_either<R, ellipsis_t>, int>;

    template <typename R>
    E1<R> make_e1(long long kind, vh::Args& in)
    {
        using inner = nmtools_either<ellipsis_t, R>;
        if (kind == 0) return E1<R>{part<int>::get(in)};
        if (kind == 1) return E1<R>{inner{part<ellipsis_t>::get(in)}};
        return E1<R>{inner{part<R>::get(in)}};
    }
    template <typename R>
    E2<R> make_e2(long long kind, vh::Args& in)
    {
        using inner = nmtools_either<R, ellipsis_t>;
        if (kind == 0) return E2<R>{part<int>::get(in)};
        if (kind == 1) return E2<R>{inner{part<ellipsis_t>::get(in)}};
        return E2<R>{inner{part<R>::get(in)}};
    }

    // "np k0 a b c k1 a b c ..."  -> nmtools_list<E1<R>>
    template <typename R>
    nmtools_list<E1<R>> read_e1_list(vh::Args& in)
    {
        nmtools_list<E1<R>> sl;
        auto np = in.i();
        for (long long k = 0; k < np; k++) {
            auto kind = in.i();
            sl.push_back(make_e1<R>(kind, in));
        }
        return sl;
    }
    template <typename R>
    nmtools_list<E2<R>> read_e2_list(vh::Args& in)
    {
        nmtools_list<E2<R>> sl;
        auto np = in.i();
        for (long long k = 0; k < np; k++) {
            auto kind = in.i();
            sl.push_back(make_e2<R>(kind, in));
        }
        return sl;
    }
    // "np k a b c ..." with every k == 2 -> nmtools_list<R> (no either)
    template <typename R>
    nmtools_list<R> read_plain_list(vh::Args& in)
    {
        nmtools_list<R> sl;
        auto np = in.i();
        for (long long k = 0; k < np; k++) {
            in.i();
            sl.push_back(part<R>::get(in));
        }
        return sl;
    }
} // namespace c05

#endif
