"""Writes MANIFEST.json from the table below (keeps the file valid at all times)."""
import json
import os
import sys

VERIF = os.path.dirname(os.path.dirname(os.path.abspath(__file__)))

# property id -> (technique, level text, level note, design_ref)
CHECKS = {}
NOT_APPLICABLE = {}


def claim(pid, technique, text, note, ref):
    CHECKS[pid] = (technique, text, note, ref)


import importlib  # noqa: E402
import glob  # noqa: E402
from .integrated import CLAIMED  # noqa: E402

for _f in sorted(glob.glob(os.path.join(VERIF, "vf", "checks", "c[0-9][0-9].py"))):
    _pid = os.path.basename(_f)[:-3].upper()
    if _pid not in CLAIMED:
        continue
    _m = importlib.import_module("vf.checks." + _pid.lower())
    _c = getattr(_m, "CLAIM", None)
    if _c and _pid in CLAIMED:
        claim(_pid, _c["technique"], _c["text"], _c["note"], _c.get("ref", "DESIGN.md 4/" + _pid))
    elif getattr(_m, "NOT_APPLICABLE", None):
        NOT_APPLICABLE[_pid] = _m.NOT_APPLICABLE

ALL = ["C%02d" % i for i in range(1, 21)]


def main():
    hooks_commits = []
    try:
        import subprocess
        out = subprocess.run(["git", "-C", os.environ.get("VERIF_REPO", "/repo"), "log", "--format=%H %s"], capture_output=True, text=True).stdout
        for ln in out.splitlines():
            h, s = ln.split(" ", 1)
            if s.startswith("verif:"):
                hooks_commits.append(h)
    except Exception:
        pass
    man = {
        "version": 1,
        "setup_cmd": "./setup.sh",
        "hooks": {
            "guard": "NMTOOLS_VERIF",
            "enable": "harness binaries are compiled from /repo/include with -DNMTOOLS_VERIF (see vf/build.py); the library is header-only so nothing else is built",
            "baseline_off_cmd": "cmake --build /repo/_build -j16 && ctest --test-dir /repo/_build -j8 --timeout 900",
            "source_commits": list(reversed(hooks_commits)),
            "add_only": True,
        },
        "engines": [
            {"name": "vf", "path": "vf/", "serves_properties": sorted(CHECKS),
             "kind_free_text": "runtime monitoring: harness binaries built from the working tree with ASan+UBSan+_GLIBCXX_ASSERTIONS (TSan / valgrind where stated) and NMTOOLS_VERIF event hooks; seeded + exhaustive small-scope workloads; reference-model oracles (NumPy, Python big-int, std:: containers) over recorded call/return events; crash containment per case"}
        ],
        "checks": [],
        "not_applicable": [],
        "notes": "Every verdict is 'held on the executions observed'. Exit 0 = held (KNOWN-FINDING lines possible), 1 = VIOLATION, 2 = inconclusive/harness failure. VERIF_SEED seeds all sampling; VERIF_REPO (default /repo) selects the tree.",
    }
    for pid in ALL:
        if pid in CHECKS:
            tech, text, note, ref = CHECKS[pid]
            man["checks"].append({
                "property_id": pid,
                "quick_cmd": "./check %s quick" % pid,
                "thorough_cmd": "./check %s thorough" % pid,
                "evidence_file": "/verif/evidence/%s.json" % pid,
                "replay_cmd_template": "cat {path}",
                "engine": "vf",
                "level_claimed": {"category": "exploration", "text": text, "design_ref": ref},
                "level_note": note,
                "technique": tech,
            })
        else:
            man["not_applicable"].append({"property_id": pid, "reason": NOT_APPLICABLE.get(pid, "check not built yet in this tree (planned in DESIGN.md); not claimed")})
    p = os.path.join(VERIF, "MANIFEST.json")
    with open(p, "w") as f:
        json.dump(man, f, indent=1)
        f.write("\n")
    try:
        import jsonschema
        jsonschema.validate(man, json.load(open("/root/.vp/MANIFEST.schema.json")))
        print("MANIFEST.json valid; claims:", " ".join(sorted(CHECKS)))
    except FileNotFoundError:
        pass


if __name__ == "__main__":
    main()
