SAN = "ASan+UBSan+_GLIBCXX_ASSERTIONS build of the harness from the working tree"


def fill(claim, na):
    claim("C01", "runtime monitoring: sanitizer-instrumented execution + big-int reference oracle over recorded index computations; bounds hooks in ndarray access",
          "Executes compute_strides/compute_offset/compute_indices/ndindex and ndarray element access for every shape of dim 1..4 (thorough: ..5) with small extents, every flat offset, 4 run-time container kinds x 4 index element types, plus sampled shapes with 2^24..2^40 elements; each recorded result is decided by an independent Python big-int model (round trip, in-range, suffix-product strides, C-order enumeration, injective buffer addressing in both layouts). Held-on-observed, not a proof.",
          "Trusted: Python ints / numpy as the model; " + SAN + "; compile-time-constant index containers are covered by C09, not here.",
          "DESIGN.md 4/C01")
