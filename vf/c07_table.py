"""C07 op table: every element-wise function of the library with its harness spelling (view call, the library's own
scalar functor), the element-type variants that are built, the argument domain, and the NumPy cross-check.

`python3 -m vf.c07_table` regenerates harness/c07_*.cpp from this table (development-time; the generated sources are
committed).  vf/checks/c07.py reads the same table at run time.
"""
import os

import numpy as np

LD = np.longdouble

CTYPE = {"b1": "bool", "i1": "int8_t", "i2": "int16_t", "i4": "int32_t", "i8": "int64_t",
         "u1": "uint8_t", "u2": "uint16_t", "u4": "uint32_t", "u8": "uint64_t", "f4": "float", "f8": "double"}
NPT = {"b1": np.bool_, "i1": np.int8, "i2": np.int16, "i4": np.int32, "i8": np.int64,
       "u1": np.uint8, "u2": np.uint16, "u4": np.uint32, "u8": np.uint64, "f4": np.float32, "f8": np.float64}

B_FULL = "F_AA|F_AS|F_SA|F_SS"
B_AA = "F_AA"
U_FULL = "F_A|F_S"
U_A = "F_A"


# ---------------------------------------------------------------- C++ usual arithmetic conversions (language rule)
def c_promote(tag):
    return "i4" if tag in ("b1", "i1", "u1", "i2", "u2") else tag


def c_common(*tags):
    t = c_promote(tags[0])
    for u in tags[1:]:
        u = c_promote(u)
        if "f8" in (t, u):
            t = "f8"
        elif "f4" in (t, u):
            t = "f4"
        elif t == u:
            pass
        else:
            st, su = int(t[1]), int(u[1])
            if t[0] == u[0]:
                t = t if st >= su else u
            else:
                un, sg = (t, u) if t[0] == "u" else (u, t)
                if int(un[1]) >= int(sg[1]):
                    t = un
                else:
                    t = sg
    return t


# ---------------------------------------------------------------- NumPy references
def _cdiv(a, b):
    if a.dtype.kind == "f":
        return a / b
    q = np.trunc(a.astype(LD) / b.astype(LD))
    return q.astype(a.dtype)


def _crecip(a):
    if a.dtype.kind == "f":
        return (a.dtype.type(1)) / a
    return np.trunc(LD(1) / a.astype(LD)).astype(a.dtype)


def _cmod(a, b):
    return np.fmod(a, b)


def _sigmoid(x):
    return 1 / (1 + np.exp(-x))


def _softplus(x, beta=1.0, thr=20.0):
    xb = x * beta
    with np.errstate(all="ignore"):
        r = np.log(1 + np.exp(xb)) / beta
    return np.where(xb > thr, x, r)


def _hardswish(x):
    return np.where(x < -3, 0 * x, np.where(x >= 3, x, x * (x + 3) / 6))


def _f32(v):
    return LD(np.float32(v))


OPS = []


def U(name, grp, dom, ref, cls, variants=None, call=None, sf=None, hdr=None, w="self", prefix="uf", params=None, note=None):
    OPS.append(dict(name=name, ar=1, grp=grp, dom=(dom,), ref=ref, cls=cls,
                    variants=variants if variants is not None else [(("f8",), U_FULL), (("i4",), U_A)],
                    call=call or "view::%s(a)" % name, sf=sf or "view::fun::%s{}" % name,
                    hdr=hdr or "nmtools/array/view/ufuncs/%s.hpp" % name, w=w, prefix=prefix, params=params, note=note))


def Bn(name, grp, dom, ref, cls, variants, call=None, sf=None, hdr=None, w="common", prefix="uf"):
    OPS.append(dict(name=name, ar=2, grp=grp, dom=dom, ref=ref, cls=cls, variants=variants,
                    call=call or "view::%s(a,b)" % name, sf=sf or "view::fun::%s{}" % name,
                    hdr=hdr or "nmtools/array/view/ufuncs/%s.hpp" % name, w=w, prefix=prefix, params=None, note=None))


II = ("i4", "i4")
FF = ("f8", "f8")
ff = ("f4", "f4")

# ---- arithmetic
Bn("add", "arith", ("any", "any"), np.add, "exact", [(II, B_FULL), (FF, B_AA), (ff, B_AA)], sf="view::add_t<>{}")
Bn("subtract", "arith", ("any", "any"), np.subtract, "exact", [(II, B_FULL), (FF, B_AA)], sf="view::subtract_t<>{}")
Bn("multiply", "arith", ("any", "any"), np.multiply, "exact", [(II, B_FULL), (FF, B_AA)], sf="view::multiply_t<>{}")
Bn("divide", "arith", ("any", "nz"), _cdiv, "exact", [(II, B_FULL), (FF, B_FULL)])
Bn("mod", "arith", ("any", "nz"), _cmod, "exact", [(II, B_FULL)])
Bn("fmod", "arith", ("any", "nz"), np.fmod, "exact", [(FF, B_FULL), (II, B_AA)], sf="view::fmod_t<>{}", w="float")
Bn("power", "arith", ("pw_base", "pw_exp"), np.power, "ulp", [(FF, B_FULL), (ff, B_AA), (II, B_AA)], sf="view::power_t<>{}", w="float")
# ---- comparisons
for _n, _f in (("equal", np.equal), ("not_equal", np.not_equal), ("less", np.less), ("less_equal", np.less_equal),
               ("greater", np.greater), ("greater_equal", np.greater_equal)):
    Bn(_n, "cmp", ("ext", "ext"), _f, "exact", [(II, B_FULL), (FF, B_AA)])
# ---- logical / bitwise / shifts
for _n, _f in (("logical_and", np.logical_and), ("logical_or", np.logical_or), ("logical_xor", np.logical_xor)):
    Bn(_n, "logic", ("any0", "any0"), _f, "exact", [(II, B_FULL), (FF, B_AA), (("u1", "u1"), B_AA)], w=None)
U("logical_not", "logic", "any0", np.logical_not, "exact", [(("i4",), U_FULL), (("f8",), U_A), (("u1",), U_A)], w=None)
for _n, _f in (("bitwise_and", np.bitwise_and), ("bitwise_or", np.bitwise_or), ("bitwise_xor", np.bitwise_xor)):
    Bn(_n, "logic", ("ext", "ext"), _f, "exact", [(II, B_FULL), (("u1", "u1"), B_AA)])
U("invert", "logic", "ext", np.invert, "exact", [(("i4",), U_FULL), (("u1",), U_A)], w="promote")
# shifts: type and signedness come from the (promoted) LEFT operand only - mixed signedness / width pairs included
_SHIFT_MIX = [(("i8", "i4"), B_AA), (("i4", "u4"), "F_AA|F_AS|F_SA"), (("i8", "u8"), B_AA), (("i2", "u4"), B_AA), (("i4", "i8"), B_AA), (("u4", "i4"), B_AA)]
Bn("left_shift", "logic", ("shl", "shift"), np.left_shift, "exact", [(II, B_FULL)] + _SHIFT_MIX, sf="view::left_shift_t<>{}", w="left")
Bn("right_shift", "logic", ("any", "shift"), np.right_shift, "exact", [(II, B_FULL)] + _SHIFT_MIX, sf="view::right_shift_t<>{}", w="left")
# ---- max/min family, two-argument math
Bn("maximum", "minmax", ("ext", "ext"), np.maximum, "exact", [(II, B_FULL), (FF, B_AA)], sf="view::maximum_t<>{}")
Bn("minimum", "minmax", ("ext", "ext"), np.minimum, "exact", [(II, B_FULL), (FF, B_AA)], sf="view::minimum_t<>{}")
Bn("fmax", "minmax", ("ext", "ext"), np.fmax, "exact", [(FF, B_FULL), (ff, B_AA)], sf="view::fmax_t<>{}")
Bn("fmin", "minmax", ("ext", "ext"), np.fmin, "exact", [(FF, B_FULL), (ff, B_AA)], sf="view::fmin_t<>{}")
Bn("arctan2", "minmax", ("any", "any"), np.arctan2, "ulp", [(FF, B_FULL), (ff, B_AA)], w="float")
Bn("hypot", "minmax", ("any", "any"), np.hypot, "ulp", [(FF, B_FULL)], w="float")
Bn("ldexp", "minmax", ("any", "ldexp_e"), np.ldexp, "exact", [(("f8", "i4"), B_FULL)], w=None)
# ---- unary math
for _n, _d, _f in (("sin", "any", np.sin), ("cos", "any", np.cos), ("tan", "any", np.tan),
                   ("arcsin", "unit", np.arcsin), ("arccos", "unit", np.arccos), ("arctan", "any", np.arctan),
                   ("sinh", "any", np.sinh), ("cosh", "any", np.cosh), ("tanh", "any", np.tanh),
                   ("arcsinh", "any", np.arcsinh), ("arccosh", "ge1", np.arccosh), ("arctanh", "unit_open", np.arctanh)):
    U(_n, "trig", _d, _f, "ulp", w="float")
OPS[-12]["variants"] = [(("f8",), U_FULL), (("f4",), U_A), (("i4",), U_A)]   # sin also in float
for _n, _d, _f, _c in (("exp", "any", np.exp, "ulp"), ("exp2", "small", np.exp2, "ulp"), ("expm1", "any", np.expm1, "ulp"),
                       ("log", "pos", np.log, "ulp"), ("log2", "pos", np.log2, "ulp"), ("log10", "pos", np.log10, "ulp"),
                       ("log1p", "gtm1", np.log1p, "ulp"), ("sqrt", "nn", np.sqrt, "exact"), ("cbrt", "any", np.cbrt, "ulp")):
    U(_n, "explog", _d, _f, _c, w="float")
OPS[-9]["variants"] = [(("f8",), U_FULL), (("f4",), U_A), (("i4",), U_A)]    # exp also in float
OPS[-2]["variants"] = [(("f8",), U_FULL), (("f4",), U_A), (("i4",), U_A)]    # sqrt also in float
U("square", "explog", "any", np.square, "exact", w="promote")
U("reciprocal", "explog", "nz", _crecip, "exact", w="promote")
for _n, _f in (("ceil", np.ceil), ("floor", np.floor), ("trunc", np.trunc), ("rint", np.rint), ("fabs", np.fabs)):
    U(_n, "round", "any", _f, "exact", w="float")
OPS[-4]["variants"] = [(("f8",), U_FULL), (("f4",), U_A), (("i4",), U_A)]    # floor also in float
U("negative", "round", "any", np.negative, "exact", w="promote")
U("positive", "round", "any", np.positive, "exact", w="promote")
for _n, _f in (("isfinite", np.isfinite), ("isinf", np.isinf), ("isnan", np.isnan), ("signbit", np.signbit)):
    U(_n, "round", "special", _f, "exact", [(("f8",), U_FULL), (("f4",), U_A)], w="float")
_D2R = "[](const auto& t){ using T = nm::meta::remove_cvref_t<decltype(t)>; return view::multiply_t<>{}(t, nm::pi_v<T> / 180); }"
_R2D = "[](const auto& t){ using T = nm::meta::remove_cvref_t<decltype(t)>; return view::multiply_t<>{}(t, static_cast<T>(180) / nm::pi_v<T>); }"
for _n, _s, _f in (("deg2rad", _D2R, np.deg2rad), ("radians", _D2R, np.radians), ("degrees", _R2D, np.degrees), ("rad2deg", _R2D, np.rad2deg)):
    U(_n, "round", "any", _f, "ulp", [(("f8",), U_FULL), (("f4",), U_A)], sf=_s, w="float")

# ---- ternary
# clip: view::clip does not compile for any operand kind on the unchanged tree (its baseline tests are commented out
# in tests/*/CMakeLists.txt): where(maybe<less>, ...) is unsupported.  Not exercisable by a run-time monitor.
NOT_COMPILABLE = ["clip"]
_WHERE = "[](const auto& c, const auto& x, const auto& y){ using R = std::common_type_t<nm::meta::remove_cvref_t<decltype(c)>, nm::meta::remove_cvref_t<decltype(x)>, nm::meta::remove_cvref_t<decltype(y)>>; return static_cast<R>(c ? x : y); }"
# The condition is "non-zero", not "non-zero after a narrowing conversion": the domain `cond` is weighted towards values whose
# low byte / low 16 bits / integer part are zero (256, -512, 65536, 2^31, 0.5, -0.25, 2^-20, 256.5 ...).
OPS.append(dict(name="where", ar=3, grp="minmax", dom=("cond", "any", "any"), ref=lambda c, x, y: np.where(c != 0, x, y), cls="exact",
                variants=[(("u1", "i4", "i4"), "F_AAA|F_SAA|F_AAS|F_ASA"), (("i4", "f8", "f8"), "F_AAA|F_TAL"),
                          (("i8", "i4", "i4"), "F_AAA|F_SAA"), (("f4", "f4", "f4"), "F_AAA|F_AAS"),
                          (("f8", "i4", "i4"), "F_AAA|F_TAL"), (("u2", "f4", "f4"), "F_AAA")],
                call="view::where(a,b,c)", sf=_WHERE, hdr="nmtools/array/view/where.hpp", w="where", prefix="uf", params=None, note=None))

# ---- activations
AV = [(("f4",), U_FULL), (("f8",), U_A)]


def A(name, grp, ref, cls="tol", variants=None, call=None, sf=None, params=None, dom="act"):
    U(name, grp, dom, ref, cls, variants or AV, call=call or "view::%s(a)" % name, sf=sf or "view::fun::%s{}" % name,
      hdr="nmtools/array/view/activations/%s.hpp" % name.replace("_p", ""), w="float", prefix="act", params=params)


A("relu", "act_a", lambda x: np.maximum(x, 0), "exact", [(("f4",), U_FULL), (("f8",), U_A), (("i4",), U_A)])
A("relu6", "act_a", lambda x: np.clip(x, 0, 6), "exact", [(("f4",), U_FULL), (("f8",), U_A), (("i4",), U_A)])
A("sigmoid", "act_a", _sigmoid)
A("silu", "act_a", lambda x: x * _sigmoid(x))
A("softsign", "act_a", lambda x: x / (1 + np.abs(x)))
A("tanhshrink", "act_a", lambda x: x - np.tanh(x))
A("log_sigmoid", "act_a", lambda x: np.log(_sigmoid(x)))
A("mish", "act_a", lambda x: x * np.tanh(_softplus(x)))
A("selu", "act_a", "selu")
A("hardswish", "act_a", _hardswish)
# parametrised: default parameters and explicit run-time parameters (second entry, suffix _p)
PV = [(("f4",), U_A)]
A("celu", "act_b", lambda x: np.maximum(0, x) + np.minimum(0, np.exp(x) - 1), sf="view::fun::celu<>{}")
A("celu_p", "act_b", lambda x, al: np.maximum(0, x) + np.minimum(0, al * (np.exp(x / al) - 1)), variants=PV,
  call="view::celu(a,(float)p[0])", sf="view::fun::celu<float>{(float)p[0]}", params=[(0.5,), (2.0,), (1.5,)])
A("elu", "act_b", lambda x: np.where(x > 0, x, np.exp(x) - 1), sf="view::fun::elu<>{}")
A("elu_p", "act_b", lambda x, al: np.where(x > 0, x, al * (np.exp(x) - 1)), variants=PV,
  call="view::elu(a,(float)p[0])", sf="view::fun::elu<float>{(float)p[0]}", params=[(0.5,), (2.0,), (0.25,)])
A("hardshrink", "act_b", lambda x: np.where((x >= -0.5) & (x <= 0.5), 0 * x, x), "exact", sf="view::fun::hardshrink<>{}")
A("hardshrink_p", "act_b", lambda x, lam: np.where((x >= -lam) & (x <= lam), 0 * x, x), "exact", variants=PV,
  call="view::hardshrink(a,(float)p[0])", sf="view::fun::hardshrink<float>{(float)p[0]}", params=[(1.0,), (2.5,), (0.125,)])
A("hardtanh", "act_b", lambda x: np.clip(x, -1, 1), "exact", sf="view::fun::hardtanh<>{}")
A("hardtanh_p", "act_b", lambda x, lo, hi: np.clip(x, lo, hi), "exact", variants=PV,
  call="view::hardtanh(a,(float)p[0],(float)p[1])", sf="view::fun::hardtanh<float,float>{(float)p[0],(float)p[1]}", params=[(-2.0, 3.0), (0.5, 4.0), (-6.0, -1.0)])
A("leaky_relu", "act_b", lambda x: np.where(x >= 0, x, _f32(0.01) * x), sf="view::fun::leaky_relu<>{}")
A("leaky_relu_p", "act_b", lambda x, s: np.where(x >= 0, x, s * x), variants=PV,
  call="view::leaky_relu(a,(float)p[0])", sf="view::fun::leaky_relu<float>{(float)p[0]}", params=[(0.5,), (0.125,), (2.0,)])
A("prelu", "act_b", lambda x: np.where(x >= 0, x, _f32(0.25) * x), sf="view::fun::prelu<>{}")
A("prelu_p", "act_b", lambda x, s: np.where(x >= 0, x, s * x), variants=PV,
  call="view::prelu(a,(float)p[0])", sf="view::fun::prelu<float>{(float)p[0]}", params=[(0.5,), (0.125,), (2.0,)])
A("softplus", "act_b", lambda x: _softplus(x), sf="view::fun::softplus<>{}")
A("softplus_p", "act_b", lambda x, b, t: _softplus(x, b, t), variants=PV,
  call="view::softplus(a,(float)p[0],(float)p[1])", sf="view::fun::softplus<float,float>{(float)p[0],(float)p[1]}", params=[(4.0, 20.0), (0.5, 2.0), (2.0, 8.0)])
A("softshrink", "act_b", lambda x: np.where(x > 0.5, x - 0.5, np.where(x < -0.5, x + 0.5, 0 * x)), "exact", sf="view::fun::softshrink<>{}")
A("softshrink_p", "act_b", lambda x, lam: np.where(x > lam, x - lam, np.where(x < -lam, x + lam, 0 * x)), "exact", variants=PV,
  call="view::softshrink(a,(float)p[0])", sf="view::fun::softshrink<float>{(float)p[0]}", params=[(1.0,), (2.5,), (0.125,)])

# ---- mixed element-type pairs (reduced op set), scalar forms for the int/double pair
MIXED_PAIRS = [("i4", "f8"), ("f4", "i4"), ("i8", "i4"), ("u1", "u1"), ("i1", "i1"), ("f4", "f8"), ("u4", "u4"), ("i2", "i8")]
MIXED = []
for _n, _sf, _f, _dom in (("add", "view::add_t<>{}", np.add, ("any", "any")), ("subtract", "view::subtract_t<>{}", np.subtract, ("any", "any")),
                          ("multiply", "view::multiply_t<>{}", np.multiply, ("any", "any")), ("less", "view::fun::less{}", np.less, ("ext", "ext")),
                          ("maximum", "view::maximum_t<>{}", np.maximum, ("ext", "ext"))):
    vs = []
    for p in MIXED_PAIRS:
        vs.append((p, "F_AA|F_AS|F_SA" if p == ("i4", "f8") and _n in ("add", "multiply") else B_AA))
    MIXED.append(dict(name=_n, ar=2, grp="mixed_a" if _n in ("add", "subtract", "multiply") else "mixed_b", dom=_dom, ref=_f, cls="exact", variants=vs, call="view::%s(a,b)" % _n, sf=_sf,
                      hdr="nmtools/array/view/ufuncs/%s.hpp" % _n, w="common", prefix="uf", params=None, note=None))
MIXED.append(dict(name="divide", ar=2, grp="mixed_b", dom=("any", "nz"), ref=_cdiv, cls="exact",
                  variants=[(("i4", "f8"), B_AA), (("f4", "f8"), B_AA), (("i8", "i4"), B_AA), (("f4", "i4"), B_AA)], call="view::divide(a,b)",
                  sf="view::fun::divide{}", hdr="nmtools/array/view/ufuncs/divide.hpp", w="common", prefix="uf", params=None, note=None))
# power with a scalar operand of another type: power_t has a dedicated branch for operands that arrive wrapped in a view
MIXED.append(dict(name="power", ar=2, grp="mixed_b", dom=("pw_base", "pw_exp"), ref=np.power, cls="ulp",
                  variants=[(("f4", "i8"), "F_AA|F_AS|F_SA"), (("f8", "i4"), "F_AA|F_AS")], call="view::power(a,b)",
                  sf="view::power_t<>{}", hdr="nmtools/array/view/ufuncs/power.hpp", w="float64", prefix="uf", params=None, note=None))
OPS += MIXED

# ---- view operands (transpose / slice of an array) on a subset
VIEWS = []
for _n, _sf, _f, _dom, _t, _w in (("subtract", "view::subtract_t<>{}", np.subtract, ("any", "any"), II, "common"),
                                  ("divide", "view::fun::divide{}", _cdiv, ("any", "nz"), FF, "common"),
                                  ("less", "view::fun::less{}", np.less, ("ext", "ext"), II, "common"),
                                  ("maximum", "view::maximum_t<>{}", np.maximum, ("ext", "ext"), FF, "common")):
    VIEWS.append(dict(name=_n, ar=2, grp="views", dom=_dom, ref=_f, cls="exact", variants=[(_t, "F_TA|F_AL|F_TL")], call="view::%s(a,b)" % _n,
                      sf=_sf, hdr="nmtools/array/view/ufuncs/%s.hpp" % _n, w=_w, prefix="ufv", params=None, note=None))
for _n, _sf, _f, _t, _c, _hdr in (("negative", "view::fun::negative{}", np.negative, ("i4",), "exact", "ufuncs/negative.hpp"),
                                  ("exp", "view::fun::exp{}", np.exp, ("f8",), "ulp", "ufuncs/exp.hpp"),
                                  ("relu", "view::fun::relu{}", lambda x: np.maximum(x, 0), ("f4",), "exact", "activations/relu.hpp")):
    VIEWS.append(dict(name=_n, ar=1, grp="views", dom=("any",), ref=_f, cls=_c, variants=[(_t, "F_T|F_L")], call="view::%s(a)" % _n,
                      sf=_sf, hdr="nmtools/array/view/" + _hdr, w="float" if _c == "ulp" else "promote", prefix="ufv", params=None, note=None))
OPS += VIEWS

# ---- outer
OUTER = []
for _n, _sf, _f, _dom, _ts, _w, _c in (
        ("add", "view::add_t<>{}", np.add, ("any", "any"), [II, FF], "common", "exact"),
        ("subtract", "view::subtract_t<>{}", np.subtract, ("any", "any"), [II], "common", "exact"),
        ("multiply", "view::multiply_t<>{}", np.multiply, ("any", "any"), [II, ("i4", "f8")], "common", "exact"),
        ("maximum", "view::maximum_t<>{}", np.maximum, ("ext", "ext"), [II], "common", "exact"),
        ("minimum", "view::minimum_t<>{}", np.minimum, ("ext", "ext"), [FF], "common", "exact"),
        ("fmax", "view::fmax_t<>{}", np.fmax, ("ext", "ext"), [FF], "common", "exact"),
        ("fmin", "view::fmin_t<>{}", np.fmin, ("ext", "ext"), [FF], "common", "exact"),
        ("fmod", "view::fmod_t<>{}", np.fmod, ("any", "nz"), [FF], "float", "exact"),
        ("power", "view::power_t<>{}", np.power, ("pw_base", "pw_exp"), [FF], "float", "ulp"),
        ("left_shift", "view::left_shift_t<>{}", np.left_shift, ("shl", "shift"), [II], "left", "exact"),
        ("right_shift", "view::right_shift_t<>{}", np.right_shift, ("any", "shift"), [II], "left", "exact")):
    OUTER.append(dict(name=_n, ar=2, grp="outer", dom=_dom, ref=_f, cls=_c, variants=[(t, "OUTER") for t in _ts], call="view::outer_%s(a,b)" % _n,
                      sf=_sf, hdr="nmtools/array/view/ufuncs/%s.hpp" % _n, w=_w, prefix="out", params=None, note=None, outer=True))
# generic entry point with functors that have no named outer_ wrapper, and an explicit dtype
OUTER.append(dict(name="gdivide", ar=2, grp="outer", dom=("any", "nz"), ref=_cdiv, cls="exact", variants=[(II, "OUTER")], call="view::outer(view::divide_t{},a,b)",
                  sf="view::fun::divide{}", hdr="nmtools/array/view/ufuncs/divide.hpp", w="common", prefix="out", params=None, note=None, outer=True))
OUTER.append(dict(name="gless", ar=2, grp="outer", dom=("ext", "ext"), ref=np.less, cls="exact", variants=[(FF, "OUTER")], call="view::outer(view::less_t{},a,b)",
                  sf="view::fun::less{}", hdr="nmtools/array/view/ufuncs/less.hpp", w="common", prefix="out", params=None, note=None, outer=True))
OUTER.append(dict(name="add_dt", ar=2, grp="outer", dom=("any", "any"), ref=lambda a, b: np.add(a, b).astype(np.float64), cls="exact", variants=[(II, "OUTER")],
                  call="view::outer_add(a,b,nm::float64)", sf="view::add_t<nm::none_t,nm::none_t,double>{}", hdr="nmtools/array/view/ufuncs/add.hpp",
                  w="common", prefix="out", params=None, note=None, outer=True))
OPS += OUTER

for _o in OPS:
    _o.setdefault("outer", False)


def opname(o, types):
    return "%s_%s_%s" % (o["prefix"], o["name"], "".join(types))


GROUPS = ["arith", "cmp", "logic", "minmax", "trig", "explog", "round", "act_a", "act_b", "mixed_a", "mixed_b", "views", "outer"]
HARNESS = ["c07_" + g for g in GROUPS]

BY_OPNAME = {}
for _o in OPS:
    for _t, _m in _o["variants"]:
        BY_OPNAME[opname(_o, _t)] = (_o, _t, _m)


# ---------------------------------------------------------------- generator
def generate():
    harness = os.path.join(os.path.dirname(os.path.dirname(os.path.abspath(__file__))), "harness")
    for g in GROUPS:
        ops = [o for o in OPS if o["grp"] == g]
        hdrs = sorted({o["hdr"] for o in ops})
        lines = ["// GENERATED by `python3 -m vf.c07_table` from vf/c07_table.py - do not edit by hand.",
                 "// C07 group '%s': %s" % (g, ", ".join(sorted({o["name"] for o in ops}))),
                 '#include "c07_common.hpp"']
        lines += ['#include "%s"' % h for h in hdrs]
        lines += ['#include "nmtools/constants.hpp"', "", "using namespace c07;", ""]
        for o in ops:
            for types, mask in o["variants"]:
                ct = ",".join(CTYPE[t] for t in types)
                nm_ = opname(o, types)
                args = {1: "const auto& a", 2: "const auto& a, const auto& b", 3: "const auto& a, const auto& b, const auto& c"}[o["ar"]]
                pre = "auto p = in.dvec(); " if o["params"] else ""
                cap = "[p]" if o["params"] else "[]"
                vf = "%s(%s){ return %s; }" % (cap, args, o["call"])
                if o["outer"]:
                    body = "%souter<%s>(in, out, %s, %s);" % (pre, ct, vf, o["sf"])
                else:
                    fn = {1: "unary", 2: "binary", 3: "ternary"}[o["ar"]]
                    body = "%s%s<%s,%s>(in, out, %s, %s);" % (pre, fn, mask, ct, vf, o["sf"])
                lines.append("VH_OP(%s) { %s }" % (nm_, body))
        lines += ["", "VH_MAIN()", ""]
        with open(os.path.join(harness, "c07_%s.cpp" % g), "w") as f:
            f.write("\n".join(lines))
    return [os.path.join(harness, "c07_%s.cpp" % g) for g in GROUPS]


if __name__ == "__main__":
    for p in generate():
        print("wrote", p)
