"""Shared driver of C09 and C11: program set for (tier, seed) -> build -> cases -> run -> parsed records."""
import itertools
import os
import random
import sys
import time

import numpy as np

from . import build as B
from . import run as R
from . import c09_gen as G
from .core import Inconclusive
from .util import Tok, split_hooks

ASAN_NOLEAK = "abort_on_error=1:detect_leaks=0:allocator_may_return_null=1:handle_abort=0:detect_stack_use_after_return=0"


def gen_rng(seed, what):
    return random.Random("c09gen/%d/%s" % (seed, what))


def plan(tier, seed):
    """list of (Program, [flavors]) for the tier and seed; deterministic"""
    sup = G.load_supported()
    if not sup:
        raise Inconclusive("vf/c09_supported.json missing: run `python3-vt -m vf.c09_gen probe` on the unchanged tree")
    quick = tier == "quick"
    progs = []
    rng = gen_rng(seed, "plan")
    # ---- index family
    names = [n for n, o in G.OPS.items() if o.family == "index" and o.wave < 2]
    rounds = 1 if quick else 2
    gid = 0
    for rnd in range(rounds):
        order = list(names)
        rng.shuffle(order)
        groups = []
        for n in order:
            o = G.OPS[n]
            with_none, without = split_dims(o)
            if quick:
                # quick: the main group never has a None argument (the None branch is a second, separate group), so that
                # e.g. the axes of a transpose are always exercised under every seed
                groups.append((o, rng.choice(without or with_none)))
                if with_none and without:
                    groups.append((o, rng.choice(with_none)))
            else:
                groups.append((o, o.dims[(rnd + rng.randrange(len(o.dims))) % len(o.dims)]))
        # pack groups into programs of ~3 operations
        per = 4 if quick else 3
        for k in range(0, len(groups), per):
            chunk = groups[k:k + per]
            pi = len(progs)
            if quick:
                flavors = ["asan"] + (["clang"] if pi % 2 == 0 else ["nostl"])
            else:
                flavors = list(G.FLAVORS)
            if os.environ.get("C09_ONLY_FLAVORS"):      # debugging aid
                flavors = [f for f in flavors if f in os.environ["C09_ONLY_FLAVORS"].split(",")] or [os.environ["C09_ONLY_FLAVORS"].split(",")[0]]
            gl = []
            for (o, dims) in chunk:
                cfgs = None
                for fl in flavors:
                    s = set(sup.get(fl, {}).get(o.name, {}).get(repr(dims), []))
                    cfgs = s if cfgs is None else (cfgs & s)
                ordered = [c for c in G.candidates(o) if c in cfgs]
                if not ordered:
                    continue
                grng = gen_rng(seed, "group/%s/%d" % (o.name, rnd))
                gl.append(G.make_group(gid, o, grng, ordered, 2, 26 if quick else 40, pinned=G.PINNED.get(o.name, ()), dims=dims))
                gid += 1
            if gl:
                progs.append((G.Program("c09_s%d_%s_ix%d" % (seed, tier[0], pi), gl), flavors))
    # ---- view / eval family: one operation per program (array kinds are expensive to compile)
    vnames = [n for n, o in G.OPS.items() if o.family == "view" and not o.composite and o.wave < 2]
    vquick = ["transpose", "reshape", "broadcast_to", "add", "multiply", "sum", "slice", "tile", "concatenate", "matmul"]
    vrounds = 1 if quick else 2
    if os.environ.get("C09_FAMILY") == "index":       # debugging aid
        vrounds = 0
    if os.environ.get("C09_FAMILY") == "view":
        progs = []
    for rnd in range(vrounds):
        order = [n for n in (vquick if quick else vnames)]
        rng.shuffle(order)
        for k, n in enumerate(order):
            o = G.OPS[n]
            with_none, without = split_dims(o)
            rich = [d for d in (without or with_none) if d[0] >= 2] or (without or with_none)
            dims = rng.choice(rich) if quick else o.dims[(rnd + rng.randrange(len(o.dims))) % len(o.dims)]
            if quick:
                flavors = ["asan"] + ([["clang"], ["nostl"]][k % 2] if k < 6 else [])
            else:
                flavors = list(G.FLAVORS) if rnd == 0 else ["asan"]
            if os.environ.get("C09_ONLY_FLAVORS"):
                flavors = [f for f in flavors if f in os.environ["C09_ONLY_FLAVORS"].split(",")] or [os.environ["C09_ONLY_FLAVORS"].split(",")[0]]
            flavors = [fl for fl in flavors if repr(dims) in sup.get(fl, {}).get(o.name, {})]
            if "asan" not in flavors:
                continue
            cfgs = None
            for fl in flavors:
                s_ = set(sup.get(fl, {}).get(o.name, {}).get(repr(dims), []))
                cfgs = s_ if cfgs is None else (cfgs & s_)
            ordered = [c for c in G.candidates(o) if c in cfgs]
            if not ordered:
                continue
            grng = gen_rng(seed, "vgroup/%s/%d" % (o.name, rnd))
            g = G.make_group(gid, o, grng, ordered, 1, (0 if quick else 64) // o.weight, dims=dims, small=quick)
            gid += 1
            progs.append((G.Program("c09_s%d_%s_v%d_%s" % (seed, tier[0], rnd, n), [g]), flavors))
    # ---- composite views (depth 2 and 3; G.COMPOSITES): one operation per program.  Every tier and seed has every composite
    # over the array kinds whose result storage is inferred as fixed / bounded, with run-time inner arguments
    # (G.composite_target_cfgs); own random stream, so the programs above do not depend on this block
    crng = gen_rng(seed, "plan/composite")
    for rnd in range(vrounds):
        order = list(G.COMPOSITES)
        crng.shuffle(order)
        for k, n in enumerate(order):
            o = G.OPS[n]
            rich = [d for d in o.dims if d[0] >= 2]
            dims = crng.choice(rich) if quick else o.dims[(rnd + crng.randrange(len(o.dims))) % len(o.dims)]
            if quick:
                flavors = ["asan"] + ([["clang"], ["nostl"]][k % 2] if k < 2 else [])
            else:
                flavors = ["asan"] + ([["clang"], ["nostl"]][k % 2] if rnd == 0 else [])
            if os.environ.get("C09_ONLY_FLAVORS"):
                flavors = [f for f in flavors if f in os.environ["C09_ONLY_FLAVORS"].split(",")] or [os.environ["C09_ONLY_FLAVORS"].split(",")[0]]
            flavors = [fl for fl in flavors if repr(dims) in sup.get(fl, {}).get(o.name, {})]
            if "asan" not in flavors:
                continue
            cfgs = None
            for fl in flavors:
                s_ = set(sup.get(fl, {}).get(o.name, {}).get(repr(dims), []))
                cfgs = s_ if cfgs is None else (cfgs & s_)
            ordered = [c for c in G.candidates(o) if c in cfgs]
            if not ordered:
                continue
            grng = gen_rng(seed, "cgroup/%s/%d" % (o.name, rnd))
            g = G.make_group(gid, o, grng, ordered, 1, 0 if quick else 56, dims=dims, small=quick)
            gid += 1
            progs.append((G.Program("c09_s%d_%s_c%d_%s" % (seed, tier[0], rnd, n), [g]), flavors))
    # ---- second wave of operations (vf/c09_ops2.py): own pool and own random stream (the programs above do not depend on it).
    # quick: 4 index functions (one program, two builds) and 3 views (reduced kind set) drawn from the seed - every operation of the
    # wave is touched under every seed by the deterministic core (core2_programs); thorough: every operation once
    from . import c09_ops2 as O2
    wrng = gen_rng(seed, "plan/wave2")
    ix2, v2 = list(O2.WAVE2_INDEX), list(O2.WAVE2_VIEW)
    wrng.shuffle(ix2)
    wrng.shuffle(v2)
    if quick:
        ix2, v2 = ix2[:4], v2[:3]
    if os.environ.get("C09_FAMILY") == "index":
        v2 = []
    if os.environ.get("C09_FAMILY") == "view":
        ix2 = []
    only = os.environ.get("C09_ONLY_FLAVORS")

    def pick_flavors(k, both=True):
        fl = ["asan"] + ([["clang"], ["nostl"]][k % 2] if both else [])
        if only:
            fl = [f for f in fl if f in only.split(",")] or [only.split(",")[0]]
        return fl

    per = 4 if quick else 3
    for k in range(0, len(ix2), per):
        flavors = pick_flavors(k // per)
        gl = []
        for n in ix2[k:k + per]:
            o = G.OPS[n]
            dims = wrng.choice(o.dims)
            cfgs = None
            for fl in flavors:
                s_ = set(sup.get(fl, {}).get(o.name, {}).get(repr(dims), []))
                cfgs = s_ if cfgs is None else (cfgs & s_)
            ordered = [c for c in G.candidates(o) if c in cfgs]
            if not ordered:
                continue
            gl.append(G.make_group(gid, o, gen_rng(seed, "w2group/%s" % n), ordered, 2, 26 if quick else 40, dims=dims))
            gid += 1
        if gl:
            progs.append((G.Program("c09_s%d_%s_w2ix%d" % (seed, tier[0], k // per), gl), flavors))
    for k, n in enumerate(v2):
        o = G.OPS[n]
        dims = wrng.choice(o.dims)
        flavors = pick_flavors(k, both=not quick)
        flavors = [fl for fl in flavors if repr(dims) in sup.get(fl, {}).get(o.name, {})]
        if "asan" not in flavors:
            continue
        cfgs = None
        for fl in flavors:
            s_ = set(sup.get(fl, {}).get(o.name, {}).get(repr(dims), []))
            cfgs = s_ if cfgs is None else (cfgs & s_)
        ordered = [c for c in G.candidates(o) if c in cfgs]
        if not ordered:
            continue
        g = G.make_group(gid, o, gen_rng(seed, "w2vgroup/%s" % n), ordered, 1, (0 if quick else 32) // o.weight, dims=dims, small=True)
        gid += 1
        if g.cfgs:
            progs.append((G.Program("c09_s%d_%s_w2v_%s" % (seed, tier[0], n), [g]), flavors))
    if os.environ.get("C09_CORE_ONLY"):      # debugging aid
        progs = []
    if not os.environ.get("C09_NO_CORE"):
        progs = core_programs(sup) + core2_programs(sup) + progs
    if os.environ.get("C09_OPS"):
        # debugging / self-test aid: only the programs (unchanged) that contain one of the named operations
        want = set(os.environ["C09_OPS"].split(","))
        progs = [(p, f) for (p, f) in progs if any(g.op.name in want for g in p.groups)]
    return progs


# ----------------------------------------------------------------------------------------------------
# deterministic core (independent of VERIF_SEED and of the tier): one witness for every defect FAMILY that is known on the
# current tree, so that the set of family keys a run prints does not depend on what the seed happens to draw
# ----------------------------------------------------------------------------------------------------

def _ia(n, mx):
    return dict(n=n, mx=list(mx))


CORE_INDEX = [
    # (operation, dims, baked value set, signature, configurations, explicit value sets)
    ("normalize_axis", (3,), dict(axis=[0, 1, 2], ndim=4), dict(axis=_ia(3, [3, 3, 3]), ndim=dict(mx=4)),
     ["clt|rt:int", "cla|cl", "clt|ct", "fx:int|rt:int", "dy:int|rt:int"],
     [dict(axis=[0, 1, 2], ndim=4), dict(axis=[-2, 3, -3], ndim=4), dict(axis=[-5, 0, 1], ndim=4)]),
    ("moveaxis_to_transpose", (3, 1), dict(shape=[2, 3, 4], source=[0], destination=[2]),
     dict(shape=_ia(3, [4, 4, 4]), source=_ia(1, [3]), destination=_ia(1, [3])),
     ["clt|clt|clt", "clv|clv|clv", "fx:int|fx:int|fx:int"],
     [dict(shape=[2, 3, 4], source=[0], destination=[2]), dict(shape=[2, 3, 4], source=[-1], destination=[0])]),
    ("remove_dims", (3, 0), dict(shape=[2, 3, 4], axis=-2, keepdims=1), dict(shape=_ia(3, [4, 4, 4]), axis=dict(mx=3), keepdims=dict(mx=2)),
     ["fx:size_t|rt:int|b", "ct|rt:int|b", "clt|rt:int|b", "ct|ct|b", "dy:size_t|rt:int|b"],
     [dict(shape=[2, 3, 4], axis=-2, keepdims=1), dict(shape=[2, 3, 4], axis=-2, keepdims=0)]),
    ("remove_dims_axes", (3, 2), dict(shape=[2, 3, 4], axes=[0, -1], keepdims=1), dict(shape=_ia(3, [4, 4, 4]), axes=_ia(2, [3, 3]), keepdims=dict(mx=2)),
     ["fx:int|fx:int|b", "ct|ct|b", "clt|fx:int|b", "dy:int|dy:int|b"],
     [dict(shape=[2, 3, 4], axes=[0, -1], keepdims=1), dict(shape=[2, 3, 4], axes=[0, -1], keepdims=0)]),
    ("shape_pad", (2,), dict(shape=[3, 3], pad_width=[1, 0, 2, 0]), dict(shape=_ia(2, [5, 5]), pad_width=_ia(4, [5, 5, 5, 5])),
     ["clv|clv", "clv|dy:int", "fx:int|fx:int"], [dict(shape=[3, 3], pad_width=[1, 0, 2, 0])]),
    ("shape_reshape", (2, 3, True), dict(src=[2, 4], dst=[1, -1, 1]), dict(src=_ia(2, [4, 4]), dst=_ia(3, [2, 1, 2])),
     ["fx:int|clt", "dy:int|clt", "fx:int|fx:int"], [dict(src=[2, 4], dst=[1, -1, 1])]),
    ("shape_squeeze", (2,), dict(shape=[2, 3]), dict(shape=_ia(2, [4, 5])),
     ["clt", "fx:size_t"], [dict(shape=[2, 3]), dict(shape=[1, 3]), dict(shape=[1, 5])]),
    ("shape_concatenate", (2, False), dict(a=[1, 2], b=[1, 3], axis=1), dict(a=_ia(2, [3, 3]), b=_ia(2, [3, 3]), axis=dict(mx=2)),
     ["clv|clv|cl", "fx:int|fx:int|rt:int"], [dict(a=[1, 2], b=[1, 3], axis=1), dict(a=[2, 1], b=[3, 1], axis=0)]),
    ("shape_atleast_nd", (3,), dict(shape=[1, 2, 1], nd=1), dict(shape=_ia(3, [2, 5, 2]), nd=dict(mx=4)),
     ["clt|rt:int", "fx:int|rt:int"], [dict(shape=[1, 5, 1], nd=1), dict(shape=[1, 5, 1], nd=4)]),
]

CORE_VIEW = [
    ("reshape", (3, 2, True), dict(a=G.A([3, 2, 1], 1), dst=[-1, 1]), dict(a=dict(S=[3, 2, 1], T="int"), dst=_ia(2, [2, 2])),
     ["fs_fb|clt", "ds_db|clt", "ds_db|fx:int"], [dict(a=G.A([3, 2, 1], 1), dst=[-1, 1])]),
    ("concatenate", (3, False), dict(a=G.A([2, 3, 1], 1), b=G.A([2, 3, 1], 50), axis=1), dict(a=dict(S=[2, 3, 1], T="int"), b=dict(S=[2, 3, 1], T="int"), axis=dict(mx=2)),
     ["ls_hb|ls_hb|rt:int", "ds_db|ds_db|rt:int"], [dict(a=G.A([2, 3, 1], 1), b=G.A([2, 3, 1], 50), axis=1)]),
    ("matmul", (2, 1), dict(a=G.A([2, 2], 1), b=G.A([2], 50)), dict(a=dict(S=[2, 2], T="int"), b=dict(S=[2], T="int")),
     ["ds_fb|ds_fb", "hs_fb|hs_fb"], [dict(a=G.A([2, 2], 1), b=G.A([2], 50))]),
    ("transpose", (3, False), dict(a=G.A([3, 1, 3], 1), axes=[2, 0, 1]), dict(a=dict(S=[3, 1, 3], T="int"), axes=_ia(3, [2, 2, 2])),
     ["ls_fb|ct", "nested|hy:int", "ds_db|fx:int"], [dict(a=G.A([3, 1, 3], 1), axes=[2, 0, 1])]),
]


# ---- length classes of two-argument shape-like index functions.  The capacity of the result of such a function is a formula over
# the lengths / bounds of both arguments (max(len_a, len_b), len_a + len_b, ...) with one type-level branch per pair of length
# classes.  For every ORDERED pair of classes (constant / fixed / bounded with a TIGHT bound = the length itself, like the shape of a
# hs_* array / dynamic) the core has one signature in which the second argument is longer than the first and one in which it is
# shorter (where the operation admits both).  The seed-drawn programs cannot reach this: their bounded kinds have capacity G.CAP = 6,
# larger than every length they draw.
LEN_KINDS = ["ct", "fx:int", "svt:int", "dy:int"]

CORE_LEN = [
    ("shape_tile", (2, 3), dict(shape=[2, 3], reps=[2, 1, 2])),
    ("shape_tile", (3, 1), dict(shape=[2, 1, 3], reps=[2])),
    ("broadcast_shape", (1, 3), dict(a=[3], b=[2, 1, 3])),
    ("broadcast_shape", (3, 2), dict(a=[2, 3, 1], b=[1, 4])),
    ("shape_broadcast_to", (1, 2), dict(a=[3], b=[2, 3])),          # a destination shorter than the source is a failing call
    ("shape_reshape", (1, 2, False), dict(src=[6], dst=[2, 3])),
    ("shape_reshape", (2, 1, False), dict(src=[2, 3], dst=[6])),
    ("shape_matmul", (2, 3), dict(a=[2, 3], b=[2, 3, 4])),
    ("shape_matmul", (3, 2), dict(a=[2, 2, 3], b=[3, 2])),
    ("shape_outer", (1, 3), dict(a=[2], b=[3, 1, 2])),
    ("shape_outer", (2, 1), dict(a=[2, 3], b=[4])),
    ("shape_expand_dims", (1, 2), dict(shape=[3], axes=[0, 2])),
    ("shape_expand_dims", (3, 1), dict(shape=[2, 3, 4], axes=[1])),
    ("shape_pad", (2,), dict(shape=[2, 3], pad_width=[1, 0, 2, 1])),  # pad_width always has twice the length of the shape
    ("free_axes", (2, 3), dict(a=[2, 3, 4], b=[3, 1])),               # the second shape is never longer
]
CORE_LEN_PROGRAMS = 3

# views over an operand of BOUNDED dimension (hs_*: the bound is the dimension of the operand itself) with index arguments that
# are LONGER than that bound: the dimension of the result is decided by the index argument
CORE_VIEW_LEN = [
    ("tile", (1, 2), dict(a=G.A([3], 1), reps=[2, 2]), dict(a=dict(S=[3], T="int"), reps=_ia(2, [3, 3])),
     ["hs_fb|fx:int", "hs_hb|tp:int", "hs_db|ct", "hs_hb|raw:int", "hs_fb|lit", "hs_db|svt:int", "hs_db|dy:int", "hybrid_nd|fx:int", "ds_db|fx:int"],
     [dict(a=G.A([3], 1), reps=[2, 2]), dict(a=G.A([2], 1), reps=[1, 3]), dict(a=G.A([3], 1), reps=[3, 1]), dict(a=G.A([1], 1), reps=[2, 2])]),
    ("sum_tile", (1, 2), dict(a=G.A([3], 1), reps=[2, 2], axis=1, keepdims=0),
     dict(a=dict(S=[3], T="int"), reps=_ia(2, [3, 3]), axis=dict(mx=2), keepdims=dict(mx=2)),
     ["hs_fb|tp:int|rt:int|tt", "hs_hb|fx:int|rt:int|tt", "hs_db|ct|ct|tt", "ds_db|fx:int|rt:int|tt"],
     [dict(a=G.A([3], 1), reps=[2, 2], axis=1, keepdims=0), dict(a=G.A([3], 1), reps=[3, 1], axis=0, keepdims=0), dict(a=G.A([2], 1), reps=[2, 3], axis=-1, keepdims=0)]),
    ("slice_tile", (1, 2), dict(a=G.A([3], 1), reps=[2, 2], start=0, stop=2),
     dict(a=dict(S=[3], T="int"), reps=_ia(2, [3, 3]), start=dict(mx=2), stop=dict(mx=3)),
     ["hs_fb|tp:int|rt:int|rt:int", "hs_hb|fx:int|rt:int|rt:int", "ds_db|fx:int|rt:int|rt:int"],
     [dict(a=G.A([3], 1), reps=[2, 2], start=0, stop=2), dict(a=G.A([3], 1), reps=[3, 1], start=1, stop=3), dict(a=G.A([2], 1), reps=[2, 3], start=0, stop=1)]),
]


def _core_len_entry(opn, dims, baked):
    """(operation, dims, baked, signature, the 16 length-class pairs, deterministic value sets of the same signature)"""
    o = G.OPS[opn]
    sig = {}
    for a in o.args:
        v = baked[a.name]
        sig[a.name] = _ia(len(v), [max(2, abs(x) + 1) for x in v])
    cfgs = ["%s|%s" % (ka, kb) for ka in LEN_KINDS for kb in LEN_KINDS]
    r = random.Random("c09core/%s/%s" % (opn, dims))
    values = [baked]
    for _ in range(60):
        v = o.gen(r, dims)
        if v in values or not G.same_sig(o, baked, v) or o.oracle(v) in (G.INVALID, G.NOTHING):
            continue
        values.append(v)
        if len(values) >= 4:
            break
    return (opn, dims, baked, sig, cfgs, values)


def core_tables():
    """[(program name, [entries])]; entry = (operation, dims, baked value set, signature, configurations, explicit value sets)"""
    out = [("c09_core_ix", CORE_INDEX), ("c09_core_v", CORE_VIEW), ("c09_core_vlen", CORE_VIEW_LEN)]
    ln = [_core_len_entry(*e) for e in CORE_LEN]
    for k in range(CORE_LEN_PROGRAMS):
        out.append(("c09_core_len%d" % k, ln[k::CORE_LEN_PROGRAMS]))
    return out


def core_entries():
    return [e for _, table in core_tables() for e in table]


def core_programs(sup, gid0=9000):
    """[(Program, flavors)]: configurations outside the allow-list are left out"""
    out = []
    gid = gid0
    for name, table in core_tables():
        groups = []
        for (opn, dims, baked, sig, cfgs, values) in table:
            o = G.OPS[opn]
            allowed = set(sup.get("asan", {}).get(opn, {}).get(repr(dims), []))
            full = {a.name: None for a in o.args}
            full.update(sig)
            g = G.Group(gid, o, dims, [baked], full, [c for c in cfgs if c in allowed])
            g.fixed_values = values
            gid += 1
            if g.cfgs:
                groups.append(g)
        if groups:
            out.append((G.Program(name, groups), ["asan"]))
    return out


# ---- deterministic core of the second wave: EVERY operation of vf/c09_ops2.py under every seed in a few cheap configurations -
# all index arguments compile-time constants / fixed-length run-time / dynamic (+ tightly bounded for index functions), array
# operands constant-shape fixed / fixed-dim hybrid / dynamic.  Baked values and value sets come from a fixed random stream.
CORE2_VIEW_PROGRAMS = 3


def _core2_cfgs(o):
    if o.family == "index":
        ias = [a for a in o.args if a.typ == "ia"]
        out = []
        for k, T in (("ct", None), ("fx", "int"), ("dy", "int"), ("svt", "int")):
            if k == "svt" and not ias:
                continue
            cfg = []
            for a in o.args:
                if a.typ == "ia":
                    cfg.append(G.ArgCfg(k, T))
                else:
                    cfg.append(G._is_cfg(a, k, "int"))
            out.append(G.cfg_str(cfg))
        return out
    build = G._view_build2(o)
    narr = len([a for a in o.args if a.typ == "arr"])
    out = [build(["cs_fb"] * narr, "ct"), build(["fs_hb"] * narr, "fx"), build(["ds_db"] * narr, "dy")]
    if not narr:
        out.append(build([], "clt"))
    res = []
    for c in out:
        if c not in res:
            res.append(c)
    return res


def core2_programs(sup, gid0=9500):
    from . import c09_ops2 as O2
    gid = gid0
    buckets = {}
    vk = 0
    for n in O2.WAVE2:
        o = G.OPS[n]
        r = random.Random("c09core2/%s" % n)
        with_none, without = split_dims(o)
        dims = (without or with_none)[0]
        allowed = sup.get("asan", {}).get(n, {}).get(repr(dims), [])
        cfgs = [c for c in _core2_cfgs(o) if c in allowed]
        if not cfgs:
            continue
        g = G.make_group(gid, o, r, cfgs, 1, 10**6, dims=dims, all_cfgs=True)
        gid += 1
        if not g.cfgs:
            continue
        vs, _ = value_sets(g, r, 12, 0)
        g.fixed_values = [v for v, why in vs]
        if o.family == "index":
            buckets.setdefault("c09_core2_ix", []).append(g)
        else:
            buckets.setdefault("c09_core2_v%d" % (vk % CORE2_VIEW_PROGRAMS), []).append(g)
            vk += 1
    return [(G.Program(name, groups), ["asan"]) for name, groups in sorted(buckets.items())]


def split_dims(o):
    """dims values of o whose value sets contain a None argument / do not"""
    r = random.Random(7)
    wn, wo = [], []
    for d in o.dims:
        v = o.gen(r, d)
        (wn if any(x is None for x in v.values()) else wo).append(d)
    return wn, wo


def prewrite_sources(tl):
    """Write the generated sources where vf/build.py expects them, single-threaded.
    (build.py writes `<gen>/<name>_<sha>.cpp` through a temp file named by the PROCESS id only; the flavours of one program
    share that path and are built by parallel threads, so two threads race on the same temp file -> FileNotFoundError.
    With the file already present build.py does not write at all.)"""
    import hashlib
    d = os.path.join(B.BUILD, "gen")
    os.makedirs(d, exist_ok=True)
    done = set()
    for t in tl:
        if t.text is None:
            continue
        b = t.text.encode()
        path = os.path.join(d, t.name + "_" + hashlib.sha1(b).hexdigest()[:12] + ".cpp")
        if path in done or os.path.exists(path):
            continue
        done.add(path)
        tmp = path + ".pre%d" % os.getpid()
        with open(tmp, "wb") as f:
            f.write(b)
        os.replace(tmp, path)


def targets(tier, seed, build=False):
    """targets of the plan.  build=True (setup / prebuild): the programs are built right here the way run_plan builds them -
    value-dependent constant configurations that do not compile are dropped, the reduced programs are rebuilt and the
    decision is remembered (build_plan) - so that the check finds every binary it needs in the cache."""
    pl = plan(tier, seed)
    if build:
        try:
            tl, res, dropped, ncomp = build_plan(pl)
            return [t for _, _, t in tl]
        except Inconclusive as e:
            sys.stderr.write("[c09] prebuild: %s\n" % str(e)[:400])
            pl = plan(tier, seed)
    out = []
    for p, flavors in pl:
        for fl in flavors:
            out.append(p.target(fl))
    prewrite_sources(out)
    return out


def quick_targets_seed0():
    """targets of the quick tier for the seed the checks will run with (VERIF_SEED, default 0); name kept for compatibility"""
    return targets("quick", int(os.environ.get("VERIF_SEED", "0") or 0), build=True)


# ----------------------------------------------------------------------------------------------------
# building a plan.  A constant configuration can fail to compile for particular baked values (a failing call is a compile
# error there).  Such configurations are found by compiling (syntax only), dropped (bounded) and the program is rebuilt.
# The decision is remembered in .build/c09_dropped/<program>.json together with the content hashes of every header the
# reduced program includes: while the program text and all of those files are unchanged the compiler would decide exactly
# the same, so the next process (setup -> check) drops the same configurations up front and finds the binaries in the cache.
# ----------------------------------------------------------------------------------------------------

DROP_DIR = os.path.join(B.BUILD, "c09_dropped")


def _prog_sha(p, flavors):
    import hashlib
    return hashlib.sha1((p.text() + "\0" + ",".join(flavors)).encode()).hexdigest()


def _dep_roots():
    return (("R", os.path.realpath(B.REPO)), ("V", os.path.realpath(B.VERIF)))


def _dep_key(path):
    rp = os.path.realpath(path)
    for tag, root in _dep_roots():
        if rp.startswith(root + os.sep):
            return tag + ":" + os.path.relpath(rp, root)
    return None


def _dep_path(key):
    tag, rel = key.split(":", 1)
    return os.path.join(dict(_dep_roots())[tag], rel)


def _memo_entries(p):
    import json
    try:
        with open(os.path.join(DROP_DIR, p.name + ".json")) as f:
            m = json.load(f)
        return [e for e in m.get("entries", []) if isinstance(e, dict)]
    except (OSError, ValueError, AttributeError):
        return []


def _memo_load(p, flavors):
    """[(gid, op, cfg)] to drop from the unreduced program p, or None.  The file keeps one entry per tree the program was
    built against (the unchanged tree and scratch trees share program names)"""
    sha = _prog_sha(p, flavors)
    for m in reversed(_memo_entries(p)):
        try:
            if m.get("orig") != sha or not m.get("deps") or not m.get("dropped"):
                continue
            if all(B.file_hash(_dep_path(key)) == h for key, h in m["deps"].items()):
                return [tuple(x) for x in m["dropped"]]
        except (OSError, ValueError, KeyError, TypeError):
            continue
    return None


def _memo_save(p, orig_sha, flavors, dropped):
    import json
    deps = {}
    for fl in flavors:
        t = p.target(fl)
        try:
            with open(os.path.join(B.BUILD, "deps", t.ident() + ".json")) as f:
                lst = json.load(f)
        except (OSError, ValueError):
            return
        for d in lst:
            k = _dep_key(d)
            if k is not None:
                deps[k] = B.file_hash(d)
    if not deps:
        return
    entries = [e for e in _memo_entries(p) if not (e.get("orig") == orig_sha and e.get("deps") == deps)]
    entries.append(dict(orig=orig_sha, flavors=list(flavors), dropped=[list(x) for x in dropped], deps=deps))
    os.makedirs(DROP_DIR, exist_ok=True)
    path = os.path.join(DROP_DIR, p.name + ".json")
    tmp = path + ".tmp%d" % os.getpid()
    with open(tmp, "w") as f:
        json.dump(dict(entries=entries[-8:]), f)
    os.replace(tmp, path)


def _drop(p, items):
    for g in p.groups:
        bc = {c for (gid, opn, c) in items if gid == g.gid}
        if bc:
            g.cfgs = [c for c in g.cfgs if c not in bc]
            g.insts = [i for i in g.insts if i.cfg not in bc]


def build_plan(pl, want_flavors=None):
    """build every (program, flavour) of the plan; returns (tl, built targets, {program: [dropped op:cfg]}, #compiled).
    Raises Inconclusive when a program does not compile for another reason than a few value-dependent constant configurations."""
    flv_of = {}
    orig = {}
    dropped_items = {}
    for p, flavors in pl:
        fls = [fl for fl in flavors if not want_flavors or fl in want_flavors]
        flv_of[p.name] = fls
        if not fls:
            continue
        orig[p.name] = _prog_sha(p, fls)
        m = _memo_load(p, fls)
        if m:
            _drop(p, m)
            dropped_items[p.name] = list(m)
    tl = [(p, fl, p.target(fl)) for p, flavors in pl for fl in flv_of[p.name]]
    prewrite_sources([t for _, _, t in tl])
    res = B.build([t for _, _, t in tl])
    ncomp = sum(1 for t in res if t.compiled)
    bad = [k for k, t in enumerate(res) if t.error]
    if bad:
        from . import c09_probe as P
        import tempfile
        os.makedirs(os.path.join(B.BUILD, "c09_probe"), exist_ok=True)
        wd = tempfile.mkdtemp(prefix="f%d_" % os.getpid(), dir=os.path.join(B.BUILD, "c09_probe"))
        progs_bad = {}
        for k in bad:
            progs_bad.setdefault(tl[k][0].name, tl[k][0])
        try:
            for name, p in progs_bad.items():
                total = sum(len(g.insts) for g in p.groups)
                removed = []
                for fl in flv_of[name]:
                    for _ in range(6):
                        ok, badinst, err = P.try_compile(p, fl, wd)
                        if ok:
                            break
                        items = []
                        for g in p.groups:
                            byname = {i.name: i.cfg for i in g.insts}
                            items += [(g.gid, g.op.name, c) for c in {byname[b] for b in badinst if b in byname}]
                        if not items:
                            break
                        removed += items
                        _drop(p, items)
                if not removed or len(removed) > max(2, total // 8):
                    t = res[[k for k in bad if tl[k][0] is p][0]]
                    raise Inconclusive("generated program %s[%s] no longer compiles (allow-list stale or library changed; %d configurations implicated):\n%s" % (
                        t.name, t.flavor, len(removed), t.error[-1500:]))
                dropped_items[name] = dropped_items.get(name, []) + removed
        finally:
            try:
                os.rmdir(wd)
            except OSError:
                pass
        tl = [(p, fl, p.target(fl)) for (p, fl, _) in tl]
        prewrite_sources([t for _, _, t in tl])
        res = B.build([t for _, _, t in tl])
        ncomp += sum(1 for t in res if t.compiled)
        bad2 = [t for t in res if t.error]
        if bad2:
            raise Inconclusive("%d generated programs do not compile even after dropping value-dependent constant configurations:\n%s[%s]: %s" % (
                len(bad2), bad2[0].name, bad2[0].flavor, bad2[0].error[-1500:]))
        for name, p in progs_bad.items():
            _memo_save(p, orig[name], flv_of[name], dropped_items[name])
    dropped = {name: sorted({"%s:%s" % (opn, c) for (gid, opn, c) in items}) for name, items in dropped_items.items()}
    return tl, res, dropped, ncomp


# ----------------------------------------------------------------------------------------------------

def value_sets(g, rng, nsamples, enum_limit=400):
    """run-time value sets of a group: the baked sets, every admitted primary shape under the clipped bound
    (completed by the sampler), and seeded samples; all NumPy-valid"""
    o = g.op
    out = []
    seen = set()

    def add(v, why):
        key = repr(sorted(v.items(), key=lambda kv: kv[0]))
        if key in seen:
            return
        if o.oracle(v) == G.INVALID:
            return
        if not G.same_sig(o, g.baked[0], v) and why != "sample":
            return
        seen.add(key)
        out.append((v, why))

    for b in g.baked:
        add(b, "baked")
    # all primary shapes admitted by the clipped bound
    first = o.args[0]
    sg = g.sig.get(first.name)
    space = None
    if first.typ in ("ia", "arr") and sg is not None:
        if first.typ == "ia":
            rngs = [range(max(1, first.lo), m + 1) for m in sg["mx"]]
        else:
            rngs = [range(1, m + 1) for m in sg["S"]]
        space = int(np.prod([len(r) for r in rngs]))
        if space <= enum_limit:
            for prim in itertools.product(*rngs):
                for _ in range(3):
                    v = o.gen(rng, g.dims, list(prim))
                    got = v.get(first.name)
                    if first.typ == "arr":
                        got = got["shape"]
                    if got == list(prim):
                        add(v, "enum")
        else:
            space = None
    if o.composite and first.typ == "arr" and sg is not None:
        # composite views: array kinds without run-time freedom (constant shape, raw / nested / fixed arrays) only admit the
        # template shape, so the arguments of the inner and outer view are varied on THAT shape under every seed
        for _ in range(nsamples):
            v = o.gen(rng, g.dims, list(sg["S"]))
            if v[first.name]["shape"] == list(sg["S"]):
                add(v, "pinned")
    for _ in range(nsamples):
        add(o.gen(rng, g.dims), "sample")
    # other signatures of the same operation (only configurations whose types admit them are run)
    for _ in range(nsamples // 3):
        add(o.gen(rng, rng.choice(o.dims)), "sample")
    return out, space


class Rec:
    """one executed (instance, value set)"""
    __slots__ = ("prog", "flavor", "g", "inst", "vals", "why", "toks", "hooks", "crash", "line")


def run_plan(ctx, tier, seed, want_flavors=None):
    """build + run; returns (records, info)"""
    pl = plan(tier, seed)
    t0 = time.time()
    tl, res, dropped, ncomp = build_plan(pl, want_flavors)
    build_s = time.time() - t0
    quick = tier == "quick"
    recs = []
    info = dict(programs=len(pl), binaries=len(tl), build_s=round(build_s, 1), compiled=ncomp, spaces={}, dropped=dropped)
    cases_by_prog = {}
    failing_ids = set()
    for p, flavors in pl:
        cases = []
        meta = {}
        cid = 0
        for g in p.groups:
            vrng = gen_rng(seed, "values/%s/%d" % (p.name, g.gid))
            if getattr(g, "fixed_values", None) is not None:
                vs, space = [(v, "core") for v in g.fixed_values], None
            else:
                vs, space = value_sets(g, vrng, 50 if quick else 400, 160 if quick else 400)
            info["spaces"]["%s/g%d" % (p.name, g.gid)] = dict(op=g.op.name, dims=repr(g.dims), value_sets=len(vs), primary_space=space,
                                                               enumerated=sum(1 for _, w in vs if w == "enum"))
            for (v, why) in vs:
                toks = g.case_tokens(v)
                failing = expected_of_vals(g, v) == G.NOTHING
                for inst in g.insts:
                    if g.op.exclude is not None and inst.cfg != "cx":
                        why_ex = g.op.exclude(inst.cfg, v)
                        if why_ex:
                            ex = info.setdefault("cells_excluded_pending_triage", {})
                            k_ = "%s:%s (%s)" % (g.op.name, G.cfg_class(inst.cfg), why_ex)
                            ex[k_] = ex.get(k_, 0) + 1
                    if not g.admits(inst, v):
                        continue
                    cid += 1
                    cases.append((str(cid), "%d %s %s" % (cid, inst.name, toks)))
                    meta[str(cid)] = (g, inst, v, why)
                    if failing:
                        failing_ids.add((p.name, str(cid)))
        cases_by_prog[p.name] = (cases, meta)
    cut_short = {}
    for p, fl, t in tl:
        cases, meta = cases_by_prog[p.name]
        env = {"ASAN_OPTIONS": ASAN_NOLEAK} if fl == "nostl" else None
        # phase 1: a few cases per instance; an instance that keeps dying is not fed its remaining cases
        # (every death costs a process restart; the defect is already witnessed)
        per = {}
        first, rest, failing = [], [], []
        for cid, line in cases:
            if (p.name, cid) in failing_ids:
                failing.append((cid, line))
                continue
            nm_ = meta[cid][1].name
            per[nm_] = per.get(nm_, 0) + 1
            (first if per[nm_] <= 8 else rest).append((cid, line))
        results, crashes, touts = R.run_cases(t.binary, first, env_extra=env)
        died = {}
        for c in crashes:
            if c.case_id in meta:
                died[meta[c.case_id][1].name] = died.get(meta[c.case_id][1].name, 0) + 1
        crashy = {k for k, v in died.items() if v >= 2}
        if crashy:
            cut_short["%s[%s]" % (p.name, fl)] = sorted(crashy)
        # calls that must FAIL (NumPy raises) are only given to instances that have a failure channel (maybe result /
        # success flag): without one an invalid argument is a broken precondition, not an accepted argument
        channel = set()
        for cid, toks in results.items():
            g_, inst_ = meta[cid][0], meta[cid][1]
            if g_.op.norm == "flag_tuple":
                channel.add(inst_.name)
                continue
            for mark in ("TR", "VT"):
                if mark in toks:
                    k = toks.index(mark)
                    if toks[k + 1] == "M" and toks[k + 2] == "1":
                        channel.add(inst_.name)
                    break
        rest2 = [(cid, line) for cid, line in rest if meta[cid][1].name not in crashy]
        rest2 += [(cid, line) for cid, line in failing if meta[cid][1].name in channel and meta[cid][1].name not in crashy]
        skipped = {cid for cid, line in rest if meta[cid][1].name in crashy}
        skipped |= {cid for cid, line in failing if not (meta[cid][1].name in channel and meta[cid][1].name not in crashy)}
        nochannel = sum(1 for cid, line in failing if meta[cid][1].name not in channel)
        info["failing_calls_not_given_to_instances_without_failure_channel"] = info.get("failing_calls_not_given_to_instances_without_failure_channel", 0) + nochannel
        r2, c2, t2 = R.run_cases(t.binary, rest2, env_extra=env)
        results.update(r2)
        crashes += c2
        touts += t2
        crashed = {c.case_id: c for c in crashes}
        for t_ in touts:
            ctx.inconc("timeout in %s[%s] case %s" % (p.name, fl, t_))
        for c in crashes:
            if c.case_id not in meta:
                ctx.inconc("%s[%s] died outside a case: %s" % (p.name, fl, c.kind()))
        missing = 0
        for cid, line in cases:
            if cid in skipped:
                continue
            g, inst, v, why = meta[cid]
            r = Rec()
            r.prog, r.flavor, r.g, r.inst, r.vals, r.why, r.line = p.name, fl, g, inst, v, why, line
            r.crash = crashed.get(cid)
            if cid in results:
                r.toks, r.hooks = split_hooks(results[cid])
            else:
                r.toks, r.hooks = None, {}
                if r.crash is None:
                    missing += 1
            recs.append(r)
        if missing:
            ctx.inconc("%s[%s]: %d cases produced no record" % (p.name, fl, missing))
    info["instances_cut_short_after_repeated_crashes"] = cut_short
    return recs, info


# ----------------------------------------------------------------------------------------------------
# parsing of a record of an index-family instance:  RES <any> TR M <0|1> K <kind> ...
# ----------------------------------------------------------------------------------------------------

def parse_any(t):
    k = t.s()
    if k == "N":
        return ("N",)
    if k == "NONE":
        return ("NONE",)
    if k == "I":
        return ("I", t.i())
    if k == "V":
        return ("V", t.vec())
    if k == "T":
        n = t.i()
        return ("T", [parse_any(t) for _ in range(n)])
    if k == "E":
        w = t.i()
        return ("E", w, parse_any(t))
    if k in ("A", "S"):
        t.p -= 1
        a = t.array()
        return ("A", a)
    raise ValueError("bad result token %s" % k)


def parse_index_traits(t):
    d = {}
    t.expect("M")
    d["maybe"] = t.i()
    t.expect("K")
    d["kind"] = t.s()
    while not t.done():
        k = t.peek()
        if k == "CV":
            t.s()
            d["cv"] = t.vec() if d["kind"].startswith("arr") else [t.i()]
        elif k == "MX":
            t.s()
            d["mx"] = t.vec() if d["kind"].startswith("arr") else [t.i()]
        elif k == "MN":
            t.s()
            d["mn"] = t.i()
        elif k == "LEN":
            t.s()
            d["len"] = t.i()
        elif k == "BSZ":
            t.s()
            x = t.s()
            d["bsz"] = None if x == "F" else int(x)
        else:
            break
    return d


def has_exc(toks):
    return toks is not None and "EXC" in toks


def parse_hk(t, tag, hk):
    """<tag> then for clamp and capacity: violations, first value, first bound, events"""
    if t.peek() != tag:
        return
    t.s()
    d = {}
    for site in ("clamp", "svec_capacity"):
        d[site] = (t.i(), t.i(), t.i(), t.i())
    if t.peek() == "P":
        # events of the clamp_placeholder site (placeholder shape of a default-constructed ndarray): counted, never a violation
        t.s()
        d["clamp_placeholder"] = (0, 0, 0, t.i())
    hk[tag] = d


def parse_index_record(toks):
    t = Tok(toks)
    if t.peek() == "SKIP":
        return None
    hk = {}
    t.expect("TR")
    tr = parse_index_traits(t)
    parse_hk(t, "HK0", hk)
    tr["hk"] = hk
    if t.peek() == "EXC":
        return ("EXC", " ".join(t.t[t.p + 1:t.p + 3])), tr
    t.expect("RES")
    res = parse_any(t)
    parse_hk(t, "HK1", hk)
    return res, tr


def normalise(o, res):
    """operation specific normalisation of a parsed result to ('N',) | ('V', [...]) | ('I', v) | ('NONE',)"""
    if o.norm == "flag_tuple":
        # tuple(success, shape)
        if res[0] == "T" and len(res[1]) == 2 and res[1][0][0] == "I":
            return res[1][1] if res[1][0][1] else ("N",)
    if o.norm == "bto":
        # maybe / tuple(success, shape, free axes) / shape
        if res[0] == "T" and res[1] and res[1][0][0] == "I":
            return res[1][1] if res[1][0][1] else ("N",)
        # (shape, free axes)
        if res[0] == "T" and len(res[1]) == 2 and res[1][0][0] == "V":
            return res[1][0]
    if res[0] == "I":
        return ("I", int(res[1]))
    return res


# ----------------------------------------------------------------------------------------------------
# parsing of a record of a view-family instance
#   OPD <traits> ...  V <array> VT <traits> E <array> ET <traits>
# ----------------------------------------------------------------------------------------------------

def _num_or_f(t):
    x = t.s()
    return None if x == "F" else int(x)


def parse_array_traits(t):
    d = {}
    t.expect("M")
    d["maybe"] = t.i()
    if t.peek() == "NUM":
        t.s()
        d["num"] = True
        return d
    if t.peek() == "RN":
        t.s()
        d["nothing"] = True
        return d
    t.expect("FS")
    if t.peek() == "F":
        t.s()
        d["fs"] = None
    else:
        d["fs"] = t.vec()
    t.expect("FD")
    d["fd"] = _num_or_f(t)
    t.expect("FZ")
    d["fz"] = _num_or_f(t)
    t.expect("BD")
    d["bd"] = _num_or_f(t)
    t.expect("BZ")
    d["bz"] = _num_or_f(t)
    if t.peek() == "RN":
        t.s()
        d["nothing"] = True
        return d
    t.expect("RS")
    d["rs"] = t.vec()
    t.expect("RD")
    d["rd"] = t.i()
    t.expect("RZ")
    d["rz"] = t.i()
    return d


def parse_static_traits(t):
    """M <0|1> (NUM | FS .. FD .. FZ .. BD .. BZ ..): what a type claims, without a run-time object"""
    d = {}
    t.expect("M")
    d["maybe"] = t.i()
    if t.peek() == "NUM":
        t.s()
        d["num"] = True
        return d
    t.expect("FS")
    if t.peek() == "F":
        t.s()
        d["fs"] = None
    else:
        d["fs"] = t.vec()
    for tag, k in (("FD", "fd"), ("FZ", "fz"), ("BD", "bd"), ("BZ", "bz")):
        t.expect(tag)
        d[k] = _num_or_f(t)
    return d


def parse_view_record(toks, static_only=False):
    """static_only: the prefix of a record that ended in an exception - operands and the static traits of the view type (VS)"""
    t = Tok(toks)
    if t.peek() == "SKIP":
        return None
    d = {"opd": [], "hk": {}}
    while t.peek() is not None and t.peek().startswith("HKA"):
        parse_hk(t, t.peek(), d["hk"])
    parse_hk(t, "HK0", d["hk"])
    while t.peek() == "OPD":
        t.s()
        d["opd"].append(parse_array_traits(t))
    if t.peek() == "VS":
        t.s()
        d["vs"] = parse_static_traits(t)
    if static_only:
        return d
    t.expect("V")
    d["v"] = t.array()
    t.expect("VT")
    d["vt"] = parse_array_traits(t)
    parse_hk(t, "HK1", d["hk"])
    t.expect("E")
    d["e"] = t.array()
    t.expect("ET")
    d["et"] = parse_array_traits(t)
    parse_hk(t, "HK2", d["hk"])
    return d


def arr_norm(a):
    """Tok.array() result -> ('N',) | ('S', v) | ('A', shape, data)"""
    if a is None:
        return ("N",)
    if a.get("scalar"):
        return ("S", a["data"][0])
    if a["shape"] == [] and a["data"] is not None and len(a["data"]) == 1:
        # a 0-dimensional array and a scalar are the same logical result (NumPy returns a scalar)
        return ("S", a["data"][0])
    return ("A", a["shape"], a["data"])


# ----------------------------------------------------------------------------------------------------
# judges
# ----------------------------------------------------------------------------------------------------

def symptom(exp, got):
    if exp[0] != got[0]:
        if exp[0] == "N" or got[0] == "N":
            return "has_value"
        return "category"
    if exp[0] == "V":
        return "length" if len(exp[1]) != len(got[1]) else "values"
    if exp[0] == "A":
        return "shape" if list(exp[1]) != list(got[1]) else "elements"
    return "values"


def _close(a, b, tol):
    a, b = float(a), float(b)
    return a == b or (tol > 0 and abs(a - b) <= tol * max(1.0, abs(a), abs(b)))


def same_result(exp, got, tol=0.0):
    """tol: relative tolerance for floating-point results (operations that declare one); 0 = exact"""
    if exp[0] != got[0]:
        return False
    if exp[0] == "A":
        if exp[2] is None or got[2] is None:
            return exp[2] is None and got[2] is None and list(exp[1]) == list(got[1])
        return list(exp[1]) == list(got[1]) and len(exp[2]) == len(got[2]) and all(_close(a, b, tol) for a, b in zip(exp[2], got[2]))
    if exp[0] == "S":
        return _close(exp[1], got[1], tol)
    return list(exp[1:]) == list(got[1:])


def expected_of_vals(g, vals):
    o = g.op
    if o.family == "view":
        T = "int"
        for a in o.args:
            if a.typ == "arr" and g.sig.get(a.name):
                T = g.sig[a.name]["T"]
        return o.oracle(vals, T)
    return o.oracle(vals)


def expected_of(r):
    return expected_of_vals(r.g, r.vals)


def vals_brief(r):
    out = {}
    for k, v in r.vals.items():
        out[k] = v["shape"] if isinstance(v, dict) else v
    return out


# ----------------------------------------------------------------------------------------------------
# defect families: the key of a violation is a function of its CAUSE.  A violation whose cause (operation, kinds of the
# arguments, coarse argument class) matches a family below is reported under the family key - one key per family and
# property, whatever the symptom (wrong value / has_value / exception / crash / trait / hook) and whatever the seed drew;
# everything else keeps the fine-grained key <op>:<argument classes>:... (never listed as known).
# ----------------------------------------------------------------------------------------------------

CLIPPED_IDX_KINDS = ("clt", "cla", "clv", "cl")
AXIS_OPS = ("normalize_axis", "normalize_axis1", "moveaxis_to_transpose", "remove_dims", "remove_dims_axes", "sum", "sum_axes")
CLIPPED_BOUND_OPS = ("shape_pad", "shape_reshape", "shape_squeeze", "shape_concatenate", "shape_atleast_nd", "reshape", "concatenate")


def family_of(op, cfg, vals, key):
    """vals: brief values (array operands as their shape)"""
    o = G.OPS.get(op)
    if o is None or cfg == "cx":
        return None
    acs = G.cfg_parse(cfg)
    pairs = list(zip(o.args, acs))
    akinds = [ac.kind for a, ac in pairs if a.typ == "arr"]
    if key.startswith("operand:"):
        kind = key.split(":")[1]
        if kind == "nested":
            return "nested_array_size"
        if kind in ("ls_fb", "cm_ls_fb") and "hook:clamp" in key:
            return "ndarray_clipped_shape_fixed_buffer_ctor"
        return None
    if key.endswith(":eval:hook:clamp") and any(k in ("ls_fb", "cm_ls_fb") for k in akinds):
        # the evaluated result of a view over such an operand is such an array again
        return "ndarray_clipped_shape_fixed_buffer_ctor"
    if op == "matmul" and any(len(vals[a.name]) == 1 for a, ac in pairs if a.typ == "arr"):
        return "matmul_operand_1d"
    if op in ("remove_dims", "remove_dims_axes"):
        kd = [(a, ac) for a, ac in pairs if a.typ == "is" and a.boolean]
        shp = pairs[0][1].kind
        if kd and kd[0][1].kind == "b" and vals.get("keepdims") == 1 and G.KIND_CLASS.get(shp) in ("fixed", "const", "clipped", "bounded"):
            return "remove_dims_runtime_keepdims"
    if op in AXIS_OPS:
        for a, ac in pairs:
            if a.typ in ("ia", "is") and a.signed and not getattr(a, "placeholder", False) and ac.kind in CLIPPED_IDX_KINDS:
                v = vals.get(a.name)
                vs = v if isinstance(v, list) else [v]
                if any(x is not None and x < 0 for x in vs):
                    return "signed_clipped_axes"
    if "concatenate" in o.parts and any("ls_" in k for k in akinds):
        # composite over view::concatenate of clipped-shape operands: the known assert of the inner view (same cause, same key)
        return "clipped_result_bounds:concatenate"
    if op in CLIPPED_BOUND_OPS:
        if any(a.typ in ("ia", "is") and ac.kind in CLIPPED_IDX_KINDS for a, ac in pairs) or any("ls_" in k for k in akinds):
            return "clipped_result_bounds:%s" % op
    return None


class FamilyCtx:
    """wraps Ctx: rewrites the key of a violation to its family key"""

    def __init__(self, ctx, suffix):
        self._ctx = ctx
        self._suffix = suffix
        self.families = {}

    def __getattr__(self, name):
        return getattr(self._ctx, name)

    def violation(self, key, what, det=None):
        fam = None
        if isinstance(det, dict) and "op" in det:
            fam = family_of(det["op"], det.get("config"), det.get("values") or {}, key)
        if fam is not None:
            self.families[fam] = self.families.get(fam, 0) + 1
            what = "[%s] %s" % (key, what)
            key = "%s:%s" % (fam, self._suffix)
        self._ctx.violation(key, what, det)


def judge_c09(ctx, recs, info):
    """differential + NumPy oracle; returns coverage matrix"""
    ctx = FamilyCtx(ctx, "deviates")
    matrix = {}
    by_case = {}
    nrec = 0
    unchecked = 0
    for r in recs:
        o = r.g.op
        ck = G.cfg_kinds(r.inst.cfg)
        cc = G.cfg_class(r.inst.cfg)
        cell = matrix.setdefault(o.name, {}).setdefault(ck, 0)
        det = dict(op=o.name, program=r.prog, flavor=r.flavor, instance=r.inst.name, config=r.inst.cfg, values=vals_brief(r), case=r.line)
        if r.crash is not None:
            ctx.violation("%s:%s:deviates" % (o.name, cc), "%s(%s) in configuration %s [%s] died: %s" % (o.name, vals_brief(r), r.inst.cfg, r.flavor, r.crash.kind()),
                          dict(det, stderr=r.crash.stderr[-2500:]))
            continue
        if r.toks is None:
            continue
        if has_exc(r.toks):
            ctx.ev()
            ctx.violation("%s:%s:deviates" % (o.name, cc), "%s(%s) in configuration %s [%s] threw %s" % (o.name, vals_brief(r), r.inst.cfg, r.flavor, " ".join(r.toks[r.toks.index("EXC") + 1:][:2])), det)
            continue
        try:
            if o.family == "view":
                p = parse_view_record(r.toks)
                got = None if p is None else [("view", arr_norm(p["v"])), ("eval", arr_norm(p["e"]))]
                maybe = None if p is None else p["vt"]["maybe"]
            else:
                p = parse_index_record(r.toks)
                got = None if p is None else [("result", normalise(o, p[0]))]
                maybe = None if p is None else (p[1]["maybe"] or o.norm in ("flag_tuple", "bto") and p[0][0] == "T")
        except (ValueError, IndexError) as e:
            ctx.violation("%s:%s:deviates" % (o.name, cc), "unparsable record of %s in configuration %s: %s (%s)" % (o.name, r.inst.cfg, e, " ".join(r.toks[:40])), det)
            continue
        hk0 = None if p is None else (p["hk"] if o.family == "view" else p[1]["hk"]).get("HK0")
        if hk0 and any(v[0] for v in hk0.values()):
            ctx.inconc("harness built an index argument outside its bounds in %s (%s)" % (r.inst.name, r.line))
            continue
        if p is None:
            if r.toks[:2] == ["SKIP", "resize"]:
                continue        # judged by C11 (operand type refuses a shape inside its static bounds)
            ctx.inconc("instance %s of %s refused its own case %s" % (r.inst.name, r.prog, r.line))
            continue
        ctx.ev()
        nrec += 1
        matrix[o.name][ck] = cell + 1
        exp = expected_of(r)
        if exp == G.NOTHING and not maybe and any(g_[1][0] != "N" for g_ in got):
            # this configuration has no failure channel: a broken precondition, not an accepted argument
            unchecked += 1
            continue
        for where, g_ in got:
            if not same_result(exp, g_, o.tol):
                sy = symptom(exp, g_)
                ctx.violation("%s:%s:deviates" % (o.name, cc),
                              "%s(%s): configuration %s [%s] %s differs in %s: gives %s, reference (NumPy) %s" % (o.name, vals_brief(r), r.inst.cfg, r.flavor, where, sy, str(g_)[:200], str(exp)[:200]), det)
        key = (r.prog, r.inst.name, r.line.split(" ", 1)[1])
        by_case.setdefault(key, []).append((r.flavor, got, r))
        nontriv = exp[0] in ("V", "A") and len(exp[-1]) > 1
        if nontriv or exp[0] == "N":
            ctx.seen((o.name, ck, repr(sorted(vals_brief(r).items()))))
        if len(ctx.samples) < 6 and nontriv and r.why != "baked":
            ctx.sample(dict(op=o.name, config=r.inst.cfg, flavor=r.flavor, values=vals_brief(r), result=str(got[0][1])[:120], reference=str(exp)[:120]))
    # the builds of the same program, record by record (normalised results: cells the library leaves unspecified,
    # e.g. the shape next to success=false, are not compared)
    nflav = 0
    for key, lst in by_case.items():
        if len(lst) < 2:
            continue
        nflav += 1
        f0, g0, r0 = lst[0]
        for f1, g1, r1 in lst[1:]:
            if any(not same_result(a[1], b[1], r0.g.op.tol) and not (a[1][0] == "A" and b[1][0] == "A" and a[1][2] is None and b[1][2] is None) for a, b in zip(g0, g1)):
                o = r0.g.op
                ctx.violation("%s:%s:flavors_differ" % (o.name, G.cfg_class(r0.inst.cfg)),
                              "%s(%s) configuration %s: build %s gives %s, build %s gives %s" % (o.name, vals_brief(r0), r0.inst.cfg, f0, str(g0)[:150], f1, str(g1)[:150]),
                              dict(op=o.name, config=r0.inst.cfg, values=vals_brief(r0), program=r0.prog, instance=r0.inst.name, case=r0.line))
    return dict(matrix=matrix, records=nrec, cross_build_comparisons=nflav, invalid_without_failure_channel=unchecked, families=ctx.families)


def strip_static(toks):
    """result part of a record (the static traits may legitimately differ between STL and no-STL containers)"""
    out = []
    skip = False
    for x in toks:
        if x in ("TR", "VT", "ET", "OPD"):
            skip = True
        elif x in ("RES", "V", "E"):
            skip = False
        if not skip:
            out.append(x)
    return out


CLAMP, SVEC_CAP = 6, 4


def judge_c11(ctx, recs, info):
    ctx = FamilyCtx(ctx, "static_knowledge")
    matrix = {}
    types_seen = {}
    hook_events = {"clamp": 0, "svec_capacity": 0, "clamp_placeholder": 0}
    ntraits = 0
    composites = {}
    for r in recs:
        o = r.g.op
        ck = G.cfg_kinds(r.inst.cfg)
        cc = G.cfg_class(r.inst.cfg)
        det = dict(op=o.name, program=r.prog, flavor=r.flavor, instance=r.inst.name, config=r.inst.cfg, values=vals_brief(r), case=r.line)
        if r.crash is not None or r.toks is None:
            # crashes are C09/C02 material; here only static knowledge is judged
            continue
        exp = expected_of(r)
        if has_exc(r.toks) and o.family == "view":
            # reading the view threw (C09's finding).  What the view TYPE claims was printed before the view was touched: it is
            # compared with the independent reference result of this accepted call
            try:
                p = parse_view_record(r.toks, static_only=True)
            except (ValueError, IndexError):
                p = None
            if p and p.get("vs") and exp not in (G.INVALID, G.NOTHING):
                ctx.ev()
                ntraits += check_array_traits(ctx, o, "%s:%s:view" % (o.name, cc), r, "view (reading it threw)", p["vs"], exp, det)
            continue
        try:
            if o.family == "view":
                p = parse_view_record(r.toks)
                if p is None:
                    if r.toks[:2] == ["SKIP", "resize"]:
                        ctx.ev()
                        ks = [ac.kind for a, ac in zip(o.args, G.cfg_parse(r.inst.cfg)) if a.typ == "arr"]
                        ctx.violation("operand:%s:resize_refused" % "+".join(sorted(set(ks))),
                                      "%s(%s) configuration %s [%s]: an operand type refused resize() to a shape inside its static bounds (template shape %s)" % (
                                          o.name, vals_brief(r), r.inst.cfg, r.flavor, [r.g.sig[a.name]["S"] for a in o.args if a.typ == "arr"]), det)
                    continue
                ctx.ev()
                akinds = [ac.kind for a, ac in zip(o.args, G.cfg_parse(r.inst.cfg)) if a.typ == "arr"]
                judge_hooks(ctx, o, cc, r, p["hk"], det, hook_events, "+".join(sorted(set(akinds))))
                # the static knowledge of an operand type does not depend on the operation: one key per array kind
                chk = [("operand", t, None, "operand:%s" % akinds[i]) for i, t in enumerate(p["opd"])]
                chk.append(("view", p["vt"], exp, "%s:%s:view" % (o.name, cc)))
                chk.append(("eval", p["et"], exp, "%s:%s:eval" % (o.name, cc)))
                for where, tr, ex, kb in chk:
                    ntraits += check_array_traits(ctx, o, kb, r, where, tr, ex, det)
                    k = (tr.get("fs") is not None, tr.get("fd") is not None, tr.get("fz") is not None, tr.get("bd") is not None, tr.get("bz") is not None)
                    types_seen.setdefault("%s:%s" % (o.name, where), set()).add((ck, k))
                # "result buffers chosen from this information always have room for the whole result": the evaluated result
                # (storage inferred by the library from the static knowledge of the view type) must have the shape of the lazy
                # view it was evaluated from.  A refused resize leaves a default-shaped / empty array behind, silently.
                vt, et = p["vt"], p["et"]
                if "rs" in vt and "rs" in et and not et.get("nothing") and not vt.get("nothing"):
                    ntraits += 1
                    if list(vt["rs"]) != list(et["rs"]):
                        ctx.violation("%s:%s:eval:result_not_taken" % (o.name, cc),
                                      "%s(%s) configuration %s [%s]: the lazy view has shape %s (%d elements), its evaluation returned shape %s (%d elements); inferred result type: fixed_size %s bounded_size %s" % (
                                          o.name, vals_brief(r), r.inst.cfg, r.flavor, vt["rs"], vt["rz"], et["rs"], et["rz"], et.get("fz"), et.get("bz")), det)
                if o.composite:
                    # what was observed in the region "view of an enlarging view over an operand of bounded storage"
                    cs = composites.setdefault(o.name, dict(records=0, view_larger_than_first_operand_capacity=0,
                                                            eval_storage=dict(fixed=0, bounded=0, dynamic=0, none=0)))
                    cs["records"] += 1
                    S0 = [r.g.sig[a.name]["S"] for a in o.args if a.typ == "arr"][0]
                    if vt.get("rz", 0) > int(np.prod(S0)):
                        cs["view_larger_than_first_operand_capacity"] += 1
                    st = "none" if "rs" not in et else "fixed" if et.get("fz") is not None else "bounded" if et.get("bz") is not None else "dynamic"
                    cs["eval_storage"][st] += 1
                m = matrix.setdefault(o.name, {})
                m[ck] = m.get(ck, 0) + 1
                if p["vt"].get("rz", 0) and p["vt"]["rz"] > 1:
                    ctx.seen((o.name, ck, repr(sorted(vals_brief(r).items()))))
                if len(ctx.samples) < 6 and r.why == "enum" and p["vt"].get("rs"):
                    ctx.sample(dict(op=o.name, config=r.inst.cfg, values=vals_brief(r), view_static=dict((k, p["vt"].get(k)) for k in ("fs", "fd", "fz", "bd", "bz")),
                                    view_runtime=dict(shape=p["vt"]["rs"], size=p["vt"]["rz"]), eval_static=dict((k, p["et"].get(k)) for k in ("fs", "fd", "fz", "bd", "bz"))))
            else:
                p = parse_index_record(r.toks)
                if p is None:
                    continue
                ctx.ev()
                res, tr = p
                judge_hooks(ctx, o, cc, r, tr["hk"], det, hook_events, None)
                res = ("N",) if res[0] == "EXC" else normalise(o, res)
                ntraits += check_index_traits(ctx, o, cc, r, res, tr, exp, det)
                m = matrix.setdefault(o.name, {})
                m[ck] = m.get(ck, 0) + 1
                types_seen.setdefault("%s:result" % o.name, set()).add((ck, tr["kind"]))
                if tr["kind"] in ("arr_cl", "arr_bd", "arr_fx", "arr_ct", "idx_cl", "idx_ct") and r.why != "baked":
                    ctx.seen((o.name, ck, repr(sorted(vals_brief(r).items()))))
                if len(ctx.samples) < 6 and tr["kind"] in ("arr_cl", "arr_bd") and r.why == "enum":
                    ctx.sample(dict(op=o.name, config=r.inst.cfg, values=vals_brief(r), static=tr, runtime=str(res)))
        except (ValueError, IndexError) as e:
            ctx.violation("%s:%s:malformed" % (o.name, cc), "unparsable record: %s (%s)" % (e, " ".join(r.toks[:40])), det)
    return dict(families=ctx.families, matrix=matrix, traits_checked=ntraits, hook_events=hook_events, composites=composites,
                result_type_classes={k: len(v) for k, v in sorted(types_seen.items())})


def judge_hooks(ctx, o, cc, r, hk, det, totals, akinds):
    """CLAMP / SVEC_CAPACITY violations per phase of an instance.
    HK0 = building the arguments: index arguments are built by the harness inside their bounds (a violation there is a harness
    error -> inconclusive); array operands are built by the library's own ndarray constructor / resize -> keyed by array kind.
    HK1 = the call (view built and read), HK2 = evaluation."""
    msg = {"clamp": "a clipped integer stored a different value", "svec_capacity": "a static_vector was asked to exceed its capacity"}
    failing = expected_of(r) == G.NOTHING
    for tag, d in hk.items():
        if failing and not tag.startswith("HKA"):
            # a call that must fail builds no result: what it stores on the way to noticing the failure is not a result
            for site, (viol, v, b, ev) in d.items():
                totals[site] += ev
            continue
        for site, (viol, v, b, ev) in d.items():
            totals[site] += ev
            if not viol:
                continue
            if tag == "HK0":
                ctx.inconc("harness built an index argument outside its bounds in %s (%s): %s" % (r.inst.name, r.line, site))
                continue
            if tag.startswith("HKA"):
                kind = G.cfg_parse(r.inst.cfg)[int(tag[3:])].kind
                key = "operand:%s:hook:%s" % (kind, site)
                when = "while the operand was constructed / resized / filled"
            elif o.family == "view":
                key = "%s:%s:%s:hook:%s" % (o.name, cc, "view" if tag == "HK1" else "eval", site)
                when = "while the view was built and read" if tag == "HK1" else "while the view was evaluated"
            else:
                key = "%s:%s:hook:%s" % (o.name, cc, site)
                when = "while the result was computed"
            ctx.violation(key, "%s(%s) configuration %s [%s]: %s (value %d, bound %d) %s" % (o.name, vals_brief(r), r.inst.cfg, r.flavor, msg[site], v, b, when), det)


def check_index_traits(ctx, o, ck, r, res, tr, exp, det):
    """static knowledge of an index result type vs the run-time object and vs the reference value"""
    n = 0
    kind = tr["kind"]

    def bad(trait, msg):
        ctx.violation("%s:%s:result:%s" % (o.name, ck, trait), "%s(%s) configuration %s [%s]: %s" % (o.name, vals_brief(r), r.inst.cfg, r.flavor, msg), det)

    objs = [("object", res)]
    if exp not in (G.INVALID, G.NOTHING) and exp[0] in ("V", "I"):
        objs.append(("reference", exp))
    for nm_, ob in objs:
        if ob[0] == "N":
            continue
        if kind == "arr_ct" and ob[0] == "V":
            n += 1
            if list(tr["cv"]) != list(ob[1]):
                bad("constant_value", "type says %s, run-time %s is %s" % (tr["cv"], nm_, ob[1]))
        elif kind == "idx_ct" and ob[0] == "I":
            n += 1
            if tr["cv"][0] != ob[1]:
                bad("constant_value", "type says %s, run-time %s is %s" % (tr["cv"][0], nm_, ob[1]))
        elif kind == "idx_cl" and ob[0] == "I":
            n += 1
            if not (tr["mn"] <= ob[1] <= tr["mx"][0]):
                bad("clipped_bound", "type admits [%d,%d], run-time %s is %d" % (tr["mn"], tr["mx"][0], nm_, ob[1]))
        elif kind == "arr_cl" and ob[0] == "V":
            n += 1
            if tr["len"] != len(ob[1]):
                bad("fixed_len", "type has %d elements, run-time %s has %d" % (tr["len"], nm_, len(ob[1])))
            elif any(v > m for v, m in zip(ob[1], tr["mx"])):
                bad("clipped_bound", "type admits at most %s, run-time %s is %s" % (tr["mx"], nm_, ob[1]))
        elif kind == "arr_fx" and ob[0] == "V":
            n += 1
            if tr["len"] != len(ob[1]):
                bad("fixed_len", "type has %d elements, run-time %s has %d" % (tr["len"], nm_, len(ob[1])))
        elif kind == "arr_bd" and ob[0] == "V":
            n += 1
            if tr["bsz"] is not None and tr["bsz"] < len(ob[1]):
                bad("bounded_len", "type admits at most %d elements, run-time %s has %d" % (tr["bsz"], nm_, len(ob[1])))
    return n


def check_array_traits(ctx, o, keybase, r, where, tr, exp, det):
    n = 0
    if tr.get("num") or tr.get("nothing"):
        return 0
    has_obj = "rs" in tr
    if not has_obj and (exp is None or exp in (G.INVALID, G.NOTHING) or exp[0] != "A"):
        return 0

    def bad(trait, msg):
        ctx.violation("%s:%s" % (keybase, trait), "%s(%s) configuration %s [%s] %s: %s" % (o.name, vals_brief(r), r.inst.cfg, r.flavor, where, msg), det)

    objs = [("object", tr["rs"], tr["rd"], tr["rz"])] if has_obj else []
    if exp is not None and exp not in (G.INVALID, G.NOTHING) and exp[0] == "A":
        objs.append(("reference", list(exp[1]), len(exp[1]), int(np.prod(exp[1]))))
    for nm_, rs, rd, rz in objs:
        if tr["fs"] is not None:
            n += 1
            if list(tr["fs"]) != list(rs):
                bad("fixed_shape", "fixed_shape_v = %s, run-time %s shape %s" % (tr["fs"], nm_, rs))
        if tr["fd"] is not None:
            n += 1
            if tr["fd"] != rd:
                bad("fixed_dim", "fixed_dim_v = %d, run-time %s dim %d" % (tr["fd"], nm_, rd))
        if tr["fz"] is not None:
            n += 1
            if tr["fz"] != rz:
                bad("fixed_size", "fixed_size_v = %d, run-time %s size %d (shape %s)" % (tr["fz"], nm_, rz, rs))
        if tr["bd"] is not None:
            n += 1
            if tr["bd"] < rd:
                bad("bounded_dim", "bounded_dim_v = %d < run-time %s dim %d" % (tr["bd"], nm_, rd))
        if tr["bz"] is not None:
            n += 1
            if tr["bz"] < rz:
                bad("bounded_size", "bounded_size_v = %d < run-time %s size %d (shape %s)" % (tr["bz"], nm_, rz, rs))
    if has_obj and list(tr["rs"]) and (len(tr["rs"]) != tr["rd"] or int(np.prod(tr["rs"])) != tr["rz"]):
        bad("runtime_inconsistent", "shape() %s, dim() %d, size() %d disagree" % (tr["rs"], tr["rd"], tr["rz"]))
    return n
