"""C18 developer aid: compile-probe every candidate operand pairing x feature alone (g++ -fsyntax-only) to regenerate vf/c18_allow.py.

   python3-vt -m vf.c18_probe      (results: $VERIF_BUILD/c18_probe/pairs.json)
"""
import sys, os, subprocess, json
from concurrent.futures import ThreadPoolExecutor
from vf import c18_gen as G, build as B
OUT = os.path.join(B.BUILD, "c18_probe")
os.makedirs(OUT, exist_ok=True)
VARS = {"EQ": (1,0,0,0), "EQS": (1,0,0,1), "CL": (0,1,0,0), "CLS": (0,1,0,1), "EQA": (1,0,1,0), "CLA": (0,1,1,0)}
def comp(job):
    (ka,kb), vn = job
    p = os.path.join(OUT, "pr_%d_%d_%s.cpp" % (ka,kb,vn))
    open(p,"w").write(G.tu_text([((ka,kb), VARS[vn])]))
    r = subprocess.run(["g++","-std=c++17","-fsyntax-only","-DNMTOOLS_VERIF","-isystem",os.path.join(B.REPO,"include"),"-I",B.HARNESS,p],capture_output=True,text=True)
    errs=[l for l in r.stderr.splitlines() if "error" in l]
    os.remove(p)
    return job, r.returncode, errs[:2]
jobs=[(pr,vn) for pr in G.CANDIDATES for vn in VARS]
res={}
with ThreadPoolExecutor(8) as ex:
    for (pr,vn),rc,errs in ex.map(comp,jobs):
        res.setdefault(pr,{})[vn]=(rc==0, errs[:1])
out={}
for pr,d in res.items():
    eq=d["EQ"][0]; cl=d["CL"][0]
    sym=(not eq or d["EQS"][0]) and (not cl or d["CLS"][0])
    ap=(not eq or d["EQA"][0]) and (not cl or d["CLA"][0])
    print(pr, {k:v[0] for k,v in d.items()})
    for k,v in d.items():
        if not v[0]: print("     ",k,v[1][0][-200:] if v[1] else "")
    if eq or cl: out[pr]=(eq,cl,ap,sym)
with open(os.path.join(OUT, "pairs.json"),"w") as f: json.dump({"%d,%d"%k:v for k,v in out.items()},f)
