"""Shared machinery of the value-level checks (C03, C04, C05-view, C06-view, C07, C08, C16, C17) and of the
checks that re-read the same executions (C02, C10).

A value-level module exposes
    HARNESS   = ["c03_views", ...]          harness sources (one binary each); ops are found by scanning VH_OP(name)
    gen_cases(rng, tier) -> [dict(op=..., args="tok tok ...", <meta...>)]
    oracle(ctx, m, rec)                      decides one record for the module's own property
and every op prints its result with vh::emit_view_all.
"""
import os
import re

import numpy as np

from . import build as B
from . import run as R
from .core import Inconclusive
from .util import Tok, split_hooks, HookAcc, SITE_NAMES, DTYPES, build_or_fail

_op_re = re.compile(r"VH_OP\((\w+)\)")


def ops_of(source_name):
    with open(os.path.join(B.HARNESS, source_name + ".cpp")) as f:
        return _op_re.findall(f.read())


def parse_view_record(toks):
    """M <0|1> V <arr> E <arr> C <arr> [CB n elems..] O <arr> [X extra...]"""
    t = Tok(toks)
    rec = {}
    if t.peek() in ("ERR", "EXC"):
        rec["error"] = " ".join(toks)
        return rec
    t.expect("M")
    rec["M"] = t.i()
    t.expect("V")
    rec["V"] = t.array()
    t.expect("E")
    rec["E"] = t.array()
    t.expect("C")
    rec["C"] = t.array()
    rec["CB"] = None
    if t.peek() == "CB":
        t.s()
        n = t.i()
        tag = rec["C"]["tag"] if rec["C"] else "i8"
        rec["CB"] = [t.num(tag) for _ in range(n)]
    t.expect("O")
    rec["O"] = t.array()
    rec["OC"] = None
    if t.peek() == "OC":
        t.s()
        rec["OC"] = t.array()
    rec["X"] = t.t[t.p:]
    return rec


class CaseResult:
    __slots__ = ("m", "rec", "hooks", "crash", "timeout", "raw", "line")

    def __init__(self, m, line):
        self.m = m
        self.line = line
        self.rec = None
        self.hooks = {}
        self.crash = None
        self.timeout = False
        self.raw = None


def run_module_cases(harness, cases, flavor="asan", parse=parse_view_record, wrapper=None, timeout=900):
    """cases: list of dict(op, args, ...). Returns list of CaseResult in case order. Raises Inconclusive on build failure."""
    op2src = {}
    for src in harness:
        for op in ops_of(src):
            op2src[op] = src
    need = sorted({op2src[c["op"]] for c in cases if c["op"] in op2src})
    unknown = sorted({c["op"] for c in cases if c["op"] not in op2src})
    if unknown:
        raise Inconclusive("no harness op for %s" % unknown)
    bins = build_or_fail([B.Target(os.path.join(B.HARNESS, n + ".cpp"), flavor) for n in need])
    per_src = {}
    out = []
    for k, c in enumerate(cases):
        cid = str(k + 1)
        line = "%s %s %s" % (cid, c["op"], c["args"])
        cr = CaseResult(c, line)
        out.append(cr)
        per_src.setdefault(op2src[c["op"]], []).append((cid, line, cr))
    for src, lst in per_src.items():
        results, crashes, touts = R.run_cases(bins[(src, flavor)], [(cid, line) for cid, line, _ in lst], wrapper=wrapper, timeout=timeout)
        byid = {cid: cr for cid, _, cr in lst}
        for c in crashes:
            if c.case_id in byid:
                byid[c.case_id].crash = c
            else:
                # death outside a case: attach to a pseudo result
                cr = CaseResult(dict(op="<exit>", args="", src=src), "")
                cr.crash = c
                out.append(cr)
        for t in touts:
            if t in byid:
                byid[t].timeout = True
        for cid, _, cr in lst:
            if cid in results:
                toks, hooks = split_hooks(results[cid])
                cr.hooks = hooks
                cr.raw = toks
                if parse:
                    try:
                        cr.rec = parse(toks)
                    except (ValueError, IndexError) as e:
                        cr.rec = {"error": "unparsable: %s: %s" % (e, " ".join(toks[:40]))}
    return out


def to_np(arr):
    """parsed array dict -> numpy array (or None for Nothing); scalars become 0-d arrays"""
    if arr is None:
        return None
    dt = DTYPES.get(arr["tag"], np.float64)
    if arr.get("scalar"):
        return np.array(arr["data"][0], dtype=dt)
    if arr["data"] is None:
        return None
    return np.array(arr["data"], dtype=dt).reshape(arr["shape"])


def same_array(a, b):
    """structural equality of two parsed arrays (shape + elements, NaN == NaN)"""
    if a is None or b is None:
        return a is None and b is None
    if bool(a.get("scalar")) != bool(b.get("scalar")):
        return False
    if not a.get("scalar") and list(a["shape"]) != list(b["shape"]):
        return False
    da, db = a["data"], b["data"]
    if da is None or db is None:
        return da is None and db is None
    if len(da) != len(db):
        return False
    for x, y in zip(da, db):
        if x != y and not (x != x and y != y):
            return False
    return True


def compare_np(got, exp, exact=True, rtol=0.0, atol=0.0):
    """got: parsed array dict; exp: numpy array. Returns None if equal else a short description."""
    if got is None:
        return "result is Nothing, expected shape %s" % (list(exp.shape),)
    g = to_np(got)
    if g is None:
        return "result too large to emit"
    if got.get("scalar"):
        if exp.ndim != 0 and exp.size != 1:
            return "result is a scalar, expected shape %s" % (list(exp.shape),)
        gs, es = g.reshape(()), np.asarray(exp).reshape(())
    else:
        if list(g.shape) != list(exp.shape):
            return "shape %s expected %s" % (list(g.shape), list(exp.shape))
        gs, es = g, np.asarray(exp)
    if exact:
        eq = (gs == es) | ((gs != gs) & (es != es))
    else:
        with np.errstate(all="ignore"):
            eq = np.isclose(gs.astype(np.float64), es.astype(np.float64), rtol=rtol, atol=atol, equal_nan=True)
    if np.all(eq):
        return None
    bad = np.argwhere(~np.atleast_1d(eq))
    k = tuple(bad[0]) if gs.ndim else ()
    return "element %s is %s expected %s (%d of %d differ)" % (list(k), np.atleast_1d(gs)[k] if gs.ndim else gs, np.atleast_1d(es)[k] if gs.ndim else es, len(bad), gs.size)


def crash_key(cr):
    return "crash:" + cr.crash.kind()


def hook_problems(cr, acc=None, ignore=()):
    """returns [(site_name, first0, first1)] for violating hook sites of this case"""
    out = []
    if acc is not None:
        bad = acc.add(cr.hooks)
    else:
        bad = [(s, v, f0, f1) for s, (e, v, f0, f1) in cr.hooks.items() if v]
    for s, v, f0, f1 in bad:
        n = SITE_NAMES.get(s, str(s))
        if n in ignore:
            continue
        out.append((n, f0, f1))
    return out
