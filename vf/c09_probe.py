"""Compile-probe of the unchanged tree: which (operation, dims, configuration) combinations does the library support?

  python3-vt -m vf.c09_gen probe [--ops a,b] [--flavors asan,clang,nostl] [--family index|view]
  python3-vt -m vf.c09_gen probe --core      only the groups of the deterministic core (vf/c09_run.py core_entries): each group is
                                             compiled with its own baked values / signature; configurations that compile are ADDED to
                                             the asan allow-list of (operation, dims); nothing is removed

writes vf/c09_supported.json:  {flavor: {op: {dims: [configuration, ...]}}}.  The file is committed; checks only read it.
"""
import json
import os
import random
import re
import subprocess
import sys
import tempfile
import time
from concurrent.futures import ThreadPoolExecutor

from . import build as B
from . import c09_gen as G

JOBS = int(os.environ.get("VERIF_JOBS", "8"))


def _syntax_cmd(flavor, src):
    fl = B.FLAVORS[flavor]
    flags = [f for f in fl["flags"] if not f.startswith("-fsanitize") and not f.startswith("-fno-sanitize") and f != "-O1"]
    return [fl["cxx"], "-std=c++17", "-DNMTOOLS_VERIF", "-fsyntax-only", "-w", "-ftemplate-backtrace-limit=0"] + \
        [f for f in flags if f.startswith("-D") or f.startswith("-W")] + ["-isystem", os.path.join(B.REPO, "include"), "-I", B.HARNESS, src]


def try_compile(prog, flavor, workdir):
    """returns (ok, set of failing instance names, raw error)"""
    text = prog.text()
    src = os.path.join(workdir, "%s_%s_%d.cpp" % (prog.name, flavor, random.randrange(1 << 30)))
    with open(src, "w") as f:
        f.write(text)
    p = subprocess.run(_syntax_cmd(flavor, src), stdout=subprocess.PIPE, stderr=subprocess.STDOUT, text=True, errors="replace")
    os.remove(src)
    if p.returncode == 0:
        return True, set(), ""
    # map line numbers of the TU to instances
    lines = text.split("\n")
    owner = {}
    cur = None
    for i, ln in enumerate(lines, 1):
        m = re.match(r"VH_OP\((\w+)\)", ln)
        if m:
            cur = m.group(1)
        owner[i] = cur
        if ln == "}":
            cur = None
    bad = set()
    base = os.path.basename(src)
    for m in re.finditer(re.escape(base) + r":(\d+):", p.stdout):
        o = owner.get(int(m.group(1)))
        if o:
            bad.add(o)
    for m in re.finditer(r"vh_op_(g\d+c\d+(?:v\d+)?)", p.stdout):
        bad.add(m.group(1))
    return False, bad, p.stdout[-3000:]


def probe_one(o, dims, flavor, workdir, seed=12345, restrict=None):
    """returns (list of supported configurations, dict cfg -> first error line) for one (op, dims, flavor)"""
    rng = random.Random("%s/%s/%d" % (o.name, dims, seed))
    cands = G.candidates(o)
    if restrict is not None:
        cands = [c for c in cands if c in restrict]
    g = G.make_group(0, o, rng, cands, 1, 10**6, dims=dims, all_cfgs=True)
    cfgs = list(g.cfgs)
    errors = {}
    rounds = 0
    while cfgs:
        rounds += 1
        g2 = G.Group(0, o, g.dims, g.baked, g.sig, cfgs)
        ok, bad, err = try_compile(G.Program("probe_%s" % o.name, [g2]), flavor, workdir)
        if ok:
            break
        byname = {i.name: i.cfg for i in g2.insts}
        badcfg = {byname[b] for b in bad if b in byname}
        if not badcfg:
            # cannot attribute: bisect
            if len(cfgs) == 1:
                errors[cfgs[0]] = _first_error(err)
                cfgs = []
                break
            half = len(cfgs) // 2
            okc = []
            for part in (cfgs[:half], cfgs[half:]):
                sub, suberr = _probe_list(o, g, part, flavor, workdir)
                okc += sub
                errors.update(suberr)
            cfgs = okc
            break
        for c in badcfg:
            errors[c] = _first_error(err)
        cfgs = [c for c in cfgs if c not in badcfg]
        if rounds > 40:
            cfgs = []
            break
    return cfgs, errors, g


def _probe_list(o, g, cfgs, flavor, workdir):
    errors = {}
    while cfgs:
        g2 = G.Group(0, o, g.dims, g.baked, g.sig, cfgs)
        ok, bad, err = try_compile(G.Program("probe_%s" % o.name, [g2]), flavor, workdir)
        if ok:
            return cfgs, errors
        byname = {i.name: i.cfg for i in g2.insts}
        badcfg = {byname[b] for b in bad if b in byname}
        if not badcfg:
            if len(cfgs) == 1:
                errors[cfgs[0]] = _first_error(err)
                return [], errors
            half = len(cfgs) // 2
            a, ea = _probe_list(o, g, cfgs[:half], flavor, workdir)
            b, eb = _probe_list(o, g, cfgs[half:], flavor, workdir)
            errors.update(ea)
            errors.update(eb)
            return a + b, errors
        for c in badcfg:
            errors[c] = _first_error(err)
        cfgs = [c for c in cfgs if c not in badcfg]
    return [], errors


def _first_error(err):
    for ln in err.split("\n"):
        if "error" in ln:
            return ln[-200:]
    return err[-200:]


def save(sup):
    """one line per (flavour, operation, dims)"""
    tmp = G.SUPPORTED_JSON + ".tmp%d" % os.getpid()
    with open(tmp, "w") as f:
        f.write("{\n")
        fls = sorted(sup)
        for i, fl in enumerate(fls):
            f.write(" %s: {\n" % json.dumps(fl))
            ops = sorted(sup[fl])
            for j, name in enumerate(ops):
                f.write("  %s: {\n" % json.dumps(name))
                ds = sorted(sup[fl][name])
                for k, d in enumerate(ds):
                    f.write("   %s: %s%s\n" % (json.dumps(d), json.dumps(sup[fl][name][d]), "," if k + 1 < len(ds) else ""))
                f.write("  }%s\n" % ("," if j + 1 < len(ops) else ""))
            f.write(" }%s\n" % ("," if i + 1 < len(fls) else ""))
        f.write("}\n")
    os.replace(tmp, G.SUPPORTED_JSON)


def probe_core(sup, ops=None, flavor="asan"):
    from . import c09_run as CR
    os.makedirs(os.path.join(B.BUILD, "c09_probe"), exist_ok=True)
    workdir = tempfile.mkdtemp(prefix="c%d_" % os.getpid(), dir=os.path.join(B.BUILD, "c09_probe"))
    t0 = time.time()
    entries = [e for e in CR.core_entries() if not ops or e[0] in ops]

    def work(e):
        opn, dims, baked, sig, cfgs, values = e
        o = G.OPS[opn]
        full = {a.name: None for a in o.args}
        full.update(sig)
        g = G.Group(0, o, dims, [baked], full, list(cfgs))
        ok, errors = _probe_list(o, g, list(cfgs), flavor, workdir)
        sys.stderr.write("[probe-core] %-22s %-14s %3d ok %3d rejected %s\n" % (opn, dims, len(ok), len(errors), sorted(errors)))
        return e, ok, errors

    errlog = {}
    with ThreadPoolExecutor(max_workers=JOBS) as ex:
        for (opn, dims, *_), ok, errors in ex.map(work, entries):
            cur = sup.setdefault(flavor, {}).setdefault(opn, {}).setdefault(repr(dims), [])
            for c in ok:
                if c not in cur:
                    cur.append(c)
            for c, er in errors.items():
                errlog.setdefault(opn, {})["%s %s" % (dims, c)] = er
    try:
        os.rmdir(workdir)
    except OSError:
        pass
    save(sup)
    with open(os.path.join(B.BUILD, "c09_probe", "rejected_core_%d.json" % os.getpid()), "w") as f:
        json.dump(errlog, f, indent=1, sort_keys=True)
    sys.stderr.write("[probe-core] done in %.0fs\n" % (time.time() - t0))
    return 0


def main(argv):
    ops = None
    flavors = list(G.FLAVORS)
    family = None
    restrict_to = None
    redo = False
    core = False
    it = iter(argv[1:] if argv and argv[0] == "probe" else argv)
    for a in it:
        if a == "--ops":
            ops = next(it).split(",")
        elif a == "--flavors":
            flavors = next(it).split(",")
        elif a == "--family":
            family = next(it)
        elif a == "--restrict-to":
            restrict_to = next(it)
        elif a == "--redo":
            redo = True
        elif a == "--core":
            core = True
    sup = G.load_supported()
    if core:
        return probe_core(sup, ops)
    todo = []
    for name, o in G.OPS.items():
        if ops and name not in ops:
            continue
        if family and o.family != family:
            continue
        for fl in flavors:
            for d in o.dims:
                if not redo and repr(d) in sup.get(fl, {}).get(name, {}):
                    continue
                todo.append((o, d, fl))
    os.makedirs(os.path.join(B.BUILD, "c09_probe"), exist_ok=True)
    workdir = tempfile.mkdtemp(prefix="p%d_" % os.getpid(), dir=os.path.join(B.BUILD, "c09_probe"))
    t0 = time.time()
    errlog = {}

    def work(item):
        o, d, fl = item
        t1 = time.time()
        restrict = None
        if restrict_to and restrict_to != fl:
            restrict = set(sup.get(restrict_to, {}).get(o.name, {}).get(repr(d), []))
        cfgs, errors, g = probe_one(o, d, fl, workdir, restrict=restrict)
        sys.stderr.write("[probe] %-22s %-14s %-6s %3d ok %3d rejected  %.0fs\n" % (o.name, d, fl, len(cfgs), len(errors), time.time() - t1))
        return item, cfgs, errors

    with ThreadPoolExecutor(max_workers=JOBS) as ex:
        for (o, d, fl), cfgs, errors in ex.map(work, todo):
            sup.setdefault(fl, {}).setdefault(o.name, {})[repr(d)] = cfgs
            for c, e in errors.items():
                errlog.setdefault(o.name, {}).setdefault(c, e)
            save(sup)
    try:
        os.rmdir(workdir)
    except OSError:
        pass
    # forget dims that are no longer part of an operation
    for fl in list(sup):
        for name in list(sup[fl]):
            if name not in G.OPS:
                del sup[fl][name]
                continue
            keep = {repr(d) for d in list(G.OPS[name].dims) + list(G.OPS[name].core_dims)}
            for d in list(sup[fl][name]):
                if d not in keep:
                    del sup[fl][name][d]
    save(sup)
    with open(os.path.join(B.BUILD, "c09_probe", "rejected_%d.json" % os.getpid()), "w") as f:
        json.dump(errlog, f, indent=1, sort_keys=True)
    sys.stderr.write("[probe] done in %.0fs\n" % (time.time() - t0))
    return 0
