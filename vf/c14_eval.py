"""C14: parsing of the records written by the generated programs and the oracles over them.

The oracle never calls the functor machinery: for kinds A/B the reference is the direct view call (evaluated by the same
program, recorded first), for kind C it is the expression tree the generator emitted (leaf order, one node per leaf occurrence
and per operation, edges child -> parent).  networkx is used for the isomorphism test of the edge set.
"""
import math

import networkx as nx

from . import c14_gen as G
from .util import Tok


# ---------------------------------------------------------------------------------------------------------
# parsing
# ---------------------------------------------------------------------------------------------------------
def parse_operand(t):
    k = t.s()
    if k == "L":
        return ("L", t.i())
    if k == "S":
        tag = t.s()
        return ("S", tag, t.num(tag))
    if k == "V":
        return ("V", t.array())
    if k == "N":
        return ("N",)
    return ("U",)


def parse_pack(t):
    t.expect("P")
    n = t.i()
    if n < 0:
        return None
    return [parse_operand(t) for _ in range(n)]


def parse_result(t):
    """-> ("arr", same_type, array|None)  or ("pack", [operands])"""
    k = t.s()
    if k == "R1":
        same = t.i()
        return ("arr", same, t.array())
    if k == "RP":
        return ("pack", parse_pack(t))
    raise ValueError("bad result token %s" % k)


def parse_ab(tokens):
    t = Tok(tokens)
    k = t.s()
    ref = None
    if k == "REF1":
        ref = parse_result(t)
    elif k != "REFP":
        raise ValueError("expected REF got %s" % k)
    variants = {}
    while not t.done():
        t.expect("V")
        label = t.s()
        variants[label] = parse_result(t)
    return ref, variants


def parse_graph(t):
    t.expect("G")
    n = t.i()
    nodes = []
    for _ in range(n):
        t.expect("N")
        nid = t.i()
        k = t.s()
        if k == "L":
            nodes.append(dict(id=nid, kind="L", leaf=t.i()))
        elif k == "S":
            tag = t.s()
            nodes.append(dict(id=nid, kind="S", tag=tag, value=t.num(tag)))
        elif k == "F":
            m = t.i()
            ops = [t.i() for _ in range(m)]
            shape = t.vec()
            tag = t.s()
            nodes.append(dict(id=nid, kind="F", operands=ops, shape=shape, tag=tag))
        elif k == "V":
            nodes.append(dict(id=nid, kind="V", arr=t.array()))
        else:
            nodes.append(dict(id=nid, kind=k))
    t.expect("E")
    m = t.i()
    edges = [(t.i(), t.i()) for _ in range(m)]
    return dict(nodes=nodes, edges=edges)


def parse_c(tokens):
    t = Tok(tokens)
    sv = []
    while t.peek() == "SV":
        t.s()
        k = t.i()
        vid = t.i()
        hv = t.i()
        shape = t.vec() if hv else None
        if not hv:
            t.i()
        sv.append(dict(k=k, id=vid, has_value=bool(hv), shape=shape))
    out = dict(sv=sv, ops=None, graph=None, novalue=False)
    if t.peek() == "OPS":
        t.s()
        if t.peek() == "NOVALUE":
            t.s()
            out["novalue"] = True
        else:
            out["ops"] = parse_pack(t)
    if t.peek() == "GRAPH":
        t.s()
        if t.peek() == "NOVALUE":
            t.s()
            out["novalue"] = True
        else:
            out["graph"] = parse_graph(t)
    return out


def parse_cx(tokens):
    t = Tok(tokens)
    t.expect("X")
    if t.peek() == "NOVALUE":
        return dict(novalue=True)
    t.expect("VIEW")
    view = t.array()
    t.expect("ARITY")
    arity = t.i()
    nops = t.i()
    t.expect("APPLY")
    same = t.i()
    res = t.array()
    return dict(novalue=False, view=view, arity=arity, nops=nops, same=same, apply=res)


# ---------------------------------------------------------------------------------------------------------
# comparisons
# ---------------------------------------------------------------------------------------------------------
def num_equal(a, b):
    if isinstance(a, float) or isinstance(b, float):
        if math.isnan(a) and math.isnan(b):
            return True
    return a == b


def array_diff(ref, got):
    """None if identical else a symptom class"""
    if ref is None and got is None:
        return None
    if got is None:
        return "nothing"
    if ref is None:
        return "value_where_reference_is_nothing"
    if bool(ref.get("scalar")) != bool(got.get("scalar")) or ref["shape"] != got["shape"]:
        return "shape_mismatch"
    if ref["tag"] != got["tag"]:
        return "dtype_mismatch"
    if ref["data"] is None or got["data"] is None:
        return None
    if len(ref["data"]) != len(got["data"]):
        return "shape_mismatch"
    for a, b in zip(ref["data"], got["data"]):
        if not num_equal(a, b):
            return "value_mismatch"
    return None


def informative(arr):
    return arr is not None and arr["data"] is not None and len(arr["data"]) > 1


def expected_pack(trees, case, spec):
    """what an operand pack must contain for the result trees (leaves only)"""
    out = []
    for tr in trees:
        if not G.is_leaf(tr):
            return None
        out.append(expected_leaf(tr["leaf"], case, spec))
    return out


def expected_leaf(i, case, spec):
    k = spec["leaves"][i]
    if k[0] == "s":
        return ("S", G.LEAF_T[k[1]][1], case["leaf_data"][i][0])
    return ("L", i)


def operand_matches(exp, got):
    if exp[0] == "L":
        return got[0] == "L" and got[1] == exp[1]
    if exp[0] == "S":
        if got[0] != "S" or got[1] != exp[1]:
            return False
        if exp[1] == "f4":
            import numpy as np
            return float(np.float32(exp[2])) == got[2]
        return exp[2] == got[2]
    return False


def pack_diff(exp, got):
    if got is None:
        return "nothing"
    if len(exp) != len(got):
        return "pack_length"
    for e, g in zip(exp, got):
        if not operand_matches(e, g):
            return "operand_identity"
    return None


# ---------------------------------------------------------------------------------------------------------
# classes (functions of the program structure only)
# ---------------------------------------------------------------------------------------------------------
def compose_class(spec):
    chain = spec["chain"]
    fs = [G.CAT[it["f"]] for it in chain]
    if any(f.comb is not None for f in fs):
        return "combinator"
    if any(f.arity >= 2 for f in fs[:-1]):
        return "nary_inner"
    if fs[-1].arity >= 2:
        return "nary_last"
    return "unary_chain"


def graph_class(tree, leaf_kinds):
    nodes = G.tree_nodes(tree)
    bushy = False
    generic_mixed = False
    for n in nodes:
        vc = [a for a in n["args"] if not G.is_leaf(a)]
        f = G.CAT[n["f"]]
        if len(vc) >= 2:
            bushy = True
        elif len(vc) == 1 and f.arity >= 2 and f.family != "ufunc2":
            generic_mixed = True
    if bushy:
        sigs = [G.tree_signature(n, leaf_kinds) for n in nodes]
        if len(set(sigs)) < len(sigs):
            return "two_view_operands_identical_types"
        return "two_view_operands"
    if generic_mixed:
        return "nary_non_ufunc_over_view"
    return "supported"


def extract_class(tree, finfo):
    """composite_view: some call expands into several primitive views (where, mean, var, softmax, ...): the generator does not
    know the library's internal tree, so these get a class of their own"""
    if G.is_composite(tree, finfo):
        return "composite_view"
    c = G.classify_tree(tree)
    return "view_operand_at_pos_ge1" if c["pos_ge1"] else "left_deep"


# ---------------------------------------------------------------------------------------------------------
# expected graph
# ---------------------------------------------------------------------------------------------------------
def expected_graph(tree, case, spec, node_shapes=None):
    """networkx DiGraph of the expression tree: one node per leaf occurrence and per operation"""
    g = nx.DiGraph()
    counter = [0]
    order = []   # op nodes in post-order -> graph node name

    def rec(n):
        name = counter[0]
        counter[0] += 1
        if G.is_leaf(n):
            g.add_node(name, label=expected_leaf(n["leaf"], case, spec))
            return name
        kids = [rec(a) for a in n["args"]]
        g.add_node(name, label=("F", len(kids)), kids=kids, k=n["k"])
        for c in kids:
            g.add_edge(c, name)
        order.append(name)
        return name
    root = rec(tree)
    return g, root, order


def _label_of(node):
    if node["kind"] == "L":
        return ("L", node["leaf"])
    if node["kind"] == "S":
        return ("S", node["tag"], node["value"])
    if node["kind"] == "F":
        return ("F", len(node["operands"]))
    return (node["kind"],)


def graph_consistency(dump):
    """Internal consistency of a dumped graph, independent of the expression tree (so it is also decidable for the expression
    classes whose graphs are known not to be the expression tree): every operation node's recorded operand ids must be exactly
    its in-edges, edges only lead into operation nodes, no cycles, one sink.  None or (symptom, detail)."""
    nodes = {n["id"]: n for n in dump["nodes"]}
    preds = {}
    for a, b in dump["edges"]:
        if a not in nodes or b not in nodes:
            return "edge_to_unknown_node", "edge %s->%s" % (a, b)
        if nodes[b]["kind"] != "F":
            return "edge_into_leaf", "edge %s->%s leads into an operand node" % (a, b)
        preds.setdefault(b, set()).add(a)
    for i, n in nodes.items():
        if n["kind"] != "F":
            continue
        ops = [o for o in n["operands"]]
        if set(ops) != preds.get(i, set()):
            return "operands_vs_edges", "operation node %s lists operands %s but has in-edges from %s" % (i, ops, sorted(preds.get(i, set())))
    g = nx.DiGraph()
    g.add_nodes_from(nodes)
    g.add_edges_from(map(tuple, dump["edges"]))
    if not nx.is_directed_acyclic_graph(g):
        return "cycle", "edges %s" % (dump["edges"],)
    return None


def graph_diff(tree, case, spec, dump, sv_shapes):
    """None if the dumped graph is the expression tree, else (symptom, detail)"""
    exp, root, order = expected_graph(tree, case, spec)
    ids = [n["id"] for n in dump["nodes"]]
    if len(set(ids)) != len(ids):
        return "duplicate_ids", "node ids %s" % ids
    if len(ids) != exp.number_of_nodes():
        return "node_count", "%d nodes, expression has %d operand occurrences + %d operations" % (
            len(ids), sum(1 for _, d in exp.nodes(data=True) if d["label"][0] != "F"), len(order))
    got = nx.DiGraph()
    for n in dump["nodes"]:
        got.add_node(n["id"], label=_label_of(n), node=n)
    for a, b in dump["edges"]:
        if a not in got or b not in got:
            return "edge_set", "edge %s->%s refers to an unknown node" % (a, b)
        got.add_edge(a, b)
    if got.number_of_edges() != len(dump["edges"]):
        return "edge_set", "repeated edges %s" % (dump["edges"],)

    def nm_(a, b):
        la, lb = a["label"], b["label"]
        if la[0] == "S" and lb[0] == "S":
            return operand_matches(la, lb) or operand_matches(lb, la)
        return la == lb
    if not nx.is_isomorphic(exp, got, node_match=nm_):
        # distinguish leaf identity from structure
        if nx.is_isomorphic(exp, got):
            return "leaf_identity", "graph has the shape of the expression tree but leaves/arity labels differ: %s" % (
                [(n["id"], _label_of(n)) for n in dump["nodes"]],)
        return "edge_set", "edges %s are not those of the expression tree" % (dump["edges"],)
    # ordered operands of every operation and its output shape: walk from the root
    sinks = [n for n in got.nodes if got.out_degree(n) == 0]
    if len(sinks) != 1:
        return "edge_set", "%d sinks" % len(sinks)

    def walk(en, gn):
        ed = exp.nodes[en]
        gd = got.nodes[gn]["node"]
        if ed["label"][0] != "F":
            if not nm_(ed, got.nodes[gn]):
                return "operand_order", "leaf at node %s is %s expected %s" % (gn, got.nodes[gn]["label"], ed["label"])
            return None
        if gd["kind"] != "F" or len(gd["operands"]) != len(ed["kids"]):
            return "operand_order", "node %s operands %s" % (gn, gd.get("operands"))
        if set(gd["operands"]) != set(got.predecessors(gn)) and len(set(gd["operands"])) == len(gd["operands"]):
            return "operand_ids_vs_edges", "node %s lists operands %s but has in-edges from %s" % (gn, gd["operands"], sorted(got.predecessors(gn)))
        shp = sv_shapes.get(ed["k"])
        if shp is not None and gd["shape"] != shp and not (shp == [] and gd["shape"] in ([], [1])):
            return "output_shape", "node %s records output shape %s, the sub-view has %s" % (gn, gd["shape"], shp)
        for ek, gk in zip(ed["kids"], gd["operands"]):
            if gk not in got:
                return "operand_order", "operand id %s of node %s is not a node" % (gk, gn)
            r = walk(ek, gk)
            if r:
                return r
        return None
    return walk(root, sinks[0])
