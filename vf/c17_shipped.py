"""Parser for the repository's shipped test vectors (include/nmtools/testing/data/array/*.hpp).

Returns {"group/case_name": dict(args={name: value}, expect={name: value})} where arrays are numpy arrays (float64 / int64),
None stays None, N_ct literals become ints, True/False bools.  Only used to validate the C17 reference models.
"""
import os
import re

import numpy as np

_block = re.compile(r"NMTOOLS_TESTING_DECLARE_(ARGS|EXPECT)\((\w+)\)\s*\{", re.S)
_decl = re.compile(r"inline\s+(?:constexpr\s+)?([\w:]+)\s+(\w+)\s*((?:\[\s*\d*\s*\])*)\s*=\s*", re.S)


def _strip_comments(txt):
    txt = re.sub(r"/\*.*?\*/", "", txt, flags=re.S)
    txt = re.sub(r"//[^\n]*", "", txt)
    return txt


def _matching(txt, start):
    """index just after the brace block starting at txt[start] == '{'"""
    depth = 0
    for k in range(start, len(txt)):
        if txt[k] == "{":
            depth += 1
        elif txt[k] == "}":
            depth -= 1
            if depth == 0:
                return k + 1
    raise ValueError("unbalanced braces")


def _value(ctype, dims, rhs):
    rhs = rhs.strip()
    if dims:
        s = rhs.replace("{", "[").replace("}", "]")
        s = re.sub(r"(?<=[0-9.])[fF]\b", "", s)
        s = re.sub(r"\bstatic_cast<\w+>", "", s)
        val = eval(s, {"__builtins__": {}}, {"true": True, "false": False, "True": True, "False": False, "INFINITY": float("inf"), "NAN": float("nan")})
        a = np.array(val)
        return a
    if rhs in ("None",):
        return None
    if rhs in ("True", "true"):
        return True
    if rhs in ("False", "false"):
        return False
    m = re.fullmatch(r'"?(-?\d+)"?_ct', rhs)
    if m:
        return int(m.group(1))
    m = re.fullmatch(r"(-?[0-9.]+(?:e-?\d+)?)[fF]?", rhs)
    if m:
        t = m.group(1)
        return float(t) if ("." in t or "e" in t) else int(t)
    return ("unparsed", rhs)


def parse_file(path):
    with open(path) as f:
        txt = _strip_comments(f.read())
    out = {}
    groups = [(g.start(), g.group(1)) for g in re.finditer(r"NMTOOLS_TESTING_DECLARE_CASE\(\s*\w+\s*,\s*(\w+)\s*\)", txt)]
    for m in _block.finditer(txt):
        kind, name = m.group(1), m.group(2)
        grp = [g for (p0, g) in groups if p0 < m.start()]
        name = "%s/%s" % (grp[-1] if grp else "?", name)
        end = _matching(txt, m.end() - 1)
        body = txt[m.end():end - 1]
        d = out.setdefault(name, dict(args={}, expect={}))
        tgt = d["args" if kind == "ARGS" else "expect"]
        pos = 0
        while True:
            dm = _decl.search(body, pos)
            if not dm:
                break
            ctype, var, dims = dm.group(1), dm.group(2), dm.group(3)
            p = dm.end()
            if body[p] == "{" or body[p:].lstrip().startswith("nmtools_tuple{") or body[p:].lstrip().startswith("nmtools_array{"):
                b = body.index("{", p)
                e = _matching(body, b)
                rhs = body[b:e]
                if not dims:
                    # tuple / array literal
                    try:
                        s = rhs.replace("{", "[").replace("}", "]")
                        s = re.sub(r'"?(-?\d+)"?_ct', r"\1", s)
                        s = re.sub(r"nmtools_(tuple|array)", "", s)
                        tgt[var] = eval(s, {"__builtins__": {}}, {})
                    except Exception:
                        tgt[var] = ("unparsed", rhs)
                else:
                    try:
                        tgt[var] = _value(ctype, dims, rhs)
                    except Exception:
                        tgt[var] = ("unparsed", rhs[:60])
                pos = e
            else:
                e = body.index(";", p)
                tgt[var] = _value(ctype, dims, body[p:e])
                pos = e
    return out


def load(repo, name):
    return parse_file(os.path.join(repo, "include/nmtools/testing/data/array", name + ".hpp"))
