"""C12 workload: contexts, data generators and the case lists (pure Python, no nmtools knowledge beyond call forms)."""
import itertools

import numpy as np

# id -> (name, register bits)
CONTEXTS = {1: ("x86_SSE", 128), 2: ("x86_AVX", 256), 3: ("vector_128", 128), 4: ("vector_256", 256),
            5: ("vector_512", 512), 6: ("simde_AVX512", 512)}
QUICK_CTX = [2, 3]
ALL_CTX = [1, 2, 3, 4, 5, 6]
GROUPS = ["unary", "binary", "reduce", "matmul", "int"]
# the int32 group is not run with the compiler-vector-extension contexts: vector_type_t<bits,T> is declared with
# vector_size(bits / sizeof(T)) *bytes*, i.e. twice (float/int32) the register width; loadu/set1 fill only bits/(8*sizeof(T)) lanes
# and the arithmetic runs over the uninitialised upper lanes too.  For floats the garbage lanes are discarded; for int32 UBSan
# reports signed overflow in them depending on stack garbage (nondeterministic -> would make the check flaky).
# See findings/c12_vector_extension_register_width.md.
INT_CTX = (1, 2, 6)


def group_runs(ctx, group):
    return group != "int" or ctx in INT_CTX


def plan(tier, groups=None):
    """(context, group) pairs of a tier; quick runs the int32 group with x86_SSE as well so that it also sees two contexts"""
    ctxs = QUICK_CTX if tier == "quick" else ALL_CTX
    out = [(c, g) for c in ctxs for g in (groups or GROUPS) if group_runs(c, g)]
    if tier == "quick" and (not groups or "int" in groups):
        out.append((1, "int"))
    return out

NPT = {4: np.float32, 8: np.float64, 32: np.int32}
TAG = {4: "f4", 8: "f8", 32: "i4"}

UNARY = {0: "sqrt", 1: "ceil", 2: "floor", 3: "relu", 4: "relu6", 5: "hardtanh", 6: "hardshrink", 7: "hardswish",
         8: "leaky_relu", 9: "prelu", 10: "softshrink", 11: "softsign"}
# (p0, p1) run-time parameters of the parametrised activations (exactly representable in float32)
UNARY_PAR = {5: (-1.5, 2.25), 6: (0.75, 0.0), 8: (0.015625, 0.0), 9: (0.3125, 0.0), 10: (0.75, 0.0)}
BINARY = {0: "add", 1: "subtract", 2: "multiply", 3: "divide"}
OUTER = {0: "add", 1: "subtract", 2: "multiply"}
REDUCE = {0: "add", 1: "multiply"}

# combinations that do not compile on the unchanged tree (compile-probed): excluded = "not supported"
#   simde_AVX512 x {hardshrink, hardswish, softshrink} : simde_k{not,xor}_mask{8,16} missing in the installed simde
#   simde_AVX512 x double x matmul : simd_op_t::fmadd calls simde_mm512_fmadd_ps for double
def compiles(ctx, form, op, dt):
    if ctx == 6:
        if form == "unary" and op in (6, 7, 10):
            return False
        if form == "matmul" and dt == 8:
            return False
    return True


def lanes(ctx, dt):
    return CONTEXTS[ctx][1] // (8 * (4 if dt == 32 else dt))


def hexv(v):
    return " ".join(float(x).hex() for x in v)


def fmt_shape(s):
    return "%d %s" % (len(s), " ".join(str(int(x)) for x in s)) if len(s) else "0"


def fmt_data(v):
    return "%d %s" % (len(v), hexv(v))


class Data:
    """random data; every value is exactly representable in the element type"""

    def __init__(self, rng):
        self.rng = rng

    def _round(self, x, dt):
        return float(NPT[dt](x))

    def general(self, n, dt, lo=0.25, hi=4.0):
        """random sign, magnitude in [lo,hi) with a full random mantissa: a*b and a+b are inexact"""
        out = []
        for _ in range(n):
            m = self.rng.uniform(lo, hi)
            if self.rng.random() < 0.5:
                m = -m
            v = self._round(m, dt)
            if v == 0.0:
                v = 1.0
            out.append(v)
        return out

    def positive(self, n, dt):
        return [abs(x) for x in self.general(n, dt, 0.01, 100.0)]

    def near_one(self, n, dt):
        """factors for long products: no overflow / underflow for a few hundred terms"""
        return self.general(n, dt, 0.6, 1.6)

    def unary(self, n, dt, op):
        """values on both sides of every threshold of the activations, thresholds themselves, fractions for ceil/floor"""
        special = [6.0, 3.0, -3.0, 0.75, -0.75, -1.5, 2.25, 1.0, -1.0, 2.5, -2.5, 7.5, -7.5, 0.5, -0.5]
        out = []
        for _ in range(n):
            r = self.rng.random()
            if r < 0.2:
                out.append(self.rng.choice(special))
            elif r < 0.3:
                out.append(float(self.rng.randint(-9, 9)) or 4.0)
            else:
                out.append(self.general(1, dt, 0.05, 9.0)[0])
        if op == 0:
            out = [abs(x) for x in out]
        return out

    def ints(self, n, dt, lo=1, hi=9):
        out = []
        for _ in range(n):
            v = float(self.rng.randint(lo, hi))
            if self.rng.random() < 0.5:
                v = -v
            out.append(v)
        return out

    def pow2(self, n, dt):
        """integer-valued factors whose product is exact in any order"""
        out = []
        for _ in range(n):
            r = self.rng.random()
            v = 1.0 if r < 0.55 else (2.0 if r < 0.8 else (0.5 if r < 0.95 else 4.0))
            if self.rng.random() < 0.5:
                v = -v
            out.append(v)
        # a handful of 3s (3^k stays far below 2^24)
        for _ in range(min(6, n // 3)):
            out[self.rng.randrange(n)] *= 3.0
        return out


def prod(s):
    p = 1
    for e in s:
        p *= e
    return p


def sizes_1d(L):
    return list(range(1, 4 * L + 2))


def some_sizes(L):
    """element counts around every multiple of the lane count"""
    s = set(range(1, L + 3))
    for k in (2, 3, 4):
        s.update((k * L - 1, k * L, k * L + 1))
    return sorted(x for x in s if x >= 1)


def few_sizes(L):
    return sorted({1, 2, L - 1, L, L + 1, 2 * L, 2 * L + 1, 3 * L + 2} - {0})


class Case:
    __slots__ = ("form", "op", "opname", "ctx", "dt", "line", "meta")

    def __init__(self, form, op, opname, ctx, dt, line, meta):
        self.form, self.op, self.opname, self.ctx, self.dt, self.line, self.meta = form, op, opname, ctx, dt, line, meta


def gen_unary(ctx, tier, D):
    out = []
    for dt in (4, 8):
        L = lanes(ctx, dt)
        nd_shapes = [[1, 1], [3, 1], [1, L + 1], [2, L + 1], [3, L], [2, 3, L - 1 or 1], [2, 1, 2 * L + 1], [2, 2, 2, 3], [L + 1, 3]]
        for op, name in UNARY.items():
            if not compiles(ctx, "unary", op, dt):
                continue
            p0, p1 = UNARY_PAR.get(op, (0.0, 0.0))
            shapes = [[n] for n in sizes_1d(L)] + nd_shapes
            for shape in shapes:
                data = D.unary(prod(shape), dt, op)
                line = "unary %d %d 0 %s %s %s %s" % (dt, op, float(p0).hex(), float(p1).hex(), fmt_shape(shape), fmt_data(data))
                out.append(Case("unary", op, name, ctx, dt, line, dict(shape=shape, a=data, p=(p0, p1), lay=0,
                                                                           cls="1d" if len(shape) == 1 else "nd")))
        # column-major operand
        for op in (0, 3):
            for shape in [[2, 3], [3, L + 1], [L + 1, 2], [2, 3, L], [1, L + 2], [L + 2, 1], [1, 1, 5]]:
                data = D.unary(prod(shape), dt, op)
                line = "unary %d %d 1 0x0p+0 0x0p+0 %s %s" % (dt, op, fmt_shape(shape), fmt_data(data))
                degenerate = sum(1 for e in shape if e > 1) <= 1
                out.append(Case("unary", op, UNARY[op], ctx, dt, line, dict(shape=shape, a=data, p=(0.0, 0.0), lay=1,
                                                                                cls="colmajor_degenerate" if degenerate else "colmajor")))
    return out


def bcast_shape(ls, rs):
    n = max(len(ls), len(rs))
    a = [1] * (n - len(ls)) + list(ls)
    b = [1] * (n - len(rs)) + list(rs)
    o = []
    for x, y in zip(a, b):
        if x != y and x != 1 and y != 1:
            return None
        o.append(max(x, y))
    return o


def bcast_label(ls, rs):
    """canonical description of a 2-d x 2-d pair: per operand and axis f(ull) or b(roadcast, extent 1 against >1)"""
    o = bcast_shape(ls, rs)
    lab = []
    for s in (ls, rs):
        lab.append("".join("b" if (e == 1 and oe > 1) else "f" for e, oe in zip(s, o)))
    return "lhs_%s_rhs_%s" % (lab[0], lab[1])


def bcast_cls(ls, rs):
    if prod(ls) == 1:
        return "bcast2d_lhs_single_element"
    if prod(rs) == 1:
        return "bcast2d_rhs_single_element"
    return "bcast2d_" + bcast_label(ls, rs)


def gen_binary(ctx, tier, D):
    out = []
    quick = tier == "quick"
    for dt in (4, 8):
        L = lanes(ctx, dt)

        def add(op, ls, rs, lay, cls, kind="general"):
            if kind == "general":
                a = D.general(prod(ls), dt)
                b = D.general(prod(rs), dt)
            else:
                a = D.ints(prod(ls), dt)
                b = D.ints(prod(rs), dt)
            line = "binary %d %d %d %s %s %s %s" % (dt, op, lay, fmt_shape(ls), fmt_shape(rs), fmt_data(a), fmt_data(b))
            out.append(Case("binary", op, BINARY[op], ctx, dt, line, dict(ls=ls, rs=rs, a=a, b=b, lay=lay, cls=cls)))

        # same shape, 1-d: every element count
        for op in BINARY:
            for n in sizes_1d(L):
                add(op, [n], [n], 0, "same_1d")
        # same shape, n-d
        for op in BINARY:
            for shape in [[1, 1], [2, L + 1], [3, L], [L + 1, 3], [2, 3, L - 1 or 1], [2, 1, 2 * L + 1], [2, 2, 2, 3]]:
                add(op, shape, shape, 0, "same_nd")
        # 2-d x 2-d: all broadcast patterns (m|1, n|1) x (m|1, n|1)
        seen = set()
        ms = [1, 2, 3] if quick else [1, 2, 3, 5]
        ns = some_sizes(L) if quick else sizes_1d(L)
        k = 0
        for m in ms:
            for n in ns:
                for lp in itertools.product((0, 1), repeat=2):
                    for rp in itertools.product((0, 1), repeat=2):
                        ls = [m if lp[0] else 1, n if lp[1] else 1]
                        rs = [m if rp[0] else 1, n if rp[1] else 1]
                        key = (tuple(ls), tuple(rs))
                        if key in seen:
                            continue
                        seen.add(key)
                        cls = "same_nd" if ls == rs else bcast_cls(ls, rs)
                        # all four ops near the lane boundaries, otherwise rotate
                        ops = list(BINARY) if (n <= L + 1 or n in (2 * L, 2 * L + 1, 4 * L + 1)) else [k % 4]
                        k += 1
                        for op in ops:
                            add(op, ls, rs, 0, cls)
        # broadcasting between operands that are not both 2-d
        for op in BINARY:
            for n in few_sizes(L):
                add(op, [n], [2, n], 0, "bcast_rank_1d_2d")
                add(op, [3, n], [n], 0, "bcast_rank_2d_1d")
                add(op, [2, 3, n], [3, n], 0, "bcast_rank_3d_2d")
                add(op, [2, 1, n], [1, 3, 1], 0, "bcast_3d_3d")
                add(op, [2, 3, n], [2, 3, 1], 0, "bcast_3d_3d")
        # column-major operands (subtract: operand order matters)
        for lay in (1, 2, 3):
            for shape in [[2, 3], [3, L + 1], [L + 1, 2], [2, 3, L]]:
                add(1, shape, shape, lay, "colmajor_same_shape")
            for ls, rs in [([3, 1], [3, L + 1]), ([2, L + 1], [1, L + 1]), ([3, 1], [1, L])]:
                if lay == 1 and sum(1 for e in ls if e > 1) <= 1:
                    continue
                if lay == 2 and sum(1 for e in rs if e > 1) <= 1:
                    continue
                add(1, ls, rs, lay, "colmajor_bcast2d")
        # integer-valued data (exact in every path)
        for op in (0, 1, 2):
            for n in few_sizes(L):
                add(op, [n], [n], 0, "same_1d", kind="ints")
                add(op, [2, n], [2, 1], 0, bcast_cls([2, n], [2, 1]), kind="ints")
    return out


def gen_outer(ctx, tier, D):
    out = []
    quick = tier == "quick"
    for dt in (4, 8):
        L = lanes(ctx, dt)

        def add(op, ls, rs, lay, cls):
            a = D.general(prod(ls), dt)
            b = D.general(prod(rs), dt)
            line = "outer %d %d %d %s %s %s %s" % (dt, op, lay, fmt_shape(ls), fmt_shape(rs), fmt_data(a), fmt_data(b))
            out.append(Case("outer", op, OUTER[op], ctx, dt, line, dict(ls=ls, rs=rs, a=a, b=b, lay=lay, cls=cls)))

        for op in OUTER:
            for n in sizes_1d(L):
                ps = [1, 3] if (quick and n > L + 2) else [1, 2, 3]
                for p in ps:
                    add(op, [p], [n], 0, "1d_1d")
            for n in some_sizes(L):
                add(op, [n], [3], 0, "1d_1d")
            for n in few_sizes(L):
                add(op, [2, 3], [n], 0, "2d_1d")
                add(op, [3], [2, n], 0, "1d_2d")
                add(op, [2, 3], [2, n], 0, "2d_2d")
                add(op, [n, 2], [3, 1], 0, "2d_2d")
                add(op, [2], [2, 3, n], 0, "1d_3d")
                add(op, [2, 2, 3], [n], 0, "3d_1d")
                add(op, [2, 3], [2, 2, n], 0, "2d_3d")
                add(op, [2, 1, 2], [3, n], 0, "3d_2d")
        for ls, rs in [([2, 3], [3, L + 1]), ([3, 2], [L + 1, 2]), ([2, 2], [2, L])]:
            add(1, ls, rs, 3, "colmajor")
    return out


def reduce_cls(shape, axis, variant):
    nd = len(shape)
    if axis is None:
        ax = "none"
        osize = 1
    else:
        a = axis if axis >= 0 else axis + nd
        osize = prod(shape) // shape[a]
        if axis < 0:
            ax = "negative_last" if a == nd - 1 else "negative_notlast"
        else:
            ax = "last" if a == nd - 1 else "notlast"
    v = ("plain", "dtype_given", "initial_given")[variant]
    if osize == 1:
        return "single_output_" + v
    return "multi_output_axis_%s_%s" % (ax, v)


def gen_reduce(ctx, tier, D):
    out = []
    quick = tier == "quick"
    for dt in (4, 8):
        L = lanes(ctx, dt)

        def add(op, shape, axis, keepdims, variant=0, lay=0, kind="general", cls=None):
            n = prod(shape)
            if kind == "general":
                data = D.general(n, dt) if op == 0 else D.near_one(n, dt)
            else:
                data = D.ints(n, dt) if op == 0 else D.pow2(n, dt)
            initial = 2.5 if kind == "general" else 3.0
            line = "reduce %d %d %d %d %d %d %s %s %s" % (dt, op, lay, variant, -99 if axis is None else axis, keepdims,
                                                          float(initial).hex(), fmt_shape(shape), fmt_data(data))
            c = cls or reduce_cls(shape, axis, variant)
            if lay == 1:
                c = "colmajor_" + c
            out.append(Case("reduce", op, REDUCE[op], ctx, dt, line,
                            dict(shape=shape, a=data, axis=axis, keepdims=keepdims, variant=variant, initial=initial, lay=lay,
                                 kind=kind, cls=c)))

        for op in REDUCE:
            # 1-d: every element count, axis None / 0 / -1, keepdims on/off
            for n in sizes_1d(L):
                for axis in (None, 0, -1):
                    for kd in (0, 1):
                        add(op, [n], axis, kd)
                add(op, [n], None, 0, kind="ints")
                add(op, [n], 0, 0, kind="ints")
            # 2-d: every axis (also negative), keepdims on/off
            ms = [1, 2, 3, L + 1]
            ns = some_sizes(L) if quick else sizes_1d(L)
            for m in ms:
                for n in ns:
                    for axis in (None, 0, 1, -1, -2):
                        for kd in (0, 1):
                            if quick and kd == 1 and n > 2 * L + 1:
                                continue
                            add(op, [m, n], axis, kd)
                    add(op, [m, n], 0, 0, kind="ints")
                    add(op, [m, n], 1, 0, kind="ints")
            # n-d: every axis, keepdims on/off, axis None
            nds = []
            for n in few_sizes(L):
                nds += [[2, 3, n], [2, n, 3], [n, 2, 3], [2, 1, n], [2, 2, 3, n], [2, n, 1, 3]]
            nds += [[1, 1, 1], [2, 3, 4, 2, 3], [3, 1, 1, L + 1]]
            for shape in nds:
                if prod(shape) > 2000:
                    continue
                for axis in [None] + list(range(len(shape))) + [-1, -len(shape)]:
                    for kd in (0, 1):
                        add(op, shape, axis, kd)
                add(op, shape, len(shape) // 2, 0, kind="ints")
            # dtype argument given / initial value given
            for variant in (1, 2):
                for shape in [[n] for n in few_sizes(L)] + [[2, L + 1], [3, 2 * L], [L + 1, 3], [2, 3, L + 1]]:
                    for axis in [None] + list(range(len(shape))):
                        add(op, shape, axis, 0, variant=variant)
                        add(op, shape, axis, 0, variant=variant, kind="ints")
        # column-major operand (add only)
        for shape in [[2, 3], [3, L + 1], [L + 1, 2], [2, 3, L]]:
            for axis in [None] + list(range(len(shape))):
                add(0, shape, axis, 0, lay=1)
    return out


def gen_matmul(ctx, tier, D):
    out = []
    quick = tier == "quick"
    for dt in (4, 8):
        if not compiles(ctx, "matmul", 0, dt):
            continue
        L = lanes(ctx, dt)

        def add(ls, rs, cls, kind="general"):
            if kind == "general":
                a = D.general(prod(ls), dt)
                b = D.general(prod(rs), dt)
            else:
                a = D.ints(prod(ls), dt, 1, 5)
                b = D.ints(prod(rs), dt, 1, 5)
            line = "matmul %d %s %s %s %s" % (dt, fmt_shape(ls), fmt_shape(rs), fmt_data(a), fmt_data(b))
            out.append(Case("matmul", 0, "matmul", ctx, dt, line, dict(ls=ls, rs=rs, a=a, b=b, kind=kind, cls=cls)))

        mns = [(1, 1), (1, 3), (2, 2), (3, 1), (3, 5)] if quick else [(m, n) for m in (1, 2, 3, 5) for n in (1, 2, 3, 5)]
        for K in sizes_1d(L):
            for (M, N) in mns:
                add([M, K], [K, N], "2d_2d")
            add([2, K], [K, 3], "2d_2d", kind="ints")
        for K in few_sizes(L):
            add([2, 3, K], [K, 2], "batched_lhs")
    return out


def gen_int(ctx, tier, D):
    """int32 elements (dtype code 32): exact comparison; values small enough that nothing overflows"""
    out = []
    dt = 32
    L = lanes(ctx, dt)
    rng = D.rng

    def ints(n, lo=-99, hi=99):
        return [float(rng.randint(lo, hi) or 7) for _ in range(n)]

    def factors(n):
        v = [float(rng.choice((1, -1, 1, -1, 1))) for _ in range(n)]
        for _ in range(min(12, n)):
            v[rng.randrange(n)] *= rng.choice((2, 3))
        return v

    def fmt_i(v):
        return "%d %s" % (len(v), " ".join(str(int(x)) for x in v))

    def binary(op, ls, rs, cls):
        a, b = ints(prod(ls)), ints(prod(rs))
        line = "ibinary %d %s %s %s %s" % (op, fmt_shape(ls), fmt_shape(rs), fmt_i(a), fmt_i(b))
        out.append(Case("binary", op, "int32_" + BINARY[op], ctx, dt, line, dict(ls=ls, rs=rs, a=a, b=b, lay=0, cls=cls)))

    def outer(op, ls, rs, cls):
        a, b = ints(prod(ls)), ints(prod(rs))
        line = "iouter %d %s %s %s %s" % (op, fmt_shape(ls), fmt_shape(rs), fmt_i(a), fmt_i(b))
        out.append(Case("outer", op, "int32_" + OUTER[op], ctx, dt, line, dict(ls=ls, rs=rs, a=a, b=b, lay=0, cls=cls)))

    def reduce(op, shape, axis, kd):
        data = ints(prod(shape)) if op == 0 else factors(prod(shape))
        line = "ireduce %d %d %d %s %s" % (op, -99 if axis is None else axis, kd, fmt_shape(shape), fmt_i(data))
        out.append(Case("reduce", op, "int32_" + REDUCE[op], ctx, dt, line,
                        dict(shape=shape, a=data, axis=axis, keepdims=kd, variant=0, initial=0.0, lay=0, kind="ints",
                             cls=reduce_cls(shape, axis, 0))))

    for op in (0, 1, 2):
        for n in sizes_1d(L):
            binary(op, [n], [n], "same_1d")
        for shape in [[2, L + 1], [3, L], [2, 3, L - 1 or 1]]:
            binary(op, shape, shape, "same_nd")
        for n in few_sizes(L):
            for ls, rs in [([2, n], [2, 1]), ([3, 1], [1, n]), ([1, n], [3, n]), ([2, n], [1, n]), ([3, 1], [3, n])]:
                if prod(ls) > 1 and prod(rs) > 1:
                    binary(op, ls, rs, bcast_cls(ls, rs))
    for op in (0, 2):
        for n in sizes_1d(L):
            outer(op, [3], [n], "1d_1d")
        for n in few_sizes(L):
            outer(op, [2, 3], [2, n], "2d_2d")
    for op in REDUCE:
        for n in sizes_1d(L):
            for axis in (None, 0):
                reduce(op, [n], axis, 0)
        for n in some_sizes(L):
            for m in (2, 3):
                for axis in (None, 0, 1):
                    reduce(op, [m, n], axis, n % 2)
        for n in few_sizes(L):
            for axis in (0, 1, 2):
                reduce(op, [2, 3, n], axis, 0)
    return out


GEN = {"int": [gen_int], "unary": [gen_unary], "binary": [gen_binary, gen_outer], "reduce": [gen_reduce], "matmul": [gen_matmul]}
