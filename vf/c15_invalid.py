"""C15 part A, operation families beyond C03: generators of the small-scope argument space INCLUDING its invalid part
for the harness ops of the integrated value-level modules C04 (tile/repeat/roll/pad/take/compress/concatenate/stack/
split/diagonal/sliding_window/where/generators), C07 (broadcasting ufuncs), C08 (reductions/accumulations: axes) and
C16 (matmul/dot/inner/vecdot/tensordot/trace: operand shapes and axes).  No new C++: the existing harness ops read
arbitrary run-time integers, so the invalid arguments go through the same ops as the valid ones.

Every case is   dict(op=..., args="tok ...", reason=<label>, c15x=1, <meta consumed by the module's expected(m)>)

`reason` (fixed vocabulary, used in the violation keys  <op>:<reason>:{accepted_invalid|rejected_valid|crash:<kind>}):
    ok                      arguments NumPy accepts (valid share: 'rejected_valid' is checkable too)
    shapes_incompatible     operands (or batch axes of matmul/vecdot) that do not broadcast together
    axis_out_of_range       an axis outside [-dim, dim)  (stack: [-(dim+1), dim])
    axis_duplicate          the same axis twice where NumPy refuses it (reductions, diagonal/trace, tensordot)
    operand_shape_mismatch  concatenate/stack family: operands differ in dimension or in an extent off the joined axis
    contraction_mismatch    matmul/dot/inner/vecdot/tensordot: the contracted extents differ
    wrong_length            a list argument whose length does not fit (pad widths, roll shift/axis, repeats per element,
                            window per axis, spacing per axis, tensordot axes pair, resize target)
    negative_entry          a negative count/extent (tile reps, repeats, shape-valued arguments of full/zeros/ones/eye,
                            resize target, linspace num, pad widths that drive an extent below zero, window extent)
    count_out_of_range      tensordot integer n above an operand's dimension
    -- argument kinds the property text does NOT list (see NAMED_BY_PROPERTY / the per-(op, reason) decision in c15.py):
    index_out_of_range      take / take(axis=None) index outside [-n, n)
    condition_too_long      compress condition with a true entry beyond the axis
    window_too_large        sliding_window extent above the source extent
    not_divisible           split into a number of sections that does not divide the extent
    nonpositive_count       split into 0 or a negative number of sections
    zero_step               arange with step 0
    length_one_broadcast    NumPy-valid: a one-element repeats / shift / axis list broadcast against a longer one

Validity = the source module's expected(m) (NumPy / the documented models) raising or returning None, EXCEPT for the
explicit rules in `override(m)` below, each of which is documented there.  The label and the oracle are cross-checked by
c15.py: a case labelled ok/length_one_broadcast that the oracle rejects (or the converse) is a generator bug and makes the
run inconclusive instead of raising an alarm.

Cases are single-fault: an argument tuple with two independent faults is not generated, so a key names one cause.
Results with a zero extent are outside the property's scope (extents >= 1) and are not generated either (tile/repeat by 0,
zero windows, empty diagonals, ...), with the one exception the property itself names (reshape, handled in c15.py).
"""
import itertools

import numpy as np

from .util import all_shapes, fmt_vec

# reasons that make a case valid
OK_REASONS = ("ok", "length_one_broadcast")

# NumPy-valid arguments for which the library may legitimately be stricter: NumPy broadcasts a one-element repeats /
# shift / axis list against a longer one, the library documents lists of equal length ("assume rhs & lhs is the same
# length", index/roll.hpp).  Explicit rule: a value and Nothing are both acceptable there, a crash is not; for operations
# without any run-time check they count as a broken precondition (ignored).
LENIENT_REASONS = ("length_one_broadcast",)

# argument kinds the property statement names: "broadcasting incompatible shapes, ..., out-of-range or duplicate axes,
# mismatching operand shapes in concatenate/matmul/dot, invalid pad/roll/tile/repeat arguments".
# wrong_length / negative_entry are named only for the pad/roll/tile/repeat family (NAMED_FAMILY).
NAMED_ALWAYS = ("shapes_incompatible", "axis_out_of_range", "axis_duplicate", "operand_shape_mismatch", "contraction_mismatch")
NAMED_FAMILY = ("pad", "roll", "roll_l", "roll_sl", "roll_none", "tile", "repeat", "repeat_l", "repeat_none")


def named_by_property(op, reason):
    """is (op, reason) an argument kind the property text lists?"""
    if reason in OK_REASONS or reason in NAMED_ALWAYS:
        return True
    return op in NAMED_FAMILY and reason in ("wrong_length", "negative_entry")


def key_op(m):
    """operation name used in violation keys: the harness op, except for the C08 ops, which are entry point x
    configuration (element type, dtype, initial, keepdims kind): their cause is the entry point and the axis kind"""
    op = m["op"]
    if m.get("c15x") == "c08":
        from .c08_table import BY_NAME
        o = BY_NAME.get(op)
        if o is not None:
            return "%s_%s_a%s" % (op.split("_")[0], o["fam"], o.get("axis", "I"))
    return op


def _faults(*pairs):
    """pairs of (condition, reason) -> list of the reasons whose condition holds"""
    return [r for c, r in pairs if c]


def _single(fl):
    """(keep, reason): single-fault discipline"""
    if len(fl) == 0:
        return True, "ok"
    if len(fl) == 1:
        return True, fl[0]
    return False, None


def _some(rng, lst, k):
    lst = list(lst)
    return lst if len(lst) <= k else rng.sample(lst, k)


def _strat(rng, items, key, k):
    """at most k items per stratum key(item), deterministic order of strata"""
    groups = {}
    for it in items:
        groups.setdefault(key(it), []).append(it)
    out = []
    for g in sorted(groups, key=str):
        out += _some(rng, groups[g], k)
    return out


def _axes(d, extra=2):
    """[-dim-2, dim+1]"""
    return list(range(-d - extra, d + extra))


def _inr(ax, d):
    return -d <= ax < d


# =====================================================================================================================
# explicit validity rules (where NumPy is more lenient / stricter than the property, or no NumPy counterpart exists)
def override(m):
    """True / False where an explicit rule decides validity, None where the module's expected(m) decides."""
    op = m["op"]
    src = m.get("c15x")
    if src == "c07":
        # broadcasting ufuncs: validity is NumPy's broadcasting rule itself; C07.expected() returns None for functions
        # without an exactly-rounded NumPy counterpart (power, arctan2, ...), which says nothing about validity
        try:
            np.broadcast_shapes(*[tuple(s) for s in m["shapes"]])
            return True
        except ValueError:
            return False
    if src == "c08":
        # reductions: C08.expected() is None for the tolerance-compared wrappers; validity is NumPy's axis rule
        # (every entry in [-dim, dim), no axis twice), evaluated by NumPy itself on a dummy array of the same shape
        ax = m["axis"]
        z = np.zeros(m["shape"], dtype=np.int8)
        try:
            if m.get("c15kind") == "accumulate":
                np.add.accumulate(z, axis=ax)
            else:
                np.add.reduce(z, axis=None if ax is None else (ax if isinstance(ax, int) else tuple(ax)))
            return True
        except (ValueError, IndexError, TypeError):
            return False
    if op == "pad":
        # the library documents ONNX semantics: a negative width crops, where numpy.pad raises.  Cropping cases are not
        # generated (the two references disagree); a negative width that drives an extent below zero is invalid under
        # both references, and the C04 model (which only asserts the length) would index garbage for it.
        d = len(m["shape"])
        w = m["pad_width"]
        if len(w) == 2 * d and any(m["shape"][i] + w[i] + w[d + i] < 0 for i in range(d)):
            return False
    # Documented generator restrictions (no override needed, the cases are simply not generated):
    #  * expand: no NumPy counterpart; the C04 model asserts the axis range and the spacing length, but Python would wrap
    #    a negative spacing silently and the model lets a repeated axis overwrite -> neither is generated;
    #  * tensordot(a, b, n) with n < 0: numpy.tensordot treats it like 0 (empty range) -> not generated;
    #  * numpy.tri accepts negative N / M (empty result) -> not generated;
    #  * roll: NumPy accepts a repeated axis (the shifts add up) -> labelled ok;
    #  * compress: false entries beyond the axis are fine in NumPy, only a true one raises -> only that is generated;
    #  * take: numpy.take raises for an index outside [-n, n) (mode='raise'), which C04.expected() reproduces.
    return None


# =====================================================================================================================
# C04
def gen_c04_invalid(rng, tier):
    quick = tier == "quick"
    cases = []

    def add(op, args, reason, **m):
        m.update(op=op, args=args, reason=reason, c15x="c04")
        cases.append(m)

    shapes = [s for s in all_shapes(3, 3, mindim=1)]
    if not quick:
        shapes += [s for s in all_shapes(4, 3, mindim=4)] + [s for s in all_shapes(2, 4, mindim=1) if max(s) == 4]
    W = 1 if quick else 6          # sampling width multiplier
    FILL = -7

    for s in shapes:
        d = len(s)
        fs = fmt_vec(s)
        N = int(np.prod(s))
        axs = _axes(d)
        # ---- tile: reps of length 1..d+1 with entries -2..4 (0 gives a zero extent: out of scope)
        cands = []
        for L in range(1, min(d + 1, 4) + 1):
            for reps in itertools.product((-2, -1, 1, 2, 3, 4), repeat=L):
                nneg = sum(1 for r in reps if r < 0)
                if nneg <= 1 and int(np.prod([abs(r) for r in reps])) * N <= 600:
                    cands.append(reps)
        for reps in _strat(rng, cands, lambda r: (len(r), any(x < 0 for x in r)), 1 * W):
            add("tile", "%s %s" % (fs, fmt_vec(reps)), "negative_entry" if any(r < 0 for r in reps) else "ok", shape=s, reps=list(reps))
        # ---- repeat(a, r, axis) / repeat(a, r, None)
        cands = []
        for r in (-2, -1, 1, 2, 3):
            for ax in axs:
                keep, why = _single(_faults((not _inr(ax, d), "axis_out_of_range"), (r < 0, "negative_entry")))
                if keep:
                    cands.append((r, ax, why))
        for r, ax, why in _strat(rng, cands, lambda c: (c[2], c[1] < 0), 2 * W):
            add("repeat", "%s %d %d" % (fs, r, ax), why, shape=s, repeats=r, axis=ax)
        for r in (-1, 2):
            add("repeat_none", "%s %d" % (fs, r), "negative_entry" if r < 0 else "ok", shape=s, repeats=r)
        # ---- repeat(a, [r...], axis): one count per element along the axis
        cands = []
        for ax in axs:
            n = s[ax] if _inr(ax, d) else s[0]
            for L in sorted({1, n - 1, n, n + 1} - {0}):
                for _ in range(2):
                    rr = [rng.randint(1, 3) for _ in range(L)]
                    neg = rng.random() < 0.3
                    if neg:
                        rr[rng.randrange(L)] = -rng.randint(1, 2)
                    lenfault = (L != n and L != 1)
                    keep, why = _single(_faults((not _inr(ax, d), "axis_out_of_range"), (lenfault, "wrong_length"), (neg, "negative_entry")))
                    if keep and why == "ok" and L == 1 and n > 1:
                        why = "length_one_broadcast"
                    if keep:
                        cands.append((rr, ax, why))
        for rr, ax, why in _strat(rng, cands, lambda c: c[2], 2 * W):
            add("repeat_l", "%s %s %d" % (fs, fmt_vec(rr), ax), why, shape=s, repeats=rr, axis=ax)
        # ---- roll
        for ax in _some(rng, axs, 4 * W):
            sh = rng.randint(-4, 4)
            add("roll", "%s %d %d" % (fs, sh, ax), "ok" if _inr(ax, d) else "axis_out_of_range", shape=s, shift=sh, axis=ax)
        cands = []
        for Ls in (1, 2, 3):
            for La in (1, 2, 3):
                for _ in range(3):
                    oor = rng.random() < 0.35
                    al = [rng.randrange(-d, d) for _ in range(La)]       # a repeated axis is valid in NumPy (shifts add up)
                    if oor:
                        al[rng.randrange(La)] = rng.choice([a for a in axs if not _inr(a, d)])
                    sl = [rng.randint(-4, 4) for _ in range(Ls)]
                    lenfault = Ls != La and Ls != 1 and La != 1
                    keep, why = _single(_faults((oor, "axis_out_of_range"), (lenfault, "wrong_length")))
                    if keep and why == "ok" and Ls != La:
                        why = "length_one_broadcast"
                    if keep:
                        cands.append((sl, al, why))
        for sl, al, why in _strat(rng, cands, lambda c: c[2], 2 * W):
            add("roll_l", "%s %s %s" % (fs, fmt_vec(sl), fmt_vec(al)), why, shape=s, shift=sl, axis=al)
        for _ in range(3 * W):
            La = rng.randint(1, 3)
            al = [rng.randrange(-d, d) for _ in range(La)]
            oor = rng.random() < 0.6
            if oor:
                al[rng.randrange(La)] = rng.choice([a for a in axs if not _inr(a, d)])
            sh = rng.randint(-4, 4)
            add("roll_sl", "%s %d %s" % (fs, sh, fmt_vec(al)), "axis_out_of_range" if oor else "ok", shape=s, shift=sh, axis=al)
        # ---- pad: ONNX order b0..,e0..; lengths 2d-1, 2d, 2d+1, d; negative widths that drive an extent below zero
        cands = []
        for L in sorted({d, 2 * d - 1, 2 * d, 2 * d + 1}):
            for _ in range(3):
                w = [rng.randint(0, 2) for _ in range(L)]
                cands.append((w, "ok" if L == 2 * d else "wrong_length"))
        for _ in range(3):
            w = [rng.randint(0, 1) for _ in range(2 * d)]
            k = rng.randrange(d)
            w[k + (d if rng.random() < 0.5 else 0)] = -(s[k] + w[k] + w[k + d] + rng.randint(1, 2))
            if s[k] + w[k] + w[k + d] < 0:
                cands.append((w, "negative_entry"))
        for w, why in _strat(rng, cands, lambda c: (c[1], len(c[0])), 1 * W):
            add("pad", "%s %s %d" % (fs, fmt_vec(w), FILL), why, shape=s, pad_width=w, fill=FILL)
        # ---- take / take(axis=None): axis out of range, an index outside [-n, n)
        cands = []
        for ax in axs:
            n = s[ax] if _inr(ax, d) else s[0]
            for _ in range(2):
                idx = [rng.randint(-n, n - 1) for _ in range(rng.randint(1, 3))]
                bad = rng.random() < 0.4
                if bad:
                    idx[rng.randrange(len(idx))] = rng.choice([-n - 2, -n - 1, n, n + 1])
                keep, why = _single(_faults((not _inr(ax, d), "axis_out_of_range"), (bad, "index_out_of_range")))
                if keep:
                    cands.append((idx, ax, why))
        for idx, ax, why in _strat(rng, cands, lambda c: c[2], 2 * W):
            add("take", "%s %s %d" % (fs, fmt_vec(idx), ax), why, shape=s, indices=idx, axis=ax)
        for bad in (False, True):
            idx = [rng.randint(-N, N - 1) for _ in range(rng.randint(1, 3))]
            if bad:
                idx[rng.randrange(len(idx))] = rng.choice([-N - 2, -N - 1, N, N + 1])
            add("take_none", "%s %s" % (fs, fmt_vec(idx)), "index_out_of_range" if bad else "ok", shape=s, indices=idx)
        # ---- compress: axis out of range, a true entry beyond the axis (false entries beyond it are fine in NumPy: not generated)
        cands = []
        for ax in axs:
            n = s[ax] if _inr(ax, d) else s[0]
            c = [rng.randint(0, 1) for _ in range(rng.randint(1, n))]
            if not any(c):
                c[0] = 1
            cands.append((c, ax, "ok" if _inr(ax, d) else "axis_out_of_range"))
            if _inr(ax, d):
                c2 = [rng.randint(0, 1) for _ in range(n)] + [0] * rng.randint(0, 1) + [1]
                if not any(c2[:n]):
                    c2[0] = 1
                cands.append((c2, ax, "condition_too_long"))
        for c, ax, why in _strat(rng, cands, lambda c: c[2], 2 * W):
            add("compress", "%s %s %d" % (fs, fmt_vec(c), ax), why, shape=s, condition=c, axis=ax)
        c = [1] + [rng.randint(0, 1) for _ in range(N - 1)]
        add("compress_none", "%s %s" % (fs, fmt_vec(c)), "ok", shape=s, condition=c)
        add("compress_none", "%s %s" % (fs, fmt_vec(c + [1])), "condition_too_long", shape=s, condition=c + [1])
        # ---- resize (library-specific; the C04 model asserts length and positivity)
        cands = []
        for L in sorted({d - 1, d, d + 1} - {0}):
            for _ in range(2):
                ds = [rng.randint(1, 4) for _ in range(L)]
                neg = L == d and rng.random() < 0.4
                if neg:
                    ds[rng.randrange(L)] = -rng.randint(1, 2)
                keep, why = _single(_faults((L != d, "wrong_length"), (neg, "negative_entry")))
                if keep:
                    cands.append((ds, why))
        for ds, why in _strat(rng, cands, lambda c: c[1], 1 * W):
            add("resize", "%s %s" % (fs, fmt_vec(ds)), why, shape=s, dst_shape=ds)
        # ---- expand (library-specific): axis out of range; spacing list of the wrong length
        for ax in _some(rng, axs, 3 * W):
            sp = rng.randint(0, 2)
            add("expand", "%s %d %d %d" % (fs, ax, sp, -9), "ok" if _inr(ax, d) else "axis_out_of_range", shape=s, axis=ax, spacing=sp, fill=-9)
        for _ in range(2 * W):
            L = rng.randint(1, d)
            al = rng.sample(range(d), L)
            al = [a - d if rng.random() < 0.4 else a for a in al]
            oor = rng.random() < 0.5
            if oor:
                al[rng.randrange(L)] = rng.choice([a for a in axs if not _inr(a, d)])
            add("expand_l", "%s %s %d %d" % (fs, fmt_vec(al), 1, -9), "axis_out_of_range" if oor else "ok", shape=s, axis=al, spacing=1, fill=-9)
            al = rng.sample(range(d), L)
            Lp = rng.choice([L, L, L + 1, L + 2] + ([L - 1] if L > 1 else []))
            sps = [rng.randint(0, 2) for _ in range(Lp)]
            add("expand_ll", "%s %s %s %d" % (fs, fmt_vec(al), fmt_vec(sps), -9), "ok" if Lp == L else "wrong_length", shape=s, axis=al, spacing=sps, fill=-9)
        # ---- sliding_window: window above the extent, negative window, axis out of range, lists of the wrong length
        if d == 1:
            for w in (-1, 1, s[0], s[0] + 1, s[0] + 2):
                why = "negative_entry" if w < 0 else ("window_too_large" if w > s[0] else "ok")
                add("sliding_window", "%s %d" % (fs, w), why, shape=s, window=w, axis=None)
        cands = []
        for ax in axs:
            n = s[ax] if _inr(ax, d) else s[0]
            for w in (-1, 1, n, n + 1):
                keep, why = _single(_faults((not _inr(ax, d), "axis_out_of_range"), (w < 0, "negative_entry"), (w > n, "window_too_large")))
                if keep:
                    cands.append((w, ax, why))
        for w, ax, why in _strat(rng, cands, lambda c: c[2], 1 * W):
            add("sliding_window_ax", "%s %d %d" % (fs, w, ax), why, shape=s, window=w, axis=ax)
        cands = []
        for L in sorted({d - 1, d, d + 1} - {0}):
            for _ in range(2):
                ws = [rng.randint(1, s[k] if k < d else 2) for k in range(L)]
                big = L == d and rng.random() < 0.4
                if big:
                    k = rng.randrange(d)
                    ws[k] = s[k] + rng.randint(1, 2)
                keep, why = _single(_faults((L != d, "wrong_length"), (big, "window_too_large")))
                if keep:
                    cands.append((ws, why))
        for ws, why in _strat(rng, cands, lambda c: c[1], 1 * W):
            add("sliding_window_l", "%s %s" % (fs, fmt_vec(ws)), why, shape=s, window=ws, axis=None)
        cands = []
        for _ in range(6):
            L = rng.randint(1, min(2, d))
            al = rng.sample(range(d), L)
            ws = [rng.randint(1, s[a]) for a in al]
            al = [a - d if rng.random() < 0.3 else a for a in al]
            r = rng.random()
            if r < 0.3:
                al[rng.randrange(L)] = rng.choice([a for a in axs if not _inr(a, d)])
                why = "axis_out_of_range"
            elif r < 0.55:
                ws = ws + [1] if rng.random() < 0.5 or L == 1 else ws[:-1]
                why = "wrong_length"
            else:
                why = "ok"
            cands.append((ws, al, why))
        for ws, al, why in _strat(rng, cands, lambda c: c[2], 1 * W):
            add("sliding_window_ll", "%s %s %s" % (fs, fmt_vec(ws), fmt_vec(al)), why, shape=s, window=ws, axis=al)
        # ---- concatenate(a, b, axis): axis out of range; extent mismatch off the axis; different dimension
        cands = []
        for ax in axs:
            k = ax % d if _inr(ax, d) else 0
            s2 = list(s)
            s2[k] = rng.randint(1, 3)
            cands.append((s2, ax, "ok" if _inr(ax, d) else "axis_out_of_range"))
            if _inr(ax, d) and d >= 2:
                s3 = list(s2)
                j = rng.choice([x for x in range(d) if x != k])
                s3[j] = s[j] % 3 + 1
                cands.append((s3, ax, "operand_shape_mismatch"))
            if _inr(ax, d):
                s4 = (list(s2) + [1]) if (d == 1 or rng.random() < 0.5) else list(s2)[:-1]
                cands.append((s4, ax, "operand_shape_mismatch"))
        for s2, ax, why in _strat(rng, cands, lambda c: (c[2], len(c[0]) - d), 2 * W):
            add("concatenate", "%s %s %d" % (fs, fmt_vec(s2), ax), why, shape=s, shape2=s2, axis=ax)
        # ---- stack(a, b, axis): identical shapes, axis in [-(d+1), d]
        cands = []
        for ax in range(-d - 3, d + 3):
            okax = -(d + 1) <= ax <= d
            cands.append((list(s), ax, "ok" if okax else "axis_out_of_range"))
            if okax:
                s2 = list(s)
                j = rng.randrange(d)
                s2[j] = s[j] % 3 + 1
                cands.append((s2, ax, "operand_shape_mismatch"))
                cands.append((list(s) + [1], ax, "operand_shape_mismatch"))
        for s2, ax, why in _strat(rng, cands, lambda c: (c[2], len(c[0]) - d), 2 * W):
            add("stack", "%s %s %d" % (fs, fmt_vec(s2), ax), why, shape=s, shape2=s2, axis=ax)
        # ---- hstack / vstack / dstack / column_stack: every operand shape of the same dimension that differs in one extent
        for op in ("hstack", "vstack", "dstack", "column_stack"):
            cands = []
            for j in range(d):
                s2 = list(s)
                s2[j] = s[j] % 3 + 1
                cands.append(s2)
            cands.append(list(s))
            for s2 in _some(rng, cands, 2 * W):
                try:
                    # 1-d operands of different length are fine for hstack, not for the others: NumPy decides
                    getattr(np, op)((np.zeros(s, dtype=np.int8), np.zeros(s2, dtype=np.int8)))
                    why = "ok"
                except ValueError:
                    why = "operand_shape_mismatch"
                add(op, "%s %s" % (fs, fmt_vec(s2)), why, shape=s, shape2=s2)
        # ---- split: sections that do not divide the extent, 0 / negative sections, axis out of range
        cands = []
        for ax in axs:
            n = s[ax] if _inr(ax, d) else s[0]
            for sec in (-1, 0, 1, 2, 3, 4):
                keep, why = _single(_faults((not _inr(ax, d), "axis_out_of_range"), (sec <= 0, "nonpositive_count"), (sec > 0 and n % sec != 0, "not_divisible")))
                if keep:
                    cands.append((sec, ax, why))
        for sec, ax, why in _strat(rng, cands, lambda c: c[2], 2 * W):
            add("split_i", "%s %d %d %d" % (fs, sec, ax, 0), why, shape=s, sections=sec, axis=ax, part=0)
        for ax in _some(rng, axs, 3 * W):
            n = s[ax] if _inr(ax, d) else s[0]
            idx = sorted(rng.randint(0, n) for _ in range(rng.randint(1, 2)))
            idx = [i for i in idx if 0 < i < n] or None
            if idx is None:
                continue
            idx = sorted(set(idx))
            add("split_l", "%s %s %d %d" % (fs, fmt_vec(idx), ax, 0), "ok" if _inr(ax, d) else "axis_out_of_range", shape=s, indices=idx, axis=ax, part=0)
        # ---- diagonal(a, offset, axis1, axis2): out-of-range / identical axes (non-empty diagonals only)
        if d >= 2:
            cands = []
            for a1 in axs:
                for a2 in axs:
                    fl = _faults((not _inr(a1, d) or not _inr(a2, d), "axis_out_of_range"),
                                 (_inr(a1, d) and _inr(a2, d) and (a1 - a2) % d == 0, "axis_duplicate"))
                    if (not _inr(a1, d)) and (not _inr(a2, d)):
                        continue
                    keep, why = _single(fl)
                    if keep:
                        cands.append((a1, a2, why))
            for a1, a2, why in _strat(rng, cands, lambda c: (c[2], c[0] < 0, c[1] < 0), 1 * W):
                add("diagonal", "%s %d %d %d" % (fs, 0, a1, a2), why, shape=s, offset=0, axis1=a1, axis2=a2)
        # ---- where(c, x, y): three operands that do not broadcast together
        cands = []
        for _ in range(6):
            t = []
            for _ in range(3):
                dd = rng.randint(1, d)
                t.append([e if rng.random() < 0.6 else 1 for e in s[d - dd:]])
            if rng.random() < 0.6:
                k = rng.randrange(3)
                j = rng.randrange(len(t[k]))
                others = [x[len(x) - (len(t[k]) - j)] for i, x in enumerate(t) if i != k and len(x) >= len(t[k]) - j]
                base = max([t[k][j]] + others)
                if base != 1:
                    t[k][j] = base % 3 + 1 if base % 3 + 1 != 1 else 2
            try:
                np.broadcast_shapes(*[tuple(x) for x in t])
                why = "ok"
            except ValueError:
                why = "shapes_incompatible"
            cands.append((t, why))
        for t, why in _strat(rng, cands, lambda c: c[1], 2 * W):
            sc, sx, sy = t
            cond = [rng.choice((0, 1)) for _ in range(int(np.prod(sc)))]
            add("where", "%s %s %s %s" % (fmt_vec(sc), fmt_vec(cond), fmt_vec(sx), fmt_vec(sy)), why, shape=sc, condition=cond, shape2=sx, shape3=sy)

    # ---- shape-valued arguments of the generators: entries -2..4 (0: zero extent, out of scope)
    ent = (-2, -1, 1, 2, 3, 4)
    for L in (1, 2, 3):
        allv = [v for v in itertools.product(ent, repeat=L) if sum(1 for x in v if x < 0) <= 1]
        for v in (allv if L <= 2 else _strat(rng, allv, lambda v: tuple(x < 0 for x in v), 8 * W)):
            why = "negative_entry" if any(x < 0 for x in v) else "ok"
            fv = fmt_vec(v)
            add("full", "%s %d" % (fv, 42), why, shape=list(v), fill=42)
            add("zeros", fv, why, shape=list(v))
            add("ones", fv, why, shape=list(v))
    for n in (-2, -1, 1, 2, 3):
        add("identity", "%d" % n, "negative_entry" if n < 0 else "ok", N=n)
        for k in (-1, 0, 1):
            add("eye_n", "%d %d" % (n, k), "negative_entry" if n < 0 else "ok", N=n, k=k)
            if n > 0:
                # numpy.tri accepts a negative N / M (empty result: zero extent, out of scope) - not generated
                add("tri_n", "%d %d" % (n, k), "ok", N=n, k=k)
            for mm in (-2, -1, 1, 2, 3):
                if n < 0 and mm < 0:
                    continue
                why = "negative_entry" if (n < 0 or mm < 0) else "ok"
                add("eye", "%d %d %d" % (n, mm, k), why, N=n, M=mm, k=k)
                if why == "ok":
                    add("tri", "%d %d %d" % (n, mm, k), why, N=n, M=mm, k=k)
    for start in (-2, 0, 3):
        for stop in (-3, 1, 4):
            add("arange3", "%d %d %d" % (start, stop, 0), "zero_step", start=start, stop=stop, step=0)
            for step in (1, -1, 2):
                if (stop - start) * step > 0:
                    add("arange3", "%d %d %d" % (start, stop, step), "ok", start=start, stop=stop, step=step)
    for num in (-2, -1, 2, 3):
        for ep in (0, 1):
            add("linspace_i", "%d %d %d %d" % (-1, 3, num, ep), "negative_entry" if num < 0 else "ok", start=-1, stop=3, num=num, endpoint=ep)
    return cases


# =====================================================================================================================
# C07: operand shapes that do not broadcast together
def gen_c07_invalid(rng, tier):
    from .checks import c07 as C07
    from .c07_table import OPS, opname
    quick = tier == "quick"
    cases = []
    shapes = [tuple(s) for s in all_shapes(3, 3, mindim=1)]
    if not quick:
        shapes += [tuple(s) for s in all_shapes(4, 3, mindim=4)]

    def compatible(t):
        try:
            np.broadcast_shapes(*t)
            return True
        except ValueError:
            return False

    def pclass(t):
        """stratum of an operand shape tuple: dimensions + whether it broadcasts"""
        return (tuple(len(x) for x in t), compatible(t))

    small = [tuple(s) for s in all_shapes(3, 3, mindim=1)]
    all_pairs = [(a, b) for a in small for b in small]
    bad_pairs = [p for p in all_pairs if not compatible(p)]
    ok_pairs = [p for p in all_pairs if compatible(p)]

    def build(o, types, form, shp):
        opds = [C07.make_opd(rng, form[i], types[i], o["dom"][i], shp[i]) for i in range(len(shp))]
        name = opname(o, types)
        ok = compatible([tuple(x.labels().shape) for x in opds])
        if ok:
            labs = np.broadcast_arrays(*[x.labels() for x in opds])
            inter = np.stack([l.reshape(-1) for l in labs], axis=1).reshape(-1)
        else:
            inter = []         # no designated scalars: the harness prints an empty X section
        args = "%s %s %s" % (form, " ".join(x.tokens() for x in opds), fmt_vec(inter))
        cases.append(dict(op=name, args=args, form=form, opds=[x.meta() for x in opds], params=None,
                          shapes=[list(x.labels().shape) for x in opds], reason="ok" if ok else "shapes_incompatible", c15x="c07"))

    for o in OPS:
        if o["outer"] or o["ar"] < 2 or o["params"]:
            continue           # outer_* has no invalid operand shapes; unary functions have a single operand
        for types, mask in o["variants"]:
            name = opname(o, types)
            for form in C07.forms_of(mask, o["ar"]):
                if "S" in form:
                    continue   # a scalar broadcasts with everything
                if o["ar"] == 2:
                    if name == "uf_add_i4i4" and form == "AA":
                        # deterministic exhaustive part: every incompatible pair of dim 1..3 / extents 1..3
                        prs = bad_pairs + _strat(rng, ok_pairs, pclass, 3)
                        if not quick:
                            big = [(a, b) for a in shapes for b in shapes if (len(a) == 4 or len(b) == 4)]
                            prs = prs + rng.sample(big, 4000)
                    else:
                        k = (1 if quick else 12)
                        prs = _strat(rng, bad_pairs, pclass, k) + _some(rng, ok_pairs, 2 if quick else 20)
                    for p in prs:
                        build(o, types, form, p)
                else:
                    trs = []
                    want = 30 if quick else 400
                    while len(trs) < want:
                        t = tuple(rng.choice(small) for _ in range(3))
                        if compatible(t) and rng.random() < 0.8:
                            continue
                        trs.append(t)
                    for t in trs:
                        build(o, types, form, t)
    return cases


# =====================================================================================================================
# C08: reductions / accumulations with out-of-range or duplicate axes
def gen_c08_invalid(rng, tier):
    from .checks import c08 as C08
    from .checks.c07 import fmt_val, fmt_data
    from .c08_table import OPS
    quick = tier == "quick"
    cases = []
    shapes = [tuple(s) for s in all_shapes(3, 3, mindim=1)]
    if not quick:
        shapes += [tuple(s) for s in all_shapes(4, 3, mindim=4)]

    combo_cache = {}
    cand_cache = {}

    def axis_cands(kind, d, multi):
        if (kind, d, multi) not in cand_cache:
            cand_cache[(kind, d, multi)] = axis_cands_(kind, d, multi)
        return cand_cache[(kind, d, multi)]

    def axis_cands_(kind, d, multi):
        """[(axis argument, reason)] over [-d-2, d+1] (lists of length 1..3 incl. duplicates)"""
        axs = _axes(d)
        out = []
        if kind == "I":
            for a in axs:
                out.append((a, "ok" if _inr(a, d) else "axis_out_of_range"))
            return out
        for L in ((1, 2, 3) if multi else (1,)):
            for v in itertools.product(axs, repeat=L):
                noor = sum(1 for a in v if not _inr(a, d))
                nrm = [a % d for a in v if _inr(a, d)]
                dup = len(set(nrm)) != len(nrm)
                keep, why = _single(_faults((noor > 0, "axis_out_of_range"), (dup, "axis_duplicate")))
                if keep and noor <= 1:
                    out.append((list(v), why))
        return out

    for o in OPS:
        kind = o["kind"]
        T = o["T"]
        if kind in ("reduce", "reduce2", "var", "norm"):
            if o["axis"] in ("N", "C", "S"):
                continue           # axis=None: no axis argument to get wrong; C / S: compile-time axis / bounded axes on a fixed-dim
                                   # source (C08's container-kind group): an invalid compile-time axis is a compile-time matter
            exhaustive = o["name"] in ("red_add_i4_aI_dN_iN_kF", "red_add_i4_aL_dN_iN_kF", "red_add_i4_aL_dN_iN_kR")
            ckey = (o["axis"], o["keep"], o.get("multi_axis", True))
            if ckey not in combo_cache:
                combos = []
                for s in shapes:
                    for ax, why in axis_cands(o["axis"], len(s), o.get("multi_axis", True)):
                        kds = (True, False) if o["keep"] == "R" else ((True,) if o["keep"] == "T" else (False,))
                        for kd in kds:
                            combos.append((s, ax, kd, why))
                combo_cache[ckey] = combos
            combos = combo_cache[ckey]
            if exhaustive and quick:
                combos = [c for c in combos if len(c[0]) <= 2 or max(c[0]) <= 2]
                combos = _strat(rng, combos, lambda c: (c[0], c[3], c[2], len(c[1]) if isinstance(c[1], list) else 0), 2)
            elif not exhaustive:
                combos = _strat(rng, combos, lambda c: (c[3], c[2], len(c[0])), 1 if quick else 8)
            else:
                combos = _strat(rng, combos, lambda c: (c[0], c[3], c[2], len(c[1]) if isinstance(c[1], list) else 0), 6)
            for s, ax, kd, why in combos:
                n = int(np.prod(s))
                data = C08.gen_data(rng, o, n)
                d = len(s)
                if why == "ok":
                    groups = C08.reduce_groups(s, C08.norm_axes(ax, d))
                    gtxt = C08.fmt_groups(groups)
                    gsize = groups.shape[1]
                else:
                    gtxt = "0"     # no designated groups: the harness prints an empty X section
                    gsize = 2
                m = dict(op=o["name"], reason=why, c15x="c08", c15kind="reduce", shape=list(s), data=[fmt_val(v, T) for v in data.reshape(-1)], axis=ax, keepdims=bool(kd))
                if kind in ("var", "norm"):
                    extra = (0 if kind == "var" else 2) if gsize > 0 else 0
                    args = "%s %s %s %d %d %s" % (fmt_vec(s), fmt_data(data, T), C08.fmt_axis(o["axis"], ax), 1 if kd else 0, extra, gtxt)
                    m["extra"] = extra
                else:
                    init = C08.gen_initial(rng, o, data) if o["init"] == "Y" else 0
                    args = "%s %s %s %d %s %s" % (fmt_vec(s), fmt_data(data, T), C08.fmt_axis(o["axis"], ax), 1 if kd else 0, fmt_val(init, T), gtxt)
                    m["initial"] = init if o["init"] == "Y" else None
                m["args"] = " ".join(args.split())
                cases.append(m)
        elif kind == "accumulate":
            combos = [(s, ax) for s in shapes for ax in _axes(len(s))]
            exhaustive = o["name"] == "acc_add_i4_dN"
            if not exhaustive:
                combos = _strat(rng, combos, lambda c: (_inr(c[1], len(c[0])), c[1] < 0, len(c[0])), 1 if quick else 10)
            for s, ax in combos:
                d = len(s)
                ok = _inr(ax, d)
                data = C08.gen_data(rng, o, int(np.prod(s)))
                gtxt = C08.fmt_groups(C08.accumulate_groups(s, ax % d)) if ok else "0"
                args = "%s %s %d %s" % (fmt_vec(s), fmt_data(data, T), ax, gtxt)
                cases.append(dict(op=o["name"], args=args, reason="ok" if ok else "axis_out_of_range", c15x="c08", c15kind="accumulate", shape=list(s),
                                  data=[fmt_val(v, T) for v in data.reshape(-1)], axis=ax))
    return cases


# =====================================================================================================================
# C16: mismatching contraction lengths / batch dims / axes
def gen_c16_invalid(rng, tier):
    from .checks import c16 as C16
    quick = tier == "quick"
    cases = []
    small = [s for s in all_shapes(3, 3, mindim=1)]
    if not quick:
        small = small + [s for s in all_shapes(4, 3, mindim=4)]
    pairs = [(a, b) for a in small for b in small]

    def add2(op, sa, sb, reason, extra_args="", **m):
        da, db = C16.mkdata(rng, C16.size(sa), "i"), C16.mkdata(rng, C16.size(sb), "i")
        args = "i %s %s" % (C16.fmt_operand(sa, da), C16.fmt_operand(sb, db))
        if extra_args:
            args += " " + extra_args
        m.update(op=op, args=args, reason=reason, c15x="c16", dtype="i", sa=list(sa), sb=list(sb), da=da, db=db)
        cases.append(m)

    def bc(x, y):
        try:
            np.broadcast_shapes(tuple(x), tuple(y))
            return True
        except ValueError:
            return False

    def dims(p):
        return (len(p[0]), len(p[1]))

    K = 6 if quick else 40
    # ---- matmul (both implementations): contraction = a[-1] vs b[-2] (b[0] for 1-d); batch = the leading axes
    def mm_class(a, b):
        ka = a[-1]
        kb = b[0] if len(b) == 1 else b[-2]
        ba = a[:-2] if len(a) >= 2 else []
        bb = b[:-2] if len(b) >= 2 else []
        return _single(_faults((ka != kb, "contraction_mismatch"), (not bc(ba, bb), "shapes_incompatible")))
    mm = []
    for a, b in pairs:
        keep, why = mm_class(a, b)
        if keep:
            mm.append((a, b, why))
    for op in ("la_matmul", "la_matmulv2"):
        for a, b, why in _strat(rng, mm, lambda c: (dims(c), c[2]), K):
            if op == "la_matmul" and why == "ok" and (len(a) == 1 or len(b) == 1):
                # listed C16/C02 finding (view::matmul with a 1-d operand faults while elements are read): valid
                # arguments, so not C15's business; the invalid 1-d cases stay in
                continue
            add2(op, a, b, why)
    # ---- dot: a[-1] vs b[-2] (b[0] for 1-d); no batch broadcasting
    dd = [(a, b, "ok" if a[-1] == (b[0] if len(b) == 1 else b[-2]) else "contraction_mismatch") for a, b in pairs]
    for a, b, why in _strat(rng, dd, lambda c: (dims(c), c[2]), K):
        add2("la_dot", a, b, why)
    ii = [(a, b, "ok" if a[-1] == b[-1] else "contraction_mismatch") for a, b in pairs]
    for a, b, why in _strat(rng, ii, lambda c: (dims(c), c[2]), K):
        add2("la_inner", a, b, why)
    # ---- vecdot: last axes contract, the rest broadcasts
    vv = []
    for a, b in pairs:
        keep, why = _single(_faults((a[-1] != b[-1], "contraction_mismatch"), (not bc(a[:-1], b[:-1]), "shapes_incompatible")))
        if keep:
            vv.append((a, b, why))
    for a, b, why in _strat(rng, vv, lambda c: (dims(c), c[2]), K):
        kd = rng.randint(0, 1)
        add2("la_vecdot", a, b, why, "%d" % kd, keepdims=kd)
    # ---- tensordot(a, b, n): n in 0..4; n above a dimension; mismatching extents
    tn = []
    for a, b in pairs:
        for n in range(0, 5):
            over = n > len(a) or n > len(b)
            mism = (not over) and any(a[len(a) - n + k] != b[k] for k in range(n))
            keep, why = _single(_faults((over, "count_out_of_range"), (mism, "contraction_mismatch")))
            if keep:
                tn.append((a, b, n, why))
    for a, b, n, why in _strat(rng, tn, lambda c: (dims(c), c[2], c[3]), 1 if quick else 10):
        add2("la_tensordot_n", a, b, why, "%d" % n, n=n)
    # ---- tensordot(a, b, (lhs axes, rhs axes)): lengths differ, out-of-range / repeated axes, mismatching extents
    for dim_a in range(1, 4):
        for dim_b in range(1, 4):
            for _ in range(30 if quick else 400):
                sa = [rng.randint(1, 3) for _ in range(dim_a)]
                sb = [rng.randint(1, 3) for _ in range(dim_b)]
                k = rng.randint(1, min(dim_a, dim_b))
                la = rng.sample(range(dim_a), k)
                ra = rng.sample(range(dim_b), k)
                for x, y in zip(la, ra):
                    sb[y] = sa[x]
                la = [x - dim_a if rng.random() < 0.3 else x for x in la]
                ra = [y - dim_b if rng.random() < 0.3 else y for y in ra]
                r = rng.random()
                why = "ok"
                if r < 0.2:
                    side, dm = (la, dim_a) if rng.random() < 0.5 else (ra, dim_b)
                    side[rng.randrange(k)] = rng.choice([-dm - 2, -dm - 1, dm, dm + 1])
                    why = "axis_out_of_range"
                elif r < 0.4 and k >= 2:
                    side = la if rng.random() < 0.5 else ra
                    side[1] = side[0]
                    why = "axis_duplicate"
                elif r < 0.6:
                    if rng.random() < 0.5 and k >= 2:
                        (la if rng.random() < 0.5 else ra).pop()
                    else:
                        free = [x for x in range(dim_a) if x not in [v % dim_a for v in la]]
                        if not free:
                            continue
                        la.append(free[0])
                    why = "wrong_length"
                elif r < 0.8:
                    j = rng.randrange(k)
                    y = ra[j] % dim_b
                    sb[y] = sb[y] % 3 + 1
                    why = "contraction_mismatch"
                add2("la_tensordot_axes", sa, sb, why, "%s %s" % (fmt_vec(la), fmt_vec(ra)), la=list(la), ra=list(ra))
    # ---- trace(a, 0, axis1, axis2): out-of-range / identical axes (non-empty diagonals: the empty one is a listed C16 finding)
    for s in [s for s in small if len(s) >= 2]:
        d = len(s)
        axs = _axes(d)
        cands = []
        for a1 in axs:
            for a2 in axs:
                if (not _inr(a1, d)) and (not _inr(a2, d)):
                    continue
                keep, why = _single(_faults((not _inr(a1, d) or not _inr(a2, d), "axis_out_of_range"),
                                            (_inr(a1, d) and _inr(a2, d) and (a1 - a2) % d == 0, "axis_duplicate")))
                if keep:
                    cands.append((a1, a2, why))
        for a1, a2, why in _strat(rng, cands, lambda c: c[2], 2 if quick else 8):
            data = C16.mkdata(rng, C16.size(s), "i")
            cases.append(dict(op="la_trace", args="i %s %d %d %d" % (C16.fmt_operand(s, data), 0, a1, a2), reason=why, c15x="c16", dtype="i",
                              sa=list(s), da=data, offset=0, axis1=a1, axis2=a2))
    return cases
