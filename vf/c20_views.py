def targets(flavor="asan"):
    return []
def run_views(ctx):
    pass
