"""Second wave of operations of the type-level generator (C09 / C11): index functions and views of C03-C08 / C16 that the first
wave (vf/c09_gen.py) did not know.  Same conventions: every operation has a generator of NumPy-valid value sets and an
independent NumPy (or nested-loop, vf/c04_models.py) oracle; which (operation, dims, configuration) cells exist is decided by the
compile probe.  wave=2: booleans are compile-time constants, a scalar next to a clipped index ARRAY is a run-time value,
index kinds also rotate over svt / mdy / mfx.
"""
import numpy as np

from . import c09_gen as G
from . import c04_models as M

IA, IS, ARR, A, AR, V, I = G.IA, G.IS, G.ARR, G.A, G.AR, G.V, G.I
INVALID, NOTHING = G.INVALID, G.NOTHING
np_arr = G.np_arr

WAVE2 = []


def iop(name, headers, args, call, dims, gen, oracle, **kw):
    WAVE2.append(name)
    return G.op(name, headers, args, call, dims, gen, oracle, wave=2, **kw)


def wop(name, headers, args, call, dims, gen, oracle, **kw):
    WAVE2.append(name)
    return G.vop(name, headers, args, call, dims, gen, oracle, wave=2, **kw)


def _ih(*names):
    return ["nmtools/array/index/%s.hpp" % n for n in names]


def _vh(*names):
    return ["nmtools/array/view/%s.hpp" % n for n in names]


def _shape(rng, n, primary, ext=3):
    if primary:
        return list(primary)
    return G.vshape(rng, n, ext if n <= 2 else 2)


def _ishape(rng, n, primary, ext=4):
    return list(primary) if primary else G.rshape(rng, n, ext)


def _ax(rng, nd):
    return rng.randrange(-nd, nd)


def _axok(ax, nd):
    return -nd <= ax < nd


# ====================================================================================================
# index functions
# ====================================================================================================

# --- shape_roll(shape, shift, axis|None)  /  lists
def _g_shape_roll(rng, dims, primary=None):
    n, none = dims
    shape = _ishape(rng, n, primary)
    return dict(shape=shape, shift=rng.randint(-5, 5), axis=None if none else _ax(rng, len(shape)))


def _o_shape_roll(v):
    if v["axis"] is not None and not _axok(v["axis"], len(v["shape"])):
        return NOTHING
    return V(v["shape"])


iop("shape_roll", _ih("roll"), [IA("shape"), IS("shift", signed=True, lo=-5), IS("axis", signed=True, lo=-4, optional=True)],
    "ix::shape_roll({shape},{shift},{axis})", [(2, False), (3, False), (2, True)], _g_shape_roll, _o_shape_roll)


def _g_shape_roll_l(rng, dims, primary=None):
    n, k = dims
    shape = _ishape(rng, n, primary)
    n = len(shape)
    ax = rng.sample(range(n), min(k, n))
    ax = [a - n if rng.random() < 0.3 else a for a in ax]
    return dict(shape=shape, shift=[rng.randint(-4, 4) for _ in ax], axis=ax)


def _o_shape_roll_l(v):
    n = len(v["shape"])
    if len(v["shift"]) != len(v["axis"]) or any(not _axok(a, n) for a in v["axis"]):
        return NOTHING
    return V(v["shape"])


iop("shape_roll_l", _ih("roll"), [IA("shape"), IA("shift", signed=True, lo=-5), IA("axis", signed=True, lo=-4)],
    "ix::shape_roll({shape},{shift},{axis})", [(2, 1), (3, 2), (2, 2)], _g_shape_roll_l, _o_shape_roll_l)


# --- roll(shape, indices, shift, axis): source index of a destination index
def _g_roll_index(rng, dims, primary=None):
    n, = dims
    shape = _ishape(rng, n, primary)
    return dict(shape=shape, indices=[rng.randrange(e) for e in shape], shift=rng.randint(-5, 5), axis=_ax(rng, len(shape)))


def _o_roll_index(v):
    s, idx = v["shape"], list(v["indices"])
    n = len(s)
    if len(idx) != n or not _axok(v["axis"], n) or any(not 0 <= i < e for i, e in zip(idx, s)):
        return INVALID
    a = v["axis"] % n
    idx[a] = (idx[a] - v["shift"]) % s[a]
    return V(idx)


iop("roll_index", _ih("roll"), [IA("shape"), IA("indices"), IS("shift", signed=True, lo=-5), IS("axis", signed=True, lo=-4)],
    "ix::roll({shape},{indices},{shift},{axis})", [(2,), (3,), (1,)], _g_roll_index, _o_roll_index)


# --- shape_take(shape, indices, axis|None)
def _g_shape_take(rng, dims, primary=None):
    n, k, none = dims
    shape = _ishape(rng, n, primary)
    if none:
        p = int(np.prod(shape))
        return dict(shape=shape, indices=[rng.randrange(p) for _ in range(k)], axis=None)
    ax = _ax(rng, len(shape))
    return dict(shape=shape, indices=[rng.randrange(shape[ax]) for _ in range(k)], axis=ax)


def _o_shape_take(v):
    s = list(v["shape"])
    if v["axis"] is None:
        return V([len(v["indices"])])
    if not _axok(v["axis"], len(s)):
        return INVALID
    s[v["axis"]] = len(v["indices"])
    return V(s)


iop("shape_take", _ih("take"), [IA("shape"), IA("indices"), IS("axis", signed=True, lo=-4, optional=True)],
    "ix::shape_take({shape},{indices},{axis})", [(2, 3, False), (3, 2, False), (2, 1, False), (2, 3, True)], _g_shape_take, _o_shape_take)


# --- take(index, shape, indices, axis): source index
def _g_take_index(rng, dims, primary=None):
    n, k = dims
    shape = _ishape(rng, n, primary)
    ax = rng.randrange(len(shape))
    indices = [rng.randrange(shape[ax]) for _ in range(k)]
    dst = list(shape)
    dst[ax] = k
    return dict(shape=shape, index=[rng.randrange(e) for e in dst], indices=indices, axis=ax)


def _o_take_index(v):
    s, idx, ind, ax = v["shape"], list(v["index"]), v["indices"], v["axis"]
    if len(idx) != len(s) or not 0 <= ax < len(s) or not 0 <= idx[ax] < len(ind):
        return INVALID
    if any(not 0 <= i < e for k, (i, e) in enumerate(zip(idx, s)) if k != ax) or not 0 <= ind[idx[ax]] < s[ax]:
        return INVALID
    idx[ax] = ind[idx[ax]]
    return V(idx)


iop("take_index", _ih("take"), [IA("shape"), IA("index"), IA("indices"), IS("axis")],
    "ix::take({index},{shape},{indices},{axis})", [(2, 3), (3, 2), (1, 2)], _g_take_index, _o_take_index)


# --- shape_compress(condition, shape, axis|None)
def _g_shape_compress(rng, dims, primary=None):
    n, none = dims
    shape = _ishape(rng, n, primary, 3)
    if none:
        p = int(np.prod(shape))
        return dict(shape=shape, condition=[rng.randint(0, 1) for _ in range(rng.randint(1, p))], axis=None)
    ax = rng.randrange(len(shape))
    return dict(shape=shape, condition=[rng.randint(0, 1) for _ in range(rng.randint(1, shape[ax]))], axis=ax)


def _o_shape_compress(v):
    s, c = list(v["shape"]), v["condition"]
    if any(x not in (0, 1) for x in c):
        return INVALID
    if v["axis"] is None:
        return V([sum(c)]) if len(c) <= int(np.prod(s)) else INVALID
    if not 0 <= v["axis"] < len(s) or len(c) > s[v["axis"]]:
        return INVALID
    s[v["axis"]] = sum(c)
    return V(s)


iop("shape_compress", _ih("compress"), [IA("shape"), IA("condition"), IS("axis", optional=True)],
    "ix::shape_compress({condition},{shape},{axis})", [(2, False), (3, False), (2, True)], _g_shape_compress, _o_shape_compress)


# --- shape_sliding_window(src_shape, window_shape, axis|None)
def _g_ssw(rng, dims, primary=None):
    n, k, none = dims
    shape = _ishape(rng, n, primary)
    n = len(shape)
    if none:
        return dict(src=shape, window=[rng.randint(1, e) for e in shape], axis=None)
    ax = rng.sample(range(n), min(k, n))
    return dict(src=shape, window=[rng.randint(1, shape[a]) for a in ax], axis=[a - n if rng.random() < 0.3 else a for a in ax])


def _o_ssw(v):
    s, w, ax = v["src"], v["window"], v["axis"]
    try:
        r = M.sliding_window_ref(np.zeros(s, dtype=np.int8), w, ax)
    except Exception:
        return INVALID
    return V(r.shape)


iop("shape_sliding_window", _ih("sliding_window"), [IA("src"), IA("window"), IA("axis", signed=True, lo=-4, optional=True)],
    "ix::shape_sliding_window({src},{window},{axis})", [(2, 2, True), (3, 3, True), (2, 1, False), (3, 2, False)], _g_ssw, _o_ssw)


def _g_ssw1(rng, dims, primary=None):
    n, none = dims
    shape = _ishape(rng, n, primary)
    if none:
        return dict(src=shape, window=rng.randint(1, min(shape)), axis=None)
    ax = _ax(rng, len(shape))
    return dict(src=shape, window=rng.randint(1, shape[ax]), axis=ax)


def _o_ssw1(v):
    if v["axis"] is None and len(v["src"]) != 1:
        # NumPy: an integer window is only valid for a 1-d array when no axis is given; the library applies it to every axis
        s = v["src"]
        if v["window"] > min(s):
            return INVALID
        return V([e - v["window"] + 1 for e in s] + [v["window"]] * len(s))
    try:
        return V(M.sliding_window_ref(np.zeros(v["src"], dtype=np.int8), v["window"], v["axis"]).shape)
    except Exception:
        return INVALID


iop("shape_sliding_window1", _ih("sliding_window"), [IA("src"), IS("window"), IS("axis", signed=True, lo=-4, optional=True)],
    "ix::shape_sliding_window({src},{window},{axis})", [(1, True), (2, False), (3, False)], _g_ssw1, _o_ssw1)


# --- swapaxes_to_transpose(dim, axis1, axis2)
def _g_swapaxes_ix(rng, dims, primary=None):
    nd = rng.randint(2, 4)
    return dict(dim=nd, axis1=_ax(rng, nd), axis2=_ax(rng, nd))


def _o_swapaxes_ix(v):
    nd = v["dim"]
    if not _axok(v["axis1"], nd) or not _axok(v["axis2"], nd):
        return INVALID
    r = list(range(nd))
    a, b = v["axis1"] % nd, v["axis2"] % nd
    r[a], r[b] = r[b], r[a]
    return V(r)


iop("swapaxes_to_transpose", _vh("swapaxes"), [IS("dim"), IS("axis1", signed=True, lo=-4), IS("axis2", signed=True, lo=-4)],
    "ix::swapaxes_to_transpose({dim},{axis1},{axis2})", [()], _g_swapaxes_ix, _o_swapaxes_ix)


# --- shape_diagonal(src_shape, offset, axis1, axis2)
def _g_shape_diag(rng, dims, primary=None):
    n, = dims
    shape = _ishape(rng, n, primary)
    n = len(shape)
    a1, a2 = rng.sample(range(n), 2)
    return dict(shape=shape, offset=rng.randint(-3, 3), axis1=a1 - n if rng.random() < 0.3 else a1, axis2=a2 - n if rng.random() < 0.3 else a2)


def _o_shape_diag(v):
    n = len(v["shape"])
    if n < 2 or not _axok(v["axis1"], n) or not _axok(v["axis2"], n) or v["axis1"] % n == v["axis2"] % n:
        return INVALID
    return V(np.diagonal(np.zeros(v["shape"], dtype=np.int8), v["offset"], v["axis1"], v["axis2"]).shape)


iop("shape_diagonal", _vh("diagonal"), [IA("shape"), IS("offset", signed=True, lo=-4), IS("axis1", signed=True, lo=-4), IS("axis2", signed=True, lo=-4)],
    "ix::shape_diagonal({shape},{offset},{axis1},{axis2})", [(2,), (3,)], _g_shape_diag, _o_shape_diag)


# --- shape_expand(src_shape, axis, spacing)  scalars / lists
def _g_shape_expand(rng, dims, primary=None):
    n, = dims
    shape = _ishape(rng, n, primary, 3)
    return dict(shape=shape, axis=_ax(rng, len(shape)), spacing=rng.randint(0, 2))


def _expand_shape(s, axes, sps):
    s = list(s)
    n = len(s)
    if any(not _axok(a, n) for a in axes) or len({a % n for a in axes}) != len(axes) or len(axes) != len(sps):
        return None
    for a, sp in zip(axes, sps):
        s[a % n] += (s[a % n] - 1) * sp
    return s


def _o_shape_expand(v):
    r = _expand_shape(v["shape"], [v["axis"]], [v["spacing"]])
    return INVALID if r is None else V(r)


iop("shape_expand", _vh("expand"), [IA("shape"), IS("axis", signed=True, lo=-4), IS("spacing")],
    "ix::shape_expand({shape},{axis},{spacing})", [(2,), (3,), (1,)], _g_shape_expand, _o_shape_expand)


def _g_shape_expand_l(rng, dims, primary=None):
    n, k = dims
    shape = _ishape(rng, n, primary, 3)
    n = len(shape)
    ax = rng.sample(range(n), min(k, n))
    return dict(shape=shape, axis=[a - n if rng.random() < 0.3 else a for a in ax], spacing=[rng.randint(0, 2) for _ in ax])


def _o_shape_expand_l(v):
    r = _expand_shape(v["shape"], v["axis"], v["spacing"])
    return INVALID if r is None else V(r)


iop("shape_expand_l", _vh("expand"), [IA("shape"), IA("axis", signed=True, lo=-4), IA("spacing")],
    "ix::shape_expand({shape},{axis},{spacing})", [(2, 1), (2, 2), (3, 2)], _g_shape_expand_l, _o_shape_expand_l)

# --- shape_vstack(src_shape), hstack_axis(lhs_shape, rhs_shape), shape_tril(src_shape)
iop("shape_vstack", _vh("vstack"), [IA("shape")], "ix::shape_vstack({shape})", [(1,), (2,), (3,)],
    lambda rng, d, primary=None: dict(shape=_ishape(rng, d[0], primary)),
    lambda v: V([1] + list(v["shape"]) if len(v["shape"]) == 1 else v["shape"]))


def _g_hstack_axis(rng, dims, primary=None):
    n, = dims
    a = _ishape(rng, n, primary)
    return dict(a=a, b=G.rshape(rng, len(a)))


iop("hstack_axis", _vh("hstack"), [IA("a"), IA("b")], "ix::hstack_axis({a},{b})", [(1,), (2,), (3,)], _g_hstack_axis,
    lambda v: I(0 if len(v["a"]) == 1 else 1))

iop("shape_tril", _vh("tril"), [IA("shape")], "ix::shape_tril({shape})", [(2,), (3,)],
    lambda rng, d, primary=None: dict(shape=_ishape(rng, d[0], primary)), lambda v: V(v["shape"]) if len(v["shape"]) >= 2 else INVALID)


# --- arange_shape(start, stop, step|None)
def _g_arange_shape(rng, dims, primary=None):
    none, = dims
    start = rng.randint(0, 4)
    step = rng.randint(1, 3)
    stop = start + rng.randint(1, 8)
    return dict(start=start, stop=stop, step=None if none else step)


def _o_arange_shape(v):
    st = 1 if v["step"] is None else v["step"]
    if st <= 0 or v["stop"] <= v["start"]:
        return INVALID
    return V([len(range(v["start"], v["stop"], st))])


iop("arange_shape", _ih("arange"), [IS("start"), IS("stop"), IS("step", optional=True)],
    "ix::arange_shape({start},{stop},{step})", [(False,)], _g_arange_shape, _o_arange_shape)   # a None step only compiles for constants


# --- split(shape, N) -> (left, right)
def _g_split_index(rng, dims, primary=None):
    n, = dims
    shape = _ishape(rng, n, primary)
    n = len(shape)
    return dict(shape=shape, N=rng.randint(-n + 1, n - 1) if n > 1 else 0)


def _o_split_index(v):
    s, N = v["shape"], v["N"]
    n = len(s)
    if not -n < N < n:
        return INVALID
    k = N + n if N < 0 else N
    return ("T", [V(s[:k]), V(s[k:])])


iop("split_index", _ih("split"), [IA("shape"), IS("N", signed=True, lo=-4)], "ix::split({shape},{N})", [(2,), (3,), (4,)],
    _g_split_index, _o_split_index, cx=False)


# ====================================================================================================
# views
# ====================================================================================================

# --- flip(a, axis|None) / flip(a, axes)
def _g_flip(rng, dims, primary=None):
    n, none = dims
    shape = _shape(rng, n, primary)
    return dict(a=A(shape, 1), axis=None if none else _ax(rng, len(shape)))


def _o_flip(v, T="int"):
    a = np_arr(v["a"], T)
    if v["axis"] is not None and not _axok(v["axis"], a.ndim):
        return INVALID
    return AR(np.flip(a, v["axis"]))


wop("flip", _vh("flip"), [ARR("a"), IS("axis", signed=True, lo=-4, optional=True)], "view::flip({a},{axis})",
    [(2, False), (3, False), (1, False), (2, True)], _g_flip, _o_flip)


def _g_flip_axes(rng, dims, primary=None):
    n, k = dims
    shape = _shape(rng, n, primary)
    n = len(shape)
    ax = rng.sample(range(n), min(k, n))
    return dict(a=A(shape, 1), axes=[x - n if rng.random() < 0.3 else x for x in ax])


def _o_flip_axes(v, T="int"):
    a = np_arr(v["a"], T)
    ax = v["axes"]
    if any(not _axok(x, a.ndim) for x in ax) or len({x % a.ndim for x in ax}) != len(ax):
        return INVALID
    return AR(np.flip(a, tuple(ax)))


wop("flip_axes", _vh("flip"), [ARR("a"), IA("axes", signed=True, lo=-4)], "view::flip({a},{axes})",
    [(2, 1), (2, 2), (3, 2)], _g_flip_axes, _o_flip_axes)


# --- roll(a, shift, axis|None) / lists
def _g_roll(rng, dims, primary=None):
    n, none = dims
    shape = _shape(rng, n, primary)
    return dict(a=A(shape, 1), shift=rng.randint(-4, 4), axis=None if none else _ax(rng, len(shape)))


def _o_roll(v, T="int"):
    a = np_arr(v["a"], T)
    if v["axis"] is not None and not _axok(v["axis"], a.ndim):
        return NOTHING
    return AR(np.roll(a, v["shift"], v["axis"]))


wop("roll", _vh("roll"), [ARR("a"), IS("shift", signed=True, lo=-5), IS("axis", signed=True, lo=-4, optional=True)],
    "view::roll({a},{shift},{axis})", [(2, False), (3, False), (2, True), (1, False)], _g_roll, _o_roll)


def _g_roll_l(rng, dims, primary=None):
    n, k = dims
    shape = _shape(rng, n, primary)
    n = len(shape)
    ax = rng.sample(range(n), min(k, n))
    return dict(a=A(shape, 1), shift=[rng.randint(-3, 3) for _ in ax], axis=[x - n if rng.random() < 0.3 else x for x in ax])


def _o_roll_l(v, T="int"):
    a = np_arr(v["a"], T)
    if len(v["shift"]) != len(v["axis"]) or any(not _axok(x, a.ndim) for x in v["axis"]):
        return NOTHING
    return AR(np.roll(a, tuple(v["shift"]), tuple(v["axis"])))


wop("roll_l", _vh("roll"), [ARR("a"), IA("shift", signed=True, lo=-5), IA("axis", signed=True, lo=-4)],
    "view::roll({a},{shift},{axis})", [(2, 1), (2, 2), (3, 2)], _g_roll_l, _o_roll_l)


# --- take(a, indices, axis|None)
def _g_take(rng, dims, primary=None):
    n, k, none = dims
    shape = _shape(rng, n, primary)
    if none:
        p = int(np.prod(shape))
        return dict(a=A(shape, 1), indices=[rng.randrange(p) for _ in range(k)], axis=None)
    ax = _ax(rng, len(shape))
    return dict(a=A(shape, 1), indices=[rng.randrange(shape[ax]) for _ in range(k)], axis=ax)


def _o_take(v, T="int"):
    a = np_arr(v["a"], T)
    try:
        return AR(np.take(a, v["indices"], v["axis"]))
    except (IndexError, ValueError):
        return INVALID


wop("take", _vh("take"), [ARR("a"), IA("indices"), IS("axis", signed=True, lo=-4, optional=True)], "view::take({a},{indices},{axis})",
    [(2, 3, False), (3, 2, False), (2, 2, True), (1, 3, False)], _g_take, _o_take)


# --- compress(condition, a, axis|None)
def _g_compress(rng, dims, primary=None):
    n, none = dims
    shape = _shape(rng, n, primary)
    if none:
        p = int(np.prod(shape))
        return dict(a=A(shape, 1), condition=[rng.randint(0, 1) for _ in range(rng.randint(1, p))], axis=None)
    ax = rng.randrange(len(shape))
    return dict(a=A(shape, 1), condition=[rng.randint(0, 1) for _ in range(rng.randint(1, shape[ax]))], axis=ax)


def _o_compress(v, T="int"):
    a = np_arr(v["a"], T)
    if any(x not in (0, 1) for x in v["condition"]):
        return INVALID
    try:
        r = np.compress(v["condition"], a, v["axis"])
    except (IndexError, ValueError):
        return INVALID
    return AR(r) if r.size else INVALID     # empty results: C04's


wop("compress", _vh("compress"), [ARR("a"), IA("condition"), IS("axis", optional=True)], "view::compress({condition},{a},{axis})",
    [(2, False), (3, False), (2, True)], _g_compress, _o_compress)

# --- squeeze(a), atleast_nd(a, nd)
wop("squeeze", _vh("squeeze"), [ARR("a")], "view::squeeze({a})", [(2,), (3,)],
    lambda rng, d, primary=None: dict(a=A(list(primary) if primary else [e if rng.random() < 0.6 else 1 for e in G.vshape(rng, d[0])], 1)),
    lambda v, T="int": AR(np.squeeze(np_arr(v["a"], T))) if any(e != 1 for e in v["a"]["shape"]) else INVALID)


def _g_atleast(rng, dims, primary=None):
    n, = dims
    return dict(a=A(_shape(rng, n, primary), 1), nd=rng.randint(1, 4))


def _o_atleast(v, T="int"):
    a = np_arr(v["a"], T)
    return AR(a.reshape([1] * max(0, v["nd"] - a.ndim) + list(a.shape)))


wop("atleast_nd", _vh("atleast_nd"), [ARR("a"), IS("nd")], "view::atleast_nd({a},{nd})", [(1,), (2,), (3,)], _g_atleast, _o_atleast)


# --- swapaxes(a, axis1, axis2), moveaxis(a, source, destination) ints / lists
def _g_swapaxes(rng, dims, primary=None):
    n, = dims
    shape = _shape(rng, n, primary)
    return dict(a=A(shape, 1), axis1=_ax(rng, len(shape)), axis2=_ax(rng, len(shape)))


def _o_swapaxes(v, T="int"):
    a = np_arr(v["a"], T)
    if not _axok(v["axis1"], a.ndim) or not _axok(v["axis2"], a.ndim):
        return INVALID
    return AR(np.swapaxes(a, v["axis1"], v["axis2"]))


wop("swapaxes", _vh("swapaxes"), [ARR("a"), IS("axis1", signed=True, lo=-4), IS("axis2", signed=True, lo=-4)],
    "view::swapaxes({a},{axis1},{axis2})", [(2,), (3,)], _g_swapaxes, _o_swapaxes)


def _g_moveaxis(rng, dims, primary=None):
    n, = dims
    shape = _shape(rng, n, primary)
    return dict(a=A(shape, 1), source=_ax(rng, len(shape)), destination=_ax(rng, len(shape)))


def _o_moveaxis(v, T="int"):
    a = np_arr(v["a"], T)
    try:
        return AR(np.moveaxis(a, v["source"], v["destination"]))
    except Exception:
        return INVALID


wop("moveaxis", _vh("moveaxis"), [ARR("a"), IS("source", signed=True, lo=-4), IS("destination", signed=True, lo=-4)],
    "view::moveaxis({a},{source},{destination})", [(2,), (3,)], _g_moveaxis, _o_moveaxis)


def _g_moveaxis_l(rng, dims, primary=None):
    n, k = dims
    shape = _shape(rng, n, primary)
    n = len(shape)
    k = min(k, n)
    src = rng.sample(range(n), k)
    dst = rng.sample(range(n), k)
    return dict(a=A(shape, 1), source=[x - n if rng.random() < 0.3 else x for x in src], destination=[x - n if rng.random() < 0.3 else x for x in dst])


wop("moveaxis_l", _vh("moveaxis"), [ARR("a"), IA("source", signed=True, lo=-4), IA("destination", signed=True, lo=-4)],
    "view::moveaxis({a},{source},{destination})", [(2, 1), (3, 2), (3, 1)], _g_moveaxis_l, _o_moveaxis)


# --- stack(a, b, axis), hstack(a, b), vstack(a, b)
def _g_stack(rng, dims, primary=None):
    n, = dims
    shape = _shape(rng, n, primary)
    return dict(a=A(shape, 1), b=A(shape, 50), axis=rng.randrange(len(shape) + 1))


def _o_stack(v, T="int"):
    a, b = np_arr(v["a"], T), np_arr(v["b"], T)
    if a.shape != b.shape or not 0 <= v["axis"] <= a.ndim:
        return INVALID
    return AR(np.stack([a, b], v["axis"]))


wop("stack", _vh("stack"), [ARR("a"), ARR("b"), IS("axis")], "view::stack({a},{b},{axis})", [(2,), (1,), (3,)], _g_stack, _o_stack)


def _g_hstack(rng, dims, primary=None):
    n, = dims
    a = _shape(rng, n, primary)
    b = list(a)
    j = 0 if len(a) == 1 else 1
    b[j] = rng.randint(1, 3)
    return dict(a=A(a, 1), b=A(b, 50))


def _o_hstack(v, T="int"):
    try:
        return AR(np.hstack([np_arr(v["a"], T), np_arr(v["b"], T)]))
    except ValueError:
        return INVALID


wop("hstack", _vh("hstack"), [ARR("a"), ARR("b")], "view::hstack({a},{b})", [(2,), (1,), (3,)], _g_hstack, _o_hstack)


def _g_vstack(rng, dims, primary=None):
    n, = dims
    a = _shape(rng, n, primary)
    b = list(a)
    if len(a) > 1:
        b[0] = rng.randint(1, 3)
    return dict(a=A(a, 1), b=A(b, 50))


def _o_vstack(v, T="int"):
    try:
        return AR(np.vstack([np_arr(v["a"], T), np_arr(v["b"], T)]))
    except ValueError:
        return INVALID


wop("vstack", _vh("vstack"), [ARR("a"), ARR("b")], "view::vstack({a},{b})", [(2,), (1,), (3,)], _g_vstack, _o_vstack)


# --- sliding_window(a, window_shape, axis|None) lists / scalars
def _g_sw(rng, dims, primary=None):
    n, k, none = dims
    shape = _shape(rng, n, primary)
    v = _g_ssw(rng, (len(shape), k, none), shape)
    return dict(a=A(shape, 1), window=v["window"], axis=v["axis"])


def _o_sw(v, T="int"):
    try:
        return AR(M.sliding_window_ref(np_arr(v["a"], T), v["window"], v["axis"]))
    except Exception:
        return INVALID


wop("sliding_window", _vh("sliding_window"), [ARR("a"), IA("window"), IA("axis", signed=True, lo=-4, optional=True)],
    "view::sliding_window({a},{window},{axis})", [(2, 2, True), (2, 1, False), (3, 2, False)], _g_sw, _o_sw)


def _g_sw1(rng, dims, primary=None):
    n, none = dims
    shape = _shape(rng, n, primary)
    v = _g_ssw1(rng, (len(shape), none), shape)
    return dict(a=A(shape, 1), window=v["window"], axis=v["axis"])


def _o_sw1(v, T="int"):
    if v["axis"] is None and len(v["a"]["shape"]) != 1:
        return INVALID
    return _o_sw(v, T)


wop("sliding_window1", _vh("sliding_window"), [ARR("a"), IS("window"), IS("axis", signed=True, lo=-4, optional=True)],
    "view::sliding_window({a},{window},{axis})", [(2, False), (3, False), (1, True)], _g_sw1, _o_sw1)


# --- diagonal(a, offset, axis1, axis2), tril(a, k), triu(a, k), trace
def _g_diag(rng, dims, primary=None):
    n, = dims
    shape = _shape(rng, n, primary)
    v = _g_shape_diag(rng, (len(shape),), shape)
    off = rng.randint(-1, 1)
    return dict(a=A(shape, 1), offset=off, axis1=v["axis1"], axis2=v["axis2"])


def _o_diag(v, T="int"):
    a = np_arr(v["a"], T)
    n = a.ndim
    if n < 2 or not _axok(v["axis1"], n) or not _axok(v["axis2"], n) or v["axis1"] % n == v["axis2"] % n:
        return INVALID
    r = np.diagonal(a, v["offset"], v["axis1"], v["axis2"])
    return AR(r) if r.size else INVALID


wop("diagonal", _vh("diagonal"), [ARR("a"), IS("offset", signed=True, lo=-4), IS("axis1", signed=True, lo=-4), IS("axis2", signed=True, lo=-4)],
    "view::diagonal({a},{offset},{axis1},{axis2})", [(2,), (3,)], _g_diag, _o_diag)


def _o_trace(v, T="int"):
    r = _o_diag(v, T)
    if r == INVALID:
        return r
    a = np_arr(v["a"], T)
    return AR(np.trace(a, v["offset"], v["axis1"], v["axis2"]))


wop("trace", _vh("trace"), [ARR("a"), IS("offset", signed=True, lo=-4), IS("axis1", signed=True, lo=-4), IS("axis2", signed=True, lo=-4)],
    "view::trace({a},{offset},{axis1},{axis2})", [(2,), (3,)], _g_diag, _o_trace, weight=2)


def _g_tri_lu(rng, dims, primary=None):
    n, = dims
    return dict(a=A(_shape(rng, n, primary), 1), k=rng.randint(-2, 2))


wop("tril", _vh("tril"), [ARR("a"), IS("k", signed=True, lo=-4)], "view::tril({a},{k})", [(2,), (3,)], _g_tri_lu,
    lambda v, T="int": AR(np.tril(np_arr(v["a"], T), v["k"])) if len(v["a"]["shape"]) >= 2 else INVALID)
wop("triu", _vh("triu"), [ARR("a"), IS("k", signed=True, lo=-4)], "view::triu({a},{k})", [(2,), (3,)], _g_tri_lu,
    lambda v, T="int": AR(np.triu(np_arr(v["a"], T), v["k"])) if len(v["a"]["shape"]) >= 2 else INVALID)


# --- where(condition, x, y): three operands of (possibly) different kinds, broadcast together
def _g_where(rng, dims, primary=None):
    n, m, l = dims
    k = max(n, m, l)
    if primary:
        n = len(primary)
        k = max(n, m, l)
        res = G.rshape(rng, k - n, 3) + list(primary)
    else:
        res = G.vshape(rng, k)
    mk = lambda q: [x if rng.random() < 0.65 else 1 for x in res[k - q:]]
    c = list(primary) if primary else mk(n)
    return dict(c=A(c, 0, mod=2), x=A(mk(m), 1), y=A(mk(l), 50))


def _o_where(v, T="int"):
    try:
        return AR(np.where(np_arr(v["c"], T) != 0, np_arr(v["x"], T), np_arr(v["y"], T)))
    except ValueError:
        return NOTHING


wop("where", _vh("where"), [ARR("c"), ARR("x"), ARR("y")], "view::where({c},{x},{y})", [(2, 2, 2), (2, 1, 2), (1, 2, 3), (3, 3, 3)],
    _g_where, _o_where)


# --- accumulations and reductions other than sum
def _g_acc(rng, dims, primary=None):
    n, = dims
    shape = _shape(rng, n, primary)
    return dict(a=A(shape, 1), axis=_ax(rng, len(shape)))


def _o_acc(f):
    def orc(v, T="int"):
        a = np_arr(v["a"], T)
        if not _axok(v["axis"], a.ndim):
            return INVALID
        return AR(f(a, axis=v["axis"]))
    return orc


wop("cumsum", _vh("cumsum"), [ARR("a"), IS("axis", signed=True, lo=-4)], "view::cumsum({a},{axis})", [(2,), (3,), (1,)], _g_acc, _o_acc(np.cumsum))
wop("cumprod", _vh("cumprod"), [ARR("a"), IS("axis", signed=True, lo=-4)], "view::cumprod({a},{axis})", [(2,), (3,), (1,)], _g_acc, _o_acc(np.cumprod))


def _g_red(rng, dims, primary=None):
    n, mode = dims      # mode 0: axis int, initial None; 1: axis int + initial; 2: axis None + initial
    shape = _shape(rng, n, primary)
    keep = int(rng.random() < 0.5)
    return dict(a=A(shape, 1), axis=None if mode == 2 else _ax(rng, len(shape)), initial=None if mode == 0 else rng.randint(1, 6), keepdims=keep)


def _o_red(f):
    def orc(v, T="int"):
        a = np_arr(v["a"], T)
        if v["axis"] is not None and not _axok(v["axis"], a.ndim):
            return INVALID
        kw = {} if v["initial"] is None else dict(initial=v["initial"])
        return AR(f(a, axis=v["axis"], keepdims=bool(v["keepdims"]), **kw))
    return orc


_RED_ARGS = lambda: [ARR("a"), IS("axis", signed=True, lo=-4, optional=True), IS("initial", signed=True, lo=-8, optional=True), IS("keepdims", boolean=True)]
_RED_DIMS = [(2, 0), (2, 1), (3, 1), (2, 2)]
wop("prod", _vh("prod"), _RED_ARGS(), "view::prod({a},{axis},nm::None,{initial},{keepdims})", _RED_DIMS, _g_red, _o_red(np.prod))
wop("amax", ["nmtools/array/view/ufuncs/amax.hpp"], _RED_ARGS(), "view::amax({a},{axis},nm::None,{initial},{keepdims})", _RED_DIMS, _g_red, _o_red(np.max))
wop("amin", ["nmtools/array/view/ufuncs/amin.hpp"], _RED_ARGS(), "view::amin({a},{axis},nm::None,{initial},{keepdims})", _RED_DIMS, _g_red, _o_red(np.min))


def _g_mean(rng, dims, primary=None):
    n, none = dims
    shape = _shape(rng, n, primary)
    return dict(a=A(shape, 1), axis=None if none else _ax(rng, len(shape)), keepdims=int(rng.random() < 0.5))


def _o_mean(v, T="int"):
    a = np_arr(v["a"], T)
    if v["axis"] is not None and not _axok(v["axis"], a.ndim):
        return INVALID
    return AR(np.mean(a, axis=v["axis"], keepdims=bool(v["keepdims"])))


wop("mean", _vh("mean"), [ARR("a"), IS("axis", signed=True, lo=-4, optional=True), IS("keepdims", boolean=True)],
    "view::mean({a},{axis},nm::float64,{keepdims})", [(2, False), (3, False), (2, True)], _g_mean, _o_mean, tol=1e-9, weight=2)


# --- resize(a, dst_shape), expand(a, axis, spacing, fill) scalars / lists
def _g_resize(rng, dims, primary=None):
    n, = dims
    shape = _shape(rng, n, primary)
    return dict(a=A(shape, 1), dst=G.rshape(rng, len(shape), 4))


def _o_resize(v, T="int"):
    if len(v["dst"]) != len(v["a"]["shape"]) or any(d <= 0 for d in v["dst"]):
        return INVALID
    return AR(M.resize_model(np_arr(v["a"], T), v["dst"]))


wop("resize", _vh("resize"), [ARR("a"), IA("dst")], "view::resize({a},{dst})", [(2,), (3,), (1,)], _g_resize, _o_resize)


def _g_expand(rng, dims, primary=None):
    n, = dims
    shape = _shape(rng, n, primary)
    return dict(a=A(shape, 1), axis=_ax(rng, len(shape)), spacing=rng.randint(0, 2))


def _o_expand(v, T="int"):
    a = np_arr(v["a"], T)
    if not _axok(v["axis"], a.ndim):
        return INVALID
    return AR(M.expand_model(a, v["axis"], v["spacing"], 0))


wop("expand", _vh("expand"), [ARR("a"), IS("axis", signed=True, lo=-4), IS("spacing")], "view::expand({a},{axis},{spacing},0)",
    [(2,), (3,), (1,)], _g_expand, _o_expand)


def _g_expand_l(rng, dims, primary=None):
    n, k = dims
    shape = _shape(rng, n, primary)
    v = _g_shape_expand_l(rng, (len(shape), k), shape)
    return dict(a=A(shape, 1), axis=v["axis"], spacing=v["spacing"])


def _o_expand_l(v, T="int"):
    a = np_arr(v["a"], T)
    if _expand_shape(a.shape, v["axis"], v["spacing"]) is None:
        return INVALID
    return AR(M.expand_model(a, v["axis"], v["spacing"], 0))


wop("expand_l", _vh("expand"), [ARR("a"), IA("axis", signed=True, lo=-4), IA("spacing")], "view::expand({a},{axis},{spacing},0)",
    [(2, 1), (2, 2), (3, 2)], _g_expand_l, _o_expand_l)


# --- generators: constant vs run-time parameters (no array operand)
def _g_arange(rng, dims, primary=None):
    mode, = dims      # 1: stop, 2: start stop, 3: start stop step
    start = rng.randint(0, 3) if mode >= 2 else None
    step = rng.randint(1, 3) if mode >= 3 else None
    stop = (start or 0) + rng.randint(2, 7)
    return dict(start=start, stop=stop, step=step)


def _o_arange(v, T="int"):
    r = np.arange(v["start"] or 0, v["stop"], v["step"] or 1)
    return AR(r) if r.size else INVALID


wop("arange1", _vh("arange"), [IS("stop")], "view::arange({stop},nm::int32)", [(1,)],
    lambda rng, d, primary=None: dict(stop=rng.randint(2, 8)), lambda v, T="int": AR(np.arange(v["stop"])) if v["stop"] > 0 else INVALID)
wop("arange", _vh("arange"), [IS("start"), IS("stop"), IS("step", optional=True)], "view::arange({start},{stop},{step},nm::int32)", [(3,)],
    _g_arange, _o_arange)


def _g_linspace(rng, dims, primary=None):
    start = rng.randint(0, 4)
    return dict(start=start, stop=start + rng.randint(1, 8), num=rng.randint(2, 6), endpoint=int(rng.random() < 0.6))


wop("linspace", _vh("linspace"), [IS("start"), IS("stop"), IS("num"), IS("endpoint", boolean=True)],
    "view::linspace((float){start},(float){stop},{num},{endpoint})", [()], _g_linspace,
    lambda v, T="int": AR(np.linspace(v["start"], v["stop"], v["num"], endpoint=bool(v["endpoint"]))) if v["num"] >= 2 else INVALID, tol=1e-5)


def _g_eye(rng, dims, primary=None):
    none, = dims
    n = rng.randint(1, 4)
    return dict(n=n, m=None if none else rng.randint(1, 4), k=rng.randint(-2, 2))


wop("eye", _vh("eye"), [IS("n"), IS("m", optional=True), IS("k", signed=True, lo=-4)], "view::eye({n},{m},{k},nm::int32)", [(False,), (True,)],
    _g_eye, lambda v, T="int": AR(np.eye(v["n"], v["m"], v["k"], dtype=np.int64)) if v["n"] * (v["m"] or v["n"]) > 1 else INVALID)
wop("tri", _vh("tri"), [IS("n"), IS("m", optional=True), IS("k", signed=True, lo=-4)], "view::tri({n},{m},{k},nm::int32)", [(False,), (True,)],
    _g_eye, lambda v, T="int": AR(np.tri(v["n"], v["m"], v["k"], dtype=np.int64)) if v["n"] * (v["m"] or v["n"]) > 1 else INVALID)


def _g_full(rng, dims, primary=None):
    n, = dims
    return dict(shape=list(primary) if primary else G.vshape(rng, n), fill=rng.randint(-5, 9))


wop("full", _vh("full"), [IA("shape"), IS("fill", signed=True, lo=-8)], "view::full({shape},{fill})", [(1,), (2,), (3,)], _g_full,
    lambda v, T="int": AR(np.full(v["shape"], v["fill"])))
wop("zeros", _vh("zeros"), [IA("shape")], "view::zeros({shape},nm::int32)", [(1,), (2,), (3,)],
    lambda rng, d, primary=None: dict(shape=list(primary) if primary else G.vshape(rng, d[0])), lambda v, T="int": AR(np.zeros(v["shape"], dtype=np.int64)))
wop("ones", _vh("ones"), [IA("shape")], "view::ones({shape},nm::int32)", [(1,), (2,), (3,)],
    lambda rng, d, primary=None: dict(shape=list(primary) if primary else G.vshape(rng, d[0])), lambda v, T="int": AR(np.ones(v["shape"], dtype=np.int64)))


# --- linear algebra (long pipelines of views): few configurations each
def _g_outer(rng, dims, primary=None):
    n, m = dims
    return dict(a=A(_shape(rng, n, primary), 1), b=A(G.vshape(rng, m), 50))


wop("outer", _vh("outer"), [ARR("a"), ARR("b")], "view::outer({a},{b})", [(1, 1), (2, 1), (1, 2)], _g_outer,
    lambda v, T="int": AR(np.outer(np_arr(v["a"], T), np_arr(v["b"], T))), weight=2)


def _g_dot(rng, dims, primary=None):
    n, m = dims
    a = _shape(rng, n, primary)
    k = a[-1]
    if m == 1:
        b = [k]
    else:
        b = G.rshape(rng, m - 2, 2) + [k, rng.randint(1, 3)]
    return dict(a=A(a, 1), b=A(b, 50))


def _o_dot(v, T="int"):
    try:
        return AR(np.dot(np_arr(v["a"], T), np_arr(v["b"], T)))
    except ValueError:
        return INVALID


wop("dot", _vh("dot"), [ARR("a"), ARR("b")], "view::dot({a},{b})", [(2, 2), (1, 1), (2, 1)], _g_dot, _o_dot, weight=4)


def _g_tensordot(rng, dims, primary=None):
    n, m, k = dims
    a = _shape(rng, n, primary)
    b = list(a[len(a) - k:]) + G.rshape(rng, m - k, 2)
    return dict(a=A(a, 1), b=A(b, 50), axes=k)


def _o_tensordot(v, T="int"):
    try:
        return AR(np.tensordot(np_arr(v["a"], T), np_arr(v["b"], T), v["axes"]))
    except ValueError:
        return INVALID


wop("tensordot", _vh("tensordot"), [ARR("a"), ARR("b"), IS("axes")], "view::tensordot({a},{b},{axes})", [(2, 2, 1), (2, 3, 2)],
    _g_tensordot, _o_tensordot, weight=4)


def _g_kron(rng, dims, primary=None):
    n, m = dims
    return dict(a=A(_shape(rng, n, primary, 2), 1), b=A(G.vshape(rng, m, 2), 50))


wop("kron", _vh("kron"), [ARR("a"), ARR("b")], "view::kron({a},{b})", [(2, 2), (1, 2)], _g_kron,
    lambda v, T="int": AR(np.kron(np_arr(v["a"], T), np_arr(v["b"], T))), weight=4)

# ----------------------------------------------------------------------------------------------------
# EXCLUDED CELLS: none at present.  (mechanism: Op.exclude; a cell of the unchanged library with a reported finding awaiting triage
# is left out of the runs and counted in the evidence under cells_excluded_pending_triage.)
# History: a NEGATIVE axis / index carried by a clipped kind for roll_index.axis, roll.axis, roll_l.axis, sliding_window.axis,
# sliding_window1.axis, split_index.N (findings/c09_clipped_negative_index_roll_split_sliding_window.md) - repaired in /repo 2bd96a2,
# generated again.
# ----------------------------------------------------------------------------------------------------
NEG_CLIPPED = {}
_NEG_FINDING = "findings/c09_clipped_negative_index_roll_split_sliding_window.md"


def _neg_clipped_exclusion(o, names):
    def ex(cfg, v):
        for a, c in zip(o.args, cfg.split("|")):
            if a.name in names and c.split(":")[0] in ("cl", "clt", "cla", "clv"):
                x = v.get(a.name)
                xs = x if isinstance(x, list) else [x]
                if any(e is not None and e < 0 for e in xs):
                    return _NEG_FINDING
        return None
    return ex


for _n, _names in NEG_CLIPPED.items():
    G.OPS[_n].exclude = _neg_clipped_exclusion(G.OPS[_n], _names)

WAVE2_INDEX = [n for n in WAVE2 if G.OPS[n].family == "index"]
WAVE2_VIEW = [n for n in WAVE2 if G.OPS[n].family == "view"]
