"""Which check modules are integrated (claimed in MANIFEST.json) and which value-level modules feed C02/C10/C15.
Modules still under construction are not listed, so a half-built module can never make a registered check alarm."""
CLAIMED = ["C01", "C02", "C03", "C04", "C05", "C06", "C07", "C08", "C09", "C10", "C11", "C12", "C13", "C14", "C15", "C16", "C17", "C18", "C19", "C20"]
VALUE = ["c03", "c04", "c07", "c08", "c16", "c17"]
