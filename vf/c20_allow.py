"""C20: compile-probed deny lists: features of a configuration that do not compile on the unchanged tree.

Generated from a probe that compiled every (configuration, feature) pair alone (g++ -fsyntax-only):
 * cast(a, kind::ndarray_{c,f,h,d}s_*) from a source without a constant shape but with a fixed/bounded dimension is a hard
   compile error (resolve_optype<cast_kind_t> evaluates the clipped-shape branch with an empty argument list);
 * cast<dtype>(a) has no replace_element_type for utl::static_vector buffers;
 * cast<hybrid_ndarray>(dynamic source) needs resize(list) which hybrid_ndarray does not have.
bit k of a mask = kind / dtype id k of harness/c20_hist.hpp."""
DENY_CONFIG = set()
DENY_KINDS = {
    'fs_db': 0xfff,
    'fs_db_col': 0xfff,
    'fs_fb': 0xfff,
    'fs_fb_col': 0xfff,
    'fs_hb': 0xfff,
    'fs_hbH': 0xfff,
    'fs_hb_col': 0xfff,
    'fs_hb_f8': 0xfff,
    'hsH_db': 0xfff,
    'hsH_db_col': 0xfff,
    'hsH_hbH': 0xfff,
    'hs_db': 0xfff,
    'hs_db_col': 0xfff,
    'hs_fb': 0xfff,
    'hs_fb_col': 0xfff,
    'hs_hb': 0xfff,
    'hs_hb_col': 0xfff,
    'hybrid12_2': 0xfff,
    'hybrid6_1': 0xfff,
    'hybrid8_3': 0xfff,
    'ls_db': 0xfff,
    'ls_db_col': 0xfff,
    'ls_fb': 0xfff,
    'ls_fb_col': 0xfff,
    'ls_hb': 0xfff,
    'ls_hb_col': 0xfff,
    'lst_db': 0xfff,
    'lst_db_col': 0xfff,
    'lst_hb': 0xfff,
    'lst_hb_col': 0xfff,
}
DENY_DTYPES = {
    'cs_hb': 0x1f,
    'cs_hb_col': 0x1f,
    'ds_hb': 0x1f,
    'ds_hb_col': 0x1f,
    'fs_hb': 0x1f,
    'fs_hb_col': 0x1f,
    'fs_hb_f8': 0x1f,
    'hs_hb': 0x1f,
    'hs_hb_col': 0x1f,
    'ls_hb': 0x1f,
    'ls_hb_col': 0x1f,
    'lst_hb': 0x1f,
    'lst_hb_col': 0x1f,
}
DENY_CAST_INTO = {'hybrid8_3', 'hybrid6_1', 'hybrid12_2'}
DENY_VIEW_SOURCES = set()
