"""C20: compile-probed deny lists (features of a configuration that do not compile on the unchanged tree)."""
DENY_CONFIG = set()
DENY_KINDS = {}
DENY_DTYPES = {}
DENY_CAST_INTO = set()
