"""C10 pipeline generator: compositions (chains and binary trees, depth 2..3) of the operations of C03-C08, C16, C17.

A *stage* = name, arity (array operands), C++ call template over run-time arguments read from the case line, an argument
generator given the operand shapes (NumPy-valid arguments only) and a NumPy model.  A *pipeline* is an expression tree of
stages over labelled leaves; it is emitted as one VH_OP of a generated translation unit which prints
    F <emit_view_all of the fused pipeline (view of views)>  G <emit_view_all of the staged pipeline (every inner view
    evaluated to a concrete array first)>
(harness/pipes.hpp: vh::pipe2 / vh::pipe3 / vh::tree2 / vh::tree3_*).  Which pipelines compile on the unchanged tree is
recorded once in vf/c10_supported.json by
    VERIF_JOBS=10 python3-vt -m vf.c10_gen --probe          (g++ -fsyntax-only, incremental; --fresh re-probes everything)
and the checks (vf/checks/c10.py, vf/checks/c02.py) only generate from that allow-list.
    python3-vt -m vf.c10_gen --stats                        summary of the allow-list and of the tiers' selections
Nothing here includes or calls the library: the models are NumPy (max_pool2d: the nested-loop model of vf/c17_model.py).
"""
import hashlib
import json
import os
import random
import sys

import numpy as np

from . import c17_model as M17

SUPPORTED = os.path.join(os.path.dirname(os.path.abspath(__file__)), "c10_supported.json")
CAP_H = 8                 # capacity of the bounded buffer of a hybrid leaf (vh::hyb_t<T, CAP_H>)
I32_MAX = 2 ** 31 - 1
MAX_RESULT = 600          # elements of any intermediate / final result (vh::MAX_EMIT is 20000)
TU_SIZE = 7


class Invalid(Exception):
    """the sampled arguments are not in the generated (NumPy-valid, representable) class: resample"""


# =====================================================================================================================
# small helpers of the argument generators
# =====================================================================================================================
def fmt_vec(v):
    return "%d %s" % (len(v), " ".join(str(int(x)) for x in v)) if len(v) else "0"


def prod(s):
    p = 1
    for x in s:
        p *= int(x)
    return p


class Gen:
    """random source handed to the argument generators"""

    def __init__(self, rng):
        self.rng = rng

    def free_shape(self, cap, dmin=1, dmax=3, emax=4):
        """shape of a leaf the stage may choose freely (cap: element capacity of a bounded leaf, or None)"""
        r = self.rng
        for _ in range(40):
            s = [r.randint(1, emax) for _ in range(r.randint(dmin, dmax))]
            if cap is None or prod(s) <= cap:
                return s
        return [1] * dmin

    def partner(self, t, cap=None):
        """a shape that broadcasts with t to t"""
        r = self.rng
        for _ in range(40):
            s = [e if r.random() < 0.6 else 1 for e in t]
            if r.random() < 0.25 and len(s) > 1:
                s = s[r.randint(1, len(s) - 1):]
            s = s if s else [1]
            if cap is None or prod(s) <= cap:
                return s
        return [1]

    def axis(self, d, lo=None, hi=None):
        """an axis in [-d, d)"""
        return self.rng.randrange(-d if lo is None else lo, d if hi is None else hi)

    def axes(self, d, kmin=1, kmax=None):
        """distinct axes (mixed sign)"""
        r = self.rng
        k = r.randint(kmin, min(d, kmax or d))
        ax = r.sample(range(d), k)
        return [a - d if r.random() < 0.4 else a for a in ax]

    def factorization(self, n, maxlen=3):
        r = self.rng
        f = []
        rem = n
        for _ in range(r.randint(1, maxlen) - 1):
            ds = [d for d in range(1, rem + 1) if rem % d == 0]
            d = r.choice(ds)
            f.append(d)
            rem //= d
        f.append(rem)
        r.shuffle(f)
        return f


def _bshape(a, b):
    try:
        return list(np.broadcast_shapes(tuple(a), tuple(b)))
    except ValueError:
        return None


# =====================================================================================================================
# stage registry
# =====================================================================================================================
class Stage:
    """
    name     unique name (part of the violation keys)
    arity    number of array operands (1 or 2)
    inc      library headers
    reads    [(variable, kind)] run-time arguments in case-line order; kind: vec | int | slices
    pre      extra C++ statements after the reads ({v} = prefixed variable v, T = element type of the pipeline)
    call     C++ expression; {x} {y} operands, {v} prefixed variable
    gen      gen(g, shapes, caps) -> (args, shapes) | None ; shapes[i] is None for a leaf whose shape the stage chooses
    model    model(args, *arrays) -> numpy array
    absb     how the magnitude of intermediate values is bounded: "out" (the result itself) | "abs" (model on |operands|)
             | "abs1" (model on max(|operand|, 1): products)
    """

    def __init__(self, name, arity, inc, reads, call, gen, model, pre=(), absb="out", float_only=False, product=False,
                 enlarging=False):
        self.name = name
        self.arity = arity
        self.inc = list(inc)
        self.reads = list(reads)
        self.call = call
        self.gen = gen
        self.model = model
        self.pre = list(pre)
        self.absb = absb
        self.float_only = float_only
        self.product = product
        self.enlarging = enlarging

    # ---- C++
    def decl(self, p):
        out = []
        for v, kind in self.reads:
            if kind == "vec":
                out.append("auto %s%s = in.vec();" % (p, v))
            elif kind == "int":
                out.append("auto %s%s = (int)in.i();" % (p, v))
            elif kind == "slices":
                out.append("auto %s%s = vh::read_slices(in);" % (p, v))
            else:
                raise KeyError(kind)
        names = {v: p + v for v, _ in self.reads}
        for extra in self.pre:
            out.append(_subst(extra, names, p))
        return out

    def expr(self, p, operands):
        names = {v: p + v for v, _ in self.reads}
        names["x"] = operands[0]
        if len(operands) > 1:
            names["y"] = operands[1]
        return _subst(self.call, names, p)

    def tokens(self, args):
        out = []
        for v, kind in self.reads:
            a = args[v]
            if kind == "vec":
                out.append(fmt_vec(a))
            elif kind == "int":
                out.append(str(int(a)))
            elif kind == "slices":
                out.append("%d %s" % (len(a), " ".join("%d %d %d" % tuple(t) for t in a)) if a else "0")
        return " ".join(out)


def _subst(template, names, p):
    s = template
    for k in sorted(names, key=len, reverse=True):
        s = s.replace("{" + k + "}", names[k])
    return s.replace("{p}", p)


STAGES = {}


def reg(*a, **k):
    s = Stage(*a, **k)
    assert s.name not in STAGES
    STAGES[s.name] = s
    return s


V = "nmtools/array/view/"
U = "nmtools/array/view/ufuncs/"


def _one(g, shapes, caps, dmin=1, dmax=3, emax=4):
    """operand shape of a unary stage (chosen freely if the operand is a leaf)"""
    s = shapes[0]
    if s is None:
        return g.free_shape(caps[0], dmin, dmax, emax)
    return list(s)


# ---------------------------------------------------------------------------------------------------- C03: shape views
def g_reshape(g, shapes, caps):
    s = _one(g, shapes, caps)
    ns = g.factorization(prod(s))
    if g.rng.random() < 0.35:
        ns[g.rng.randrange(len(ns))] = -1
    return dict(ns=ns), [s]


reg("reshape", 1, [V + "reshape.hpp"], [("ns", "vec")], "view::reshape({x}, vh::to_list<int>({ns}))",
    g_reshape, lambda a, x: x.reshape(a["ns"]))


def g_transpose(g, shapes, caps):
    s = _one(g, shapes, caps)
    return dict(axes=g.rng.sample(range(len(s)), len(s))), [s]


reg("transpose", 1, [V + "transpose.hpp"], [("axes", "vec")], "view::transpose({x}, vh::to_list<int>({axes}))",
    g_transpose, lambda a, x: np.transpose(x, a["axes"]))


def g_axis(g, shapes, caps):
    s = _one(g, shapes, caps)
    return dict(axis=g.axis(len(s))), [s]


def g_axes(g, shapes, caps):
    s = _one(g, shapes, caps)
    return dict(axes=g.axes(len(s))), [s]


reg("flip_i", 1, [V + "flip.hpp"], [("axis", "int")], "view::flip({x}, {axis})", g_axis, lambda a, x: np.flip(x, a["axis"]))
reg("flip_l", 1, [V + "flip.hpp"], [("axes", "vec")], "view::flip({x}, vh::to_list<int>({axes}))", g_axes,
    lambda a, x: np.flip(x, tuple(a["axes"])))


def g_two_axes(g, shapes, caps):
    s = _one(g, shapes, caps)
    return dict(a1=g.axis(len(s)), a2=g.axis(len(s))), [s]


reg("moveaxis", 1, [V + "moveaxis.hpp"], [("a1", "int"), ("a2", "int")], "view::moveaxis({x}, {a1}, {a2})", g_two_axes,
    lambda a, x: np.moveaxis(x, a["a1"], a["a2"]))
reg("swapaxes", 1, [V + "swapaxes.hpp"], [("a1", "int"), ("a2", "int")], "view::swapaxes({x}, {a1}, {a2})", g_two_axes,
    lambda a, x: np.swapaxes(x, a["a1"], a["a2"]))


def g_expand(g, shapes, caps):
    s = _one(g, shapes, caps)
    return dict(axis=g.rng.randint(-(len(s) + 1), len(s))), [s]


reg("expand_dims", 1, [V + "expand_dims.hpp"], [("axis", "int")], "view::expand_dims({x}, {axis})", g_expand,
    lambda a, x: np.expand_dims(x, a["axis"]))


def g_squeeze(g, shapes, caps):
    s = shapes[0]
    if s is None:
        s = g.free_shape(caps[0], 2, 3, 3)
        s[g.rng.randrange(len(s))] = 1
    s = list(s)
    if all(e == 1 for e in s):
        # known finding C03:squeeze:all_ones:nothing (no 0-dimensional view in the library): class not generated
        return None
    return dict(), [s]


reg("squeeze", 1, [V + "squeeze.hpp"], [], "view::squeeze({x})", g_squeeze, lambda a, x: np.squeeze(x))


# ------------------------------------------------------------------------------------------- C04: data-movement views
def g_tile(g, shapes, caps):
    s = _one(g, shapes, caps, 1, 3, 3)
    reps = [g.rng.choice((1, 2, 2, 3)) for _ in range(g.rng.randint(1, len(s) + 1))]
    return dict(reps=reps), [s]


reg("tile", 1, [V + "tile.hpp"], [("reps", "vec")], "view::tile({x}, vh::to_list<int>({reps}))", g_tile,
    lambda a, x: np.tile(x, a["reps"]), enlarging=True)


def g_repeat(g, shapes, caps):
    s = _one(g, shapes, caps)
    return dict(r=g.rng.randint(1, 3), axis=g.axis(len(s))), [s]


reg("repeat", 1, [V + "repeat.hpp"], [("r", "int"), ("axis", "int")], "view::repeat({x}, {r}, {axis})", g_repeat,
    lambda a, x: np.repeat(x, a["r"], axis=a["axis"]), enlarging=True)
reg("repeat_flat", 1, [V + "repeat.hpp"], [("r", "int")], "view::repeat({x}, {r}, nm::None)",
    lambda g, shapes, caps: (dict(r=g.rng.randint(1, 3)), [_one(g, shapes, caps)]),
    lambda a, x: np.repeat(x, a["r"]), enlarging=True)


def g_roll(g, shapes, caps):
    s = _one(g, shapes, caps)
    axis = g.axis(len(s))
    n = s[axis]
    return dict(shift=g.rng.randint(-2 * n, 2 * n), axis=axis), [s]


reg("roll", 1, [V + "roll.hpp"], [("shift", "int"), ("axis", "int")], "view::roll({x}, {shift}, {axis})", g_roll,
    lambda a, x: np.roll(x, a["shift"], axis=a["axis"]))


def g_roll_flat(g, shapes, caps):
    s = _one(g, shapes, caps)
    n = prod(s)
    return dict(shift=g.rng.randint(-n - 2, n + 2)), [s]


reg("roll_flat", 1, [V + "roll.hpp"], [("shift", "int")], "view::roll({x}, {shift})", g_roll_flat,
    lambda a, x: np.roll(x, a["shift"]))


def g_pad(g, shapes, caps):
    s = _one(g, shapes, caps)
    beg = [g.rng.randint(0, 2) for _ in s]
    end = [g.rng.randint(0, 2) for _ in s]
    return dict(pads=beg + end), [s]


def m_pad(a, x):
    d = x.ndim
    return np.pad(x, list(zip(a["pads"][:d], a["pads"][d:])), constant_values=-9)


reg("pad", 1, [V + "pad.hpp"], [("pads", "vec")], "view::pad({x}, vh::to_list<int>({pads}), (T)-9)", g_pad, m_pad, enlarging=True)


def _rand_slice(g, n):
    r = g.rng
    for _ in range(60):
        step = r.choice((1, 1, 2, -1, -2, 3))
        start = r.randint(-n - 1, n + 1)
        stop = r.randint(-n - 1, n + 1)
        if len(range(*slice(start, stop, step).indices(n))) >= 1:
            return [start, stop, step]
    return [0, n, 1]


def g_slice(g, shapes, caps):
    s = _one(g, shapes, caps)
    return dict(sl=[_rand_slice(g, n) for n in s]), [s]


reg("slice", 1, [V + "slice.hpp"], [("sl", "slices")], "view::apply_slice({x}, {sl})", g_slice,
    lambda a, x: x[tuple(slice(*t) for t in a["sl"])])


def g_slice_t2(g, shapes, caps):
    s = shapes[0]
    if s is None:
        s = g.free_shape(caps[0], 2, 2, 4)
    s = list(s)
    if len(s) != 2:
        return None
    r = g.rng
    for _ in range(60):
        b0, e0 = r.randint(-s[0], s[0]), r.randint(-s[0], s[0] + 1)
        st = r.choice((1, 2, -1, -2))
        if len(range(*slice(b0, e0).indices(s[0]))) >= 1:
            return dict(b0=b0, e0=e0, st=st), [s]
    return None


reg("slice_t2", 1, [V + "slice.hpp"], [("b0", "int"), ("e0", "int"), ("st", "int")],
    "view::apply_slice({x}, nmtools_tuple<nmtools_tuple<int,int>, nmtools_tuple<nm::none_t,nm::none_t,int>>{"
    "nmtools_tuple<int,int>{{b0}, {e0}}, nmtools_tuple<nm::none_t,nm::none_t,int>{nm::None, nm::None, {st}}})",
    g_slice_t2, lambda a, x: x[a["b0"]:a["e0"], ::a["st"]])


def g_take(g, shapes, caps):
    s = _one(g, shapes, caps)
    axis = g.axis(len(s))
    n = s[axis]
    return dict(idx=[g.rng.randrange(-n, n) for _ in range(g.rng.randint(1, 4))], axis=axis), [s]


reg("take", 1, [V + "take.hpp"], [("idx", "vec"), ("axis", "int")], "view::take({x}, vh::to_list<int>({idx}), {axis})", g_take,
    lambda a, x: np.take(x, a["idx"], axis=a["axis"]))


def g_bcast(g, shapes, caps):
    s = _one(g, shapes, caps)
    if shapes[0] is None and g.rng.random() < 0.7:
        s[g.rng.randrange(len(s))] = 1
    tgt = [e if e != 1 or g.rng.random() < 0.3 else g.rng.randint(2, 3) for e in s]
    if g.rng.random() < 0.4:
        tgt = [g.rng.randint(1, 3)] + tgt
    return dict(tgt=tgt), [s]


reg("broadcast_to", 1, [V + "broadcast_to.hpp"], [("tgt", "vec")], "view::broadcast_to({x}, vh::to_list<size_t>({tgt}))", g_bcast,
    lambda a, x: np.broadcast_to(x, a["tgt"]), enlarging=True)


# ---------------------------------------------------------------------------------------------------- C07: ufuncs
def g_noargs(g, shapes, caps):
    return dict(), [_one(g, shapes, caps)]


reg("negative", 1, [U + "negative.hpp"], [], "view::negative({x})", g_noargs, lambda a, x: np.negative(x))
reg("square", 1, [U + "square.hpp"], [], "view::square({x})", g_noargs, lambda a, x: np.square(x), product=True)
reg("fabs", 1, [U + "fabs.hpp"], [], "view::fabs({x})", g_noargs, lambda a, x: np.fabs(x))


def g_scalar(lo, hi):
    def f(g, shapes, caps):
        return dict(c=g.rng.randint(lo, hi)), [_one(g, shapes, caps)]
    return f


reg("add_s", 1, [U + "add.hpp"], [("c", "int")], "view::add({x}, (T){c})", g_scalar(-9, 9), lambda a, x: x + a["c"])
reg("rsubtract_s", 1, [U + "subtract.hpp"], [("c", "int")], "view::subtract((T){c}, {x})", g_scalar(-9, 9), lambda a, x: a["c"] - x)
reg("multiply_s", 1, [U + "multiply.hpp"], [("c", "int")], "view::multiply({x}, (T){c})", g_scalar(-2, 3), lambda a, x: x * a["c"], product=True)
reg("maximum_s", 1, [U + "maximum.hpp"], [("c", "int")], "view::maximum({x}, (T){c})", g_scalar(-3, 130), lambda a, x: np.maximum(x, a["c"]))
# halves: the only stage producing non-integral (exactly representable) values from integer data, so that an element type
# of a composition inferred from the innermost array instead of from the inner view shows as a truncated value
reg("halve", 1, [U + "multiply.hpp"], [], "view::multiply({x}, 0.5)", g_noargs, lambda a, x: x * 0.5)


def g_binary(g, shapes, caps):
    a, b = shapes
    if a is None and b is None:
        a = g.free_shape(caps[0])
        b = g.partner(a, caps[1])
        if g.rng.random() < 0.3 and len(b) == len(a):
            # mutual broadcasting: both operands are stretched, e.g. (3,1) with (1,4)
            for i in range(len(a)):
                if b[i] == a[i] and a[i] > 1 and g.rng.random() < 0.5:
                    a[i] = 1
        if g.rng.random() < 0.5 and (caps[0] is None or prod(b) <= caps[0]) and (caps[1] is None or prod(a) <= caps[1]):
            a, b = b, a
    elif b is None:
        b = g.partner(a, caps[1])
    elif a is None:
        a = g.partner(b, caps[0])
    elif _bshape(a, b) is None:
        return None
    return dict(), [list(a), list(b)]


reg("add", 2, [U + "add.hpp"], [], "view::add({x}, {y})", g_binary, lambda a, x, y: x + y)
reg("subtract", 2, [U + "subtract.hpp"], [], "view::subtract({x}, {y})", g_binary, lambda a, x, y: x - y)
reg("multiply", 2, [U + "multiply.hpp"], [], "view::multiply({x}, {y})", g_binary, lambda a, x, y: x * y, product=True)
reg("maximum", 2, [U + "maximum.hpp"], [], "view::maximum({x}, {y})", g_binary, lambda a, x, y: np.maximum(x, y))


# ---------------------------------------------------------------------------------------------------- C08: reductions
def g_red_axes(g, shapes, caps):
    s = _one(g, shapes, caps)
    return dict(axes=g.axes(len(s), 1, 2)), [s]


reg("sum_i", 1, [V + "sum.hpp"], [("axis", "int")], "view::sum({x}, {axis})", g_axis, lambda a, x: x.sum(axis=a["axis"]), absb="abs")
reg("sum_l", 1, [V + "sum.hpp"], [("axes", "vec")], "view::sum({x}, vh::to_list<int>({axes}))", g_red_axes,
    lambda a, x: x.sum(axis=tuple(a["axes"])), absb="abs")
reg("sum_n", 1, [V + "sum.hpp"], [], "view::sum({x}, nm::None)", g_noargs, lambda a, x: np.asarray(x.sum()), absb="abs")
reg("sum_ik", 1, [V + "sum.hpp"], [("axis", "int")], "view::sum({x}, {axis}, nm::None, nm::None, nm::True)", g_axis,
    lambda a, x: x.sum(axis=a["axis"], keepdims=True), absb="abs")
reg("prod_i", 1, [V + "prod.hpp"], [("axis", "int")], "view::prod({x}, {axis})", g_axis, lambda a, x: x.prod(axis=a["axis"]),
    absb="abs1", product=True)
reg("prod_n", 1, [V + "prod.hpp"], [], "view::prod({x}, nm::None)", g_noargs, lambda a, x: np.asarray(x.prod()), absb="abs1", product=True)
reg("amax_i", 1, [U + "amax.hpp"], [("axis", "int")], "view::amax({x}, {axis})", g_axis, lambda a, x: x.max(axis=a["axis"]))
reg("amax_lk", 1, [U + "amax.hpp"], [("axes", "vec")], "view::amax({x}, vh::to_list<int>({axes}), nm::None, nm::None, nm::True)", g_red_axes,
    lambda a, x: x.max(axis=tuple(a["axes"]), keepdims=True))
reg("cumsum", 1, [V + "cumsum.hpp"], [("axis", "int")], "view::cumsum({x}, {axis})", g_axis, lambda a, x: np.cumsum(x, axis=a["axis"]), absb="abs")
reg("cumprod", 1, [V + "cumprod.hpp"], [("axis", "int")], "view::cumprod({x}, {axis})", g_axis, lambda a, x: np.cumprod(x, axis=a["axis"]),
    absb="abs1", product=True)


# ---------------------------------------------------------------------------------------- C04: several array operands
def g_concat(g, shapes, caps):
    a, b = shapes
    r = g.rng
    if a is None and b is None:
        a = g.free_shape(caps[0])
    if a is None:
        a, b, sw = b, a, True
    else:
        sw = False
    d = len(a)
    axis = r.randrange(d)
    if b is None:
        b = list(a)
        for _ in range(30):
            b[axis] = r.randint(1, 3)
            cap = caps[0] if sw else caps[1]
            if cap is None or prod(b) <= cap:
                break
        else:
            return None
        cap = caps[0] if sw else caps[1]
        if cap is not None and prod(b) > cap:
            return None
    else:
        if len(b) != d:
            return None
        diff = [i for i in range(d) if a[i] != b[i]]
        if len(diff) > 1:
            return None
        if diff:
            axis = diff[0]
    if sw:
        a, b = b, a
    if r.random() < 0.3:
        axis -= d
    return dict(axis=axis), [list(a), list(b)]


reg("concatenate", 2, [V + "concatenate.hpp"], [("axis", "int")], "view::concatenate({x}, {y}, {axis})", g_concat,
    lambda a, x, y: np.concatenate([x, y], axis=a["axis"]))


def g_stack(g, shapes, caps):
    a, b = shapes
    if a is None and b is None:
        cap = min([c for c in caps if c is not None], default=None)
        a = g.free_shape(cap)
    if a is None:
        a = list(b)
        if caps[0] is not None and prod(a) > caps[0]:
            return None
    if b is None:
        b = list(a)
        if caps[1] is not None and prod(b) > caps[1]:
            return None
    if list(a) != list(b):
        return None
    d = len(a)
    return dict(axis=g.rng.randint(-(d + 1), d)), [list(a), list(b)]


reg("stack", 2, [V + "stack.hpp"], [("axis", "int")], "view::stack({x}, {y}, {axis})", g_stack,
    lambda a, x, y: np.stack([x, y], axis=a["axis"]))


def g_where(g, shapes, caps):
    r = g_binary(g, shapes, caps)
    if r is None:
        return None
    _, (a, b) = r
    t = _bshape(a, b)
    cs = g.partner(t)
    cd = [g.rng.randint(0, 1) for _ in range(prod(cs))]
    return dict(cs=cs, cd=cd), [a, b]


reg("where", 2, [V + "where.hpp"], [("cs", "vec"), ("cd", "vec")], "view::where({p}c, {x}, {y})", g_where,
    lambda a, x, y: np.where(np.array(a["cd"]).reshape(a["cs"]) != 0, x, y),
    pre=["const auto {p}c = vh::make_arr_data<int>({cs}, {cd});"])


# ---------------------------------------------------------------------------------------------------- C16: linalg
def g_matmul(g, shapes, caps):
    # operands of dimension >= 2 only: a 1-d operand of view::matmul (slicing implementation) is the known finding
    # C16:la_matmul:{lhs1d,rhs1d,both1d}:fault / C02:la_matmul:exception:out_of_range -- class not generated
    a, b = shapes
    r = g.rng
    if a is None and b is None:
        a = g.free_shape(caps[0], 2, 3, 3)
    if a is not None and len(a) < 2:
        return None
    if b is not None and len(b) < 2:
        return None
    if b is None:
        for _ in range(30):
            batch = g.partner(a[:-2]) if len(a) > 2 and r.random() < 0.5 else []
            if len(a) > 2 and batch == [1] and r.random() < 0.5:
                batch = []
            b = list(batch) + [a[-1], r.randint(1, 3)]
            if caps[1] is None or prod(b) <= caps[1]:
                break
        else:
            return None
    elif a is None:
        for _ in range(30):
            batch = g.partner(b[:-2]) if len(b) > 2 and r.random() < 0.5 else []
            if len(b) > 2 and batch == [1] and r.random() < 0.5:
                batch = []
            a = list(batch) + [r.randint(1, 3), b[-2]]
            if caps[0] is None or prod(a) <= caps[0]:
                break
        else:
            return None
    if a[-1] != b[-2] or _bshape(a[:-2], b[:-2]) is None:
        return None
    return dict(), [list(a), list(b)]


reg("matmul", 2, [V + "matmul.hpp"], [], "view::matmul({x}, {y})", g_matmul, lambda a, x, y: np.matmul(x, y), absb="abs", product=True)


def g_outer(g, shapes, caps):
    a, b = shapes
    if a is None:
        a = g.free_shape(caps[0], 1, 2, 3)
    if b is None:
        b = g.free_shape(caps[1], 1, 2, 3)
    if prod(a) * prod(b) > 150:
        return None
    return dict(), [list(a), list(b)]


reg("outer", 2, [V + "outer.hpp"], [], "view::outer({x}, {y})", g_outer, lambda a, x, y: np.outer(x, y), product=True)


def g_tensordot(g, shapes, caps):
    a, b = shapes
    r = g.rng
    if a is None and b is None:
        a = g.free_shape(caps[0], 1, 3, 3)
    if b is None:
        n = r.randint(0, min(2, len(a)))
        for _ in range(30):
            b = list(a[len(a) - n:]) + [r.randint(1, 3) for _ in range(r.randint(0 if n else 1, 2))]
            if b and (caps[1] is None or prod(b) <= caps[1]):
                break
        else:
            return None
        if not b:
            return None
    elif a is None:
        n = r.randint(0, min(2, len(b)))
        for _ in range(30):
            a = [r.randint(1, 3) for _ in range(r.randint(0 if n else 1, 2))] + list(b[:n])
            if a and (caps[0] is None or prod(a) <= caps[0]):
                break
        else:
            return None
        if not a:
            return None
    else:
        ok = [n for n in range(0, min(2, len(a), len(b)) + 1) if list(a[len(a) - n:]) == list(b[:n])]
        if not ok:
            return None
        n = r.choice(ok)
    if list(a[len(a) - n:]) != list(b[:n]):
        return None
    if len(a) + len(b) - 2 * n == 0:
        return None      # 0-dimensional result: stays with C16's own workload
    return dict(n=n), [list(a), list(b)]


reg("tensordot", 2, [V + "tensordot.hpp"], [("n", "int")], "view::tensordot({x}, {y}, {n})", g_tensordot,
    lambda a, x, y: np.tensordot(x, y, a["n"]), absb="abs", product=True)


# ---------------------------------------------------------------------------------------------------- C17: nn
def m_softmax(a, x):
    x = np.asarray(x, dtype=np.float64)
    e = np.exp(x - x.max(axis=a["axis"], keepdims=True))
    return e / e.sum(axis=a["axis"], keepdims=True)


reg("softmax", 1, [V + "softmax.hpp"], [("axis", "int")], "view::softmax({x}, {axis})", g_axis, m_softmax, float_only=True)


def g_pool(g, shapes, caps):
    s = shapes[0]
    if s is None:
        s = g.free_shape(None, 1, 2, 2) + [g.rng.randint(2, 4), g.rng.randint(2, 4)]
        if caps[0] is not None and prod(s) > caps[0]:
            s = [1, 2, g.rng.randint(2, 4)]
    s = list(s)
    if len(s) not in (3, 4):
        return None
    r = g.rng
    kh, kw = r.randint(1, min(3, s[-2])), r.randint(1, min(3, s[-1]))
    sh, sw = r.randint(1, 3), r.randint(1, 3)
    ceil = r.randint(0, 1)
    if M17.pool_out_size(s[-2], kh, sh, ceil) <= 0 or M17.pool_out_size(s[-1], kw, sw, ceil) <= 0:
        return None
    return dict(kh=kh, kw=kw, sh=sh, sw=sw, ceil=ceil), [s]


def m_pool(a, x):
    r = M17.pool2d_loops(x, [a["kh"], a["kw"]], [a["sh"], a["sw"]], bool(a["ceil"]), "max")
    if r is None:
        raise Invalid("empty pooling result")
    return r.astype(x.dtype) if x.dtype.kind == "i" else r


reg("max_pool2d", 1, [V + "pooling.hpp"], [("kh", "int"), ("kw", "int"), ("sh", "int"), ("sw", "int"), ("ceil", "int")],
    "view::max_pool2d({x}, {p}k, {p}s, {ceil})", g_pool, m_pool,
    pre=["const nmtools_array<int, 2> {p}k{{kh}, {kw}};", "const nmtools_array<int, 2> {p}s{{sh}, {sw}};"])

# stages whose view over a dynamic-shape leaf is an optional (nmtools_maybe<view>) -- established by compiling every stage
# once over the dynamic leaf kind and printing meta::is_maybe_v of the result (unchanged tree); only used to choose the
# candidates of the '.lifted' structure classes (a wrong entry costs a redundant pipeline, never a verdict)
MAYBE_INNER = ("reshape", "moveaxis", "expand_dims", "squeeze", "roll", "roll_flat", "pad", "broadcast_to", "add_s", "rsubtract_s",
               "multiply_s", "maximum_s", "add", "subtract", "multiply", "maximum", "stack", "where", "outer", "tensordot", "softmax")

LATER_STAGES = ("halve",)       # registered after the first probe of the allow-list (see candidates_rest)

UNARY = [n for n, s in STAGES.items() if s.arity == 1]
BINARY = [n for n, s in STAGES.items() if s.arity == 2]

# Classes excluded from generation until a reported defect of the unchanged library is triaged (nothing is suppressed in
# known_findings.jsonl; each rule names the findings file with the reproducer).  A rule matches a (inner stage, outer stage)
# edge of a pipeline: outer / inner = stage name or None (any), lifted = True: only in the '.lifted' structure classes.
EXCLUSIONS = [
    # (none at present.  The two classes excluded while they were being triaged - lifted pipelines with outer matmul / softmax over an
    #  optional operand - were genuine library defects, repaired in /repo by 50825f1 and 6fec610 (findings/c10_lifted_matmul_dangling_operand.md,
    #  findings/c10_lifted_softmax_optional_array.md, known_findings.jsonl status "fixed") and are generated again.)
]


# =====================================================================================================================
# pipelines (expression trees)
#   node = {"s": stage name, "a": [child, ...]} ; child = node | int (leaf index)
#   spec = {"t": tree, "k": "dd" (leaf kinds: d dynamic ndarray, h hybrid: bounded buffer, run-time shape)}
# =====================================================================================================================
def is_leaf(c):
    return isinstance(c, int)


def nodes_postorder(t, out=None):
    out = [] if out is None else out
    for c in t["a"]:
        if not is_leaf(c):
            nodes_postorder(c, out)
    out.append(t)
    return out


def leaves_of(t):
    out = []
    for n in nodes_postorder(t):
        out += [c for c in n["a"] if is_leaf(c)]
    return sorted(out)


def depth(t):
    return 1 + max([0] + [depth(c) for c in t["a"] if not is_leaf(c)])


def render(t, kinds=None):
    """stage names of a pipeline: sum_i(tile), add(transpose,_), add(_,flip_i), add(tile,flip_i); a stage reading a
    hybrid leaf carries the suffix .h"""
    kids = t["a"]
    suffix = ".h" if kinds and any(is_leaf(c) and kinds[c] == "h" for c in kids) else ""
    if all(is_leaf(c) for c in kids):
        return t["s"] + suffix
    return "%s%s(%s)" % (t["s"], suffix, ",".join("_" if is_leaf(c) else render(c, kinds) for c in kids))


def structure(t):
    """structure class: chain2 | chain3 | tree1l | tree1r (op(f(a),b) / op(a,g(b))) | tree2 (op(f(a),g(b))) | tree3"""
    inner = [c for c in t["a"] if not is_leaf(c)]
    d = depth(t)
    if d == 2:
        if len(inner) == 2:
            return "tree2"
        if len(t["a"]) == 2:
            return "tree1l" if not is_leaf(t["a"][0]) else "tree1r"
        return "chain2"
    if d == 3:
        lin = all(sum(1 for c in n["a"] if not is_leaf(c)) <= 1 for n in nodes_postorder(t))
        return "chain3" if lin else "tree3"
    raise ValueError("unsupported depth %d" % d)


def spec_key(spec):
    return "%s|%s%s" % (_render_full(spec["t"]), spec["k"], "|m" if spec.get("m") else "")


def cls_name(spec):
    """structure class of a pipeline; '.lifted' = the inner result is handed to the outer operation as returned (an optional
    view is not unwrapped first: vh::pipe2_lifted)"""
    return structure(spec["t"]) + (".lifted" if spec.get("m") else "")


def _render_full(t):
    return "%s(%s)" % (t["s"], ",".join(str(c) if is_leaf(c) else _render_full(c) for c in t["a"]))


def spec_id(spec):
    return hashlib.sha1(spec_key(spec).encode()).hexdigest()[:10]


def is_float(spec):
    return any(STAGES[n["s"]].float_only for n in nodes_postorder(spec["t"]))


def has_product(spec):
    return any(STAGES[n["s"]].product for n in nodes_postorder(spec["t"]))


def describe(spec):
    return dict(structure=cls_name(spec), stages=render(spec["t"], spec["k"]))


def key_prefix(spec):
    return "gen:%s:%s" % (cls_name(spec), render(spec["t"], spec["k"]))


def _tree(s, *kids):
    return {"s": s, "a": list(kids)}


def build_spec(tree, kinds=None):
    """numbers the leaves in post-order"""
    counter = [0]

    def walk(t):
        kids = []
        for c in t["a"]:
            if c is None or is_leaf(c):
                kids.append(counter[0])
                counter[0] += 1
            else:
                kids.append(walk(c))
        return {"s": t["s"], "a": kids}
    t = walk(tree)
    n = counter[0]
    return {"t": t, "k": kinds or "d" * n}


def node(stage, *kids):
    """kids: nodes or None (leaf); missing kids are leaves"""
    st = STAGES[stage]
    kids = list(kids) + [None] * (st.arity - len(kids))
    return {"s": stage, "a": kids}


# =====================================================================================================================
# sampling one case of a pipeline
# =====================================================================================================================
def leaf_data(k, shape, mode, rng, attempt):
    n = prod(shape)
    if mode == "float":
        return ((np.arange(n) - n // 2 + k) * 0.25).astype(np.float64)
    if mode == "product":
        if attempt % 3 == 0:
            return (1 + k + np.arange(n)).astype(np.int64)                       # unique small labels
        pool = (-2, -1, 1, 2, 3) if attempt % 3 == 1 else (-1, 1, 1, 1, 2)
        return np.array([rng.choice(pool) for _ in range(n)], dtype=np.int64)
    return (100 + 1000 * k + np.arange(n)).astype(np.int64)                      # unique labels, disjoint per leaf


def _abs_model(st, args, arrs):
    if st.absb == "out":
        return None
    if st.absb == "abs":
        xs = [np.abs(a).astype(np.float64) for a in arrs]
    else:
        xs = [np.maximum(np.abs(a), 1).astype(np.float64) for a in arrs]
    return st.model(args, *xs)


def sample_case(spec, rng, tries=300):
    """-> dict(leaf_shapes, leaf_data, args{node index}, exp, approx, tol, tokens) or None"""
    t = spec["t"]
    order = nodes_postorder(t)
    mode = "float" if is_float(spec) else ("product" if has_product(spec) else "label")
    g = Gen(rng)
    for attempt in range(tries):
        try:
            with np.errstate(all="ignore"):     # (magnitudes are checked explicitly: an overflowing model value is resampled)
                r = _sample_once(spec, order, mode, g, attempt)
        except Invalid:
            continue
        except (ValueError, IndexError, TypeError) as e:    # NumPy rejected what a generator produced: resample
            if os.environ.get("C10_GEN_DEBUG"):
                raise
            continue
        if r is not None:
            return r
    return None


def _sample_once(spec, order, mode, g, attempt):
    kinds = spec["k"]
    leaf_shapes, leaf_arr = {}, {}
    vals = {}
    args_of = {}
    bound = 0.0
    for ni, n in enumerate(order):
        st = STAGES[n["s"]]
        shapes, caps = [], []
        for c in n["a"]:
            if is_leaf(c):
                shapes.append(None)
                caps.append(CAP_H if kinds[c] == "h" else None)
            else:
                shapes.append(list(vals[id(c)].shape))
                caps.append(None)
        r = st.gen(g, shapes, caps)
        if r is None:
            raise Invalid("stage %s does not accept %s" % (st.name, shapes))
        args, chosen = r
        arrs = []
        for c, s in zip(n["a"], chosen):
            if is_leaf(c):
                if kinds[c] == "h" and prod(s) > CAP_H:
                    raise Invalid("leaf exceeds the hybrid capacity")
                leaf_shapes[c] = list(s)
                leaf_arr[c] = leaf_data(c, s, mode, g.rng, attempt).reshape(s)
                arrs.append(leaf_arr[c])
            else:
                arrs.append(vals[id(c)])
        out = np.asarray(st.model(args, *arrs))
        if out.size > MAX_RESULT or out.size == 0:
            raise Invalid("result size")
        if out.ndim == 0 and n is not order[-1]:
            # a 0-dimensional INTERMEDIATE (e.g. a reduction over the only axis feeding another operation) is not generated:
            # the library has no 0-dimensional array views (known finding C03:squeeze:all_ones:nothing; what the compositions
            # do with such an operand is recorded in findings/c10_zero_dim_intermediate.md).  0-dimensional FINAL results are.
            raise Invalid("0-dimensional intermediate")
        if mode != "float" and out.dtype.kind == "f":
            if not np.all(out * 1024 == np.round(out * 1024)):
                raise Invalid("not a multiple of 2^-10: the comparison would not be exact")
        b = float(np.max(np.abs(out))) if out.size else 0.0
        am = _abs_model(st, args, arrs)
        if am is not None:
            b = max(b, float(np.max(am)))
        bound = max(bound, b)
        if mode == "float":
            if not np.all(np.isfinite(out)) or b > 1e6:
                raise Invalid("float magnitude")
        elif b > I32_MAX:
            raise Invalid("not representable in int32")
        vals[id(n)] = out
        args_of[ni] = args
    exp = vals[id(order[-1])]
    nleaf = len(kinds)
    toks = []
    for k in range(nleaf):
        toks.append(fmt_vec(leaf_shapes[k]))
        d = leaf_arr[k].reshape(-1)
        if mode == "float":
            toks.append("%d %s" % (len(d), " ".join(repr(float(x)) for x in d)))
        else:
            toks.append(fmt_vec(d))
    for ni, n in enumerate(order):
        tk = STAGES[n["s"]].tokens(args_of[ni])
        if tk:
            toks.append(tk)
    return dict(leaf_shapes=[leaf_shapes[k] for k in range(nleaf)], args={str(i): a for i, a in args_of.items()}, exp=exp,
                approx=(mode == "float"), tol=(4e-6 * max(1.0, bound) if mode == "float" else 0.0), tokens=" ".join(toks))


# =====================================================================================================================
# C++ emission
# =====================================================================================================================
def op_name(spec):
    return "g10_" + spec_id(spec)


def gen_op(spec):
    """one VH_OP; -> (source text, set of headers)"""
    t = spec["t"]
    order = nodes_postorder(t)
    idx = {id(n): i for i, n in enumerate(order)}
    flt = is_float(spec)
    lines = ["// %s %s   [%s]" % (cls_name(spec), render(t, spec["k"]), spec_key(spec)), "VH_OP(%s)" % op_name(spec), "{",
             "    using T = %s;" % ("float" if flt else "int")]
    for k, kind in enumerate(spec["k"]):
        rd = "in.dvec()" if flt else "in.vec()"
        lines.append("    auto L%ds = in.vec(); auto L%dd = %s;" % (k, k, rd))
        kk = "vh::kind_dyn{}" if kind == "d" else "vh::kind_hyb<%d>{}" % CAP_H
        lines.append("    const auto L%d = vh::make_leaf<T>(%s, L%ds, L%dd);" % (k, kk, k, k))
    incs = set()
    for n in order:
        st = STAGES[n["s"]]
        incs.update(st.inc)
        for d in st.decl("n%d_" % idx[id(n)]):
            lines.append("    " + d)

    def call(n, sub):
        """expression of node n; sub: {id(child node): C++ name of the lambda parameter}"""
        ops = []
        for c in n["a"]:
            ops.append("L%d" % c if is_leaf(c) else sub[id(c)])
        return STAGES[n["s"]].expr("n%d_" % idx[id(n)], ops)

    def nullary(n):
        return "[&]() { return %s; }" % call(n, {})

    def unary(n, child):
        return "[&](const auto& x) { return %s; }" % call(n, {id(child): "x"})

    def binary(n):
        a, b = n["a"]
        return "[&](const auto& x, const auto& y) { return %s; }" % call(n, {id(a): "x", id(b): "y"})

    cls = structure(t)
    inner = [c for c in t["a"] if not is_leaf(c)]
    if cls in ("chain2", "tree1l", "tree1r"):
        body = "vh::%s(out,\n        %s,\n        %s);" % ("pipe2_lifted" if spec.get("m") else "pipe2", nullary(inner[0]), unary(t, inner[0]))
    elif cls == "chain3":
        mid = inner[0]
        low = [c for c in mid["a"] if not is_leaf(c)][0]
        body = "vh::pipe3(out,\n        %s,\n        %s,\n        %s);" % (nullary(low), unary(mid, low), unary(t, mid))
    elif cls == "tree2":
        body = "vh::tree2(out,\n        %s,\n        %s,\n        %s);" % (nullary(inner[0]), nullary(inner[1]), binary(t))
    else:   # tree3
        if len(inner) == 1:
            op = inner[0]
            f, gg = op["a"]
            body = "vh::tree3_top(out,\n        %s,\n        %s,\n        %s,\n        %s);" % (nullary(f), nullary(gg), binary(op), unary(t, op))
        else:
            l, r = inner
            if depth(l) == 2:
                f = [c for c in l["a"] if not is_leaf(c)][0]
                body = "vh::tree3_left(out,\n        %s,\n        %s,\n        %s,\n        %s);" % (nullary(f), unary(l, f), nullary(r), binary(t))
            else:
                gg = [c for c in r["a"] if not is_leaf(c)][0]
                body = "vh::tree3_right(out,\n        %s,\n        %s,\n        %s,\n        %s);" % (nullary(l), nullary(gg), unary(r, gg), binary(t))
    lines.append("    " + body)
    lines.append("}")
    return "\n".join(lines), incs


def gen_tu(specs):
    ops, incs = [], set()
    for s in specs:
        txt, i = gen_op(s)
        ops.append(txt)
        incs |= i
    head = ["// generated by vf/c10_gen.py: C10 pipelines, fused (view of views) vs staged (inner views evaluated first)",
            '#include "pipes.hpp"']
    head += ['#include "%s"' % i for i in sorted(incs)]
    head += ["", "namespace view = nmtools::view;", ""]
    return "\n".join(head) + "\n" + "\n\n".join(ops) + "\n\nVH_MAIN()\n"


# =====================================================================================================================
# candidate set (deterministic)
# =====================================================================================================================
def wrap(outer, inner, pos=0):
    """outer stage over the view `inner` (a node); a binary outer stage gets a fresh leaf at the other position"""
    st = STAGES[outer]
    if st.arity == 1:
        return node(outer, inner)
    return node(outer, inner, None) if pos == 0 else node(outer, None, inner)


def core_specs():
    """always run (both tiers): reductions / accumulations over enlarging inner views on dynamic AND hybrid (bounded
    buffer) leaves - where the inferred result storage of the fused pipeline must not be sized by the innermost array -,
    outer operations over concatenate / stack, representatives of every structure class"""
    out = []
    for o, i in (("sum_i", "tile"), ("cumsum", "repeat"), ("sum_i", "pad")):
        out.append(build_spec(wrap(o, node(i)), "d"))
    for o, i in (("sum_i", "tile"), ("cumsum", "repeat"), ("sum_i", "pad"), ("sum_i", "broadcast_to"), ("cumsum", "tile"),
                 ("amax_i", "repeat"), ("sum_l", "repeat_flat"), ("prod_i", "pad"), ("sum_ik", "tile")):
        out.append(build_spec(wrap(o, node(i)), "h"))
    for o, i in (("sum_i", "concatenate"), ("sum_i", "stack"), ("flip_i", "concatenate"), ("reshape", "stack"), ("slice", "concatenate"),
                 ("slice", "stack")):
        out.append(build_spec(wrap(o, node(i)), "dd"))
    for o, i in (("cumsum", "concatenate"), ("transpose", "stack"), ("sum_i", "stack")):
        out.append(build_spec(wrap(o, node(i)), "hh"))
    out.append(build_spec(wrap("add", node("concatenate"), 1), "ddd"))
    out.append(build_spec(wrap("matmul", node("stack"), 0), "ddd"))
    out.append(build_spec(node("add", node("tile"), node("flip_i")), "dd"))
    out.append(build_spec(node("concatenate", node("transpose"), node("roll")), "dd"))
    out.append(build_spec(node("multiply", node("sum_ik"), node("pad")), "dd"))
    out.append(build_spec(node("subtract", node("repeat"), node("broadcast_to")), "hh"))
    out.append(build_spec(wrap("sum_i", wrap("tile", node("transpose"))), "d"))
    out.append(build_spec(wrap("cumsum", wrap("repeat", node("reshape"))), "h"))
    out.append(build_spec(wrap("reshape", wrap("sum_i", node("pad"))), "h"))
    out.append(build_spec(wrap("sum_i", node("add", node("tile"), node("pad"))), "dd"))
    out.append(build_spec(node("add", wrap("sum_ik", node("tile")), node("flip_i")), "hd"))
    out.append(build_spec(wrap("softmax", node("add")), "dd"))
    out.append(build_spec(wrap("max_pool2d", node("pad")), "d"))
    out.append(build_spec(wrap("where", node("tile"), 1), "dd"))
    for o, i, pos, kinds in (("sum_i", "reshape", 0, "d"), ("transpose", "broadcast_to", 0, "d"), ("cumsum", "pad", 0, "h"),
                             ("subtract", "roll", 1, "dd"), ("negative", "add", 0, "dd")):
        out.append(dict(build_spec(wrap(o, node(i), pos), kinds), m=1))
    uniq = {}
    for s in out:
        uniq.setdefault(spec_key(s), s)
    return list(uniq.values())


def candidates_pairs():
    """every ordered pair (inner stage, outer stage); a binary outer stage with the view in either position"""
    out = []
    for i in STAGES:
        for o in STAGES:
            st = STAGES[o]
            for pos in range(st.arity):
                out.append(build_spec(wrap(o, node(i), pos)))
    return out


def candidates_rest(ok_pairs, rng, n_hyb=220, n_chain3=420, n_tree2=320, n_tree3=200, n_lifted_per_stage=20):
    """sampled from the supported pairs: hybrid-leaf variants, chains of 3, binary trees of depth 2 and 3.
    ok_pairs: set of (inner stage, outer stage, position of the view)"""
    all_pairs = sorted(ok_pairs)
    pairs = [pr for pr in all_pairs if pr[0] not in LATER_STAGES and pr[1] not in LATER_STAGES]   # (samples stay what they were)
    out = []
    # hybrid leaves: every pair whose inner stage enlarges its operand or whose outer stage is a reduction / accumulation
    reds = ("sum_i", "sum_l", "sum_n", "sum_ik", "prod_i", "prod_n", "amax_i", "amax_lk", "cumsum", "cumprod")
    hyb = [(i, o, p) for (i, o, p) in pairs if STAGES[i].enlarging and o in reds]
    others = [(i, o, p) for (i, o, p) in pairs if (i, o, p) not in set(hyb)]
    rng.shuffle(others)
    for (i, o, p) in hyb + others[:max(0, n_hyb - len(hyb))]:
        sp = build_spec(wrap(o, node(i), p))
        out.append(dict(sp, k="h" * len(sp["k"])))
    # lifted pairs (optional inner view handed over as it is): sampled per optional-returning inner stage
    rng2 = random.Random(20260928)      # (own stream: the samples below stay what they were before this class existed)
    for i in MAYBE_INNER:
        outs = [(o, p) for (ii, o, p) in pairs if ii == i]
        rng2.shuffle(outs)
        for (o, p) in outs[:n_lifted_per_stage]:
            sp = build_spec(wrap(o, node(i), p))
            sp["k"] = rng2.choice(("d", "d", "d", "h")) * len(sp["k"])
            out.append(dict(sp, m=1))
    # chains of 3: both adjacent pairs supported
    by_inner = {}
    for (i, o, p) in pairs:
        by_inner.setdefault(i, []).append((o, p))
    seen = set()
    tries = 0
    while len(seen) < n_chain3 and tries < 50 * n_chain3:
        tries += 1
        i, m, p1 = rng.choice(pairs)
        if m not in by_inner:
            continue
        o, p2 = rng.choice(by_inner[m])
        sp = build_spec(wrap(o, wrap(m, node(i), p1), p2))
        k = rng.choice(("d", "d", "h")) * len(sp["k"])
        sp["k"] = k
        if spec_key(sp) not in seen:
            seen.add(spec_key(sp))
            out.append(sp)
    # trees op(f(a), g(b)): (f, op, 0) and (g, op, 1) supported
    seen = set()
    tries = 0
    left = {}
    right = {}
    for (i, o, p) in pairs:
        if STAGES[o].arity == 2:
            (left if p == 0 else right).setdefault(o, []).append(i)
    ops = sorted(set(left) & set(right))
    while ops and len(seen) < n_tree2 and tries < 50 * n_tree2:
        tries += 1
        o = rng.choice(ops)
        f, gg = rng.choice(left[o]), rng.choice(right[o])
        sp = build_spec(node(o, node(f), node(gg)))
        sp["k"] = "".join(rng.choice("ddh") for _ in sp["k"])
        if spec_key(sp) not in seen:
            seen.add(spec_key(sp))
            out.append(sp)
    # depth 3 trees
    seen = set()
    tries = 0
    while ops and len(seen) < n_tree3 and tries < 50 * n_tree3:
        tries += 1
        o = rng.choice(ops)
        f, gg = rng.choice(left[o]), rng.choice(right[o])
        form = rng.choice(("top", "left", "right"))
        if form == "top":
            if o not in by_inner:
                continue
            top, p = rng.choice(by_inner[o])
            tr = wrap(top, node(o, node(f), node(gg)), p)
        elif form == "left":
            cands = [i for (i, m, p) in pairs if m == f and p == 0 and STAGES[f].arity == 1]
            if not cands:
                continue
            tr = node(o, node(f, node(rng.choice(cands))), node(gg))
        else:
            cands = [i for (i, m, p) in pairs if m == gg and p == 0 and STAGES[gg].arity == 1]
            if not cands:
                continue
            tr = node(o, node(f), node(gg, node(rng.choice(cands))))
        sp = build_spec(tr)
        sp["k"] = "".join(rng.choice("dddh") for _ in sp["k"])
        if spec_key(sp) not in seen:
            seen.add(spec_key(sp))
            out.append(sp)
    # stages added after the first probe: own sample (chains of 3 with the stage in the middle, trees with it on the left)
    rng3 = random.Random(20260929)
    for st in LATER_STAGES:
        below = [i for (i, o, p) in all_pairs if o == st and p == 0]        # st(i) supported
        above = [(o, p) for (i, o, p) in all_pairs if i == st]              # o(st) supported
        for _ in range(14):
            if below and above:
                m = rng3.choice(below)
                o, p2 = rng3.choice(above)
                sp = build_spec(wrap(o, wrap(st, node(m)), p2))
                sp["k"] = rng3.choice(("d", "d", "h")) * len(sp["k"])
                out.append(sp)
            if ops:
                o = rng3.choice(ops)
                if (st, o, 0) in ok_pairs:
                    sp = build_spec(node(o, node(st), node(rng3.choice(right[o]))))
                    sp["k"] = "".join(rng3.choice("ddh") for _ in sp["k"])
                    out.append(sp)
    uniq = {}
    for sp in out:
        uniq.setdefault(spec_key(sp), sp)
    return list(uniq.values())


def stage_pairs_of(spec):
    """(inner stage, outer stage) for every parent/child stage edge"""
    out = []
    for n in nodes_postorder(spec["t"]):
        for c in n["a"]:
            if not is_leaf(c):
                out.append((c["s"], n["s"]))
    return out


def excluded(spec):
    """-> findings file of the exclusion rule matching this pipeline, or None"""
    for (i, o) in stage_pairs_of(spec):
        for r in EXCLUSIONS:
            if r.get("lifted") and not spec.get("m"):
                continue
            if r["outer"] in (None, o) and r["inner"] in (None, i):
                return r["file"]
    return None


def exclusion_summary():
    return ["%s%s(%s) -> %s" % ("lifted " if r.get("lifted") else "", r["outer"] or "*", r["inner"] or "*", r["file"]) for r in EXCLUSIONS]


# =====================================================================================================================
# allow-list, partition into translation units, selection per tier
# =====================================================================================================================
_supported_cache = {}


def load_supported():
    try:
        st = os.stat(SUPPORTED)
    except OSError:
        return {"supported": [], "rejected": [], "core": []}
    k = (st.st_mtime_ns, st.st_size)
    if _supported_cache.get("k") != k:
        with open(SUPPORTED) as f:
            _supported_cache["v"] = json.load(f)
        _supported_cache["k"] = k
    return _supported_cache["v"]


def pool_chunks():
    """deterministic partition of the allow-list into translation units, independent of the seed (binaries are shared by all
    seeds and both tiers): {"core": [chunk...], "rest": [chunk...]}, chunk = list of specs (<= TU_SIZE)"""
    sup = load_supported()
    specs = [e["spec"] for e in sup.get("supported", []) if not excluded(e["spec"])]
    by_key = {spec_key(s): s for s in specs}
    core = [by_key[spec_key(s)] for s in core_specs() if spec_key(s) in by_key]
    used = {spec_key(s) for s in core}
    rest = [s for s in specs if spec_key(s) not in used]
    rest.sort(key=lambda s: hashlib.sha1(spec_key(s).encode()).hexdigest())     # mixes structure classes within a chunk

    def chunks(lst):
        return [lst[i:i + TU_SIZE] for i in range(0, len(lst), TU_SIZE)]
    return {"core": chunks(core), "rest": chunks(rest)}


QUICK_CHUNKS = 3
THOROUGH_CHUNKS = 44


def select(tier, seed):
    """translation units of a run: deterministic core + VERIF_SEED-chosen chunks. -> list of chunks"""
    pc = pool_chunks()
    rng = random.Random(seed * 7919 + 10)
    out = list(pc["core"])
    if os.environ.get("C10_ALL"):
        want = len(pc["rest"])                      # developer switch: the whole allow-list (key-closure soak)
    else:
        want = QUICK_CHUNKS if tier == "quick" else THOROUGH_CHUNKS
    idx = list(range(len(pc["rest"])))
    rng.shuffle(idx)
    for i in sorted(idx[:want]):
        out.append(pc["rest"][i])
    return out


def cases_per_pipeline(tier):
    return 10 if tier == "quick" else 30


def gen_cases(chunks, seed, tier, salt=0):
    """-> [(chunk index, spec, [case dict(op, args, exp, approx, tol, ...)])] deterministic given (seed, spec)"""
    out = []
    n = cases_per_pipeline(tier)
    for ci, chunk in enumerate(chunks):
        for spec in chunk:
            h = int(hashlib.sha1(("%d|%d|%s" % (seed, salt, spec_key(spec))).encode()).hexdigest()[:12], 16)
            rng = random.Random(h)
            cases = []
            seen = set()
            for _ in range(n):
                c = sample_case(spec, rng)
                if c is None:
                    break
                if c["tokens"] in seen:
                    continue
                seen.add(c["tokens"])
                cases.append(dict(op=op_name(spec), args=c["tokens"], exp=c["exp"], approx=c["approx"], tol=c["tol"],
                                  leaf_shapes=c["leaf_shapes"], stage_args=c["args"]))
            out.append((ci, spec, cases))
    return out


# =====================================================================================================================
# probe
# =====================================================================================================================
def _compile(src_text, path, timeout=400):
    import subprocess
    import time
    from . import build as B
    with open(path, "w") as f:
        f.write(src_text)
    cmd = ["g++", "-std=c++17", "-O0", "-DNMTOOLS_VERIF", "-D_GLIBCXX_ASSERTIONS", "-isystem", os.path.join(B.REPO, "include"),
           "-I", B.HARNESS, "-fsyntax-only", path]
    txt = ""
    for attempt in range(4):
        try:
            p = subprocess.run(cmd, stdout=subprocess.PIPE, stderr=subprocess.STDOUT, text=True, timeout=timeout)
        except subprocess.TimeoutExpired:
            subprocess.run(["pkill", "-f", path])
            os.remove(path)
            return False, "compilation exceeds %d s" % timeout
        txt = p.stdout
        if p.returncode == 0:
            os.remove(path)
            return True, ""
        if "Killed signal" in txt or "out of memory" in txt or "Cannot allocate" in txt:
            time.sleep(20 * (attempt + 1))
            continue
        break
    os.remove(path)
    err = ""
    for ln in txt.splitlines():
        if "error" in ln:
            err = ln[-300:]
            break
    return False, err or txt[-300:]


def _probe_group(specs, work, tag):
    """bisecting probe of a group: -> [(spec, ok, why)]"""
    ok, err = _compile(gen_tu(specs), os.path.join(work, "p_%s.cpp" % tag), timeout=400 + 60 * len(specs))
    if ok:
        return [(s, True, "") for s in specs]
    if len(specs) == 1:
        return [(specs[0], False, err)]
    h = len(specs) // 2
    return _probe_group(specs[:h], work, tag + "a") + _probe_group(specs[h:], work, tag + "b")


def _probe(cands, prev_ok, prev_rej, work, jobs, group=6):
    """-> (supported entries, rejected entries); verdicts of the existing file are kept"""
    from concurrent.futures import ThreadPoolExecutor
    todo, ok, rej = [], [], []
    for s in cands:
        k = spec_key(s)
        if k in prev_ok:
            # (the argument classes may have been restricted since the verdict was recorded)
            if sample_case(s, random.Random(k), tries=400) is None:
                rej.append((s, "no valid argument set found"))
            else:
                ok.append(s)
        elif k in prev_rej:
            rej.append((s, prev_rej[k]))
        else:
            todo.append(s)
    sys.stderr.write("  %d candidates: %d kept supported, %d kept rejected, %d to probe\n" % (len(cands), len(ok), len(rej), len(todo)))
    # a candidate needs at least one argument set
    live = []
    for s in todo:
        r = random.Random(spec_key(s))
        if sample_case(s, r, tries=400) is None:
            rej.append((s, "no valid argument set found"))
        else:
            live.append(s)
    # group candidates with the same inner stage (failures cluster by pair)
    live.sort(key=spec_key)
    groups = [live[i:i + group] for i in range(0, len(live), group)]
    done = 0
    with ThreadPoolExecutor(max_workers=jobs) as ex:
        for res in ex.map(lambda a: _probe_group(a[1], work, "%d_%d" % (os.getpid(), a[0])), list(enumerate(groups))):
            for s, good, why in res:
                if good:
                    ok.append(s)
                else:
                    rej.append((s, why))
            done += 1
            if done % 20 == 0:
                sys.stderr.write("  %d/%d groups, supported %d rejected %d\n" % (done, len(groups), len(ok), len(rej)))
    return ok, rej


def _probe_main(argv):
    from . import build as B
    work = os.path.join(B.BUILD, "c10_probe")
    os.makedirs(work, exist_ok=True)
    jobs = int(os.environ.get("VERIF_JOBS", "8"))
    prev_ok, prev_rej = {}, {}
    if os.path.exists(SUPPORTED) and "--fresh" not in argv:
        old = json.load(open(SUPPORTED))
        for e in old.get("supported", []):
            prev_ok[spec_key(e["spec"])] = True
        for e in old.get("rejected", []):
            prev_rej[spec_key(e["spec"])] = e["why"]
    core = core_specs()
    pairs = candidates_pairs()
    sys.stderr.write("phase 1: core + every ordered stage pair\n")
    uniq = {}
    for s in core + pairs:
        uniq.setdefault(spec_key(s), s)
    ok1, rej1 = _probe(list(uniq.values()), prev_ok, prev_rej, work, jobs)
    ok_pairs = set()
    for s in ok1:
        t = s["t"]
        if depth(t) == 2 and set(s["k"]) == {"d"}:
            inner = [(p, c) for p, c in enumerate(t["a"]) if not is_leaf(c)]
            if len(inner) == 1:
                ok_pairs.add((inner[0][1]["s"], t["s"], inner[0][0]))
    sys.stderr.write("phase 2: hybrid leaves, chains of 3, trees (sampled from %d supported pairs)\n" % len(ok_pairs))
    rest = candidates_rest(ok_pairs, random.Random(20260927))
    uniq2 = {}
    for s in rest:
        if spec_key(s) not in uniq:
            uniq2.setdefault(spec_key(s), s)
    ok2, rej2 = _probe(list(uniq2.values()), prev_ok, prev_rej, work, jobs, group=4)
    ok, rej = ok1 + ok2, rej1 + rej2
    core_keys = {spec_key(s) for s in core}
    with open(SUPPORTED, "w") as f:
        f.write('{"version": 1, "note": "compile-probed against the unchanged tree by: VERIF_JOBS=10 python3-vt -m vf.c10_gen --probe '
                '(g++ -fsyntax-only; incremental: verdicts in this file are kept unless --fresh)",\n')
        f.write(' "stages": %s,\n' % json.dumps(sorted(STAGES)))
        f.write(' "core": %s,\n' % json.dumps(sorted(spec_key(s) for s in ok if spec_key(s) in core_keys)))
        f.write(' "core_rejected": %s,\n' % json.dumps(sorted(spec_key(s) for s, _ in rej if spec_key(s) in core_keys)))
        f.write(' "supported": [\n')
        f.write(",\n".join("  " + json.dumps({"spec": s, "cls": cls_name(s), "stages": render(s["t"], s["k"])}, sort_keys=True)
                           for s in sorted(ok, key=spec_key)))
        f.write('\n ],\n "rejected": [\n')
        f.write(",\n".join("  " + json.dumps({"spec": s, "stages": render(s["t"], s["k"]), "why": why}, sort_keys=True)
                           for s, why in sorted(rej, key=lambda e: spec_key(e[0]))))
        f.write("\n ]\n}\n")
    sys.stderr.write("supported %d, rejected %d -> %s\n" % (len(ok), len(rej), SUPPORTED))


def _stats():
    sup = load_supported()
    cls = {}
    for e in sup["supported"]:
        cls[e["cls"]] = cls.get(e["cls"], 0) + 1
    print("stages: %d (%d unary, %d binary)" % (len(STAGES), len(UNARY), len(BINARY)))
    print("supported %d %s, rejected %d" % (len(sup["supported"]), cls, len(sup["rejected"])))
    why = {}
    for e in sup["rejected"]:
        w = e["why"]
        w = "no valid argument set found" if w.startswith("no valid") else ("timeout" if "exceeds" in w else "does not compile")
        why[w] = why.get(w, 0) + 1
    print("rejected by reason:", why)
    pc = pool_chunks()
    print("translation units: core %d (%d pipelines), rest %d" % (len(pc["core"]), sum(len(c) for c in pc["core"]), len(pc["rest"])))
    for tier in ("quick", "thorough"):
        for seed in (0, 1):
            ch = select(tier, seed)
            print("  %s seed %d: %d TUs, %d pipelines" % (tier, seed, len(ch), sum(len(c) for c in ch)))
    if sup.get("core_rejected"):
        print("core specs rejected:", sup["core_rejected"])


if __name__ == "__main__":
    if "--probe" in sys.argv:
        _probe_main(sys.argv[1:])
    elif "--stats" in sys.argv:
        _stats()
    elif "--show" in sys.argv:
        sp = core_specs()[int(sys.argv[sys.argv.index("--show") + 1])]
        print(gen_tu([sp]))
        print(sample_case(sp, random.Random(1)))
    else:
        print(__doc__)
