"""Which harness sources are built in which flavour for the quick tier (used by setup)."""
import os

from . import build as B

QUICK = [
    ("c01_index", "asan"),
]


def quick_targets():
    return [B.Target(os.path.join(B.HARNESS, n + ".cpp"), f) for n, f in QUICK]
