"""Which harness sources are built in which flavour for the quick tier (used by setup)."""
import glob
import importlib
import os

from . import build as B
from .integrated import CLAIMED


def quick_targets():
    seen = set()
    out = []
    for f in sorted(glob.glob(os.path.join(B.VERIF, "vf", "checks", "c[0-9][0-9].py"))):
        if os.path.basename(f)[:-3].upper() not in CLAIMED:
            continue
        m = importlib.import_module("vf.checks." + os.path.basename(f)[:-3])
        if not getattr(m, "CLAIM", None):
            continue
        for item in getattr(m, "TARGETS_QUICK", []):
            if callable(item):
                for t in item():
                    k = (t.name, t.flavor, tuple(t.extra))
                    if k not in seen:
                        seen.add(k)
                        out.append(t)
                continue
            n, fl = item[0], item[1]
            extra = list(item[2]) if len(item) > 2 else []
            k = (n, fl, tuple(extra))
            if k not in seen:
                seen.add(k)
                out.append(B.Target(os.path.join(B.HARNESS, n + ".cpp"), fl, extra))
    return out
