"""C08 op table: reduction / accumulation entry points x configurations (axis kind, dtype, initial, keepdims kind).

`python3-vt -m vf.c08_table` regenerates harness/c08_*.cpp (development-time; generated sources are committed).
vf/checks/c08.py reads the same table at run time.

Configuration codes in op names: a{I,L,N} axis = run-time int / run-time list / None; d{N,<tag>} dtype absent / given;
i{N,Y} initial absent / given; k{T,F,R} keepdims = True_t / False_t / run-time bool.
"""
import itertools
import os

CTYPE = {"i1": "int8_t", "i2": "int16_t", "i4": "int32_t", "i8": "int64_t", "u1": "uint8_t", "u4": "uint32_t", "u8": "uint64_t",
         "f4": "float", "f8": "double"}
DTYPE = {"N": "nm::None", "i4": "nm::int32", "i8": "nm::int64", "f4": "nm::float32", "f8": "nm::float64", "u8": "nm::uint64"}
DTYPE_T = {"N": "nm::none_t", "i4": "nm::dtype::int32_t", "i8": "nm::dtype::int64_t", "f4": "nm::dtype::float32_t", "f8": "nm::dtype::float64_t"}
AK = {"I": "AxI", "L": "AxL", "N": "AxN", "C": "AxC", "S": "AxS"}   # S = list in a static_vector<int,4> that is not full, fixed-dim-3 source   # C = compile-time int axis (meta::ct_v<k>, k in -3..2)
KK = {"T": "KT", "F": "KF", "R": "KR"}
IK = {"N": "IN", "Y": "IY"}

# pairwise-covering subset of {I,L,N} x {N,d1,d2} x {N,Y} x {T,F,R}
COVER = [("I", 0, "N", "F"), ("I", 1, "Y", "T"), ("I", 2, "N", "R"), ("L", 0, "Y", "R"), ("L", 1, "N", "F"), ("L", 2, "Y", "T"),
         ("N", 0, "N", "T"), ("N", 1, "Y", "R"), ("N", 2, "Y", "F")]
FULL = [(a, d, i, k) for a in "ILN" for d in (0, 1, 2) for i in "NY" for k in "TFR"]

OPS = []   # dict(name=op name, grp, kind, ...) one per VH_OP


def functor(op, dt):
    """scalar functor the named reduce_<op> wrappers construct for dtype dt"""
    res = "nm::none_t" if dt == "N" else CTYPE[dt]
    t = {"add": "view::add_t", "multiply": "view::multiply_t", "maximum": "view::maximum_t", "minimum": "view::minimum_t",
         "subtract": "view::subtract_t"}[op]
    return "%s<nm::none_t,nm::none_t,%s>{}" % (t, res)


def add_reduce(grp, fam, op, T, a, dt, i, k, call, sf, hdr, npop, data, post=None, prefix="red", multi_axis=True):
    name = "%s_%s_%s_a%s_d%s_i%s_k%s" % (prefix, fam, T, a, dt, i, k)
    R = T if dt == "N" else dt
    OPS.append(dict(name=name, grp=grp, kind="reduce", fam=fam, op=op, T=T, R=R, axis=a, dtype=dt, init=i, keep=k, call=call, sf=sf, hdr=hdr,
                    npop=npop, data=data, post=post, multi_axis=multi_axis))


H = "nmtools/array/view/ufuncs/%s.hpp"
NAMED = {"add": "add", "multiply": "mul", "maximum": "max", "minimum": "min"}
DATA = {"add": "labels", "multiply": "pm12", "maximum": "labels", "minimum": "labels"}
# ---- view::reduce_<op>(a, axis, dtype, initial, keepdims)
for op in ("add", "multiply", "maximum", "minimum"):
    for T, dts in (("i4", ("N", "i8", "f8")), ("f8", ("N", "f4", "f8"))):
        combos = FULL if (op, T) == ("add", "i4") else COVER
        grp = "add" if (op, T) == ("add", "i4") else ("ops_i" if T == "i4" else "ops_f")
        for a, d, i, k in combos:
            dt = dts[d]
            add_reduce(grp, op, op, T, a, dt, i, k, "view::reduce_%s(a, axis, %s, initial, keepdims)" % (op, DTYPE[dt]), functor(op, dt), H % op, op, DATA[op])
# ---- generic entry point view::reduce(op, a, axis, dtype, initial, keepdims) with functors that have no named wrapper
for op, sf, hdr in (("bitwise_and", "view::bitwise_and_t{}", H % "bitwise_and"), ("bitwise_or", "view::bitwise_or_t{}", H % "bitwise_or"),
                    ("bitwise_xor", "view::bitwise_xor_t{}", H % "bitwise_xor")):
    for a, i, k in (("I", "N", "F"), ("L", "Y", "T"), ("N", "N", "R"), ("L", "N", "R"), ("I", "Y", "R"), ("N", "Y", "T")):
        add_reduce("generic", op, op, "i4", a, "N", i, k, "view::reduce(%s, a, axis, nm::None, initial, keepdims)" % sf, sf, hdr, op, "bits")
# order-exposing: subtract (single axis: NumPy refuses to reorder) and the tagging op acc*31+x (uint64, any axes in nmtools;
# single axis and None-on-1-D only are order-defined in NumPy terms, multi-axis = increasing C order per the property)
for a, i, k in (("I", "N", "F"), ("I", "Y", "T"), ("I", "N", "R"), ("I", "Y", "F")):
    add_reduce("generic", "subtract", "subtract", "i4", a, "N", i, k, "view::reduce_subtract(a, axis, nm::None, initial, keepdims)",
               functor("subtract", "N"), H % "subtract", "subtract", "labels", multi_axis=False)
add_reduce("generic", "subtract", "subtract", "i4", "I", "f8", "N", "F", "view::reduce_subtract(a, axis, nm::float64, initial, keepdims)",
           functor("subtract", "f8"), H % "subtract", "subtract", "labels", multi_axis=False)
for a, i, k in (("I", "N", "F"), ("L", "N", "F"), ("N", "N", "F"), ("L", "Y", "T"), ("I", "Y", "R"), ("N", "Y", "R"), ("L", "N", "R"), ("N", "N", "T"), ("I", "N", "T")):
    add_reduce("generic", "tag", "tag", "u8", a, "N", i, k, "view::reduce(c08::tag_op{}, a, axis, nm::None, initial, keepdims)", "c08::tag_op{}", H % "add", "tag", "labels")
# reduce_logical_*(a, axis)
for op in ("logical_and", "logical_or", "logical_xor"):
    for a in ("I", "L"):
        name = "red_%s_i4_a%s" % (op, a)
        OPS.append(dict(name=name, grp="generic", kind="reduce2", fam=op, op=op, T="i4", R="i4", axis=a, dtype="N", init="N", keep="F",
                        call="view::reduce_%s(a, axis)" % op, sf="view::%s_t{}" % op, hdr=H % op, npop=op, data="zeros", post=None, multi_axis=True,
                        ident={"logical_and": "true", "logical_or": "false", "logical_xor": "false"}[op]))
# ---- accumulate
for op, T, dt in (("add", "i4", "N"), ("add", "i4", "f8"), ("add", "f8", "N"), ("multiply", "i4", "N"), ("multiply", "f8", "f4")):
    name = "acc_%s_%s_d%s" % (op, T, dt)
    call = "view::accumulate_%s(a, axis%s)" % (op, "" if dt == "N" else ", " + DTYPE[dt])
    OPS.append(dict(name=name, grp="accum", kind="accumulate", fam=op, op=op, T=T, R=T if dt == "N" else dt, dtype=dt, call=call, sf=functor(op, dt), hdr=H % op,
                    npop=op, data=DATA[op]))
for fam, sf, T, hdr, npop in (("subtract", functor("subtract", "N"), "i4", H % "subtract", "subtract"), ("tag", "c08::tag_op{}", "u8", H % "add", "tag"),
                              ("maximum", functor("maximum", "N"), "i4", H % "maximum", "maximum")):
    call = {"subtract": "view::accumulate_subtract(a, axis)", "tag": "view::accumulate(c08::tag_op{}, a, axis)", "maximum": "view::accumulate_maximum(a, axis)"}[fam]
    OPS.append(dict(name="acc_%s_%s_dN" % (fam, T), grp="accum", kind="accumulate", fam=fam, op=fam, T=T, R=T, dtype="N", call=call, sf=sf, hdr=hdr, npop=npop, data="labels"))
for fam, op, T, dt, hdr in (("cumsum", "add", "i4", "N", "nmtools/array/view/cumsum.hpp"), ("cumsum", "add", "f8", "N", "nmtools/array/view/cumsum.hpp"),
                            ("cumsum", "add", "i4", "f8", "nmtools/array/view/cumsum.hpp"),
                            ("cumsum", "add", "i4", "i8", "nmtools/array/view/cumsum.hpp"),
                            ("cumprod", "multiply", "i4", "N", "nmtools/array/view/cumprod.hpp"), ("cumprod", "multiply", "f8", "N", "nmtools/array/view/cumprod.hpp"),
                            # an explicit dtype must type (and carry) the running fold of the named wrappers too
                            ("cumprod", "multiply", "i4", "f8", "nmtools/array/view/cumprod.hpp"), ("cumprod", "multiply", "i4", "i8", "nmtools/array/view/cumprod.hpp"),
                            ("cumprod", "multiply", "f8", "f4", "nmtools/array/view/cumprod.hpp")):
    call = "view::%s(a, axis%s)" % (fam, "" if dt == "N" else ", " + DTYPE[dt])
    OPS.append(dict(name="acc_%s_%s_d%s" % (fam, T, dt), grp="accum", kind="accumulate", fam=fam, op=op, T=T, R=T if dt == "N" else dt, dtype=dt, call=call,
                    sf=functor(op, dt), hdr=hdr, npop=op, data=DATA[op]))
# ---- compile-time axis (meta::ct_v<k>): the constant-index branches of the reduction / accumulation index helpers (group 'ct')
for op, T, dt, i, k in (("add", "i4", "N", "N", "F"), ("add", "i4", "i8", "Y", "T"), ("add", "f8", "N", "N", "R"), ("multiply", "i4", "N", "Y", "F"),
                        ("maximum", "i4", "N", "N", "T"), ("minimum", "f8", "f8", "Y", "F")):
    add_reduce("ct", op, op, T, "C", dt, i, k, "view::reduce_%s(a, axis, %s, initial, keepdims)" % (op, DTYPE[dt]), functor(op, dt), H % op, op, DATA[op])
for op, T, dt, i, k in (("add", "i4", "N", "N", "F"), ("add", "i4", "N", "Y", "T"), ("maximum", "i4", "N", "Y", "F"), ("multiply", "f8", "N", "N", "R")):
    add_reduce("ct", op, op, T, "S", dt, i, k, "view::reduce_%s(a, axis, %s, initial, keepdims)" % (op, DTYPE[dt]), functor(op, dt), H % op, op, DATA[op])
add_reduce("ct", "sum", "add", "i4", "S", "N", "N", "F", "view::sum(a, axis, nm::None, initial, keepdims)", functor("add", "N"), "nmtools/array/view/sum.hpp", "add", "labels", prefix="wr")
add_reduce("ct", "sum", "add", "i4", "C", "N", "N", "F", "view::sum(a, axis, nm::None, initial, keepdims)", functor("add", "N"), "nmtools/array/view/sum.hpp", "add", "labels", prefix="wr")
add_reduce("ct", "prod", "multiply", "i4", "C", "f8", "N", "T", "view::prod(a, axis, nm::float64, initial, keepdims)", functor("multiply", "f8"), "nmtools/array/view/prod.hpp", "multiply", "pm12", prefix="wr")
for fam, op, T, dt, hdr in (("cumsum", "add", "i4", "N", "nmtools/array/view/cumsum.hpp"), ("cumprod", "multiply", "i4", "N", "nmtools/array/view/cumprod.hpp"),
                            ("cumsum", "add", "i4", "f8", "nmtools/array/view/cumsum.hpp")):
    call = "view::%s(a, axis%s)" % (fam, "" if dt == "N" else ", " + DTYPE[dt])
    OPS.append(dict(name="acc_%s_%s_d%s_aC" % (fam, T, dt), grp="ct", kind="accumulate_ct", fam=fam, op=op, T=T, R=T if dt == "N" else dt, dtype=dt, call=call,
                    sf=functor(op, dt), hdr=hdr, npop=op, data=DATA[op], axis="C"))
# ---- named wrappers: sum / prod
for fam, op, hdr in (("sum", "add", "nmtools/array/view/sum.hpp"), ("prod", "multiply", "nmtools/array/view/prod.hpp")):
    for T, dts in (("i4", ("N", "i8", "f8")), ("f8", ("N", "f4", "f8"))):
        for a, d, i, k in (COVER if T == "i4" else COVER[::2]):
            dt = dts[d]
            add_reduce("wrap_a", fam, op, T, a, dt, i, k, "view::%s(a, axis, %s, initial, keepdims)" % (fam, DTYPE[dt]), functor(op, dt), hdr, op, DATA[op], prefix="wr")
    # short forms
    OPS.append(dict(name="wr_%s2_i4_aI" % fam, grp="wrap_a", kind="reduce2", fam=fam, op=op, T="i4", R="i4", axis="I", dtype="N", init="N", keep="F",
                    call="view::%s(a, axis)" % fam, sf=functor(op, "N"), hdr=hdr, npop=op, data=DATA[op], post=None, multi_axis=True))
    OPS.append(dict(name="wr_%s2_i4_aL" % fam, grp="wrap_a", kind="reduce2", fam=fam, op=op, T="i4", R="i4", axis="L", dtype="N", init="N", keep="F",
                    call="view::%s(a, axis)" % fam, sf=functor(op, "N"), hdr=hdr, npop=op, data=DATA[op], post=None, multi_axis=True))
# ---- amax / amin
for fam, op in (("amax", "maximum"), ("amin", "minimum")):
    hdr = H % fam
    for T, dts in (("i4", ("N", "i8", "f8")), ("f8", ("N", "f4", "f8"))):
        for a, d, i, k in (COVER if T == "i4" else COVER[1::3]):
            dt = dts[d]
            add_reduce("wrap_a", fam, op, T, a, dt, i, k, "view::%s(a, axis, %s, initial, keepdims)" % (fam, DTYPE[dt]), functor(op, dt), hdr, op, "labels", prefix="wr")
    OPS.append(dict(name="wr_%s1_i4" % fam, grp="wrap_a", kind="default", fam=fam, op=op, T="i4", R="i4", axis="N", dtype="N", init="N", keep="F",
                    call="view::%s(a)" % fam, sf=functor(op, "N"), hdr=hdr, npop=op, data="labels"))
    for a in ("I", "L"):
        OPS.append(dict(name="wr_%s2_i4_a%s" % (fam, a), grp="wrap_a", kind="reduce2", fam=fam, op=op, T="i4", R="i4", axis=a, dtype="N", init="N", keep="F",
                        call="view::%s(a, axis)" % fam, sf=functor(op, "N"), hdr=hdr, npop=op, data="labels", post=None, multi_axis=True))
# ---- mean(a, axis, dtype, keepdims)
MEAN_CFG = {("i4", "N"): list(itertools.product("ILN", "TFR")), ("i4", "f8"): [("I", "F"), ("L", "T"), ("N", "R")], ("i4", "f4"): [("L", "F"), ("N", "T")],
            ("f8", "N"): [("I", "F"), ("L", "T"), ("N", "R"), ("I", "R"), ("N", "F")], ("f8", "f8"): [("L", "F")], ("f4", "N"): [("I", "T"), ("L", "F"), ("N", "F")]}
for (T, dt), cfgs in MEAN_CFG.items():
    for a, k in cfgs:
        R = dt if dt != "N" else ("f4" if T[0] == "i" else T)
        name = "wr_mean_%s_a%s_d%s_k%s" % (T, a, dt, k)
        OPS.append(dict(name=name, grp="wrap_b", kind="reduce", fam="mean", op="add", T=T, R=R, axis=a, dtype=dt, init="N", keep=k,
                        call="view::mean(a, axis, %s, keepdims)" % DTYPE[dt], sf=functor("add", R), hdr="nmtools/array/view/mean.hpp", npop="mean",
                        data="labels", post="c08::post_mean", multi_axis=True))
# ---- var / stddev (a, axis, dtype, ddof, keepdims)
VAR_CFG = {"var": {("i4", "N"): [("I", "F"), ("I", "T"), ("L", "F"), ("L", "R"), ("N", "F"), ("N", "T")], ("i4", "f8"): [("I", "F"), ("L", "T")],
                   ("f8", "N"): [("I", "F"), ("N", "F")], ("f4", "N"): [("L", "T")]},
           "stddev": {("i4", "N"): [("I", "F"), ("L", "T"), ("N", "F"), ("I", "R")], ("i4", "f8"): [("L", "T")], ("f8", "N"): [("I", "F")], ("f4", "N"): [("L", "F")]}}
for fam, sq in (("var", "false"), ("stddev", "true")):
    for (T, dt), cfgs in VAR_CFG[fam].items():
        for a, k in cfgs:
            name = "wr_%s_%s_a%s_d%s_k%s" % (fam, T, a, dt, k)
            OPS.append(dict(name=name, grp="wrap_v" if fam == "var" else "wrap_s", kind="var", fam=fam, T=T, R=None, axis=a, dtype=dt, keep=k, sqrt=sq,
                            call="view::%s(a, axis, %s, ddof, keepdims)" % (fam, DTYPE[dt]), hdr="nmtools/array/view/%s.hpp" % fam, data="labels"))
# ---- vector_norm(a, axis, keepdims, ord)
for T in ("f8", "f4", "i4"):
    for a, k in itertools.product("ILN", "TFR"):
        if T != "f8" and (a, k) not in (("I", "F"), ("L", "T"), ("N", "F")):
            continue
        name = "wr_norm_%s_a%s_k%s" % (T, a, k)
        OPS.append(dict(name=name, grp="wrap_c", kind="norm", fam="vector_norm", T=T, R=None, axis=a, dtype="N", keep=k,
                        call="view::vector_norm(a, axis, keepdims, ord)", hdr="nmtools/array/view/vector_norm.hpp", data="labels"))
# ---- trace
for T, dt in (("i4", "N"), ("f8", "N"), ("i4", "f8")):
    OPS.append(dict(name="wr_trace_%s_d%s" % (T, dt), grp="wrap_c", kind="trace", fam="trace", op="add", T=T, R=T if dt == "N" else dt, dtype=dt,
                    call="view::trace(a, offset, axis1, axis2%s)" % ("" if dt == "N" else ", " + DTYPE[dt]), sf=functor("add", dt), hdr="nmtools/array/view/trace.hpp", npop="add", data="labels"))
OPS.append(dict(name="wr_trace0_i4", grp="wrap_c", kind="trace0", fam="trace", op="add", T="i4", R="i4", dtype="N",
                call="view::trace(a)", sf=functor("add", "N"), hdr="nmtools/array/view/trace.hpp", npop="add", data="labels"))

GROUPS = ["add", "ops_i", "ops_f", "generic", "accum", "wrap_a", "wrap_b", "wrap_v", "wrap_s", "wrap_c", "ct"]
HARNESS = ["c08_" + g for g in GROUPS]
BY_NAME = {o["name"]: o for o in OPS}
assert len(BY_NAME) == len(OPS), "duplicate op names"


def generate():
    harness = os.path.join(os.path.dirname(os.path.dirname(os.path.abspath(__file__))), "harness")
    for g in GROUPS:
        ops = [o for o in OPS if o["grp"] == g]
        hdrs = sorted({o["hdr"] for o in ops})
        stats = any(o["kind"] in ("var", "norm") for o in ops)
        lines = ["// GENERATED by `python3-vt -m vf.c08_table` from vf/c08_table.py - do not edit by hand.",
                 "// C08 group '%s': %s" % (g, ", ".join(sorted({o["fam"] for o in ops}))),
                 '#include "%s"' % ("c08_stats.hpp" if stats else "c08_common.hpp")]
        lines += ['#include "%s"' % h for h in hdrs]
        lines += ["", "using namespace c08;", ""]
        for o in ops:
            T = CTYPE[o["T"]]
            k = o["kind"]
            if k == "reduce":
                R = CTYPE[o["R"]]
                I = T
                vf = "[](const auto& a, const auto& axis, auto initial, auto keepdims){ return %s; }" % o["call"]
                post = (", %s{}" % o["post"]) if o.get("post") else ""
                body = "reduce_case<%s,%s,%s,%s,%s,%s>(in, out, %s, %s%s);" % (T, R, I, AK[o["axis"]], KK[o["keep"]], IK[o["init"]], vf, o["sf"], post)
            elif k == "reduce2" and o.get("ident") is not None:
                # wrappers with a built-in initial value (the identity of the operation)
                body = ("Operand<%s> oa(in, 'A'); auto axis = read_axis<%s>(in); in.i(); rd<%s>(in); Groups gr(in); auto a = oa.arr(); auto v = %s; "
                        "emit_any<%s>(out, v); emit_folds<%s>(out, gr, oa.data, %s, true, %s, post_id{});" % (
                            T, AK[o["axis"]], T, o["call"], CTYPE[o["R"]], CTYPE[o["R"]], o["sf"], o["ident"]))
            elif k == "reduce2":
                vf = "[](const auto& a, const auto& axis, auto, auto){ return %s; }" % o["call"]
                body = "reduce_case<%s,%s,%s,%s,KF,IN>(in, out, %s, %s);" % (T, CTYPE[o["R"]], T, AK[o["axis"]], vf, o["sf"])
            elif k == "default":
                vf = "[](const auto& a){ return %s; }" % o["call"]
                body = "default_case<%s,%s>(in, out, %s, %s);" % (T, CTYPE[o["R"]], vf, o["sf"])
            elif k == "accumulate":
                vf = "[](const auto& a, int axis){ return %s; }" % o["call"]
                body = "accumulate_case<%s,%s>(in, out, %s, %s);" % (T, CTYPE[o["R"]], vf, o["sf"])
            elif k == "accumulate_ct":
                vf = "[](const auto& a, auto axis){ return %s; }" % o["call"]
                body = "accumulate_case_ct<%s,%s>(in, out, %s, %s);" % (T, CTYPE[o["R"]], vf, o["sf"])
            elif k == "var":
                vf = "[](const auto& a, const auto& axis, size_t ddof, auto keepdims){ return %s; }" % o["call"]
                body = "var_case<%s,%s,%s,%s,%s>(in, out, %s);" % (T, DTYPE_T[o["dtype"]], o["sqrt"], AK[o["axis"]], KK[o["keep"]], vf)
            elif k == "norm":
                vf = "[](const auto& a, const auto& axis, auto keepdims, nm_index_t ord){ return %s; }" % o["call"]
                body = "norm_case<%s,%s,%s>(in, out, %s);" % (T, AK[o["axis"]], KK[o["keep"]], vf)
            elif k == "trace":
                body = ("Operand<%s> oa(in, 'A'); int offset = (int)in.i(); int axis1 = (int)in.i(); int axis2 = (int)in.i(); Groups gr(in); auto a = oa.arr(); "
                        "auto v = %s; emit_any<%s>(out, v); emit_folds<%s>(out, gr, oa.data, %s, false, 0, post_id{});" % (T, o["call"], CTYPE[o["R"]], CTYPE[o["R"]], o["sf"]))
            elif k == "trace0":
                body = ("Operand<%s> oa(in, 'A'); Groups gr(in); auto a = oa.arr(); "
                        "auto v = %s; emit_any<%s>(out, v); emit_folds<%s>(out, gr, oa.data, %s, false, 0, post_id{});" % (T, o["call"], CTYPE[o["R"]], CTYPE[o["R"]], o["sf"]))
            else:
                raise KeyError(k)
            lines.append("VH_OP(%s) { %s }" % (o["name"], body))
        lines += ["", "VH_MAIN()", ""]
        with open(os.path.join(harness, "c08_%s.cpp" % g), "w") as f:
            f.write("\n".join(lines))
    return [os.path.join(harness, "c08_%s.cpp" % g) for g in GROUPS]


if __name__ == "__main__":
    for p in generate():
        print("wrote", p)
    print(len(OPS), "ops")
