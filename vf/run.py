"""Run harness binaries over case files with crash containment.

Protocol (see harness/common.hpp): the runner prints `B <id>` before a case and
`R <id> <tokens...>` after it.  If the process dies, the death is attributed to
the last begun case, its stderr is kept as the witness and the runner is
restarted after that case.
"""
import os
import re
import shutil
import signal
import subprocess
import sys
import tempfile
import time
from concurrent.futures import ThreadPoolExecutor

from . import build as B

ENV_SAN = {
    "ASAN_OPTIONS": "abort_on_error=1:detect_leaks=0:allocator_may_return_null=1:handle_abort=0:detect_stack_use_after_return=0",
    "UBSAN_OPTIONS": "print_stacktrace=1:halt_on_error=1",
    "TSAN_OPTIONS": "halt_on_error=1:second_deadlock_stack=1",
    "LSAN_OPTIONS": "exitcode=23",
}


def _clip(err):
    if len(err) <= 9000:
        return err
    return err[:4000] + "\n[...]\n" + err[-5000:]


class Crash:
    def __init__(self, case_id, rc, stderr):
        self.case_id = case_id
        self.rc = rc
        self.stderr = stderr

    def kind(self):
        s = self.stderr
        if "AddressSanitizer" in s:
            m = re.search(r"AddressSanitizer: ([A-Za-z][\w-]*)", s)
            return "asan:" + (m.group(1) if m else "?")
        if "LeakSanitizer" in s:
            return "lsan:leak"
        if "runtime error:" in s:
            m = re.search(r"runtime error: ([^\n]{0,60})", s)
            w = m.group(1) if m else "?"
            w = re.sub(r"-?\d+", "N", w)
            return "ubsan:" + w.strip()
        if "ThreadSanitizer" in s:
            return "tsan"
        if "Assertion" in s and ("__glibcxx" in s or "_GLIBCXX" in s or "bits/" in s):
            return "glibcxx-assert"
        if "Assertion" in s or "assert" in s:
            return "assert"
        if "terminate called" in s:
            m = re.search(r"instance of '([^']+)'", s)
            return "terminate:" + (m.group(1) if m else "?")
        if self.rc < 0:
            try:
                return "signal:" + signal.Signals(-self.rc).name
            except Exception:
                return "signal:%d" % -self.rc
        return "exit:%d" % self.rc

    def __repr__(self):
        return "Crash(%s,%s)" % (self.case_id, self.kind())


def _run_batch(binary, lines, workdir, idx, timeout, wrapper=None, env_extra=None):
    """lines: list of (id, line). returns (results dict id->tokens, crashes list, timed_out)"""
    results = {}
    crashes = []
    start = 0
    env = dict(os.environ)
    env.update(ENV_SAN)
    if env_extra:
        env.update(env_extra)
    attempt = 0
    timed_out = []
    while start < len(lines):
        attempt += 1
        cf = os.path.join(workdir, "b%d_%d.cases" % (idx, attempt))
        with open(cf, "w") as f:
            for _, ln in lines[start:]:
                f.write(ln)
                f.write("\n")
        of = os.path.join(workdir, "b%d_%d.out" % (idx, attempt))
        cmd = (wrapper or []) + [binary, cf, of]
        try:
            p = subprocess.run(cmd, stdout=subprocess.PIPE, stderr=subprocess.PIPE, env=env,
                               timeout=timeout, text=True, errors="replace")
            rc, err = p.returncode, p.stderr
            to = False
        except subprocess.TimeoutExpired as e:
            rc, err = -9, (e.stderr or "") if isinstance(e.stderr, str) else ""
            to = True
        begun = None
        done = set()
        if os.path.exists(of):
            with open(of, errors="replace") as f:
                for ln in f:
                    if ln.startswith("B "):
                        begun = ln.split()[1]
                    elif ln.startswith("R "):
                        if not ln.endswith("\n"):
                            continue
                        parts = ln.split()
                        results[parts[1]] = parts[2:]
                        done.add(parts[1])
        ndone = len(done)
        if rc == 0 and not to and ndone == len(lines) - start:
            break
        # died: attribute to the last begun and unfinished case
        if begun is not None and begun not in done:
            pos = None
            for k in range(start, len(lines)):
                if lines[k][0] == begun:
                    pos = k
                    break
            if to:
                timed_out.append(begun)
            else:
                crashes.append(Crash(begun, rc, _clip(err)))
            start = (pos + 1) if pos is not None else len(lines)
        else:
            # died outside a case (startup / exit, e.g. leak report at exit)
            if to:
                timed_out.append("<outside>")
            else:
                crashes.append(Crash("<exit>", rc, _clip(err)))
            if ndone == len(lines) - start:
                break
            start = start + ndone + 1 if ndone < len(lines) - start else len(lines)
        if attempt > len(lines) + 5:
            break
    return results, crashes, timed_out


def run_cases(binary, lines, nbatch=None, timeout=600, wrapper=None, env_extra=None, keep=False):
    """lines: list of (id, text).  Returns (results, crashes, timed_out_ids)."""
    if not lines:
        return {}, [], []
    if nbatch is None:
        nbatch = min(B.JOBS, max(1, len(lines) // 50))
    os.makedirs(os.path.join(B.BUILD, "run"), exist_ok=True)
    workdir = tempfile.mkdtemp(prefix="r%d_" % os.getpid(), dir=os.path.join(B.BUILD, "run"))
    batches = [lines[i::nbatch] for i in range(nbatch)]
    results, crashes, touts = {}, [], []
    try:
        with ThreadPoolExecutor(max_workers=B.JOBS) as ex:
            futs = [ex.submit(_run_batch, binary, b, workdir, i, timeout, wrapper, env_extra)
                    for i, b in enumerate(batches) if b]
            for f in futs:
                r, c, t = f.result()
                results.update(r)
                crashes += c
                touts += t
    finally:
        if not keep:
            shutil.rmtree(workdir, ignore_errors=True)
    return results, crashes, touts
