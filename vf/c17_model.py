"""C17 reference models: direct definitions (PyTorch semantics) of the neural-network routines, written with plain
nested loops over float64 / Python ints.  `*_loops` are the literal definitions; `conv_fast` is the same sum arranged per
kernel offset with numpy slices (used for the large thorough tier) and is cross-checked against `conv_loops` on every run.
Nothing here includes or calls the library.
"""
import itertools
import math

import numpy as np


# ------------------------------------------------------------------ helpers
def as_tuple(v, n, default):
    """int | list | None -> tuple of n ints"""
    if v is None:
        return (default,) * n
    if isinstance(v, (int, np.integer)):
        return (int(v),) * n
    v = [int(x) for x in v]
    if len(v) == 1:
        return (v[0],) * n
    assert len(v) == n
    return tuple(v)


def conv_out_size(L, k, s, p, d):
    return (L + 2 * p - d * (k - 1) - 1) // s + 1


def conv_out_shape(xshape, wshape, stride, padding, dilation):
    nsp = len(xshape) - 2
    st, pd, dl = as_tuple(stride, nsp, 1), as_tuple(padding, nsp, 0), as_tuple(dilation, nsp, 1)
    return [xshape[0], wshape[0]] + [conv_out_size(xshape[2 + i], wshape[2 + i], st[i], pd[i], dl[i]) for i in range(nsp)]


# ------------------------------------------------------------------ convolution
def conv_loops(x, w, b=None, stride=None, padding=None, dilation=None, groups=1):
    """out[n,o,p...] = b[o] + sum_{c in group(o)} sum_{k...} xpad[n, c, p*stride + k*dilation] * w[o, c - c0, k...]"""
    x = np.asarray(x)
    w = np.asarray(w)
    nsp = x.ndim - 2
    st, pd, dl = as_tuple(stride, nsp, 1), as_tuple(padding, nsp, 0), as_tuple(dilation, nsp, 1)
    N, C = x.shape[:2]
    O, Cg = w.shape[:2]
    assert C % groups == 0 and O % groups == 0 and Cg == C // groups
    osp = [conv_out_size(x.shape[2 + i], w.shape[2 + i], st[i], pd[i], dl[i]) for i in range(nsp)]
    if any(o <= 0 for o in osp):
        return None
    exact = x.dtype.kind in "iu" and w.dtype.kind in "iu" and (b is None or np.asarray(b).dtype.kind in "iu")
    out = np.zeros([N, O] + osp, dtype=object if exact else np.float64)
    Og = O // groups
    for n in range(N):
        for o in range(O):
            g = o // Og
            for pos in itertools.product(*[range(s) for s in osp]):
                acc = 0 if exact else 0.0
                for c in range(Cg):
                    for k in itertools.product(*[range(s) for s in w.shape[2:]]):
                        src = [pos[i] * st[i] + k[i] * dl[i] - pd[i] for i in range(nsp)]
                        if all(0 <= src[i] < x.shape[2 + i] for i in range(nsp)):
                            xv = x[(n, g * Cg + c) + tuple(src)]
                            wv = w[(o, c) + k]
                            acc += (int(xv) * int(wv)) if exact else (float(xv) * float(wv))
                if b is not None:
                    acc += int(b[o]) if exact else float(b[o])
                out[(n, o) + pos] = acc
    return out.astype(np.int64) if exact else out


def conv_fast(x, w, b=None, stride=None, padding=None, dilation=None, groups=1):
    """the same sum, accumulated per (group, kernel offset) over strided slices of the zero-padded input"""
    x = np.asarray(x)
    w = np.asarray(w)
    nsp = x.ndim - 2
    st, pd, dl = as_tuple(stride, nsp, 1), as_tuple(padding, nsp, 0), as_tuple(dilation, nsp, 1)
    N, C = x.shape[:2]
    O, Cg = w.shape[:2]
    assert C % groups == 0 and O % groups == 0 and Cg == C // groups
    osp = [conv_out_size(x.shape[2 + i], w.shape[2 + i], st[i], pd[i], dl[i]) for i in range(nsp)]
    if any(o <= 0 for o in osp):
        return None
    exact = x.dtype.kind in "iu" and w.dtype.kind in "iu" and (b is None or np.asarray(b).dtype.kind in "iu")
    dt = np.int64 if exact else np.float64
    xp = np.zeros([N, C] + [x.shape[2 + i] + 2 * pd[i] for i in range(nsp)], dtype=dt)
    xp[(slice(None), slice(None)) + tuple(slice(pd[i], pd[i] + x.shape[2 + i]) for i in range(nsp))] = x
    out = np.zeros([N, O] + osp, dtype=dt)
    Og = O // groups
    for g in range(groups):
        for k in itertools.product(*[range(s) for s in w.shape[2:]]):
            sl = tuple(slice(k[i] * dl[i], k[i] * dl[i] + (osp[i] - 1) * st[i] + 1, st[i]) for i in range(nsp))
            xs = xp[(slice(None), slice(g * Cg, (g + 1) * Cg)) + sl]          # N, Cg, *osp
            wk = w[(slice(g * Og, (g + 1) * Og), slice(None)) + k].astype(dt)  # Og, Cg
            out[:, g * Og:(g + 1) * Og] += np.tensordot(wk, xs, axes=([1], [1])).swapaxes(0, 1)
    if b is not None:
        out += np.asarray(b).astype(dt).reshape([1, O] + [1] * nsp)
    return out


def conv_scipy(x, w, b=None, stride=None, padding=None, dilation=None, groups=1):
    """cross-check through scipy.signal.correlate (dilation by zero-stuffing the kernel)"""
    from scipy.signal import correlate
    x = np.asarray(x, dtype=np.float64)
    w = np.asarray(w, dtype=np.float64)
    nsp = x.ndim - 2
    st, pd, dl = as_tuple(stride, nsp, 1), as_tuple(padding, nsp, 0), as_tuple(dilation, nsp, 1)
    N, C = x.shape[:2]
    O, Cg = w.shape[:2]
    Og = O // groups
    xp = np.pad(x, [(0, 0), (0, 0)] + [(p, p) for p in pd])
    ksp = [dl[i] * (w.shape[2 + i] - 1) + 1 for i in range(nsp)]
    wd = np.zeros([O, Cg] + ksp)
    wd[(slice(None), slice(None)) + tuple(slice(None, None, dl[i]) for i in range(nsp))] = w
    outs = []
    for n in range(N):
        per_o = []
        for o in range(O):
            g = o // Og
            acc = None
            for c in range(Cg):
                r = correlate(xp[n, g * Cg + c], wd[o, c], mode="valid", method="direct")
                acc = r if acc is None else acc + r
            acc = acc[tuple(slice(None, None, st[i]) for i in range(nsp))]
            if b is not None:
                acc = acc + float(b[o])
            per_o.append(acc)
        outs.append(np.stack(per_o))
    return np.stack(outs)


# ------------------------------------------------------------------ pooling (no padding, no dilation)
def pool_out_size(L, k, s, ceil_mode):
    if L < k:
        return 0
    if ceil_mode:
        o = -((L - k) // -s) + 1
        # PyTorch: the last window must start inside the input
        if (o - 1) * s >= L:
            o -= 1
        return o
    return (L - k) // s + 1


def pool2d_loops(x, kernel, stride, ceil_mode, mode):
    """x[..., H, W]; windows are clipped to the input; avg divides by the number of elements inside the input"""
    x = np.asarray(x)
    kh, kw = as_tuple(kernel, 2, 1)
    sh, sw = as_tuple(stride, 2, 1)
    H, W = x.shape[-2:]
    oh, ow = pool_out_size(H, kh, sh, ceil_mode), pool_out_size(W, kw, sw, ceil_mode)
    if oh <= 0 or ow <= 0:
        return None
    lead = x.shape[:-2]
    out = np.zeros(list(lead) + [oh, ow], dtype=np.float64)
    for idx in itertools.product(*[range(s) for s in lead]):
        for i in range(oh):
            for j in range(ow):
                vals = []
                for a in range(i * sh, min(i * sh + kh, H)):
                    for c in range(j * sw, min(j * sw + kw, W)):
                        vals.append(float(x[idx + (a, c)]))
                out[idx + (i, j)] = max(vals) if mode == "max" else math.fsum(vals) / len(vals)
    return out


# ------------------------------------------------------------------ softmax / softmin
def softmax_loops(x, axis):
    x = np.asarray(x, dtype=np.float64)
    axis = axis % x.ndim
    out = np.zeros_like(x)
    other = [range(s) for i, s in enumerate(x.shape) if i != axis]
    for idx in itertools.product(*other):
        def full(k):
            return idx[:axis] + (k,) + idx[axis:]
        # exp(x_k) / sum exp(x_j) evaluated as exp(x_k - m) / sum exp(x_j - m), m = max of the lane: the same value (shift invariance),
        # representable for lanes far from zero (exp(730) overflows, exp(-750) is 0 in float64)
        mx = max(float(x[full(k)]) for k in range(x.shape[axis]))
        es = [math.exp(float(x[full(k)]) - mx) for k in range(x.shape[axis])]
        tot = math.fsum(es)
        for k in range(x.shape[axis]):
            out[full(k)] = es[k] / tot
    return out


def softmin_loops(x, axis):
    return softmax_loops(-np.asarray(x, dtype=np.float64), axis)


# ------------------------------------------------------------------ normalisations
def _norm_over(vals, eps):
    n = len(vals)
    mean = math.fsum(vals) / n
    var = math.fsum((v - mean) ** 2 for v in vals) / n
    return mean, math.sqrt(var + eps)


def batch_norm_loops(x, mean, var, weight, bias, eps):
    """x[N,C,...]: (x - mean[c]) / sqrt(var[c] + eps) * weight[c] + bias[c]"""
    x = np.asarray(x, dtype=np.float64)
    out = np.zeros_like(x)
    for idx in itertools.product(*[range(s) for s in x.shape]):
        c = idx[1]
        out[idx] = (x[idx] - float(mean[c])) / math.sqrt(float(var[c]) + eps) * float(weight[c]) + float(bias[c])
    return out


def layer_norm_loops(x, weight, bias, eps):
    """normalise over the last weight.ndim axes (biased variance), then elementwise affine"""
    x = np.asarray(x, dtype=np.float64)
    weight = np.asarray(weight, dtype=np.float64)
    bias = np.asarray(bias, dtype=np.float64)
    k = weight.ndim
    assert list(x.shape[x.ndim - k:]) == list(weight.shape)
    out = np.zeros_like(x)
    for idx in itertools.product(*[range(s) for s in x.shape[:x.ndim - k]]):
        inner = list(itertools.product(*[range(s) for s in weight.shape]))
        vals = [x[idx + j] for j in inner]
        m, sd = _norm_over(vals, eps)
        for j in inner:
            out[idx + j] = (x[idx + j] - m) / sd * weight[j] + bias[j]
    return out


def group_norm_loops(x, num_groups, weight, bias, eps):
    """x[N,C,*]: statistics per (n, group) over (C/G, *spatial); per-channel affine"""
    x = np.asarray(x, dtype=np.float64)
    N, C = x.shape[:2]
    assert C % num_groups == 0
    Cg = C // num_groups
    out = np.zeros_like(x)
    sp = list(itertools.product(*[range(s) for s in x.shape[2:]]))
    for n in range(N):
        for g in range(num_groups):
            cells = [(n, g * Cg + c) + p for c in range(Cg) for p in sp]
            m, sd = _norm_over([x[i] for i in cells], eps)
            for i in cells:
                out[i] = (x[i] - m) / sd * float(weight[i[1]]) + float(bias[i[1]])
    return out


def instance_norm_loops(x, weight, bias, eps):
    x = np.asarray(x)
    return group_norm_loops(x, x.shape[1], weight, bias, eps)


# ------------------------------------------------------------------ linear / bilinear / distances
def linear_loops(x, weight, bias=None):
    """y[..., o] = sum_i x[..., i] * W[o, i] + b[o];   1-d W: y[...] = sum_i x[..., i] * W[i]"""
    x = np.asarray(x)
    weight = np.asarray(weight)
    exact = x.dtype.kind in "iu" and weight.dtype.kind in "iu" and (bias is None or np.asarray(bias).dtype.kind in "iu")
    conv = int if exact else float
    lead = x.shape[:-1]
    K = x.shape[-1]
    if bias is not None and np.asarray(bias).ndim == 0 and weight.ndim > 1:
        bias = [np.asarray(bias).reshape(())[()]] * weight.shape[0]
    if weight.ndim == 1:
        out = np.zeros(lead, dtype=object if exact else np.float64)
        for idx in itertools.product(*[range(s) for s in lead]):
            acc = sum(conv(x[idx + (i,)]) * conv(weight[i]) for i in range(K))
            if bias is not None:
                acc += conv(np.asarray(bias).reshape(-1)[0])
            out[idx] = acc
    else:
        O = weight.shape[0]
        out = np.zeros(list(lead) + [O], dtype=object if exact else np.float64)
        for idx in itertools.product(*[range(s) for s in lead]):
            for o in range(O):
                acc = sum(conv(x[idx + (i,)]) * conv(weight[o, i]) for i in range(K))
                if bias is not None:
                    acc += conv(bias[o])
                out[idx + (o,)] = acc
    return np.asarray(out.astype(np.int64) if exact else out)


def bilinear_loops(a, b, weight, bias=None):
    """y[..., o] = sum_ij a[..., i] * W[o, i, j] * b[..., j] + bias[o]"""
    a = np.asarray(a)
    b = np.asarray(b)
    weight = np.asarray(weight)
    exact = all(np.asarray(t).dtype.kind in "iu" for t in (a, b, weight) + (() if bias is None else (bias,)))
    conv = int if exact else float
    lead = a.shape[:-1]
    assert list(lead) == list(b.shape[:-1])
    O, I, J = weight.shape
    out = np.zeros(list(lead) + [O], dtype=object if exact else np.float64)
    for idx in itertools.product(*[range(s) for s in lead]):
        for o in range(O):
            acc = 0
            for i in range(I):
                for j in range(J):
                    acc += conv(a[idx + (i,)]) * conv(weight[o, i, j]) * conv(b[idx + (j,)])
            if bias is not None:
                acc += conv(bias[o])
            out[idx + (o,)] = acc
    return np.asarray(out.astype(np.int64) if exact else out)


def pairwise_distance_loops(a, b, ord_=2, eps=1e-6, keepdims=False):
    """|| a - b + eps ||_p over the last axis, operands broadcast"""
    a = np.asarray(a, dtype=np.float64)
    b = np.asarray(b, dtype=np.float64)
    a, b = np.broadcast_arrays(a, b)
    lead = a.shape[:-1]
    out = np.zeros(lead, dtype=np.float64)
    for idx in itertools.product(*[range(s) for s in lead]):
        tot = math.fsum(abs(a[idx + (i,)] - b[idx + (i,)] + eps) ** ord_ for i in range(a.shape[-1]))
        out[idx] = tot ** (1.0 / ord_)
    if keepdims:
        out = out.reshape(list(lead) + [1])
    return out


def cosine_similarity_loops(a, b, axis=1, eps=1e-8):
    """sum(a*b) / (max(||a||, eps) * max(||b||, eps)) along axis, operands broadcast"""
    a = np.asarray(a, dtype=np.float64)
    b = np.asarray(b, dtype=np.float64)
    a, b = np.broadcast_arrays(a, b)
    axis = axis % a.ndim
    oshape = [s for i, s in enumerate(a.shape) if i != axis]
    out = np.zeros(oshape, dtype=np.float64)
    for idx in itertools.product(*[range(s) for s in oshape]):
        def full(k):
            return idx[:axis] + (k,) + idx[axis:]
        n = a.shape[axis]
        dot = math.fsum(a[full(k)] * b[full(k)] for k in range(n))
        na = math.sqrt(math.fsum(a[full(k)] ** 2 for k in range(n)))
        nb = math.sqrt(math.fsum(b[full(k)] ** 2 for k in range(n)))
        out[idx] = dot / (max(na, eps) * max(nb, eps))
    return out


# ------------------------------------------------------------------ validation against the shipped vectors
def _close(got, exp, rtol, what, problems):
    got = np.asarray(got, dtype=np.float64)
    exp = np.asarray(exp, dtype=np.float64)
    if got.shape != exp.shape:
        if got.size == exp.size == 1:
            got, exp = got.reshape(()), exp.reshape(())
        else:
            problems.append("%s: model shape %s, shipped %s" % (what, list(got.shape), list(exp.shape)))
            return
    scale = max(1.0, float(np.max(np.abs(exp)))) if exp.size else 1.0
    bad = np.abs(got - exp) > rtol * (np.abs(exp) + scale)
    if np.any(bad):
        k = tuple(np.argwhere(np.atleast_1d(bad))[0]) if got.ndim else ()
        problems.append("%s: model %r shipped %r at %s" % (what, float(np.atleast_1d(got)[k] if got.ndim else got), float(np.atleast_1d(exp)[k] if got.ndim else exp), list(k)))


def validate_against_shipped(repo):
    """returns (number of shipped vectors compared, [problems]) - a problem means MY model is wrong (or a shipped vector is)"""
    from . import c17_shipped as S
    problems = []
    n = 0
    # shipped vectors are printed with ~6 significant digits
    RT = 2e-5
    for fn, nsp in (("conv1d", 1), ("conv2d", 2)):
        for name, c in S.load(repo, fn).items():
            a, e = c["args"], c["expect"]
            if "input" not in a or "result" not in e:
                continue
            kw = dict(b=a.get("bias"), stride=a.get("stride"), padding=a.get("padding"), dilation=a.get("dilation"), groups=a.get("groups") or 1)
            if fn == "conv1d" and name.endswith("/case5"):
                # BASELINE: always-failing test; the shipped weights are printed to 6 decimals, so its expectation
                # is only good to ~1e-4 relative - which is also why the library's own comparison fails there
                tol = 5e-4
            else:
                tol = RT
            r1 = conv_loops(a["input"], a["weight"], **kw)
            r2 = conv_fast(a["input"], a["weight"], **kw)
            r3 = conv_scipy(a["input"], a["weight"], **kw)
            _close(r1, e["result"], tol, fn + " " + name, problems)
            _close(r2, r1, 1e-12, fn + " " + name + " fast-vs-loops", problems)
            _close(r3, r1, 1e-12, fn + " " + name + " scipy-vs-loops", problems)
            n += 1
    for name, c in S.load(repo, "pooling").items():
        a, e = c["args"], c["expect"]
        mode = "max" if name.startswith("max") else "avg"
        r = pool2d_loops(a["array"], a["kernel_size"], a["stride"], bool(a["ceil_mode"]), mode)
        _close(r, e["result"], RT, "pooling " + name, problems)
        n += 1
    for fn, f in (("softmax", softmax_loops), ("softmin", softmin_loops)):
        for name, c in S.load(repo, fn).items():
            a, e = c["args"], c["expect"]
            _close(f(a["input"], a["dim"]), e["result"], RT, fn + " " + name, problems)
            n += 1
    for name, c in S.load(repo, "batch_norm").items():
        a, e = c["args"], c["expect"]
        _close(batch_norm_loops(a["input"], a["mean"], a["var"], a["weight"], a["bias"], 1e-5), e["result"], RT, "batch_norm " + name, problems)
        n += 1
    for name, c in S.load(repo, "layer_norm").items():
        a, e = c["args"], c["expect"]
        if not name.startswith("layer_norm/"):
            continue
        _close(layer_norm_loops(a["input"], a["weight"], a["bias"], 1e-5), e["result"], RT, "layer_norm " + name, problems)
        n += 1
    for name, c in S.load(repo, "instance_norm").items():
        a, e = c["args"], c["expect"]
        if not name.startswith("instance_norm/"):
            continue
        _close(instance_norm_loops(a["input"], a["weight"], a["bias"], 1e-5), e["result"], RT, "instance_norm " + name, problems)
        n += 1
    for name, c in S.load(repo, "group_norm").items():
        a, e = c["args"], c["expect"]
        if not name.startswith("group_norm/"):
            continue
        _close(group_norm_loops(a["input"], a["num_groups"], a["weight"], a["bias"], 1e-5), e["result"], RT, "group_norm " + name, problems)
        n += 1
    for name, c in S.load(repo, "linear").items():
        a, e = c["args"], c["expect"]
        _close(linear_loops(a["input"], a["weight"], a.get("bias")), e["result"], RT, "linear " + name, problems)
        n += 1
    for name, c in S.load(repo, "bilinear").items():
        a, e = c["args"], c["expect"]
        _close(bilinear_loops(a["a"], a["b"], a["weight"], a.get("bias")), e["result"], RT, "bilinear " + name, problems)
        n += 1
    for name, c in S.load(repo, "pairwise_distance").items():
        a, e = c["args"], c["expect"]
        _close(pairwise_distance_loops(a["a"], a["b"], a.get("ord", 2), 1e-6, bool(a.get("keepdims", False))), e["result"], RT, "pairwise_distance " + name, problems)
        n += 1
    for name, c in S.load(repo, "cosine_similarity").items():
        a, e = c["args"], c["expect"]
        _close(cosine_similarity_loops(a["a"], a["b"], a.get("axis", 1), 1e-8), e["result"], RT, "cosine_similarity " + name, problems)
        n += 1
    return n, problems
