"""debug aid: python3-vt -m vf.c09_dbg <tier> <seed> <program> <flavor> '<inst> tok tok ...' -> prints the record and the instance source"""
import os
import subprocess
import sys
import tempfile

from . import build as B
from . import c09_run as CR


def main(argv):
    tier, seed, prog, flavor = argv[0], int(argv[1]), argv[2], argv[3]
    for p, fls in CR.plan(tier, seed):
        if p.name == prog:
            t = p.target(flavor)
            res = B.build([t])
            if res[0].error:
                print(res[0].error)
                return 1
            d = tempfile.mkdtemp(dir=os.path.join(B.BUILD, "run"))
            with open(os.path.join(d, "c"), "w") as f:
                for k, ln in enumerate(argv[4:]):
                    f.write("%d %s\n" % (k + 1, ln))
            r = subprocess.run([res[0].binary, os.path.join(d, "c"), os.path.join(d, "o")], capture_output=True, text=True)
            print(open(os.path.join(d, "o")).read())
            print(r.stderr[-3000:])
            for ln in argv[4:]:
                inst = ln.split()[0]
                txt = p.text()
                i = txt.find("VH_OP(%s)" % inst)
                print(txt[i:txt.find("\n}\n", i) + 3])
            import shutil
            shutil.rmtree(d)
            return 0
    print("no such program")
    return 1


if __name__ == "__main__":
    sys.exit(main(sys.argv[1:]))
