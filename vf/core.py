"""Verdicts, known-findings matching, replay files, evidence files."""
import json
import os
import random
import re
import sys
import time

from . import build as B

VERIF = B.VERIF
KNOWN = os.path.join(VERIF, "known_findings.jsonl")
# Evidence and replay files of a run against a scratch tree (VERIF_REPO=<worktree with a seeded change>) must not overwrite
# the evidence of /repo itself: they go under the build directory.
_SCRATCH = os.path.realpath(B.REPO) != "/repo" or bool(os.environ.get("VERIF_EVID_SCRATCH"))   # (soak runs over many seeds set the latter)
EVID = os.path.join(B.BUILD, "scratch_evidence") if _SCRATCH else os.path.join(VERIF, "evidence")
REPLAY = os.path.join(B.BUILD, "scratch_replay") if _SCRATCH else os.path.join(VERIF, "replay")

LEVEL = "exploration"


def load_known():
    out = []
    if os.path.exists(KNOWN):
        for ln in open(KNOWN):
            ln = ln.strip()
            if ln and not ln.startswith("#"):
                out.append(json.loads(ln))
    return out


class Inconclusive(Exception):
    pass


class Ctx:
    def __init__(self, pid, tier, seed):
        self.pid = pid
        self.tier = tier
        self.seed = seed
        self.rng = random.Random(seed * 1000003 + int(pid[1:]))
        self.t0 = time.time()
        self.viol = {}      # key -> list of details
        self.vwhat = {}
        self.evaluations = 0
        self.distinct = set()
        self.samples = []
        self.extra = {}
        self.assumptions = []
        self.rule = ""
        self.exhaustive = None
        self.inconclusive = []

    # ---- recording -------------------------------------------------
    def violation(self, key, what, detail=None):
        if not key.startswith(self.pid + ":"):
            key = self.pid + ":" + key
        self.viol.setdefault(key, [])
        if len(self.viol[key]) < 5:
            self.viol[key].append(detail if detail is not None else {})
        self.vwhat.setdefault(key, what)

    def ev(self, n=1):
        self.evaluations += n

    def seen(self, item):
        self.distinct.add(item)

    def sample(self, s, cap=8):
        if len(self.samples) < cap:
            self.samples.append(s)

    def add(self, k, n=1):
        self.extra[k] = self.extra.get(k, 0) + n

    def set(self, k, v):
        self.extra[k] = v

    def inconc(self, why):
        self.inconclusive.append(why)

    # ---- finishing -------------------------------------------------
    def finish(self):
        known = [k for k in load_known() if k.get("property") == self.pid]
        listed = {k["key"]: k for k in known if k.get("status") == "known"}
        rc = 0
        nviol = 0
        os.makedirs(EVID, exist_ok=True)
        reobserved = []
        for key in sorted(self.viol):
            if key in listed:
                print("KNOWN-FINDING: property=%s %s [%s]" % (self.pid, listed[key].get("what", ""), key))
                reobserved.append(key)
                continue
            nviol += 1
            rp = self._write_replay(key)
            if nviol <= 25:
                print("VIOLATION property=%s replay=%s key=%s what=%s" % (self.pid, rp, key, self.vwhat[key][:300]))
            rc = 1
        if nviol > 25:
            print("... %d more violation keys not printed" % (nviol - 25))
        for key in listed:
            if key not in self.viol:
                print("STALE-FINDING: property=%s key=%s not observed in this run (informational)" % (self.pid, key))
        if self.inconclusive and rc == 0:
            for w in self.inconclusive[:10]:
                print("INCONCLUSIVE property=%s %s" % (self.pid, w))
            rc = 2
        if rc == 0 and (self.evaluations == 0 or len(self.distinct) < 2):
            print("INCONCLUSIVE property=%s run observed nothing (evaluations=%d distinct=%d)" % (self.pid, self.evaluations, len(self.distinct)))
            rc = 2
        cov = {
            "evaluations": int(self.evaluations),
            "distinct_nontrivial": int(len(self.distinct)),
            "rule": self.rule,
            "samples": self.samples if self.samples else ["<none>"],
            "known_findings_reobserved": reobserved,
            "violation_keys": sorted(k for k in self.viol if k not in listed)[:50],
            "verdict": {0: "held on everything observed", 1: "violated", 2: "inconclusive"}[rc],
        }
        if self.exhaustive is not None:
            cov["exhaustive"] = bool(self.exhaustive)
        cov.update(self.extra)
        ev = {
            "property_id": self.pid,
            "tier": self.tier,
            "seed": int(self.seed),
            "level": LEVEL,
            "coverage": cov,
            "assumptions": self.assumptions,
            "wall_s": round(time.time() - self.t0, 2),
            "violations": nviol,
        }
        if rc != 2 or self.evaluations > 0:
            try:
                import jsonschema
                schema = json.load(open("/root/.vp/EVIDENCE.schema.json"))
                jsonschema.validate(ev, schema)
            except ImportError:
                pass
            except FileNotFoundError:
                pass
            except Exception as e:  # schema violation: harness failure
                print("INCONCLUSIVE property=%s evidence does not validate: %s" % (self.pid, str(e)[:300]))
                if rc == 0:
                    rc = 2
            os.makedirs(EVID, exist_ok=True)
            with open(os.path.join(EVID, self.pid + ".json"), "w") as f:
                json.dump(ev, f, indent=1, default=str)
                f.write("\n")
        print("[%s %s seed=%d] evaluations=%d distinct=%d violations=%d wall=%.1fs -> exit %d" % (
            self.pid, self.tier, self.seed, self.evaluations, len(self.distinct), nviol, time.time() - self.t0, rc))
        return rc

    def _write_replay(self, key):
        d = os.path.join(REPLAY, self.pid)
        os.makedirs(d, exist_ok=True)
        fn = re.sub(r"[^A-Za-z0-9_.-]+", "_", key)[:150] + ".json"
        p = os.path.join(d, fn)
        with open(p, "w") as f:
            json.dump({"property": self.pid, "key": key, "what": self.vwhat[key], "seed": self.seed,
                       "tier": self.tier, "witnesses": self.viol[key]}, f, indent=1, default=str)
        return p
