"""C19: executable Python models of the std:: counterparts (list / optional / variant / tuple) + history generators.

A step is (op, x, a).  Value ids are a function of the step index only: vid(k, j) = 100 + 10*k + j, so every
written value is unique inside a history and names the step that wrote it (provenance).
The models are written independently of harness/c19_*.cpp (which carries its own std:: based model); the check
compares the library against both and the two models against each other.
"""

CAP = 4      # static_vector capacity / small_vector threshold in the harness
ARRN = 3


def vid(k, j=0):
    return 100 + 10 * k + j


# --------------------------------------------------------------------------- element codecs (printed tokens)
class El:
    """element kinds: 'int', 'double', 'counted', 'vec'"""

    @staticmethod
    def make(kind, i):
        if kind == "vec":
            return [i * 10 + j for j in range(i % 4)]
        return i

    @staticmethod
    def default(kind):
        return [] if kind == "vec" else None   # None = value-initialised scalar (prints 0)

    @staticmethod
    def mutate(kind, v, i):
        if kind == "vec":
            return list(v) + [i]
        return i

    @staticmethod
    def toks(kind, v):
        if isinstance(v, tuple) and v and v[0] == "conv":   # double converted from an int: exactly id
            return [str(4 * v[1])]
        if kind == "vec":
            return [str(len(v))] + [str(e) for e in v]
        if v is None:
            return ["0"]
        if kind == "double":
            return [str(4 * v + 1)]
        return [str(v)]


class Rec:
    __slots__ = ("k", "cls", "states", "bound", "objs", "refused", "target", "special")

    def __init__(self, k, cls, states, bound, objs, refused, target, special=None):
        self.k, self.cls, self.states, self.bound, self.objs, self.refused, self.target, self.special = k, cls, states, bound, objs, refused, target, special


class Model:
    NS = 2
    first_name = "size"

    def __init__(self):
        self.slots = [None, None]

    def run(self, steps):
        """returns the list of records (one per executed step, synthetic destroys included, teardown included)"""
        out = []
        allsteps = list(steps) + [(0, s, 0) for s in range(self.NS)]
        idx = 0
        while idx < len(allsteps):
            op, x, a = allsteps[idx]
            k = idx
            self.d_ref = 0
            self.special = None
            cls = self.apply(op, x, a, k)
            if cls is None:
                op, x, a = 0, x, 0
                cls = self.apply(0, x, 0, k) or "skip"
            else:
                idx += 1
            out.append(Rec(k, cls, [self.state(s) for s in range(self.NS)], self.bound(), self.objs(), self.d_ref, x, self.special))
        return out

    def objs(self):
        return 0

    def bound(self):
        return 0


# --------------------------------------------------------------------------- sequence containers
class SeqModel(Model):
    """kind: vec | svec | smallu | smalld | arr ; cells hold the printed token or None (unspecified)"""

    def __init__(self, kind, et):
        Model.__init__(self)
        self.kind = kind
        self.et = et
        # vector of non-trivial elements: the first write into a cell nobody constructed is its own operation class
        self.fresh = et in ("counted", "maybe_int", "either_int_double")

    def enc(self, i):
        et = self.et
        if et == "int" or et == "counted":
            return str(i)
        if et == "double":
            return str(4 * i + 1)
        if et == "maybe_int":
            return "N" if i % 3 == 0 else "V%d" % i
        if et == "either_int_double":
            return "L%d" % i if i % 2 == 0 else "R%d" % (4 * i + 1)
        raise ValueError(et)

    def state(self, s):
        v = self.slots[s]
        if v is None:
            return ["-"]
        return [str(len(v))] + [("u" if c is None else c) for c in v]

    def fresh_cell(self):
        """a cell created by a sized constructor / growing resize: utl::vector value-initialises it like std::vector
        (T(), empty optional, first alternative); static_vector / small_vector leave it unspecified (None)"""
        if self.kind != "vec":
            return None
        return {"maybe_int": "N", "either_int_double": "L0"}.get(self.et, "0")

    def objs(self):
        # std::vector<counted> holds exactly size() live objects
        if self.et == "counted":
            return sum(len(v) for v in self.slots if v is not None)
        return 0

    def bound(self):
        if self.kind in ("vec", "smallu", "smalld"):
            return sum(1 for v in self.slots if v is not None)
        return 0

    def apply(self, op, x, a, k):
        S = self.slots
        kind = self.kind
        if op == 0:
            if S[x] is None:
                return "skip"
            S[x] = None
            return "destroy"
        if op == 1:
            if S[x] is not None:
                return None
            S[x] = ["0"] * ARRN if kind == "arr" else []
            return "ctor_default"
        if op == 2:
            if kind == "arr" or a < 0 or (kind == "svec" and a > CAP):
                return "skip"
            if S[x] is not None:
                return None
            S[x] = [self.fresh_cell()] * a
            return "ctor_sized0" if a == 0 else "ctor_sized"
        if op == 3:
            n = a
            if kind != "arr" and (n < 2 or n > 5 or (n == 5 and kind == "svec") or (self.fresh and n > 3)):
                return "skip"
            if S[x] is not None:
                return None
            if kind == "arr":
                n = ARRN
            S[x] = [self.enc(vid(k, j)) for j in range(n)]
            return "ctor_variadic"
        if op == 4:
            if a == x or a < 0 or a >= self.NS or S[a] is None:
                return "skip"
            if S[x] is not None:
                return None
            S[x] = list(S[a])
            return "copy_ctor"
        if op == 5:
            if a < 0 or a >= self.NS or S[a] is None or S[x] is None:
                return "skip"
            S[x] = list(S[a])
            return "assign_self" if a == x else "assign_other"
        if op == 6:
            if kind == "arr" or S[x] is None:
                return "skip"
            if kind == "svec" and len(S[x]) >= CAP:
                self.d_ref = 1
                return "push_back_full"
            S[x].append(self.enc(vid(k)))
            return "push_back"
        if op == 7:
            if kind == "arr" or S[x] is None or a < 0:
                return "skip"
            old = len(S[x])
            if kind == "svec" and a > CAP:
                self.d_ref = 1
                return "resize_over"
            if a < old:
                del S[x][a:]
                return "resize_shrink"
            if a == old:
                return "resize_same"
            S[x].extend([self.fresh_cell()] * (a - old))
            return "resize_grow"
        if op == 8:
            if S[x] is None or not S[x] or a < 0:
                return "skip"
            was = S[x][a % len(S[x])]
            S[x][a % len(S[x])] = self.enc(vid(k))
            return "write_fresh" if (self.fresh and was is None) else "write"
        if op == 9:
            if S[x] is None or not S[x] or a < 0:
                return "skip"
            if S[x][a % len(S[x])] is None:
                return "skip"
            return "read"
        if op == 10:
            if kind != "svec" or a <= CAP:
                return "skip"
            self.d_ref = 1
            return "ctor_sized_over"
        return "skip"


# --------------------------------------------------------------------------- maybe
class MaybeModel(Model):
    first_name = "has_value"

    def __init__(self, ek):
        Model.__init__(self)
        self.ek = ek   # slots: None (dead) | ("N",) | ("V", value)

    def state(self, s):
        v = self.slots[s]
        if v is None:
            return ["-"]
        if v[0] == "N":
            return ["0"]
        return ["1"] + El.toks(self.ek, v[1])

    def hv(self, s):
        return "V" if self.slots[s] is not None and self.slots[s][0] == "V" else "N"

    def held(self):
        return sum(1 for v in self.slots if v is not None and v[0] == "V")

    def bound(self):
        return self.held() if self.ek == "vec" else 0

    def objs(self):
        return self.held() if self.ek == "counted" else 0

    def apply(self, op, x, a, k):
        S = self.slots
        if op == 0:
            if S[x] is None:
                return "skip"
            c = "destroy_" + self.hv(x)
            S[x] = None
            return c
        if op in (1, 2):
            if S[x] is not None:
                return None
            S[x] = ("N",)
            return "ctor_default" if op == 1 else "ctor_nothing"
        if op == 3:
            if S[x] is not None:
                return None
            S[x] = ("V", El.make(self.ek, vid(k)))
            return "ctor_val"
        if op == 4:
            if a == x or a < 0 or a >= self.NS or S[a] is None:
                return "skip"
            if S[x] is not None:
                return None
            S[x] = S[a]
            return "copy_ctor_" + self.hv(a)
        if op == 5:
            if a < 0 or a >= self.NS or S[a] is None or S[x] is None:
                return "skip"
            c = ("assign_self_" if a == x else "assign_other_") + "d%s_s%s" % (self.hv(x), self.hv(a))
            S[x] = S[a]
            return c
        if op == 6:
            if S[x] is None:
                return "skip"
            c = "assign_val_d" + self.hv(x)
            S[x] = ("V", El.make(self.ek, vid(k)))
            return c
        if op == 7:
            if S[x] is None:
                return "skip"
            c = "assign_nothing_d" + self.hv(x)
            S[x] = ("N",)
            return c
        if op == 8:
            if S[x] is None or S[x][0] != "V":
                return "skip"
            S[x] = ("V", El.mutate(self.ek, S[x][1], vid(k)))
            return "mutate"
        return "skip"


# --------------------------------------------------------------------------- either
class EitherModel(Model):
    first_name = "alternative"

    def __init__(self, lk, rk):
        Model.__init__(self)
        self.ks = (lk, rk)   # slots: None | (index, value)

    def state(self, s):
        v = self.slots[s]
        if v is None:
            return ["-"]
        return [str(v[0]), "ok"] + El.toks(self.ks[v[0]], v[1])

    def alt(self, s):
        return "R" if self.slots[s] is not None and self.slots[s][0] == 1 else "L"

    def count(self, ek):
        return sum(1 for v in self.slots if v is not None and self.ks[v[0]] == ek)

    def bound(self):
        return self.count("vec")

    def objs(self):
        return self.count("counted")

    def apply(self, op, x, a, k):
        S = self.slots
        if op == 0:
            if S[x] is None:
                return "skip"
            c = "destroy_" + self.alt(x)
            S[x] = None
            return c
        if op == 1:
            if S[x] is not None:
                return None
            S[x] = (0, El.default(self.ks[0]))
            return "ctor_default"
        if op in (2, 3):
            if S[x] is not None:
                return None
            i = op - 2
            S[x] = (i, El.make(self.ks[i], vid(k)))
            return "ctor_left" if i == 0 else "ctor_right"
        if op == 4:
            if a == x or a < 0 or a >= self.NS or S[a] is None:
                return "skip"
            if S[x] is not None:
                return None
            S[x] = S[a]
            return "copy_ctor_" + self.alt(a)
        if op == 5:
            if a < 0 or a >= self.NS or S[a] is None or S[x] is None:
                return "skip"
            c = ("assign_self_" if a == x else "assign_other_") + "d%s_s%s" % (self.alt(x), self.alt(a))
            S[x] = S[a]
            return c
        if op in (6, 7):
            if S[x] is None:
                return "skip"
            i = op - 6
            c = ("assign_left_d" if i == 0 else "assign_right_d") + self.alt(x)
            S[x] = (i, El.make(self.ks[i], vid(k)))
            return c
        if op == 8:
            if S[x] is None:
                return "skip"
            i, v = S[x]
            S[x] = (i, El.mutate(self.ks[i], v, vid(k)))
            return "mutate_L" if i == 0 else "mutate_R"
        return "skip"


# --------------------------------------------------------------------------- tuple
class TupleModel(Model):
    def __init__(self, eks, convertible):
        Model.__init__(self)
        self.eks = eks
        self.conv = convertible

    def state(self, s):
        v = self.slots[s]
        if v is None:
            return ["-"]
        t = ["3"]
        for ek, e in zip(self.eks, v):
            t += El.toks(ek, e)
        return t

    def live(self):
        return sum(1 for v in self.slots if v is not None)

    def bound(self):
        return self.live() * sum(1 for e in self.eks if e == "vec")

    def objs(self):
        return self.live() * sum(1 for e in self.eks if e == "counted")

    def apply(self, op, x, a, k):
        S = self.slots
        if op == 0:
            if S[x] is None:
                return "skip"
            S[x] = None
            return "destroy"
        if op == 1:
            if S[x] is not None:
                return None
            S[x] = tuple(El.default(e) for e in self.eks)
            return "ctor_default"
        if op == 2:
            if S[x] is not None:
                return None
            S[x] = tuple(El.make(e, vid(k, j)) for j, e in enumerate(self.eks))
            return "ctor_values"
        if op == 3:
            if not self.conv:
                return "skip"
            if S[x] is not None:
                return None
            # int -> element conversion: the double element holds exactly id (prints 4*id)
            S[x] = tuple((vid(k, j) if e != "double" else ("conv", vid(k, j))) for j, e in enumerate(self.eks))
            return "ctor_convert"
        if op == 4:
            if a == x or a < 0 or a >= self.NS or S[a] is None:
                return "skip"
            if S[x] is not None:
                return None
            S[x] = S[a]
            return "copy_ctor"
        if op == 5:
            if a < 0 or a >= self.NS or S[a] is None or S[x] is None:
                return "skip"
            S[x] = S[a]
            return "assign_self" if a == x else "assign_other"
        if op == 8:
            if S[x] is None or a < 0:
                return "skip"
            j = a % 3
            v = list(S[x])
            v[j] = El.mutate(self.eks[j], v[j], vid(k))
            S[x] = tuple(v)
            return "write_%d" % j
        return "skip"


# --------------------------------------------------------------------------- alphabets
def alphabet(family, kind):
    """the finite alphabet over which all sequences up to the length bound are enumerated"""
    if family == "seq":
        if kind == "arr":
            return [(1, 0, 0), (3, 0, 3), (3, 1, 3), (4, 1, 0), (4, 0, 1), (5, 0, 1), (5, 1, 0), (5, 0, 0),
                    (8, 0, 0), (8, 0, 2), (8, 1, 1), (0, 0, 0), (0, 1, 0)]
        if kind == "svec":
            return [(1, 0, 0), (2, 0, 2), (2, 0, 4), (3, 0, 3), (3, 1, 4), (4, 1, 0), (5, 0, 1), (5, 1, 0), (5, 0, 0),
                    (6, 0, 0), (6, 1, 0), (7, 0, 0), (7, 0, 3), (7, 0, 4), (7, 0, 5), (7, 0, 6), (8, 0, 1), (0, 0, 0)]
        if kind in ("smallu", "smalld"):
            return [(1, 0, 0), (2, 0, 2), (2, 0, 4), (2, 0, 6), (3, 0, 3), (3, 1, 5), (4, 1, 0), (5, 0, 1), (5, 1, 0), (5, 0, 0),
                    (6, 0, 0), (6, 1, 0), (7, 0, 0), (7, 0, 3), (7, 0, 4), (7, 0, 5), (7, 0, 6), (8, 0, 1), (0, 0, 0)]
        if kind == "vnt":
            return [(1, 0, 0), (2, 0, 0), (2, 0, 3), (3, 0, 2), (3, 1, 3), (4, 1, 0), (5, 0, 1), (5, 1, 0), (5, 0, 0),
                    (6, 0, 0), (6, 1, 0), (7, 0, 0), (7, 0, 2), (7, 0, 5), (7, 0, 6), (8, 0, 1), (8, 1, 0), (0, 0, 0)]
        return [(1, 0, 0), (2, 0, 0), (2, 0, 3), (3, 0, 2), (3, 1, 5), (4, 1, 0), (5, 0, 1), (5, 1, 0), (5, 0, 0),
                (6, 0, 0), (6, 1, 0), (7, 0, 0), (7, 0, 2), (7, 0, 5), (7, 0, 6), (8, 0, 1), (8, 1, 0), (0, 0, 0)]
    if family == "maybe":
        return [(1, 0, 0), (3, 0, 0), (2, 1, 0), (3, 1, 0), (4, 1, 0), (4, 0, 1), (5, 0, 1), (5, 1, 0), (5, 0, 0),
                (6, 0, 0), (6, 1, 0), (7, 0, 0), (7, 1, 0), (8, 0, 0), (8, 1, 0), (0, 0, 0), (0, 1, 0)]
    if family == "either":
        return [(1, 0, 0), (2, 0, 0), (3, 0, 0), (3, 1, 0), (4, 1, 0), (4, 0, 1), (5, 0, 1), (5, 1, 0), (5, 0, 0),
                (6, 0, 0), (7, 0, 0), (6, 1, 0), (7, 1, 0), (8, 0, 0), (8, 1, 0), (0, 0, 0), (0, 1, 0)]
    if family == "tuple":
        return [(1, 0, 0), (2, 0, 0), (2, 1, 0), (3, 1, 0), (4, 1, 0), (4, 0, 1), (5, 0, 1), (5, 1, 0), (5, 0, 0),
                (8, 0, 0), (8, 0, 1), (8, 0, 2), (8, 1, 2), (0, 0, 0), (0, 1, 0)]
    raise ValueError(family)


def reduced_alphabet(family, kind):
    """10-symbol alphabet for the deepest enumeration of the thorough tier"""
    if family == "seq" and kind in ("vec", "smallu", "smalld"):
        return [(1, 0, 0), (2, 0, 0), (4, 1, 0), (5, 0, 1), (5, 0, 0), (6, 0, 0), (7, 0, 0), (7, 0, 6), (8, 1, 0), (0, 0, 0)]
    if family == "seq" and kind == "svec":
        return [(1, 0, 0), (3, 0, 3), (4, 1, 0), (5, 0, 1), (5, 0, 0), (6, 0, 0), (7, 0, 0), (7, 0, 6), (8, 1, 0), (0, 0, 0)]
    return None


def random_history(rng, family, kind, maxlen):
    """seeded random long history; keeps the two slots alive most of the time"""
    n = rng.randint(max(4, maxlen // 4), maxlen)
    steps = []
    ctor_ops = {"seq": [1, 2, 3, 4], "maybe": [1, 2, 3, 4], "either": [1, 2, 3, 4], "tuple": [1, 2, 3, 4]}[family]
    op0 = rng.choice(ctor_ops[:3])
    steps.append((op0, 0, _arg(rng, family, kind, op0)))
    for _ in range(n - 1):
        r = rng.random()
        x = rng.randrange(2)
        if r < 0.10:
            op = rng.choice(ctor_ops)
        elif r < 0.14:
            op = 0
        elif r < 0.30:
            op = 5
        else:
            if family == "seq":
                op = rng.choice([6, 6, 7, 7, 8, 8, 9] if kind != "arr" else [8, 8, 9, 5])
                if kind == "svec" and rng.random() < 0.01:
                    op = 10
            elif family == "maybe":
                op = rng.choice([6, 6, 7, 8, 8])
            elif family == "either":
                op = rng.choice([6, 7, 8, 8])
            else:
                op = 8
        steps.append((op, x, _arg(rng, family, kind, op, x)))
    return steps


def _arg(rng, family, kind, op, x=0):
    if op in (4, 5):
        if op == 4:
            return 1 - x
        return x if rng.random() < 0.25 else 1 - x
    if family == "seq":
        if op == 2:
            hi = CAP if kind == "svec" else CAP + 2
            return rng.randint(0, hi)
        if op == 3:
            if kind == "vnt":
                return rng.choice([2, 3])
            return rng.choice([2, 3, 4] if kind == "svec" else [2, 3, 4, 5])
        if op == 7:
            return rng.randint(0, 12) if (kind != "svec" and rng.random() < 0.15) else rng.randint(0, CAP + 2)
        if op in (8, 9):
            return rng.randint(0, 11)
        if op == 10:
            return rng.randint(CAP + 1, CAP + 3)
        return 0
    if op == 8:
        return rng.randint(0, 5)
    return 0


def fixed_histories(family, kind):
    """short scripted histories run with poisoned (0xCD) raw storage: construction, copy, mutation of the copy,
    assignment both ways, self assignment, switch of the active alternative"""
    if family == "seq":
        if kind == "arr":
            return [[(3, 0, 3), (4, 1, 0), (8, 1, 1), (5, 0, 1), (5, 0, 0)], [(1, 0, 0), (8, 0, 2), (4, 1, 0), (5, 1, 1)]]
        return [
            [(1, 0, 0), (6, 0, 0), (4, 1, 0), (8, 1, 0), (5, 0, 1), (5, 0, 0)],
            [(3, 0, 3), (4, 1, 0), (6, 1, 0), (6, 1, 0), (6, 1, 0), (5, 0, 1), (8, 0, 4), (5, 1, 0)],
            [(2, 0, 4), (8, 0, 0), (8, 0, 1), (6, 0, 0), (6, 0, 0), (4, 1, 0), (8, 1, 5), (7, 1, 2), (5, 0, 1)],
            [(1, 0, 0), (7, 0, 6), (8, 0, 5), (4, 1, 0), (7, 0, 0), (5, 1, 0), (6, 1, 0)],
        ]
    if family == "maybe":
        return [
            [(3, 0, 0), (4, 1, 0), (8, 1, 0), (5, 0, 1), (5, 0, 0)],
            [(1, 0, 0), (6, 0, 0), (8, 0, 0), (7, 0, 0), (6, 0, 0)],
            [(3, 0, 0), (2, 1, 0), (5, 1, 0), (8, 1, 0), (7, 0, 0), (5, 1, 0)],
            [(3, 0, 0), (8, 0, 0), (0, 0, 0)],
        ]
    if family == "either":
        return [
            [(2, 0, 0), (4, 1, 0), (8, 1, 0), (5, 0, 1), (5, 0, 0)],
            [(3, 0, 0), (4, 1, 0), (8, 1, 0), (5, 0, 1), (5, 0, 0)],
            [(1, 0, 0), (7, 0, 0), (6, 0, 0), (8, 0, 0), (7, 0, 0)],
            [(2, 0, 0), (3, 1, 0), (5, 1, 0), (8, 1, 0), (5, 0, 1), (5, 0, 1)],
            [(2, 0, 0), (8, 0, 0), (0, 0, 0)],
            [(3, 0, 0), (8, 0, 0), (0, 0, 0)],
        ]
    if family == "tuple":
        return [
            [(2, 0, 0), (4, 1, 0), (8, 1, 2), (8, 1, 0), (5, 0, 1), (5, 0, 0)],
            [(1, 0, 0), (8, 0, 2), (8, 0, 1), (4, 1, 0), (3, 0, 0), (5, 1, 0)],
        ]
    raise ValueError(family)
