"""C20: table of array-object configurations (types are fixed at generation time) and the generated TUs.

Every configuration is one concrete array class.  The descriptor says what the class can represent, which is all the
Python model needs: the admissible dimensions, per-axis maxima, the buffer capacity and whether the element count is fixed.
"""
import os

from . import build as B

CT = "nm::meta::ct<%d>"
CL = "nm::clipped_size_t<%d>"


def _tuple(items):
    return "nmtools_tuple<%s>" % ",".join(items)


class Cfg:
    def __init__(self, name, ctype, cls, elem="int", layout="row", dims=None, extmax=None, cap=None, fixed_numel=None,
                 const_shape=None, kind="", group=0, kinds_mask=0x3ffff, dtypes_mask=0x1f, cast_into=True):
        self.name = name
        self.ctype = ctype
        self.cls = cls              # nd | fixed | hybrid | dynamic
        self.elem = elem            # int | double
        self.layout = layout        # row | col
        self.dims = dims            # list of admissible dimensions (None: any of 1..3)
        self.extmax = extmax        # None | int (every axis) | list (per axis)
        self.cap = cap              # None | max number of elements
        self.fixed_numel = fixed_numel  # None | exact number of elements
        self.const_shape = const_shape  # None | the only shape
        self.kind = kind            # e.g. fs_hb
        self.group = group
        self.kinds_mask = kinds_mask
        self.dtypes_mask = dtypes_mask
        self.cast_into = cast_into

    @property
    def etag(self):
        return {"int": "i4", "double": "f8"}[self.elem]

    @property
    def resizable(self):
        return self.const_shape is None and self.cls in ("nd", "hybrid", "dynamic")

    def representable(self, shape):
        """can an object of this class have this shape?"""
        shape = list(shape)
        if any(e < 1 for e in shape) or not (1 <= len(shape) <= 3):
            return False
        if self.const_shape is not None:
            return shape == list(self.const_shape)
        if self.dims is not None and len(shape) not in self.dims:
            return False
        n = 1
        for e in shape:
            n *= e
        if self.extmax is not None:
            mx = self.extmax if isinstance(self.extmax, list) else [self.extmax] * len(shape)
            if len(mx) != len(shape):
                return False
            if any(e > m for e, m in zip(shape, mx)):
                return False
        if self.fixed_numel is not None and n != self.fixed_numel:
            return False
        if self.cap is not None and n > self.cap:
            return False
        return True

    def representable_shapes(self, maxext=12):
        out = []
        import itertools
        for d in (1, 2, 3):
            for s in itertools.product(range(1, maxext + 1), repeat=d):
                if d == 3 and max(s) > 6:
                    continue
                if self.representable(s):
                    out.append(list(s))
        return out

    def info(self):
        return dict(name=self.name, type=self.ctype, cls=self.cls, kind=self.kind, layout=self.layout, elem=self.elem)


def _nd(buf, shape, layout):
    if layout == "row":
        return "na::ndarray_t<%s,%s>" % (buf, shape)
    return "na::ndarray_t<%s,%s,na::resolve_stride_type_t,na::column_major_offset_t>" % (buf, shape)


def configs():
    out = []
    SV = "nmtools_static_vector"      # utl::static_vector
    HV = "na::static_vector"          # hybrid_ndarray<T,N,1> (what cast(kind) produces for bounded buffers)

    def buf(kind, n, elem="int", hv=False):
        if kind == "fb":
            return "nmtools_array<%s,%d>" % (elem, n)
        if kind == "hb":
            return "%s<%s,%d>" % (HV if hv else SV, elem, n)
        return "nmtools_list<%s>" % elem

    def add(name, b, bn, shape_t, kind, g, elem="int", hv=False, layouts=("row", "col"), **kw):
        for lay in layouts:
            nm_ = name + ("" if lay == "row" else "_col")
            kwargs = dict(kw)
            if b == "fb":
                kwargs.setdefault("fixed_numel", bn)
            elif b == "hb":
                kwargs.setdefault("cap", bn)
            out.append(Cfg(nm_, _nd(buf(b, bn, elem, hv), shape_t, lay), "nd", elem=elem, layout=lay, kind=kind, group=g, **kwargs))

    cs23 = _tuple([CT % 2, CT % 3])
    cs232 = _tuple([CT % 2, CT % 3, CT % 2])
    # constant shape
    add("cs_fb", "fb", 6, cs23, "cs_fb", 0, const_shape=[2, 3])
    add("cs_hb", "hb", 6, cs23, "cs_hb", 0, const_shape=[2, 3])
    add("cs_db", "db", 0, cs23, "cs_db", 1, const_shape=[2, 3])
    add("cs3_fb", "fb", 12, cs232, "cs_fb", 1, const_shape=[2, 3, 2], layouts=("row", "col"))
    # fixed dimension
    add("fs_fb", "fb", 12, "nmtools_array<size_t,2>", "fs_fb", 2, dims=[2])
    add("fs_hb", "hb", 12, "nmtools_array<size_t,3>", "fs_hb", 2, dims=[3])
    add("fs_db", "db", 0, "nmtools_array<size_t,2>", "fs_db", 3, dims=[2])
    # bounded dimension
    add("hs_fb", "fb", 8, SV + "<size_t,3>", "hs_fb", 3, dims=[1, 2, 3])
    add("hs_hb", "hb", 12, SV + "<size_t,2>", "hs_hb", 4, dims=[1, 2])
    add("hs_db", "db", 0, SV + "<size_t,2>", "hs_db", 4, dims=[1, 2])
    # dynamic dimension
    add("ds_fb", "fb", 6, "nmtools_list<size_t>", "ds_fb", 5)
    add("ds_hb", "hb", 6, "nmtools_list<size_t>", "ds_hb", 5)
    add("ds_db", "db", 0, "nmtools_list<size_t>", "ds_db", 6)
    # clipped shape
    add("ls_fb", "fb", 4, "nmtools_array<%s,2>" % (CL % 4), "ls_fb", 6, dims=[2], extmax=4)
    add("ls_hb", "hb", 8, "nmtools_array<%s,2>" % (CL % 4), "ls_hb", 7, dims=[2], extmax=4)
    add("ls_db", "db", 0, SV + "<%s,3>" % (CL % 4), "ls_db", 7, dims=[1, 2, 3], extmax=4)
    add("lst_db", "db", 0, _tuple([CL % 2, CL % 3]), "ls_db", 8, dims=[2], extmax=[2, 3])
    add("lst_hb", "hb", 6, _tuple([CL % 2, CL % 3]), "ls_hb", 8, dims=[2], extmax=[2, 3])
    # the bounded containers cast(kind) produces (hybrid_ndarray<T,N,1> as shape / buffer)
    add("hsH_hbH", "hb", 12, HV + "<size_t,3>", "hs_hb", 9, hv=True, dims=[1, 2, 3], layouts=("row",))
    add("hsH_db", "db", 0, HV + "<size_t,2>", "hs_db", 9, dims=[1, 2], layouts=("row", "col"))
    add("fs_hbH", "hb", 8, "nmtools_array<size_t,2>", "fs_hb", 9, hv=True, dims=[2], layouts=("row",))
    # double elements
    add("ds_db_f8", "db", 0, "nmtools_list<size_t>", "ds_db", 10, elem="double", layouts=("row", "col"))
    add("fs_hb_f8", "hb", 12, "nmtools_array<size_t,2>", "fs_hb", 10, elem="double", dims=[2], layouts=("row",))
    # legacy classes
    out.append(Cfg("fixed23", "na::fixed_ndarray<int,2,3>", "fixed", const_shape=[2, 3], kind="fixed", group=11))
    out.append(Cfg("fixed232", "na::fixed_ndarray<int,2,3,2>", "fixed", const_shape=[2, 3, 2], kind="fixed", group=11))
    out.append(Cfg("fixed4_f8", "na::fixed_ndarray<double,4>", "fixed", elem="double", const_shape=[4], kind="fixed", group=11))
    out.append(Cfg("hybrid12_2", "na::hybrid_ndarray<int,12,2>", "hybrid", dims=[2], cap=12, kind="hybrid", group=12))
    out.append(Cfg("hybrid8_3", "na::hybrid_ndarray<int,8,3>", "hybrid", dims=[3], cap=8, kind="hybrid", group=12))
    out.append(Cfg("hybrid6_1", "na::hybrid_ndarray<int,6,1>", "hybrid", dims=[1], cap=6, kind="hybrid", group=12))
    out.append(Cfg("dynamic", "na::dynamic_ndarray<int>", "dynamic", kind="dynamic", group=13))
    out.append(Cfg("dynamic_f8", "na::dynamic_ndarray<double>", "dynamic", elem="double", kind="dynamic", group=13))
    return out


# configurations / features that do not compile on the unchanged tree (compile-probed, see findings/c20 notes)
from .c20_allow import DENY_CONFIG, DENY_KINDS, DENY_DTYPES, DENY_CAST_INTO  # noqa: E402


def active_configs():
    out = []
    only = [x for x in os.environ.get("VERIF_C20_CONFIGS", "").split(",") if x]
    for c in configs():
        if c.name in DENY_CONFIG:
            continue
        if only and c.name not in only:
            continue
        c.kinds_mask &= ~DENY_KINDS.get(c.name, 0)
        c.kinds_mask &= ~DENY_KINDS.get("*" + c.cls, 0)
        c.dtypes_mask &= ~DENY_DTYPES.get(c.name, 0)
        if c.name in DENY_CAST_INTO or ("*" + c.cls) in DENY_CAST_INTO:
            c.cast_into = False
        out.append(c)
    return out


def tu_text(cfgs):
    """one TU for configurations that share the masks"""
    c0 = cfgs[0]
    lines = ["// generated by vf/c20_gen.py"]
    lines.append("#define C20_KINDS 0x%xul" % c0.kinds_mask)
    lines.append("#define C20_DTYPES 0x%xul" % c0.dtypes_mask)
    if not c0.cast_into:
        lines.append("#define C20_NO_CAST_INTO 1")
    lines.append('#include "c20_hist.hpp"')
    for i, c in enumerate(cfgs):
        lines.append("using A%d = %s;" % (i, c.ctype))
        lines.append("C20_CONFIG(%s, A%d)" % (c.name, i))
    lines.append("VH_MAIN()")
    return "\n".join(lines) + "\n"


def targets(flavor="asan", per_tu=2):
    """[(Target, [cfg,...])]; configurations with identical masks are packed per_tu to a TU"""
    buckets = {}
    for c in active_configs():
        buckets.setdefault((c.kinds_mask, c.dtypes_mask, c.cast_into, c.group), []).append(c)
    out = []
    for key in sorted(buckets, key=lambda k: (k[3], k[0], k[1], k[2])):
        cs = buckets[key]
        for i in range(0, len(cs), per_tu):
            part = cs[i:i + per_tu]
            name = "c20_hist_" + "_".join(c.name for c in part)
            t = B.Target(os.path.join(B.HARNESS, name + ".cpp"), flavor, name=name, text=tu_text(part))
            out.append((t, part))
    return out
