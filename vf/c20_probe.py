"""C20 developer aid: compile-probe every (configuration, feature) pair alone (g++ -fsyntax-only) to regenerate vf/c20_allow.py.

   python3-vt -m vf.c20_probe base|full|each [config ...]     (results: $VERIF_BUILD/c20_probe/probe_<mode>.json)
"""
import sys, os, subprocess, json
from concurrent.futures import ThreadPoolExecutor
from vf import c20_gen as G
from vf import build as B
OUT = os.path.join(B.BUILD, "c20_probe")
os.makedirs(OUT, exist_ok=True)
mode = sys.argv[1] if len(sys.argv) > 1 else "full"
only = sys.argv[2:] 
def comp(args):
    name, text = args
    p = os.path.join(OUT, "pr_%s.cpp" % name)
    open(p, "w").write(text)
    cmd = ["g++", "-std=c++17", "-fsyntax-only", "-DNMTOOLS_VERIF", "-isystem", os.path.join(B.REPO, "include"), "-I", B.HARNESS, p]
    r = subprocess.run(cmd, capture_output=True, text=True)
    errs = [l for l in r.stderr.splitlines() if "error" in l]
    return name, r.returncode, errs[:3]
jobs = []
for c in G.configs():
    if only and c.name not in only: continue
    if mode == "full":
        jobs.append((c.name, G.tu_text([c])))
    elif mode == "base":
        c.kinds_mask = 0; c.dtypes_mask = 0; c.cast_into = False
        jobs.append((c.name, G.tu_text([c])))
    elif mode == "each":
        for k in range(18):
            c2 = G.Cfg(c.name, c.ctype, c.cls); c2.kinds_mask = 1 << k; c2.dtypes_mask = 0; c2.cast_into = False
            jobs.append((c.name + "@K%d" % k, G.tu_text([c2])))
        for t in range(5):
            c2 = G.Cfg(c.name, c.ctype, c.cls); c2.kinds_mask = 0; c2.dtypes_mask = 1 << t; c2.cast_into = False
            jobs.append((c.name + "@T%d" % t, G.tu_text([c2])))
        c2 = G.Cfg(c.name, c.ctype, c.cls); c2.kinds_mask = 0; c2.dtypes_mask = 0; c2.cast_into = True
        jobs.append((c.name + "@M", G.tu_text([c2])))
with ThreadPoolExecutor(8) as ex:
    res = list(ex.map(comp, jobs))
bad = {}
for name, rc, errs in res:
    if rc: 
        print("FAIL", name, errs[:1])
        bad[name] = errs
print(len(res), "probed", len(bad), "failed")
json.dump(bad, open(os.path.join(OUT, "probe_%s.json" % mode), "w"), indent=1)
