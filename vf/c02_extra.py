"""C02, supplementary workloads that live outside the value-level module interface:
 * the view-level slicing cases of C05 (view::apply_slice / slice / apply_mutable_slice over the exhaustive single-axis grid,
   canonical and sampled multi-axis combinations): every argument there is an accepted argument (out-of-range bounds are clamped),
   so a bounds-hook event, a sanitizer report or a std::out_of_range is a C02 violation;
 * the type-level programs of C09/C11 (constant / clipped / fixed / bounded / hybrid containers and the 15 ndarray kinds): the
   static_vector capacity hook and the bounds hooks per phase (view built and read, evaluation) for calls whose arguments the
   reference accepts - 'bounded-capacity containers are never asked to hold more than their capacity'."""
from . import run as R
from .util import split_hooks, harness_targets, build_or_fail, HookAcc, SITE_NAMES

BOUNDS_SITES = ("ndarray_index", "ndarray_offset", "view_index", "view_index_mut", "svec_at", "svec_at_cap", "vec_at", "svec_capacity")


def _memory_kind(kind):
    if kind.startswith("asan:") or kind in ("glibcxx-assert", "signal:SIGSEGV", "signal:SIGBUS") or kind.startswith("terminate:std::out_of_range"):
        return True
    if kind.startswith("ubsan:"):
        return any(w in kind for w in ("out of bounds", "null pointer", "misaligned", "pointer overflow", "pointer index", "insufficient space"))
    return False


def slice_class(c):
    """coarse argument class of a slicing case (key material): per part kind and sign of the step / start position"""
    out = []
    for p in c.parts:
        if p[0] == "I":
            out.append("int")
        elif p[0] == "E":
            out.append("ellipsis")
        else:
            s, e, st = p[1:4]
            n = None
            out.append("range_%s" % ("neg_step" if (st is not None and st < 0) else "pos_step"))
    return "+".join(sorted(set(out)))


def run_slice_views(ctx, flavor="asan"):
    """-> summary dict; reports violations through ctx"""
    from .checks import c05 as C5
    quick = ctx.tier == "quick"
    rng = ctx.rng.__class__(ctx.seed * 7919 + 5)
    g = C5.Gen()
    C5.gen_single_view(g, 6, 4 if quick else 6)
    C5.gen_multi_canonical(g)
    if quick:
        C5.gen_multi_sampled(g, rng, per_ix=0, per_v=30)
        C5.gen_dyn_multi_sampled(g, rng, per_ix=0, per_v=40)
    else:
        C5.gen_multi_sampled(g, rng, per_ix=0, per_v=600, maxext=5)
        C5.gen_dyn_multi_sampled(g, rng, per_ix=0, per_v=600, maxext=5)
    cases = [c for c in g.cases if c.level != "ix"]
    bins = build_or_fail(harness_targets(C5.V_BINS, flavor))
    by_bin = {}
    for c in cases:
        by_bin.setdefault(c.bin, []).append(c)
    acc = HookAcc()
    nrun = ncrash = 0
    for b, cs in sorted(by_bin.items()):
        res, crashes, touts = R.run_cases(bins[(b, flavor)], [(c.cid, c.line) for c in cs], timeout=1800)
        byid = {c.cid: c for c in cs}
        for cr in crashes:
            ncrash += 1
            c = byid.get(cr.case_id)
            kind = cr.kind()
            if c is not None and _memory_kind(kind):
                ctx.violation("slice_view:%s:%s:crash:%s" % (c.mode, slice_class(c), kind), "[%s] a[%s] on shape %s (%s) died: %s" % (
                    flavor, C5.np_text(c.parts), c.shape, c.op, kind), dict(case=c.brief(), stderr=cr.stderr[-2500:]))
        for t_ in touts:
            ctx.inconc("timeout in slice case %s of %s" % (t_, b))
        for c in cs:
            if c.cid not in res:
                continue
            toks, hooks = split_hooks(res[c.cid])
            nrun += 1
            ctx.ev()
            if toks and toks[0] == "EXC" and any("range" in t for t in toks[:4]):
                ctx.violation("slice_view:%s:%s:exception:out_of_range" % (c.mode, slice_class(c)), "[%s] a[%s] on shape %s threw %s" % (
                    flavor, C5.np_text(c.parts), c.shape, " ".join(toks[:3])[:160]), dict(case=c.brief()))
            for s, v, f0, f1 in acc.add(hooks):
                site = SITE_NAMES.get(s, str(s))
                if site in BOUNDS_SITES:
                    ctx.violation("slice_view:%s:%s:hook:%s" % (c.mode, slice_class(c), site), "[%s] a[%s] on shape %s (%s): %s event outside its bound: value %d, bound %d (%d such events)" % (
                        flavor, C5.np_text(c.parts), c.shape, c.op, site, f0, f1, v), dict(case=c.brief(), line=" ".join(toks[:60])))
            if sum(e for s, (e, v, f0, f1) in hooks.items() if SITE_NAMES.get(s) in BOUNDS_SITES) > 0:
                ctx.seen((flavor, "slice_view", c.op, tuple(c.shape), C5.np_text(c.parts)))
    return dict(cases=nrun, crashes_contained=ncrash, hooks=acc.summary(),
                bounds_events=sum(e for s, e in acc.events.items() if SITE_NAMES.get(s) in BOUNDS_SITES))


def _phase_hooks(CR, r):
    """per-phase hook counters of one type-level record ({} if the record ended early)"""
    try:
        if r.g.op.family == "view":
            p = CR.parse_view_record(r.toks)
            return p["hk"] if p else {}
        p = CR.parse_index_record(r.toks)
        return p[1]["hk"] if p else {}
    except (ValueError, IndexError, KeyError):
        try:
            if r.g.op.family == "view":
                p = CR.parse_view_record(r.toks, static_only=True)
                return p["hk"] if p else {}
        except (ValueError, IndexError, KeyError):
            pass
        return {}


def run_typelevel(ctx):
    """the generated type-level programs of C09/C11 (same binaries): capacity / bounds hook violations per phase for calls the
    reference accepts.  -> summary dict"""
    from . import c09_run as CR
    from . import c09_gen as G
    recs, info = CR.run_plan(ctx, ctx.tier, ctx.seed, want_flavors=("asan", "nostl") if ctx.tier == "quick" else None)
    nrec = nacc = 0
    events = {}
    for r in recs:
        nrec += 1
        if r.crash is not None:
            kind = r.crash.kind()
            if _memory_kind(kind):
                exp = CR.expected_of(r)
                if exp not in (G.INVALID, G.NOTHING):
                    # a defect family the type-level checks already know by its CAUSE (vf/c09_run.py family_of) keeps one key here too,
                    # whatever the container kind and the sanitizer symptom (e.g. view::matmul with a 1-d operand: std::out_of_range with
                    # bounds-checked containers, heap-buffer-overflow with the library's own)
                    fam = CR.family_of(r.g.op.name, r.inst.cfg, CR.vals_brief(r), "crash")
                    key = ("typelevel:%s:memory" % fam) if fam else ("typelevel:%s:%s:crash:%s" % (r.g.op.name, G.cfg_class(r.inst.cfg), kind))
                    ctx.violation(key, "[%s] %s(%s) configuration %s died: %s" % (
                        r.flavor, r.g.op.name, CR.vals_brief(r), r.inst.cfg, kind), dict(line=r.line, stderr=r.crash.stderr[-2500:]))
            continue
        if r.toks is None:
            continue
        exp = CR.expected_of(r)
        if exp in (G.INVALID, G.NOTHING):
            continue            # not an accepted argument (or a broken precondition): nothing is demanded here
        nacc += 1
        ctx.ev()
        hk = _phase_hooks(CR, r)
        for tag, d in hk.items():
            for site, (viol, v, b, ev) in d.items():
                events[site] = events.get(site, 0) + ev
                if not viol or site != "svec_capacity":
                    continue
                if tag == "HK0":
                    continue    # arguments are built by the harness itself
                phase = {"HK1": "view" if r.g.op.family == "view" else "call", "HK2": "eval"}.get(tag, "operand")
                ctx.violation("typelevel:%s:%s:%s:hook:%s" % (r.g.op.name, G.cfg_class(r.inst.cfg), phase, site),
                              "[%s] %s(%s) configuration %s: %s (value %d, bound %d) while the %s" % (
                                  r.flavor, r.g.op.name, CR.vals_brief(r), r.inst.cfg,
                                  "a static_vector was asked to exceed its capacity" if site == "svec_capacity" else "an index left its extent / logical size",
                                  v, b, {"view": "view was built and read", "call": "result was computed", "eval": "view was evaluated", "operand": "operand was built"}[phase]),
                              dict(line=r.line))
        if sum(ev for d in hk.values() for (_, _, _, ev) in d.values()) > 0:
            ctx.seen(("typelevel", r.flavor, r.g.op.name, r.inst.cfg, str(CR.vals_brief(r))))
    return dict(records=nrec, accepted_calls=nacc, hook_events=events, programs=info.get("programs"), binaries=info.get("binaries"))
