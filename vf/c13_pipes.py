"""C13: table of the compile-time pipelines of harness/c13_pipes.def with their operand generators and NumPy models.

Every entry: id -> Pipe(group, slug, text, depth, dtype 'i'|'f', raw, gen(rng) -> (arrays[A,B,C] as np.int64 numerators, p), model(a,b,c,p)).
Operand values are integers (numerators); float pipelines divide by DEN (exact in binary32).
"""
import numpy as np

DEN = 8
MAXOUT = 96        # elements in an output
MAXIN = 160


class Pipe:
    def __init__(self, pid, group, slug, text, depth, dtype, raw, gen, model, tol=False):
        # group / raw / dtype are overwritten from harness/c13_pipes.def (single source of truth), see bottom of this file
        self.pid, self.group, self.slug, self.text, self.depth = pid, group, slug, text, depth
        self.dtype, self.raw, self.gen, self.model, self.tol = dtype, raw, gen, model, tol
        # structure of the expression tree:
        #   chain            every operation has at most one view operand and it is the first one
        #   ufunc_view_op    a binary ufunc has a (broadcast) view as an operand
        #   tree_right_view  a binary non-ufunc operation has a view as its *second* operand
        # tree: some binary operation has a view as its second operand (the expression is not a chain)
        self.cls = "chain"
        self.tree = False


# ---------------------------------------------------------------- shapes
def rshape(rng, lo=1, hi=4, maxsize=MAXOUT, minsize=1, maxext=6):
    for _ in range(1000):
        d = rng.randint(lo, hi)
        s = [rng.randint(1, maxext) for _ in range(d)]
        n = int(np.prod(s))
        if minsize <= n <= maxsize:
            return s
    return [2] * lo


def bpartner(rng, shape):
    """a shape that broadcasts with `shape` to exactly `shape`"""
    k = rng.randint(0, len(shape) - 1) if len(shape) > 1 else 0
    s = list(shape[k:])
    for i in range(len(s)):
        if rng.random() < 0.3:
            s[i] = 1
    return s


def bpair(rng, lo=1, hi=4):
    """two shapes broadcasting together (either may be the smaller one) -> (sa, sb)"""
    out = rshape(rng, lo, hi)
    sa, sb = list(out), bpartner(rng, out)
    if rng.random() < 0.35:
        # make a smaller on some axis where b is full
        for i in range(len(sa)):
            j = i - (len(sa) - len(sb))
            if j >= 0 and sb[j] == sa[i] and rng.random() < 0.3:
                sa[i] = 1
    if rng.random() < 0.5:
        sa, sb = sb, sa
    return sa, sb


def raxis(rng, dim, neg=True):
    ax = rng.randrange(dim)
    if neg and rng.random() < 0.3:
        ax -= dim
    return ax


def rperm(rng, dim):
    p = list(range(dim))
    rng.shuffle(p)
    return p


# ---------------------------------------------------------------- data
def lab(shape, mul=1):
    n = int(np.prod(shape))
    return (np.arange(1, n + 1, dtype=np.int64) * mul).reshape(shape)


def small(rng, shape, lo=1, hi=3):
    n = int(np.prod(shape))
    return np.array([rng.randint(lo, hi) for _ in range(n)], dtype=np.int64).reshape(shape)


def fdata(rng, shape, lo=-24, hi=24):
    n = int(np.prod(shape))
    return np.array([rng.randint(lo, hi) for _ in range(n)], dtype=np.int64).reshape(shape)


def fdistinct(rng, shape):
    """distinct numerators (provenance visible through monotone functions)"""
    n = int(np.prod(shape))
    vals = list(range(-(n // 2) - 3, n - (n // 2) + 3))
    rng.shuffle(vals)
    return np.array(vals[:n], dtype=np.int64).reshape(shape)


NONE = np.zeros([1], dtype=np.int64)


# ---------------------------------------------------------------- generators
def g_bin_lab(rng):
    sa, sb = bpair(rng)
    return [lab(sa), lab(sb, 1000), NONE], []


def g_bin_lab_axes(rng):
    sa, sb = bpair(rng)
    out = np.broadcast_shapes(tuple(sa), tuple(sb))
    return [lab(sa), lab(sb, 1000), NONE], rperm(rng, len(out))


def g_bin_f_axes(rng):
    sa, sb = bpair(rng)
    out = np.broadcast_shapes(tuple(sa), tuple(sb))
    return [fdistinct(rng, sa), fdata(rng, sb), NONE], rperm(rng, len(out))


def g_reduce_lab(rng):
    s = rshape(rng, 1, 4, MAXIN, 2)
    return [lab(s), NONE, NONE], [raxis(rng, len(s))]


def g_reduce_small(rng):
    s = rshape(rng, 1, 4, MAXIN, 2, maxext=5)
    return [small(rng, s), NONE, NONE], [raxis(rng, len(s))]


def g_reduce_f(rng):
    s = rshape(rng, 1, 4, MAXIN, 2)
    return [fdata(rng, s), NONE, NONE], [raxis(rng, len(s))]


def g_reduce_div(rng):
    s = rshape(rng, 1, 4, MAXIN, 2)
    ax = raxis(rng, len(s))
    ks = list(s)
    ks[ax] = 1
    # divisors 1,2,4,8: quotients exact in binary32
    b = np.array([rng.choice([1, 2, 4, 8]) * DEN for _ in range(int(np.prod(ks)))], dtype=np.int64).reshape(ks)
    return [fdata(rng, s), b, NONE], [ax]


def g_mul_add(rng):
    sa, sb = bpair(rng)
    return [lab(sa), lab(sb, 1000), NONE], []


def g_un_lab_axis(rng):
    s = rshape(rng)
    return [lab(s), NONE, NONE], [raxis(rng, len(s))]


def g_accum_lab(rng):
    # non-negative axis: accumulate/cumsum/cumprod with a negative axis return the input unchanged on the host already
    # (findings/c08_accumulate_negative_axis.md, not a C13 matter)
    s = rshape(rng)
    return [lab(s), NONE, NONE], [raxis(rng, len(s), neg=False)]


def g_accum_small(rng):
    s = rshape(rng, 1, 4, MAXOUT, 2, maxext=5)
    return [small(rng, s), NONE, NONE], [raxis(rng, len(s), neg=False)]


def g_fma_f(rng):
    sa, sb = bpair(rng)
    out = list(np.broadcast_shapes(tuple(sa), tuple(sb)))
    sc = bpartner(rng, out)
    return [fdata(rng, sa, -12, 12), fdata(rng, sb, -12, 12), fdata(rng, sc)], []


def g_matmul(rng):
    m, k, n = rng.randint(1, 5), rng.randint(1, 5), rng.randint(1, 6)
    batch = []
    r = rng.random()
    if r < 0.3:
        batch = [rng.randint(1, 3)]
    elif r < 0.4:
        batch = [rng.randint(1, 2), rng.randint(1, 3)]
    sa = batch + [m, k]
    sb = (batch if rng.random() < 0.5 else []) + [k, n]
    return [lab(sa), lab(sb, 100), NONE], []


def g_tr_flip(rng):
    s = rshape(rng, 1, 4)
    axes = rperm(rng, len(s))
    ts = [s[i] for i in axes]
    return [lab(s), lab(ts, 1000), NONE], [raxis(rng, len(s))] + axes


def g_red_tr_mul(rng):
    sa, sb = bpair(rng, 1, 4)
    out = list(np.broadcast_shapes(tuple(sa), tuple(sb)))
    axes = rperm(rng, len(out))
    return [small(rng, sa, 1, 9), lab(sb, 100), NONE], [raxis(rng, len(out))] + axes


def g_un_f(rng):
    s = rshape(rng)
    return [fdistinct(rng, s), NONE, NONE], []


def g_un_lab(rng):
    s = rshape(rng)
    return [lab(s), NONE, NONE], []


def g_un_lab_axes(rng):
    s = rshape(rng)
    return [lab(s), NONE, NONE], rperm(rng, len(s))


def g_expand(rng):
    s = rshape(rng, 1, 3)
    ax = rng.randint(0, len(s))
    if rng.random() < 0.3:
        ax -= len(s) + 1
    return [lab(s), NONE, NONE], [ax]


def g_squeeze(rng):
    s = rshape(rng, 1, 3)
    for _ in range(rng.randint(1, 2)):
        s.insert(rng.randint(0, len(s)), 1)
    if all(e == 1 for e in s):
        s.append(3)
    return [lab(s), NONE, NONE], []


def factor_shape(rng, n):
    s = []
    rem = n
    for _ in range(rng.randint(0, 3)):
        divs = [d for d in range(1, rem + 1) if rem % d == 0]
        d = rng.choice(divs)
        s.append(d)
        rem //= d
    s.append(rem)
    rng.shuffle(s)
    return s


def g_reshape(rng):
    s = rshape(rng)
    return [lab(s), NONE, NONE], factor_shape(rng, int(np.prod(s)))


def g_broadcast_to(rng):
    t = rshape(rng)
    return [lab(bpartner(rng, t)), NONE, NONE], t


def g_bcast_small_partner(rng):
    """a broadcast to t (some NON-leading axis stretched where possible); b broadcasts with t without forcing t's stretched extents"""
    t = rshape(rng, 2, 4)
    sa = list(t)
    k = rng.randrange(1, len(t))
    sa[k] = 1
    for i in range(len(sa)):
        if i != k and rng.random() < 0.3:
            sa[i] = 1
    if rng.random() < 0.4:
        sa = sa[rng.randint(0, k):]
    sb = [1] * rng.randint(1, len(t))
    for i in range(len(sb)):
        j = len(t) - len(sb) + i
        if j != k and rng.random() < 0.5:
            sb[i] = t[j]
    return [lab(sa), lab(sb, 7), NONE], t


def g_tile(rng):
    s = rshape(rng, 1, 3, 24)
    reps = [rng.randint(1, 3) for _ in range(len(s))]
    while int(np.prod(s)) * int(np.prod(reps)) > MAXOUT:
        reps[rng.randrange(len(reps))] = 1
    return [lab(s), NONE, NONE], reps


def g_repeat(rng):
    s = rshape(rng, 1, 3, 32)
    return [lab(s), NONE, NONE], [rng.randint(1, 3), raxis(rng, len(s), neg=False)]


def g_where(rng):
    # only the condition (the first operand) is broadcast: where() wraps its operands in broadcast_to views, and a
    # non-trivial view in a non-first position is mis-composed (findings/c13_tree_composition_right_view_operand.md)
    out = rshape(rng)
    sc = bpartner(rng, out)
    return [lab(out), lab(out, 1000), small(rng, sc, 0, 1)], []


def g_concat(rng):
    # non-negative axis only: on the unchanged tree view::concatenate with a negative axis over dynamic shapes asserts or
    # returns a wrong shape on the host already (not a C13 matter)
    s = rshape(rng, 1, 3, 48)
    ax = raxis(rng, len(s), neg=False)
    t = list(s)
    t[ax] = rng.randint(1, 4)
    return [lab(s), lab(t, 1000), NONE], [ax]


def g_pool(rng):
    N, C = rng.randint(1, 2), rng.randint(1, 2)
    H, W = rng.randint(2, 7), rng.randint(2, 7)
    kh, kw = rng.randint(1, min(3, H)), rng.randint(1, min(3, W))
    sh, sw = rng.randint(1, 3), rng.randint(1, 3)
    exact = (H - kh) % sh == 0 and (W - kw) % sw == 0
    ceil = 1 if (exact and rng.random() < 0.5) else 0
    # positive labels: on the host max_pool2d already yields 0 for a window of negative values (not a C13 matter)
    a = lab([N, C, H, W])
    rng.shuffle(a.reshape(-1))
    return [a, NONE, NONE], [kh, kw, sh, sw, ceil]


def g_outer(rng):
    sa = rshape(rng, 1, 2, 12)
    sb = rshape(rng, 1, 2, 8)
    return [lab(sa), lab(sb, 1000), NONE], []


def g_moveaxis(rng):
    s = rshape(rng, 1, 4)
    return [lab(s), NONE, NONE], [raxis(rng, len(s)), raxis(rng, len(s))]


def g_atleast(rng):
    s = rshape(rng, 1, 3)
    return [lab(s), NONE, NONE], []


def g_hstack(rng):
    s = rshape(rng, 1, 3, 48)
    ax = 0 if len(s) == 1 else 1
    t = list(s)
    t[ax] = rng.randint(1, 4)
    return [lab(s), lab(t, 1000), NONE], []


def g_vstack(rng):
    # a and b of the same shape: vstack = concatenate(reshape(a,..), reshape(b,..), 0) has a view as second operand, which the
    # linearised composition applies to the first operand (findings/c13_tree_composition_right_view_operand.md); with equal
    # shapes of dim >= 2 that is harmless; with different shapes or 1-d operands the mis-composed view is Nothing / garbage /
    # asserts (concatenate of a 2-d and a 1-d array) while it is read
    s = rshape(rng, 2, 4, 48)
    return [lab(s), lab(s, 1000), NONE], []


def g_flat2(rng):
    s = rshape(rng)
    t = factor_shape(rng, int(np.prod(s)))
    return [lab(s), lab(t, 1000), NONE], []


def g_bin_f(rng):
    sa, sb = bpair(rng)
    return [fdistinct(rng, sa), fdata(rng, sb), NONE], []


def g_red_mul(rng):
    sa, sb = bpair(rng)
    out = list(np.broadcast_shapes(tuple(sa), tuple(sb)))
    if len(out) == 1 and out[0] == 1:
        sa = sb = [3]
        out = [3]
    return [small(rng, sa, 1, 9), lab(sb, 100), NONE], [raxis(rng, len(out))]


def g_expand_red(rng):
    s = rshape(rng, 2, 4, MAXIN, 2)
    ax = raxis(rng, len(s))
    ax2 = rng.randint(0, len(s) - 1)
    return [lab(s), NONE, NONE], [ax, ax2]


def g_reshape_tr(rng):
    s = rshape(rng)
    return [lab(s), NONE, NONE], rperm(rng, len(s)) + factor_shape(rng, int(np.prod(s)))


def g_bcast_add(rng):
    sa, sb = bpair(rng, 1, 3)
    out = list(np.broadcast_shapes(tuple(sa), tuple(sb)))
    t = list(out)
    if rng.random() < 0.6 and int(np.prod(out)) * 3 <= MAXOUT:
        t = [rng.randint(1, 3)] + t
    for i in range(len(t)):
        j = i - (len(t) - len(out))
        if j >= 0 and out[j] == 1 and rng.random() < 0.7 and int(np.prod(t)) * 3 <= MAXOUT:
            t[i] = rng.randint(2, 3)
    return [lab(sa), lab(sb, 1000), NONE], t


def g_tile_flip(rng):
    (arrs, reps) = g_tile(rng)
    return arrs, [raxis(rng, arrs[0].ndim)] + reps


def g_atleast_nd(rng):
    s = rshape(rng, 1, 3)
    return [lab(s), NONE, NONE], [rng.randint(1, 4)]


def g_swapaxes(rng):
    s = rshape(rng, 1, 4)
    return [lab(s), NONE, NONE], [raxis(rng, len(s)), raxis(rng, len(s))]


def g_roll(rng):
    s = rshape(rng, 1, 4)
    ax = raxis(rng, len(s), neg=False)
    return [lab(s), NONE, NONE], [rng.randint(-s[ax], s[ax]), ax]


def g_concat_add(rng):
    sa, sb = bpair(rng, 1, 3)
    out = list(np.broadcast_shapes(tuple(sa), tuple(sb)))
    while int(np.prod(out)) > 60:
        sa, sb = bpair(rng, 1, 3)
        out = list(np.broadcast_shapes(tuple(sa), tuple(sb)))
    ax = raxis(rng, len(out), neg=False)
    t = list(out)
    t[ax] = rng.randint(1, 3)
    return [lab(sa), lab(sb, 1000), lab(t, 1000000)], [ax]


def g_matmul_tr(rng):
    # m == n: the (wrong) linearised composition matmul(transpose(a),b) is then shape-compatible, so that the extraction
    # check can compare values instead of running into an invalid matmul
    m, k = rng.randint(2, 5), rng.randint(2, 5)
    return [lab([m, k]), lab([m, k], 100), NONE], [1, 0]


def g_outer_add3(rng):
    sa, sb = bpair(rng, 1, 2)
    out = list(np.broadcast_shapes(tuple(sa), tuple(sb)))
    while int(np.prod(out)) > 16:
        sa, sb = bpair(rng, 1, 2)
        out = list(np.broadcast_shapes(tuple(sa), tuple(sb)))
    sc = rshape(rng, 1, 2, 6)
    return [lab(sa), lab(sb, 1000), lab(sc, 1000000)], []


def g_mul_f(rng):
    sa, sb = bpair(rng)
    return [fdata(rng, sa, -12, 12), fdata(rng, sb, -12, 12), NONE], []


def g_concat_flip(rng):
    # a and b of the same shape with an extent >= 2 on the flipped axis: the (wrong) linearised composition
    # concatenate(flip(a),b) is then a valid view of the same shape with different labels, so the extraction check
    # decides by values (with different shapes the wrongly composed view indexes out of bounds while it is printed)
    s = rshape(rng, 1, 3, 40, 2)
    ax = raxis(rng, len(s), neg=False)
    ax2 = rng.choice([i for i in range(len(s)) if s[i] >= 2])
    if rng.random() < 0.3:
        ax2 -= len(s)
    return [lab(s), lab(s, 1000), NONE], [ax, ax2]


# ---------------------------------------------------------------- models (NumPy)
def relu(x):
    return np.maximum(x, np.float32(0))


def m_pool(a, b, c, p):
    kh, kw, sh, sw, _ = p
    N, C, H, W = a.shape
    oh, ow = (H - kh) // sh + 1, (W - kw) // sw + 1
    out = np.zeros((N, C, oh, ow), dtype=a.dtype)
    for i in range(oh):
        for j in range(ow):
            out[:, :, i, j] = a[:, :, i * sh:i * sh + kh, j * sw:j * sw + kw].max(axis=(2, 3))
    return out


def m_softmax(a, b, c, p):
    e = np.exp(a - a.max(axis=p[0], keepdims=True))
    return (e / e.sum(axis=p[0], keepdims=True)).astype(np.float32)


def m_atleast_nd(a, b, c, p):
    s = list(a.shape)
    while len(s) < p[0]:
        s.insert(0, 1)
    return a.reshape(s)


f32 = np.float32

_P = [
    # quick tier: groups 0..3
    Pipe(1, 0, "add", "add(a,b)", 1, "i", 1, g_bin_lab, lambda a, b, c, p: a + b),
    Pipe(2, 0, "transpose_add", "transpose(add(a,b),axes)", 2, "i", 1, g_bin_lab_axes, lambda a, b, c, p: np.transpose(a + b, p)),
    Pipe(3, 0, "relu_transpose_add", "relu(transpose(add(a,b),axes))", 3, "f", 1, g_bin_f_axes, lambda a, b, c, p: relu(np.transpose(a + b, p))),
    Pipe(4, 1, "reduce_add", "reduce_add(a,axis)", 1, "i", 1, g_reduce_lab, lambda a, b, c, p: a.sum(axis=p[0])),
    Pipe(5, 1, "divide_reduce_add", "divide(reduce_add(a,axis,keepdims),b)", 2, "f", 1, g_reduce_div, lambda a, b, c, p: a.sum(axis=p[0], keepdims=True, dtype=f32) / b, True),
    Pipe(6, 1, "multiply_add_a", "multiply(add(a,b),a)", 2, "i", 1, g_mul_add, lambda a, b, c, p: (a + b) * a),
    Pipe(7, 2, "flip", "flip(a,axis)", 1, "i", 1, g_un_lab_axis, lambda a, b, c, p: np.flip(a, p[0])),
    Pipe(8, 2, "flatten_multiply_add", "flatten(multiply(add(a,b),a))", 3, "i", 1, g_mul_add, lambda a, b, c, p: ((a + b) * a).flatten()),
    Pipe(9, 2, "tanh_add_multiply", "tanh(add(multiply(a,b),c))", 3, "f", 1, g_fma_f, lambda a, b, c, p: np.tanh(a * b + c), True),
    Pipe(10, 3, "matmul", "matmul(a,b)", 1, "i", 1, g_matmul, lambda a, b, c, p: a @ b),
    Pipe(11, 3, "add_transpose_flip", "add(transpose(a,axes),flip(b,axis))", 2, "i", 1, g_tr_flip, lambda a, b, c, p: np.transpose(a, p[1:]) + np.flip(b, p[0])),
    Pipe(12, 3, "reduce_add_transpose_multiply", "reduce_add(transpose(multiply(a,b),axes),axis)", 3, "i", 1, g_red_tr_mul, lambda a, b, c, p: np.transpose(a * b, p[1:]).sum(axis=p[0])),
    # thorough tier
    Pipe(13, 4, "tanh", "tanh(a)", 1, "f", 1, g_un_f, lambda a, b, c, p: np.tanh(a), True),
    Pipe(14, 4, "tanh_add_scalar", "tanh(add(a,0.5f))", 2, "f", 1, g_un_f, lambda a, b, c, p: np.tanh(a + f32(0.5)), True),
    Pipe(15, 4, "exp_negative_fabs", "exp(negative(fabs(a)))", 3, "f", 1, g_un_f, lambda a, b, c, p: np.exp(-np.fabs(a)), True),
    Pipe(16, 4, "sigmoid", "sigmoid(a)", 1, "f", 1, g_un_f, lambda a, b, c, p: (1 / (1 + np.exp(-a.astype(np.float64)))).astype(f32), True),
    Pipe(17, 5, "transpose", "transpose(a,axes)", 1, "i", 1, g_un_lab_axes, lambda a, b, c, p: np.transpose(a, p)),
    Pipe(18, 5, "expand_dims", "expand_dims(a,axis)", 1, "i", 1, g_expand, lambda a, b, c, p: np.expand_dims(a, p[0])),
    Pipe(19, 5, "squeeze", "squeeze(a)", 1, "i", 1, g_squeeze, lambda a, b, c, p: np.squeeze(a)),
    Pipe(20, 5, "flatten", "flatten(a)", 1, "i", 1, g_un_lab, lambda a, b, c, p: a.flatten()),
    Pipe(21, 6, "reshape", "reshape(a,shape)", 1, "i", 1, g_reshape, lambda a, b, c, p: a.reshape(p)),
    Pipe(22, 6, "broadcast_to", "broadcast_to(a,shape)", 1, "i", 1, g_broadcast_to, lambda a, b, c, p: np.broadcast_to(a, p)),
    Pipe(23, 6, "tile", "tile(a,reps)", 1, "i", 1, g_tile, lambda a, b, c, p: np.tile(a, p)),
    Pipe(24, 6, "repeat", "repeat(a,repeats,axis)", 1, "i", 1, g_repeat, lambda a, b, c, p: np.repeat(a, p[0], p[1])),
    Pipe(25, 7, "where", "where(c,a,b)", 1, "i", 1, g_where, lambda a, b, c, p: np.where(c != 0, a, b)),
    Pipe(26, 7, "concatenate", "concatenate(a,b,axis)", 1, "i", 1, g_concat, lambda a, b, c, p: np.concatenate([a, b], p[0])),
    Pipe(27, 7, "max_pool2d", "max_pool2d(a,kernel,stride,ceil)", 1, "i", 0, g_pool, m_pool),
    Pipe(28, 7, "outer_add", "outer_add(a,b)", 1, "i", 1, g_outer, lambda a, b, c, p: np.add.outer(a, b)),
    Pipe(29, 8, "cumsum", "cumsum(a,axis)", 1, "i", 1, g_accum_lab, lambda a, b, c, p: np.cumsum(a, p[0])),
    Pipe(30, 8, "moveaxis", "moveaxis(a,src,dst)", 1, "i", 1, g_moveaxis, lambda a, b, c, p: np.moveaxis(a, p[0], p[1])),
    Pipe(31, 8, "atleast_2d", "atleast_2d(a)", 1, "i", 1, g_atleast, lambda a, b, c, p: np.atleast_2d(a)),
    Pipe(32, 8, "hstack", "hstack(a,b)", 1, "i", 1, g_hstack, lambda a, b, c, p: np.hstack([a, b])),
    Pipe(33, 9, "vstack", "vstack(a,b)", 1, "i", 1, g_vstack, lambda a, b, c, p: np.vstack([a, b])),
    Pipe(34, 9, "mean", "mean(a,axis)", 1, "f", 1, g_reduce_f, lambda a, b, c, p: a.mean(axis=p[0], dtype=f32), True),
    Pipe(35, 9, "prod", "prod(a,axis)", 1, "i", 1, g_reduce_small, lambda a, b, c, p: a.prod(axis=p[0])),
    Pipe(36, 9, "cumprod", "cumprod(a,axis)", 1, "i", 1, g_accum_small, lambda a, b, c, p: np.cumprod(a, p[0])),
    Pipe(37, 10, "relu", "relu(a)", 1, "f", 1, g_un_f, lambda a, b, c, p: relu(a)),
    Pipe(38, 10, "subtract_mean", "subtract(a,mean(a,axis,keepdims))", 2, "f", 1, g_reduce_f, lambda a, b, c, p: a - a.mean(axis=p[0], keepdims=True, dtype=f32), True),
    Pipe(39, 10, "flip_transpose", "flip(transpose(a,axes),axis)", 2, "i", 1, lambda rng: (lambda r: (r[0], [raxis(rng, r[0][0].ndim)] + r[1]))(g_un_lab_axes(rng)), lambda a, b, c, p: np.flip(np.transpose(a, p[1:]), p[0])),
    Pipe(40, 10, "add_flatten_flatten", "add(flatten(a),flatten(b))", 2, "i", 1, g_flat2, lambda a, b, c, p: a.flatten() + b.flatten()),
    Pipe(41, 11, "relu_subtract", "relu(subtract(a,b))", 2, "f", 1, g_bin_f, lambda a, b, c, p: relu(a - b)),
    Pipe(42, 11, "reduce_add_multiply", "reduce_add(multiply(a,b),axis)", 2, "i", 1, g_red_mul, lambda a, b, c, p: (a * b).sum(axis=p[0])),
    Pipe(43, 11, "expand_dims_reduce_add", "expand_dims(reduce_add(a,axis),axis2)", 2, "i", 1, g_expand_red, lambda a, b, c, p: np.expand_dims(a.sum(axis=p[0]), p[1])),
    Pipe(44, 11, "reshape_transpose", "reshape(transpose(a,axes),shape)", 2, "i", 1, g_reshape_tr, lambda a, b, c, p: np.transpose(a, p[:a.ndim]).reshape(p[a.ndim:])),
    Pipe(45, 12, "sqrt_reduce_add_square", "sqrt(reduce_add(multiply(a,a),axis))", 3, "f", 1, g_reduce_f, lambda a, b, c, p: np.sqrt((a * a).sum(axis=p[0], dtype=f32)), True),
    Pipe(46, 12, "softmax", "softmax(a,axis)", 1, "f", 1, g_reduce_f, m_softmax, True),
    Pipe(47, 12, "negative", "negative(a)", 1, "i", 1, g_un_lab, lambda a, b, c, p: -a),
    Pipe(48, 12, "broadcast_to_add", "broadcast_to(add(a,b),shape)", 2, "i", 1, g_bcast_add, lambda a, b, c, p: np.broadcast_to(a + b, p)),
    Pipe(49, 13, "tile_flip", "tile(flip(a,axis),reps)", 2, "i", 1, g_tile_flip, lambda a, b, c, p: np.tile(np.flip(a, p[0]), p[1:])),
    Pipe(50, 13, "atleast_nd", "atleast_nd(a,nd)", 1, "i", 1, g_atleast_nd, m_atleast_nd),
    Pipe(51, 13, "leaky_relu", "leaky_relu(a,0.25)", 1, "f", 1, g_un_f, lambda a, b, c, p: np.where(a >= 0, a, a * f32(0.25)).astype(f32)),
    Pipe(52, 13, "reduce_multiply", "reduce_multiply(a,axis)", 1, "i", 1, g_reduce_small, lambda a, b, c, p: a.prod(axis=p[0])),
    Pipe(53, 14, "accumulate_add", "accumulate_add(a,axis)", 1, "i", 1, g_accum_lab, lambda a, b, c, p: np.cumsum(a, p[0])),
    Pipe(54, 14, "reduce_maximum", "reduce_maximum(a,axis)", 1, "i", 1, g_reduce_lab, lambda a, b, c, p: a.max(axis=p[0])),
    Pipe(55, 14, "swapaxes", "swapaxes(a,ax1,ax2)", 1, "i", 1, g_swapaxes, lambda a, b, c, p: np.swapaxes(a, p[0], p[1])),
    Pipe(56, 14, "roll", "roll(a,shift,axis)", 1, "i", 1, g_roll, lambda a, b, c, p: np.roll(a, p[0], p[1])),
    Pipe(57, 14, "sum", "sum(a,axis)", 1, "i", 1, g_reduce_lab, lambda a, b, c, p: a.sum(axis=p[0])),
    Pipe(58, 2, "concatenate_add", "concatenate(add(a,b),c,axis)", 2, "i", 1, g_concat_add, lambda a, b, c, p: np.concatenate([a + b, c], p[0])),
    Pipe(59, 2, "flatten_concatenate_add", "flatten(concatenate(add(a,b),c,axis))", 3, "i", 0, g_concat_add, lambda a, b, c, p: np.concatenate([a + b, c], p[0]).flatten()),
    Pipe(60, 3, "matmul_a_transpose_b", "matmul(a,transpose(b,axes))", 2, "i", 1, g_matmul_tr, lambda a, b, c, p: a @ np.transpose(b, p)),
    Pipe(61, 3, "exp_negative_multiply", "exp(negative(multiply(a,b)))", 3, "f", 1, g_mul_f, lambda a, b, c, p: np.exp(-(a * b)), True),
    Pipe(62, 3, "outer_add_add", "outer_add(add(a,b),c)", 2, "i", 1, g_outer_add3, lambda a, b, c, p: np.add.outer(a + b, c)),
    Pipe(64, 16, "subtract_broadcast_to_b", "subtract(broadcast_to(a,shape),b)", 2, "i", 1, g_bcast_small_partner, lambda a, b, c, p: np.broadcast_to(a, p) - b),
    Pipe(65, 16, "negative_broadcast_to", "negative(broadcast_to(a,shape))", 2, "i", 1, g_bcast_small_partner, lambda a, b, c, p: -np.broadcast_to(a, p)),
    Pipe(66, 16, "exp_multiply_broadcast_to_scalar", "exp(multiply(broadcast_to(a,shape),0.5))", 3, "f", 1, g_bcast_small_partner,
         lambda a, b, c, p: np.exp(np.broadcast_to(a, p) * np.float32(0.5)), True),
    Pipe(67, 16, "hardtanh_add_params", "hardtanh(add(a,b),-0.25,0.75)", 2, "f", 1, g_bin_f, lambda a, b, c, p: np.clip(a + b, f32(-0.25), f32(0.75)).astype(f32)),
    Pipe(68, 16, "add_multiply_leaky_relu_param", "add(multiply(leaky_relu(a,0.125),b),0.5)", 3, "f", 1, g_mul_f,
         lambda a, b, c, p: (np.where(a >= 0, a, a * f32(0.125)).astype(f32) * b + f32(0.5)).astype(f32)),
    Pipe(63, 15, "concatenate_a_flip_b", "concatenate(a,flip(b,axis2),axis)", 2, "i", 1, g_concat_flip, lambda a, b, c, p: np.concatenate([a, np.flip(b, p[1])], p[0])),
]

PIPES = {p.pid: p for p in _P}
for _i in (5, 6, 8, 9, 11, 38, 40):
    PIPES[_i].cls = "ufunc_view_op"
for _i in (60, 63):
    PIPES[_i].cls = "tree_right_view"
# 46 softmax = divide(exp(x-max), sum(exp(x-max))): a composite whose internal views sit in non-first positions
for _i in (11, 38, 40, 46, 60, 63):
    PIPES[_i].tree = True


def _read_def():
    import os
    import re
    path = os.path.join(os.path.dirname(os.path.dirname(os.path.abspath(__file__))), "harness", "c13_pipes.def")
    g = None
    seen = set()
    for ln in open(path):
        m = re.match(r"#(?:el)?if C13_GROUP == (\d+)", ln)
        if m:
            g = int(m.group(1))
            continue
        m = re.match(r"C13_PIPE\((\d+), (\w+), (\d),", ln)
        if m:
            pid = int(m.group(1))
            pp = PIPES[pid]
            pp.group = g
            pp.dtype = "f" if m.group(2) in ("float", "double") else "i"
            pp.raw = int(m.group(3))
            seen.add(pid)
    if seen != set(PIPES):
        raise RuntimeError("c13_pipes.def and vf/c13_pipes.py disagree on the pipeline ids: %s" % sorted(seen ^ set(PIPES)))


_read_def()
QUICK_GROUPS = [0, 1, 2, 3, 16]
ALL_GROUPS = sorted({p.group for p in _P})
# pipelines whose extraction (get_function_composition) reads a dead temporary on the unchanged tree (findings/c13_*.md)
UAS_CLASSES = ("ufunc_view_op",)


def to_float(arr):
    return (arr.astype(np.float32) / np.float32(DEN)).astype(np.float32)


def expected(pipe, arrs, p):
    """NumPy result (np.ndarray) or None if the case must be skipped (overflow / sentinel collision / empty)"""
    if pipe.dtype == "f":
        a, b, c = [to_float(x) for x in arrs]
        with np.errstate(all="ignore"):
            r = np.asarray(pipe.model(a, b, c, p))
        r = r.astype(np.float32)
        if not np.all(np.isfinite(r)):
            return None
    else:
        a, b, c = arrs
        r = np.asarray(pipe.model(a, b, c, p))
        if r.size and (np.abs(r).max() >= 2 ** 31 - 1):
            return None
        # intermediate overflow guard: operands and result fit easily; products of the generators stay < 2^31 by construction
    if r.ndim == 0 or r.size == 0 or r.size > 2 * MAXOUT:
        return None
    if np.any(r == -77770000) or np.any(r == -88880000):
        return None
    return r
