"""Token parsing helpers shared by the checks."""
import itertools
import math
import os

import numpy as np

from . import build as B
from . import run as R
from .core import Inconclusive

SITE_NAMES = {0: "ndarray_index", 1: "ndarray_offset", 2: "view_index", 3: "svec_at", 4: "svec_capacity",
              5: "vec_at", 6: "clamp", 7: "eval_skip", 8: "kernel_write", 9: "svec_at_cap", 10: "view_index_mut", 11: "clamp_placeholder"}

DTYPES = {"b1": np.bool_, "i1": np.int8, "i2": np.int16, "i4": np.int32, "i8": np.int64,
          "u1": np.uint8, "u2": np.uint16, "u4": np.uint32, "u8": np.uint64,
          "f4": np.float32, "f8": np.float64}


class Tok:
    def __init__(self, toks):
        self.t = toks
        self.p = 0

    def done(self):
        return self.p >= len(self.t)

    def peek(self):
        return self.t[self.p] if self.p < len(self.t) else None

    def s(self):
        v = self.t[self.p]
        self.p += 1
        return v

    def i(self):
        return int(self.s())

    def vec(self):
        n = self.i()
        return [self.i() for _ in range(n)]

    def expect(self, w):
        v = self.s()
        if v != w:
            raise ValueError("expected %s got %s at %d in %s" % (w, v, self.p, " ".join(self.t[:60])))

    def num(self, tag):
        s = self.s()
        if tag[0] == "f":
            return float.fromhex(s) if ("x" in s or "nan" in s or "inf" in s) else float(s)
        return int(s)

    def array(self):
        """parse the output of vh::emit_array: returns None (nothing), or dict(tag, shape, data(list) or None)"""
        k = self.s()
        if k == "N":
            return None
        if k == "S":
            tag = self.s()
            return dict(tag=tag, shape=None, data=[self.num(tag)], scalar=True)
        if k != "A":
            raise ValueError("bad array token %s (%s)" % (k, " ".join(self.t[:40])))
        tag = self.s()
        shape = self.vec()
        n = self.i()
        if n < 0:
            return dict(tag=tag, shape=shape, data=None, scalar=False)
        data = [self.num(tag) for _ in range(n)]
        return dict(tag=tag, shape=shape, data=data, scalar=False)


def split_hooks(tokens):
    """tokens of an R record -> (payload tokens, hooks dict site->(events, violations, first0, first1))"""
    if "|H" in tokens:
        k = tokens.index("|H")
        hooks = {}
        for t in tokens[k + 1:]:
            p = t.split(":")
            hooks[int(p[0])] = (int(p[1]), int(p[2]), int(p[3]), int(p[4]))
        return tokens[:k], hooks
    return tokens, {}


def harness_targets(names, flavor):
    return [B.Target(os.path.join(B.HARNESS, n + ".cpp"), flavor) for n in names]


def build_or_fail(targets):
    res = B.build(targets)
    bad = [t for t in res if t.error]
    if bad:
        msg = "\n".join("%s[%s]: %s" % (t.name, t.flavor, t.error[-1500:]) for t in bad[:3])
        raise Inconclusive("harness build failed:\n" + msg)
    return {(t.name, t.flavor): t.binary for t in res}


def all_shapes(maxdim, maxext, mindim=0, minext=1):
    for d in range(mindim, maxdim + 1):
        for s in itertools.product(range(minext, maxext + 1), repeat=d):
            yield list(s)


def fmt_vec(v):
    return "%d %s" % (len(v), " ".join(str(int(x)) for x in v)) if len(v) else "0"


def hexf(x):
    return float(x).hex()


def ulp_close(a, b, tag, ulps=4):
    if a == b:
        return True
    if math.isnan(a) and math.isnan(b):
        return True
    if math.isnan(a) or math.isnan(b) or math.isinf(a) or math.isinf(b):
        return False
    if tag == "f4":
        eps = float(np.spacing(np.float32(max(abs(a), abs(b)))))
    else:
        eps = float(np.spacing(np.float64(max(abs(a), abs(b)))))
    return abs(a - b) <= ulps * eps


class HookAcc:
    """accumulates hook counters over records; reports violations"""

    def __init__(self):
        self.events = {}
        self.viol = {}

    def add(self, hooks):
        bad = []
        for s, (e, v, f0, f1) in hooks.items():
            self.events[s] = self.events.get(s, 0) + e
            if v:
                self.viol[s] = self.viol.get(s, 0) + v
                bad.append((s, v, f0, f1))
        return bad

    def summary(self):
        return {SITE_NAMES.get(s, str(s)): {"events": e, "violations": self.viol.get(s, 0)} for s, e in sorted(self.events.items())}
