"""C04: independent nested-loop definitions of pad / resize / expand (what NumPy does not have), and their validation
against the repository's own shipped expectations (include/nmtools/testing/data/array/{pad,resize,expand,sliding_window}.hpp).

A model that disagrees with a shipped vector is a bug of the model, not a finding: `validate_models()` returns the list
of disagreements and the check refuses to run (inconclusive) when it is not empty.
"""
import ast
import itertools
import os
import re

import numpy as np

from . import build as B


# ---------------------------------------------------------------------------------------------------------------
# models (documented definitions)
def pad_model(a, pad_width, fill):
    """ONNX order: pad_width = [b0, b1, ..., e0, e1, ...]; constant fill."""
    a = np.asarray(a)
    d = a.ndim
    assert len(pad_width) == 2 * d
    beg, end = list(pad_width[:d]), list(pad_width[d:])
    dst = [a.shape[i] + beg[i] + end[i] for i in range(d)]
    out = np.empty(dst, dtype=a.dtype)
    for idx in itertools.product(*[range(n) for n in dst]):
        src = [idx[i] - beg[i] for i in range(d)]
        if all(0 <= src[i] < a.shape[i] for i in range(d)):
            out[idx] = a[tuple(src)]
        else:
            out[idx] = fill
    return out


def resize_model(a, dst_shape):
    """nearest neighbour: src_i = floor(src_extent * dst_i / dst_extent) per axis."""
    a = np.asarray(a)
    d = a.ndim
    assert len(dst_shape) == d and all(n > 0 for n in dst_shape)
    out = np.empty(list(dst_shape), dtype=a.dtype)
    for idx in itertools.product(*[range(n) for n in dst_shape]):
        src = tuple((a.shape[i] * idx[i]) // dst_shape[i] for i in range(d))
        out[idx] = a[src]
    return out


def expand_model(a, axis, spacing, fill):
    """insert `spacing` fill cells between consecutive elements along each given axis."""
    a = np.asarray(a)
    d = a.ndim
    axes = [axis] if isinstance(axis, (int, np.integer)) else list(axis)
    sps = [spacing] * len(axes) if isinstance(spacing, (int, np.integer)) else list(spacing)
    assert len(sps) == len(axes)
    per = [0] * d
    for ax, sp in zip(axes, sps):
        assert -d <= ax < d
        per[ax % d] = sp
    dst = [a.shape[i] + (a.shape[i] - 1) * per[i] for i in range(d)]
    out = np.empty(dst, dtype=a.dtype)
    for idx in itertools.product(*[range(n) for n in dst]):
        if all(idx[i] % (per[i] + 1) == 0 for i in range(d)):
            out[idx] = a[tuple(idx[i] // (per[i] + 1) for i in range(d))]
        else:
            out[idx] = fill
    return out


def sliding_window_ref(a, window_shape, axis=None):
    """NumPy's sliding_window_view (the property names NumPy as the reference)."""
    ws = window_shape if isinstance(window_shape, (int, np.integer)) else tuple(window_shape)
    ax = axis if (axis is None or isinstance(axis, (int, np.integer))) else tuple(axis)
    return np.lib.stride_tricks.sliding_window_view(np.asarray(a), ws, ax)


# ---------------------------------------------------------------------------------------------------------------
# parsing the shipped test vectors
_block_re = re.compile(r"NMTOOLS_TESTING_DECLARE_(ARGS|EXPECT)\((\w+)\)\s*\{")
_decl_re = re.compile(r"inline\s+(?:const\s+)?(\w+)\s+(\w+)\s*((?:\[\d+\])*)\s*=\s*(.*?);", re.S)


def _body(text, start):
    depth, k = 1, start
    while depth and k < len(text):
        c = text[k]
        depth += c == "{"
        depth -= c == "}"
        k += 1
    return text[start:k - 1]


def _value(raw):
    s = re.sub(r"//[^\n]*", "", raw)
    s = s.strip()
    s = re.sub(r"^nmtools_array\s*", "", s)
    s = re.sub(r"(\d)(ul|u|l|f)\b", r"\1", s)
    s = s.replace("{", "[").replace("}", "]")
    s = re.sub(r",\s*\]", "]", s)
    return ast.literal_eval(s)


def parse_shipped(name):
    """-> {case: dict(args={name: value}, expect={name: value})}"""
    path = os.path.join(B.REPO, "include", "nmtools", "testing", "data", "array", name + ".hpp")
    with open(path) as f:
        text = f.read()
    cases = {}
    for m in _block_re.finditer(text):
        kind, case = m.group(1), m.group(2)
        body = _body(text, m.end())
        d = {}
        for dm in _decl_re.finditer(body):
            nm = dm.group(2)
            try:
                d[nm] = _value(dm.group(4))
            except (ValueError, SyntaxError):
                continue
        cases.setdefault(case, {})["args" if kind == "ARGS" else "expect"] = d
    return cases


def validate_models():
    """run the models on the shipped inputs; returns (number of vectors checked, [disagreements])."""
    bad = []
    n = 0

    def cmp(what, got, exp):
        nonlocal n
        n += 1
        exp = np.asarray(exp)
        if list(got.shape) != list(exp.shape) or not np.array_equal(got, exp):
            bad.append("%s: model gives shape %s %s, shipped expectation shape %s %s" % (
                what, list(got.shape), got.ravel().tolist()[:12], list(exp.shape), exp.ravel().tolist()[:12]))

    for case, c in sorted(parse_shipped("pad").items()):
        a, e = c.get("args", {}), c.get("expect", {})
        if "array" in a and "pad_width" in a and "result" in e:
            cmp("pad/" + case, pad_model(np.array(a["array"]), a["pad_width"], 0), e["result"])
    for case, c in sorted(parse_shipped("resize").items()):
        a, e = c.get("args", {}), c.get("expect", {})
        if "array" in a and "dst_shape" in a and "expected" in e:
            cmp("resize/" + case, resize_model(np.array(a["array"]), a["dst_shape"]), e["expected"])
    for case, c in sorted(parse_shipped("expand").items()):
        a, e = c.get("args", {}), c.get("expect", {})
        if "input" in a and "axis" in a and "result" in e:
            cmp("expand/" + case, expand_model(np.array(a["input"]), a["axis"], a.get("spacing", 1), a.get("fill_value", 0)), e["result"])
    for case, c in sorted(parse_shipped("sliding_window").items()):
        a, e = c.get("args", {}), c.get("expect", {})
        if "x" in a and "window_shape" in a and "expected" in e:
            cmp("sliding_window/" + case, sliding_window_ref(np.array(a["x"]), a["window_shape"], a.get("axis")), e["expected"])
    return n, bad
