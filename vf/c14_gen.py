"""C14: generator of functor / composition / extraction programs.

The property quantifies over PROGRAMS, so the harness is generated: an *expression spec* (JSON-able dict) is turned
into C++ ops (one `VH_OP` per expression, two for extraction) and, for every run-time case, into a case line plus the
structures the check needs (expression tree, leaf order, type signatures).

  kind A ("curry")    one functor: every attribute/operand split vs the direct view call
  kind B ("compose")  chain f1*f2*..*fm (2..4 functors, combinators allowed) applied to operands, every
                      parenthesisation / operand currying vs the nested direct view calls given by the stack model
  kind C ("extract")  a view tree built with direct view calls: get_function_operands / get_compute_graph /
                      apply(get_function_composition, operands)

`python3-vt -m vf.c14_gen --probe` compile-probes a deterministic candidate set against the working tree and writes
vf/c14_supported.json (the allow-list = the pool the check draws from).  Shapes, data and attribute values are run-time
arguments wherever the library accepts run-time values; attribute *kinds* and leaf *kinds* are types, i.e. part of the spec.
"""
import itertools
import json
import os
import random
import sys

import numpy as np

HERE = os.path.dirname(os.path.abspath(__file__))
SUPPORTED = os.environ.get("C14_SUPPORTED", os.path.join(HERE, "c14_supported.json"))


# ---------------------------------------------------------------------------------------------------------
# attribute kinds: how an attribute is declared in C++ and written into the case line
# ---------------------------------------------------------------------------------------------------------
def _fmt_vec(v):
    return "%d %s" % (len(v), " ".join(str(int(x)) for x in v)) if len(v) else "0"


def _fhex(x):
    return float(x).hex()


RUNTIME_KINDS = {
    "int": ("const int {n} = (int)in.i();", lambda v: str(int(v))),
    "idx": ("const nm_index_t {n} = (nm_index_t)in.i();", lambda v: str(int(v))),
    "size": ("const nm_size_t {n} = (nm_size_t)in.i();", lambda v: str(int(v))),
    "ilist": ("const auto {n} = vh::to_list<int>(in.vec());", _fmt_vec),
    "ulist": ("const auto {n} = vh::to_list<nm_size_t>(in.vec());", _fmt_vec),
    "iarr2": ("const auto {n} = c14_arr<int,2>(in.vec());", _fmt_vec),
    "f32": ("const float {n} = (float)in.d();", _fhex),
    "f64": ("const double {n} = (double)in.d();", _fhex),
    "bool": ("const bool {n} = in.i() != 0;", lambda v: "1" if v else "0"),
    # slices (start, stop) / (start, stop, step) with run-time integers
    "sl_ii": ("const auto {n} = nmtools_tuple<int,int>{{(int)in.i(),(int)in.i()}};", lambda v: "%d %d" % (v[0], v[1])),
    "sl_Ni": ("const auto {n} = nmtools_tuple<nm::none_t,int>{{nm::None,(int)in.i()}};", lambda v: "%d" % v[1]),
    "sl_iN": ("const auto {n} = nmtools_tuple<int,nm::none_t>{{(int)in.i(),nm::None}};", lambda v: "%d" % v[0]),
    "sl_iii": ("const auto {n} = nmtools_tuple<int,int,int>{{(int)in.i(),(int)in.i(),(int)in.i()}};", lambda v: "%d %d %d" % (v[0], v[1], v[2])),
}
CONST_KINDS = {
    "None": ("nm::None", None),
    "True": ("nm::True", True),
    "False": ("nm::False", False),
    "f32t": ("nm::float32", "f4"),
    "f64t": ("nm::float64", "f8"),
    "i32t": ("nm::int32", "i4"),
}


def kind_is_const(k):
    return k in CONST_KINDS or k.startswith("ct:")


def kind_const_value(k):
    if k.startswith("ct:"):
        return int(k[3:])
    return CONST_KINDS[k][1]


def kind_expr(k, name):
    if k.startswith("ct:"):
        return "meta::ct_v<%d>" % int(k[3:])
    if k in CONST_KINDS:
        return CONST_KINDS[k][0]
    return name


# ---------------------------------------------------------------------------------------------------------
# catalogue
# ---------------------------------------------------------------------------------------------------------
class Fun:
    def __init__(self, name, family, hdr, arity, variants=((),), sample=None, shape=None, fn=None, view=None,
                 n_out=1, comb=None, elem=None, dom=None, weight=1.0, post=None):
        self.name = name
        self.family = family
        self.hdr = hdr
        self.arity = arity
        self.variants = [tuple(v) for v in variants]   # each: ((role, kind), ...)
        self.sample = sample                           # (rng, shapes, fixed{role:value}) -> {role:value} | None
        self.shape = shape                             # (shapes, vals{role:value}) -> out shape (raises if invalid)
        self.fn = fn or ("fn::" + name)
        self.view = view or ("view::" + name)
        self.n_out = n_out
        self.comb = comb                               # combinator: list of input positions forming the output pack
        self.elem = elem                               # result element kind override ("b1"), else follows input
        self.dom = dom
        self.weight = weight
        self.post = post                               # C++ emitted after the includes (direct-call form with another argument order)


CAT = {}


def _add(f):
    CAT[f.name] = f
    return f


def _same(shapes, vals):
    return list(shapes[0])


def _bcast(shapes, vals):
    return list(np.broadcast_shapes(*[tuple(s) for s in shapes]))


def _none(rng, shapes, fixed):
    return {}


UF = "nmtools/array/functional/ufuncs/%s.hpp"
AC = "nmtools/array/functional/activations/%s.hpp"
FH = "nmtools/array/functional/%s.hpp"

for _n in ("sin cos tan tanh sinh cosh arcsin arccos arctan arcsinh arccosh arctanh exp exp2 expm1 log log2 log10 log1p "
           "sqrt cbrt fabs square negative positive reciprocal ceil floor rint").split():
    _add(Fun(_n, "ufunc1", UF % _n, 1, sample=_none, shape=_same))
for _n in "isfinite isinf isnan signbit".split():
    _add(Fun(_n, "ufunc1", UF % _n, 1, sample=_none, shape=_same, elem="b1", weight=0.5))
for _n in "relu relu6 sigmoid silu softsign tanhshrink hardswish log_sigmoid mish selu".split():
    _add(Fun(_n, "activation", AC % _n, 1, sample=_none, shape=_same))


def _fl(role, lo, hi):
    def s(rng, shapes, fixed):
        return {role: round(rng.uniform(lo, hi) * 16) / 16.0}
    return s


def _fl2(r0, r1):
    def s(rng, shapes, fixed):
        a = round(rng.uniform(-1.5, -0.25) * 16) / 16.0
        b = round(rng.uniform(0.25, 1.5) * 16) / 16.0
        return {r0: a, r1: b}
    return s


for _n, _role in (("celu", "alpha"), ("elu", "alpha"), ("hardshrink", "lambda"), ("leaky_relu", "slope"),
                  ("prelu", "alpha"), ("softshrink", "lambda")):
    _add(Fun(_n, "activation", AC % _n, 1, variants=[(), ((_role, "f32"),)], sample=_fl(_role, 0.125, 1.0), shape=_same))
_add(Fun("hardtanh", "activation", AC % "hardtanh", 1, variants=[(), (("min", "f32"), ("max", "f32"))], sample=_fl2("min", "max"), shape=_same))
_add(Fun("softplus", "activation", AC % "softplus", 1, variants=[(), (("beta", "f32"), ("threshold", "f32"))],
         sample=lambda rng, shapes, fixed: {"beta": rng.choice([0.5, 1.0, 2.0]), "threshold": rng.choice([1.0, 20.0])}, shape=_same))

BINARY = "add subtract multiply divide maximum minimum arctan2".split()
for _n in BINARY:
    _add(Fun(_n, "ufunc2", UF % _n, 2, sample=_none, shape=_bcast, weight=2.0))


# --- reductions ---------------------------------------------------------------------------------------------
def _axis_sample(rng, shapes, fixed, role="axis", allow_neg=True):
    r = len(shapes[0])
    if r == 0:
        return None
    if role in fixed:
        v = fixed[role]
        if v is None:
            return v
        if not (-r <= v < r):
            raise ValueError("axis")
        return v
    return rng.randrange(-r if allow_neg else 0, r)


def _red_sample(rng, shapes, fixed):
    if len(shapes[0]) == 0:
        return None
    out = {"axis": _axis_sample(rng, shapes, fixed)}
    out["dtype"] = fixed.get("dtype")
    out["initial"] = fixed["initial"] if "initial" in fixed else rng.choice([0.0, 1.0, 0.5])
    out["keepdims"] = fixed["keepdims"] if "keepdims" in fixed else rng.random() < 0.5
    out["ddof"] = fixed["ddof"] if "ddof" in fixed else 0
    return out


def _red_shape(shapes, vals):
    s = list(shapes[0])
    ax = vals.get("axis")
    kd = bool(vals.get("keepdims", False))
    if ax is None:
        return [1] * len(s) if kd else []
    ax = ax % len(s)
    if kd:
        s[ax] = 1
    else:
        s.pop(ax)
    return s


RED_VARIANTS = [
    (("axis", "int"),),
    (("axis", "int"), ("dtype", "None"), ("initial", "f32")),
    (("axis", "int"), ("dtype", "None"), ("initial", "f32"), ("keepdims", "bool")),
    (("axis", "int"), ("dtype", "None"), ("initial", "None"), ("keepdims", "True")),
    (("axis", "ct:0"), ("dtype", "None"), ("initial", "None"), ("keepdims", "False")),
]
for _n in ("sum", "prod"):
    _add(Fun(_n, "reduction", FH % _n, 1, variants=RED_VARIANTS, sample=_red_sample, shape=_red_shape, weight=2.0))
for _n, _op in (("reduce_add", "add"), ("reduce_multiply", "multiply"), ("reduce_maximum", "maximum"), ("reduce_minimum", "minimum")):
    _add(Fun(_n, "reduce", UF % _op, 1, variants=[RED_VARIANTS[0], RED_VARIANTS[3], RED_VARIANTS[2]], sample=_red_sample, shape=_red_shape))
_add(Fun("mean", "reduction", FH % "mean", 1, variants=[(("axis", "int"),), (("axis", "int"), ("dtype", "None"), ("keepdims", "bool")),
                                                       (("axis", "int"), ("dtype", "None"), ("keepdims", "True"))],
         sample=_red_sample, shape=_red_shape))
for _n in ("var", "stddev"):
    _add(Fun(_n, "reduction", FH % _n, 1, variants=[(("axis", "int"),), (("axis", "int"), ("dtype", "None"), ("ddof", "size"), ("keepdims", "True"))],
             sample=_red_sample, shape=_red_shape))


def _acc_sample(rng, shapes, fixed):
    if len(shapes[0]) == 0:
        return None
    return {"axis": _axis_sample(rng, shapes, fixed, allow_neg=False)}


for _n in ("cumsum", "cumprod"):
    _add(Fun(_n, "accumulate", FH % _n, 1, variants=[(("axis", "int"),)], sample=_acc_sample, shape=_same))
for _n, _op in (("accumulate_add", "add"), ("accumulate_multiply", "multiply"), ("accumulate_maximum", "maximum")):
    _add(Fun(_n, "accumulate", UF % _op, 1, variants=[(("axis", "int"),)], sample=_acc_sample, shape=_same))
for _n, _op in (("outer_add", "add"), ("outer_multiply", "multiply"), ("outer_subtract", "subtract")):
    _add(Fun(_n, "outer", UF % _op, 2, sample=_none, shape=lambda shapes, vals: list(shapes[0]) + list(shapes[1])))


def _softmax_sample(rng, shapes, fixed):
    if len(shapes[0]) == 0:
        return None
    return {"axis": _axis_sample(rng, shapes, fixed)}


_add(Fun("softmax", "nn", FH % "softmax", 1, variants=[(("axis", "int"),)], sample=_softmax_sample, shape=_same))
_add(Fun("softmin", "nn", FH % "softmin", 1, variants=[(("axis", "int"),)], sample=_softmax_sample, shape=_same))


# --- indexing -------------------------------------------------------------------------------------------------
def _prod(s):
    p = 1
    for e in s:
        p *= e
    return p


def _factorizations(n, k):
    if k == 1:
        return [[n]]
    out = []
    for d in range(1, n + 1):
        if n % d == 0:
            for rest in _factorizations(n // d, k - 1):
                out.append([d] + rest)
    return out


def _reshape_sample(rng, shapes, fixed):
    n = _prod(shapes[0])
    if n == 0:
        return None
    k = rng.randint(1, 3)
    return {"shape": rng.choice(_factorizations(n, k))}


def _reshape_shape(shapes, vals):
    if _prod(vals["shape"]) != _prod(shapes[0]):
        raise ValueError("reshape")
    return list(vals["shape"])


_add(Fun("reshape", "indexing", FH % "reshape", 1, variants=[(("shape", "ilist"),), (("shape", "ulist"),)], sample=_reshape_sample, shape=_reshape_shape, weight=2.0))


def _transpose_sample(rng, shapes, fixed):
    r = len(shapes[0])
    if r == 0:
        return None
    if "axes" in fixed:
        return {"axes": None}
    p = list(range(r))
    rng.shuffle(p)
    return {"axes": p}


def _transpose_shape(shapes, vals):
    s = list(shapes[0])
    ax = vals.get("axes")
    if ax is None:
        return s[::-1]
    if sorted(ax) != list(range(len(s))):
        raise ValueError("axes")
    return [s[a] for a in ax]


_add(Fun("transpose", "indexing", FH % "transpose", 1, variants=[(("axes", "ilist"),), (("axes", "None"),), ()], sample=_transpose_sample,
         shape=_transpose_shape, weight=2.0))
_add(Fun("flatten", "indexing", FH % "flatten", 1, sample=_none, shape=lambda shapes, vals: [_prod(shapes[0])]))


def _flip_sample(rng, shapes, fixed):
    r = len(shapes[0])
    if r == 0:
        return None
    if "axis" in fixed:
        return {"axis": None}
    return {"axis": rng.randrange(0, r)}


_add(Fun("flip", "indexing", FH % "flip", 1, variants=[(("axis", "int"),), (("axis", "None"),)], sample=_flip_sample, shape=_same))


def _need_rank(k):
    def s(rng, shapes, fixed):
        return {} if len(shapes[0]) >= k else None
    return s


_add(Fun("fliplr", "indexing", FH % "flip", 1, sample=_need_rank(2), shape=_same))
_add(Fun("flipud", "indexing", FH % "flip", 1, sample=_need_rank(1), shape=_same))


def _expand_dims_shape(shapes, vals):
    s = list(shapes[0])
    a = vals["axis"]
    if not (0 <= a <= len(s)):
        raise ValueError("axis")
    s.insert(a, 1)
    return s


_add(Fun("expand_dims", "indexing", FH % "expand_dims", 1, variants=[(("axis", "int"),), (("axis", "ct:0"),)],
         sample=lambda rng, shapes, fixed: {"axis": fixed["axis"] if "axis" in fixed else rng.randint(0, len(shapes[0]))}, shape=_expand_dims_shape))
_add(Fun("squeeze", "indexing", FH % "squeeze", 1, sample=lambda rng, shapes, fixed: {} if any(e != 1 for e in shapes[0]) else None,
         shape=lambda shapes, vals: [e for e in shapes[0] if e != 1]))


def _moveaxis_sample(rng, shapes, fixed):
    r = len(shapes[0])
    if r < 2:
        return None
    return {"source": rng.randrange(r), "destination": rng.randrange(r)}


_add(Fun("moveaxis", "indexing", FH % "moveaxis", 1, variants=[(("source", "int"), ("destination", "int"))], sample=_moveaxis_sample,
         shape=lambda shapes, vals: list(np.moveaxis(np.zeros(shapes[0]), vals["source"], vals["destination"]).shape)))


def _tile_sample(rng, shapes, fixed):
    r = len(shapes[0])
    if r == 0:
        return None
    k = rng.choice([r, r, max(1, r - 1), r + 1])
    return {"reps": [rng.randint(1, 2) for _ in range(k)]}


_add(Fun("tile", "indexing", FH % "tile", 1, variants=[(("reps", "ilist"),)], sample=_tile_sample,
         shape=lambda shapes, vals: list(np.tile(np.zeros(shapes[0]), vals["reps"]).shape)))


def _repeat_sample(rng, shapes, fixed):
    r = len(shapes[0])
    if r == 0:
        return None
    return {"repeats": rng.randint(1, 3), "axis": rng.randrange(r)}


_add(Fun("repeat", "indexing", FH % "repeat", 1, variants=[(("repeats", "int"), ("axis", "int"))], sample=_repeat_sample,
         shape=lambda shapes, vals: list(np.repeat(np.zeros(shapes[0]), vals["repeats"], vals["axis"]).shape)))


def _roll_sample(rng, shapes, fixed):
    r = len(shapes[0])
    if r == 0:
        return None
    ax = rng.randrange(r)
    n = shapes[0][ax]
    return {"shift": rng.randint(-(n - 1), n - 1) if n > 1 else 0, "axis": ax}


_add(Fun("roll", "indexing", FH % "roll", 1, variants=[(("shift", "int"), ("axis", "int"))], sample=_roll_sample, shape=_same))


def _broadcast_to_sample(rng, shapes, fixed):
    s = list(shapes[0])
    if len(s) == 0:
        return None
    t = [e if e != 1 else rng.randint(1, 3) for e in s]
    for _ in range(rng.randint(0, 1)):
        t.insert(0, rng.randint(1, 2))
    return {"shape": t}


_add(Fun("broadcast_to", "indexing", FH % "broadcast_to", 1, variants=[(("shape", "ilist"),), (("shape", "ulist"),)], sample=_broadcast_to_sample,
         shape=lambda shapes, vals: list(np.broadcast_to(np.zeros(shapes[0]), vals["shape"]).shape)))
_add(Fun("atleast_1d", "indexing", FH % "atleast_1d", 1, sample=_none, shape=lambda shapes, vals: list(shapes[0]) or [1]))
_add(Fun("atleast_2d", "indexing", FH % "atleast_2d", 1, sample=_none, shape=lambda shapes, vals: list(np.atleast_2d(np.zeros(shapes[0])).shape)))
_add(Fun("atleast_nd", "indexing", FH % "atleast_nd", 1, variants=[(("nd", "ct:3"),), (("nd", "ct:2"),)],
         sample=lambda rng, shapes, fixed: {"nd": fixed["nd"]},
         shape=lambda shapes, vals: [1] * max(0, vals["nd"] - len(shapes[0])) + list(shapes[0])))


def _take_sample(rng, shapes, fixed):
    r = len(shapes[0])
    if r == 0:
        return None
    ax = rng.randrange(r)
    n = shapes[0][ax]
    return {"indices": [rng.randrange(n) for _ in range(rng.randint(1, 3))], "axis": ax}


def _take_shape(shapes, vals):
    s = list(shapes[0])
    s[vals["axis"]] = len(vals["indices"])
    return s


_add(Fun("take", "indexing", FH % "take", 1, variants=[(("indices", "ilist"), ("axis", "int"))], sample=_take_sample, shape=_take_shape))


def _resize_sample(rng, shapes, fixed):
    r = len(shapes[0])
    if r == 0:
        return None
    return {"shape": [rng.randint(1, 4) for _ in range(r)]}


_add(Fun("resize", "indexing", FH % "resize", 1, variants=[(("shape", "ilist"),)], sample=_resize_sample, shape=lambda shapes, vals: list(vals["shape"])))


def _pad_sample(rng, shapes, fixed):
    r = len(shapes[0])
    if r == 0:
        return None
    return {"pad_width": [rng.randint(0, 2) for _ in range(2 * r)]}


def _pad_shape(shapes, vals):
    s = list(shapes[0])
    r = len(s)
    pw = vals["pad_width"]
    return [s[i] + pw[i] + pw[i + r] for i in range(r)]


_add(Fun("pad", "indexing", FH % "pad", 1, variants=[(("pad_width", "ilist"),)], sample=_pad_sample, shape=_pad_shape))


def _slice2_sample(rng, shapes, fixed):
    s = shapes[0]
    if len(s) != 2:
        return None
    out = {}
    for i, role in enumerate(("s0", "s1")):
        n = s[i]
        a = rng.randrange(0, n)
        b = rng.randint(a + 1, n)
        out[role] = (a, b)
    return out


_add(Fun("slice", "indexing", FH % "slice", 1, variants=[(("s0", "sl_ii"), ("s1", "sl_ii")), (("s0", "sl_iN"), ("s1", "sl_Ni"))], sample=_slice2_sample,
         shape=None))


def _slice_shape(shapes, vals):
    s = shapes[0]
    out = []
    for i, role in enumerate(("s0", "s1")):
        a, b = vals[role]
        out.append(len(range(s[i])[slice(a, b)]))
    return out


CAT["slice"].shape = _slice_shape


def _compress_sample(rng, shapes, fixed):
    r = len(shapes[0])
    if r == 0:
        return None
    ax = rng.randrange(r)
    n = shapes[0][ax]
    c = [rng.randint(0, 1) for _ in range(n)]
    if sum(c) == 0:
        c[rng.randrange(n)] = 1
    return {"condition": c, "axis": ax}


def _compress_shape(shapes, vals):
    s = list(shapes[0])
    s[vals["axis"]] = sum(1 for c in vals["condition"] if c)
    return s


_add(Fun("compress", "indexing", FH % "compress", 1, variants=[(("condition", "ilist"), ("axis", "int"))], sample=_compress_sample, shape=_compress_shape,
         view="c14_compress",
         post="static constexpr auto c14_compress = [](const auto& array, const auto& condition, auto axis){ return view::compress(condition, array, axis); };"))


# --- joining --------------------------------------------------------------------------------------------------
def _concat_sample(rng, shapes, fixed):
    r = len(shapes[0])
    if r == 0 or len(shapes[1]) != r:
        return None
    cands = [ax for ax in range(r) if all(shapes[0][i] == shapes[1][i] for i in range(r) if i != ax)]
    if not cands:
        return None
    return {"axis": rng.choice(cands)}


_add(Fun("concatenate", "joining", FH % "concatenate", 2, variants=[(("axis", "int"),)], sample=_concat_sample,
         shape=lambda shapes, vals: list(np.concatenate([np.zeros(shapes[0]), np.zeros(shapes[1])], vals["axis"]).shape)))


def _stack_sample(rng, shapes, fixed):
    if list(shapes[0]) != list(shapes[1]) or len(shapes[0]) == 0:
        return None
    if "axis" in fixed:
        return {"axis": fixed["axis"]}
    return {"axis": rng.randint(0, len(shapes[0]))}


_add(Fun("stack", "joining", FH % "stack", 2, variants=[(), (("axis", "int"),), (("axis", "ct:1"),)], sample=_stack_sample,
         shape=lambda shapes, vals: list(np.stack([np.zeros(shapes[0]), np.zeros(shapes[1])], vals.get("axis", 0)).shape)))
_add(Fun("hstack", "joining", FH % "hstack", 2, sample=lambda rng, shapes, fixed: {} if len(shapes[0]) >= 1 else None,
         shape=lambda shapes, vals: list(np.hstack([np.zeros(shapes[0]), np.zeros(shapes[1])]).shape)))
_add(Fun("vstack", "joining", FH % "vstack", 2, sample=lambda rng, shapes, fixed: {} if len(shapes[0]) >= 1 else None,
         shape=lambda shapes, vals: list(np.vstack([np.zeros(shapes[0]), np.zeros(shapes[1])]).shape)))
_add(Fun("where", "joining", FH % "where", 3, sample=_none, shape=_bcast))
_add(Fun("clip", "joining", UF % "clip", 3, sample=_none, shape=_bcast))


# --- nn / linalg --------------------------------------------------------------------------------------------------
def _matmul_shape(shapes, vals):
    a, b = shapes
    if len(a) < 2 or len(b) < 2:
        raise ValueError("matmul rank")
    return list(np.matmul(np.zeros(a), np.zeros(b)).shape)


_add(Fun("matmul", "nn", FH % "matmul", 2, sample=_none, shape=_matmul_shape, weight=2.0))


def _conv_shape(nsp):
    def f(shapes, vals):
        x, w = shapes[0], shapes[1]
        if len(x) != nsp + 2 or len(w) != nsp + 2 or x[1] != w[1]:
            raise ValueError("conv")
        if len(shapes) > 2 and list(shapes[2]) != [w[0]]:
            raise ValueError("bias")
        sp = [x[2 + i] - w[2 + i] + 1 for i in range(nsp)]
        if min(sp) < 2:
            raise ValueError("conv size")
        return [x[0], w[0]] + sp
    return f


_add(Fun("conv1d", "nn", FH % "conv1d", 2, sample=_none, shape=_conv_shape(1), view="c14_conv1d",
         post="static constexpr auto c14_conv1d = [](const auto& x, const auto& w){ return view::conv1d(x, w, nm::None); };"))
_add(Fun("conv1d_bias", "nn", FH % "conv1d", 3, sample=_none, shape=_conv_shape(1), view="view::conv1d"))
_add(Fun("conv2d", "nn", FH % "conv2d", 2, sample=_none, shape=_conv_shape(2), view="c14_conv2d",
         post="static constexpr auto c14_conv2d = [](const auto& x, const auto& w){ return view::conv2d(x, w, nm::None); };"))
_add(Fun("conv2d_bias", "nn", FH % "conv2d", 3, sample=_none, shape=_conv_shape(2), view="view::conv2d"))


def _bn_shape(shapes, vals):
    x = shapes[0]
    if len(x) != 4:
        raise ValueError("bn")
    for s in shapes[1:]:
        if list(s) != [x[1]]:
            raise ValueError("bn params")
    return list(x)


_add(Fun("batch_norm", "nn", FH % "batch_norm", 5, sample=_none, shape=_bn_shape))


def _pool_sample(rng, shapes, fixed):
    s = shapes[0]
    if len(s) < 2 or min(s[-2:]) < 2:
        return None
    k = [rng.randint(1, min(2, s[-2])), rng.randint(1, min(2, s[-1]))]
    st = [rng.randint(1, 2), rng.randint(1, 2)]
    return {"kernel_size": k, "stride": st, "ceil_mode": fixed.get("ceil_mode", False)}


def _pool_shape(shapes, vals):
    s = list(shapes[0])
    k, st = vals["kernel_size"], vals["stride"]
    for i in (0, 1):
        n = s[-2 + i]
        if vals.get("ceil_mode"):
            o = -(-(n - k[i]) // st[i]) + 1
        else:
            o = (n - k[i]) // st[i] + 1
        s[-2 + i] = o
    return s


for _n in ("avg_pool2d", "max_pool2d"):
    _add(Fun(_n, "nn", FH % "pooling", 1, variants=[(("kernel_size", "ilist"), ("stride", "ilist"), ("ceil_mode", "False")),
                                                  (("kernel_size", "iarr2"), ("stride", "iarr2"), ("ceil_mode", "True"))],
             sample=_pool_sample, shape=_pool_shape))


# --- creation (arity 0) -----------------------------------------------------------------------------------------------
def _shape_attr_sample(rng, shapes, fixed):
    out = {"shape": [rng.randint(1, 3) for _ in range(rng.randint(1, 3))], "dtype": fixed.get("dtype")}
    out["fill_value"] = round(rng.uniform(-2, 2) * 8) / 8.0
    return out


_add(Fun("ones", "creation", FH % "ones", 0, variants=[(("shape", "ilist"), ("dtype", "f32t")), (("shape", "ulist"), ("dtype", "f64t"))],
         sample=_shape_attr_sample, shape=lambda shapes, vals: list(vals["shape"])))
_add(Fun("zeros", "creation", FH % "zeros", 0, variants=[(("shape", "ilist"), ("dtype", "f32t")), (("shape", "ulist"), ("dtype", "i32t"))],
         sample=_shape_attr_sample, shape=lambda shapes, vals: list(vals["shape"])))
_add(Fun("full", "creation", FH % "full", 0, variants=[(("shape", "ilist"), ("fill_value", "f32"))],
         sample=_shape_attr_sample, shape=lambda shapes, vals: list(vals["shape"])))


def _arange_sample(rng, shapes, fixed):
    a = rng.randint(-3, 3)
    return {"start": a, "stop": a + rng.randint(1, 6), "step": rng.randint(1, 2), "dtype": fixed.get("dtype")}


_add(Fun("arange", "creation", FH % "arange", 0, variants=[(("stop", "int"),), (("start", "int"), ("stop", "int")),
                                                         (("start", "int"), ("stop", "int"), ("step", "int"), ("dtype", "f32t"))],
         sample=lambda rng, shapes, fixed: {"start": rng.randint(0, 2), "stop": rng.randint(3, 7), "step": rng.randint(1, 2), "dtype": fixed.get("dtype")},
         shape=lambda shapes, vals: [len(range(vals.get("start", 0), vals["stop"], vals.get("step", 1)))]))

# --- combinators ----------------------------------------------------------------------------------------------------------------
CB = "nmtools/array/functional/combinator.hpp"
_add(Fun("swap", "combinator", CB, 2, fn="cb::swap", comb=[1, 0], n_out=2, weight=2.0))
_add(Fun("dup", "combinator", CB, 1, fn="cb::dup", comb=[0, 0], n_out=2, weight=2.0))
_add(Fun("dup3", "combinator", CB, 1, fn="cb::dup_n<3>", comb=[0, 0, 0], n_out=3, weight=0.5))
_add(Fun("dig1", "combinator", CB, 2, fn="cb::dig1", comb=[1, 0], n_out=2))
_add(Fun("dig2", "combinator", CB, 3, fn="cb::dig2", comb=[2, 0, 1], n_out=3))
_add(Fun("dig3", "combinator", CB, 4, fn="cb::dig_n<3>", comb=[3, 0, 1, 2], n_out=4, weight=0.5))
_add(Fun("bury1", "combinator", CB, 2, fn="cb::bury1", comb=[1, 0], n_out=2))
_add(Fun("bury2", "combinator", CB, 3, fn="cb::bury2", comb=[1, 2, 0], n_out=3))
_add(Fun("bury3", "combinator", CB, 4, fn="cb::bury_n<3>", comb=[1, 2, 3, 0], n_out=4, weight=0.5))

FAMILIES = sorted({f.family for f in CAT.values()})

# extra C++ emitted at the top of every generated TU (direct-call forms the catalogue refers to)
PRELUDE = r'''
#include "c14_common.hpp"
template <typename T, size_t N>
static nmtools_array<T,N> c14_arr(const std::vector<long long>& v)
{
    nmtools_array<T,N> a{};
    for (size_t i = 0; i < N && i < v.size(); i++) a[i] = (T)v[i];
    return a;
}
'''

# ---------------------------------------------------------------------------------------------------------
# leaves
# ---------------------------------------------------------------------------------------------------------
LEAF_T = {"F": ("float", "f4"), "D": ("double", "f8"), "I": ("int", "i4")}


def leaf_decl(kind, name):
    """C++ declaration of leaf `name` of the given kind (reads its tokens from `in`)."""
    if kind[0] == "d":
        return "auto %s = c14::leaf<%s>(in);" % (name, LEAF_T[kind[1]][0])
    if kind[0] == "s":
        return "auto %s = c14::scalar<%s>(in);" % (name, LEAF_T[kind[1]][0])
    if kind[0] == "x":
        t, shp = kind[1], [int(e) for e in kind.split(":")[1].split("x")]
        n = 1
        for e in shp:
            n *= e
        return "auto %s = c14::fixed_leaf<na::ndarray_t<nmtools_array<%s,%d>, nmtools_tuple<%s>>>(in);" % (
            name, LEAF_T[t][0], n, ",".join("meta::ct<%d>" % e for e in shp))
    raise ValueError(kind)


def leaf_fixed_shape(kind):
    if kind[0] == "x":
        return [int(e) for e in kind.split(":")[1].split("x")]
    if kind[0] == "s":
        return []
    return None


# ---------------------------------------------------------------------------------------------------------
# expression trees
#   node: {"f": name, "v": variant index, "args": [node | {"leaf": i}], "k": instance number}
# ---------------------------------------------------------------------------------------------------------
def is_leaf(n):
    return "leaf" in n


def tree_nodes(t):
    """post-order list of op nodes"""
    out = []

    def rec(n):
        if is_leaf(n):
            return
        for a in n["args"]:
            rec(a)
        out.append(n)
    rec(t)
    return out


def tree_leaves(t):
    """leaf occurrences in DFS (left-to-right) order: list of leaf indices"""
    out = []

    def rec(n):
        if is_leaf(n):
            out.append(n["leaf"])
        else:
            for a in n["args"]:
                rec(a)
    rec(t)
    return out


def tree_depth(t):
    return 0 if is_leaf(t) else 1 + max(tree_depth(a) for a in t["args"])


def number_instances(t):
    """assign k = 0.. to op nodes (post-order) unless already numbered (chains number by chain position)"""
    for i, n in enumerate(tree_nodes(t)):
        n.setdefault("k", i)
    return t


def attr_names(node, ai):
    return "A%d_%d" % (node["k"], ai)


def node_variant(node):
    return CAT[node["f"]].variants[node["v"]]


def tree_signature(n, leaf_kinds):
    """type signature: two sub-expressions with equal signature have the same C++ type"""
    if is_leaf(n):
        return ("leaf", leaf_kinds[n["leaf"]])
    return (n["f"], tuple(k for _, k in node_variant(n)), tuple(tree_signature(a, leaf_kinds) for a in n["args"]))


def tree_value_key(n):
    """structural identity including leaf identities and attribute instances (same key => same value)"""
    if is_leaf(n):
        return ("leaf", n["leaf"])
    return (n["f"], n["v"], n.get("k"), tuple(tree_value_key(a) for a in n["args"]))


def view_expr(n, leaf_name=lambda i: "L%d" % i):
    """nested direct view call"""
    if is_leaf(n):
        return leaf_name(n["leaf"])
    f = CAT[n["f"]]
    parts = [view_expr(a, leaf_name) for a in n["args"]]
    parts += [kind_expr(k, attr_names(n, i)) for i, (_, k) in enumerate(node_variant(n))]
    return "%s(%s)" % (f.view, ", ".join(parts))


def functor_expr(n):
    f = CAT[n["f"]]
    return f.fn + "".join("[%s]" % kind_expr(k, attr_names(n, i)) for i, (_, k) in enumerate(node_variant(n)))


def classify_tree(t):
    """structural classes the known library limitations are keyed on"""
    bushy = False
    pos_ge1 = False
    bin_over_view = False
    for n in tree_nodes(t):
        vc = [i for i, a in enumerate(n["args"]) if not is_leaf(a)]
        if len(vc) >= 2:
            bushy = True
        if any(i >= 1 for i in vc):
            pos_ge1 = True
        if CAT[n["f"]].family == "ufunc2" and vc:
            bin_over_view = True
    return dict(bushy=bushy, pos_ge1=pos_ge1, bin_over_view=bin_over_view)


# ---------------------------------------------------------------------------------------------------------
# chains (kind B): stack model  ->  reference tree
# ---------------------------------------------------------------------------------------------------------
def chain_arity(chain):
    """(number of operands consumed, number of results) of f1*...*fm by the stack model; None if ill-formed"""
    need = 0
    have = 0   # results currently on the stack produced by the functors applied so far
    for item in reversed(chain):
        f = CAT[item["f"]]
        if have < f.arity:
            need += f.arity - have
            have = 0
        else:
            have -= f.arity
        have += f.n_out
    return need, have


def chain_tree(chain, n_operands):
    """apply the stack model: operands are leaves 0..n-1 (in call order); returns list of result trees"""
    stack = [{"leaf": i} for i in range(n_operands)]
    m = len(chain)
    for pos in range(m - 1, -1, -1):
        item = chain[pos]
        f = CAT[item["f"]]
        if len(stack) < f.arity:
            raise ValueError("not enough operands")
        args, rest = stack[:f.arity], stack[f.arity:]
        if f.comb is not None:
            res = [args[j] for j in f.comb]
        else:
            res = [{"f": item["f"], "v": item["v"], "args": args, "k": pos}]
        stack = res + rest
    return stack


def parenthesisations(m):
    """all binary bracketings of positions 0..m-1 as nested tuples"""
    def rec(lo, hi):
        if hi - lo == 1:
            return [lo]
        out = []
        for mid in range(lo + 1, hi):
            for a in rec(lo, mid):
                for b in rec(mid, hi):
                    out.append((a, b))
        return out
    return rec(0, m)


def paren_expr(p, names):
    if isinstance(p, int):
        return names[p]
    return "(%s * %s)" % (paren_expr(p[0], names), paren_expr(p[1], names))


def operand_splits(n):
    """all compositions of n operands into consecutive groups: list of lists of group sizes"""
    if n == 0:
        return [[]]
    out = []
    for first in range(1, n + 1):
        for rest in operand_splits(n - first):
            out.append([first] + rest)
    return out


def call_expr(fexpr, names, split):
    s = fexpr
    i = 0
    for g in split:
        s += "(%s)" % ", ".join(names[i:i + g])
        i += g
    return s


# ---------------------------------------------------------------------------------------------------------
# code generation
# ---------------------------------------------------------------------------------------------------------
def spec_tree(spec):
    """reference tree(s) of a spec: (list of result trees, n_leaves)"""
    if spec["t"] == "A":
        f = CAT[spec["f"]]
        if f.comb is not None:
            return chain_tree([{"f": spec["f"], "v": 0}], len(spec["leaves"])), len(spec["leaves"])
        return [number_instances({"f": spec["f"], "v": spec["v"], "args": [{"leaf": i} for i in range(f.arity)]})], f.arity
    if spec["t"] == "B":
        return chain_tree(spec["chain"], len(spec["leaves"])), len(spec["leaves"])
    return [number_instances(spec["tree"])], len(spec["leaves"])


def spec_functors(spec):
    if spec["t"] == "A":
        return {spec["f"]}
    if spec["t"] == "B":
        return {it["f"] for it in spec["chain"]}
    return {n["f"] for n in tree_nodes(spec["tree"])}


# get_function_t specialisations (needed by extraction) live in the generic functor headers
EXTRACT_HEADERS = ["nmtools/array/functional/ufunc/ufunc.hpp", "nmtools/array/functional/ufunc/reduce.hpp",
                   "nmtools/array/functional/ufunc/accumulate.hpp", "nmtools/array/functional/ufunc/outer.hpp",
                   "nmtools/array/functional/indexing.hpp"]


def spec_headers(spec):
    hs = {CAT[f].hdr for f in spec_functors(spec)}
    if spec["t"] == "C":
        hs |= set(EXTRACT_HEADERS)
    return hs


def spec_instances(spec):
    """op instances that own attribute variables: list of nodes (dicts with f, v, k)"""
    if spec["t"] == "A":
        return [{"f": spec["f"], "v": spec["v"], "k": 0}]
    if spec["t"] == "B":
        return [{"f": it["f"], "v": it["v"], "k": pos} for pos, it in enumerate(spec["chain"])]
    return tree_nodes(number_instances(spec["tree"]))


def _decls(spec):
    lines = []
    for i, k in enumerate(spec["leaves"]):
        lines.append("    " + leaf_decl(k, "L%d" % i))
    lines.append("    c14::Leaves lv; " + " ".join("lv.add(L%d);" % i for i in range(len(spec["leaves"]))))
    for inst in spec_instances(spec):
        for ai, (_, kind) in enumerate(node_variant(inst)):
            if not kind_is_const(kind):
                lines.append("    " + RUNTIME_KINDS[kind][0].format(n=attr_names(inst, ai)))
    return lines


def curry_variants(spec):
    """call expressions for kind A: list of (label, class, expr)"""
    f = CAT[spec["f"]]
    inst = {"f": spec["f"], "v": spec["v"], "k": 0}
    names = ["L%d" % i for i in range(len(spec["leaves"]))]
    attrs = [kind_expr(k, attr_names(inst, i)) for i, (_, k) in enumerate(node_variant(inst))]
    bound = f.fn + "".join("[%s]" % a for a in attrs)
    out = []
    n = len(names)
    splits = operand_splits(n) if n else [[]]
    for sp in splits:
        if n == 0:
            cls = "nullary"
        elif len(sp) == 1:
            cls = "all_at_once"
        elif all(g == 1 for g in sp):
            cls = "one_at_a_time"
        else:
            cls = "mixed_split"
        out.append(("s" + "".join(str(g) for g in sp), cls, call_expr(bound, names, sp) if n else bound + "()"))
    # attributes after some operands have been curried (needs arity >= 2 and at least one attribute)
    if f.arity >= 2 and attrs:
        for j in range(1, f.arity):
            e = f.fn + "(%s)" % ", ".join(names[:j]) + "".join("[%s]" % a for a in attrs) + "(%s)" % ", ".join(names[j:])
            out.append(("o%da" % j, "attr_after_operand", e))
        if len(attrs) >= 2:
            e = f.fn + "[%s]" % attrs[0] + "(%s)" % names[0] + "".join("[%s]" % a for a in attrs[1:]) + "(%s)" % ", ".join(names[1:])
            out.append(("a1o1a", "attr_after_operand", e))
    if f.comb is not None and spec.get("extra"):
        pass
    return out


def compose_variants(spec):
    """call expressions for kind B: list of (label, class, expr)"""
    chain = spec["chain"]
    m = len(chain)
    fnames = [functor_expr({"f": it["f"], "v": it["v"], "k": pos}) for pos, it in enumerate(chain)]
    names = ["L%d" % i for i in range(len(spec["leaves"]))]
    n = len(names)
    out = []
    flat = "(" + " * ".join(fnames) + ")"
    out.append(("flat", "flat", call_expr(flat, names, [n])))
    for pi, p in enumerate(parenthesisations(m)):
        e = paren_expr(p, fnames)
        if not e.startswith("("):
            e = "(" + e + ")"
        out.append(("p%d" % pi, "paren", call_expr(e, names, [n])))
    if n >= 2:
        out.append(("cur1", "curried", call_expr(flat, names, [1] * n)))
        if n >= 3:
            out.append(("cur2", "curried", call_expr(flat, names, [2] + [1] * (n - 2))))
            out.append(("cur3", "curried", call_expr(flat, names, [1, n - 1])))
    # f(g(x...), rest...) written with functor calls (no combinators: their results are operand packs)
    if spec.get("nested", True) and all(CAT[it["f"]].comb is None for it in chain):
        trees = chain_tree(chain, n)
        if len(trees) == 1:
            def fexpr(t):
                if is_leaf(t):
                    return "L%d" % t["leaf"]
                return "%s(%s)" % (fnames[t["k"]], ", ".join(fexpr(a) for a in t["args"]))
            out.append(("nested", "nested", fexpr(trees[0])))
    return out


def gen_ops(spec, opname):
    """C++ source of the op(s) of one expression: <op> (variants / operands+graph), <op>x (apply, kind C), <op>r (the direct view call alone:
    a case whose reference dies or is Nothing is not a C14 case)"""
    trees, _ = spec_tree(spec)
    lines = []
    if len(trees) == 1 and not is_leaf(trees[0]):
        lines.append("VH_OP(%sr)\n{" % opname)
        lines += _decls(spec)
        lines.append("    auto ref = %s;" % view_expr(trees[0]))
        lines.append('    out.tok("REF1"); c14::emit_result(out, ref, ref, lv);')
        lines.append("}")
    if spec["t"] in ("A", "B"):
        lines.append("VH_OP(%s)\n{" % opname)
        lines += _decls(spec)
        variants = curry_variants(spec) if spec["t"] == "A" else compose_variants(spec)
        if len(trees) == 1 and not is_leaf(trees[0]):
            lines.append("    auto ref = %s;" % view_expr(trees[0]))
            lines.append('    out.tok("REF1"); c14::emit_result(out, ref, ref, lv);')
        else:
            # the result is an operand pack (combinators): reference = the leaves the stack model predicts
            lines.append("    const int ref = 0;")
            lines.append('    out.tok("REFP");')
        for label, cls, e in variants:
            lines.append('    { out.tok("V %s"); auto r = %s; c14::emit_result(out, ref, r, lv); }' % (label, e))
        lines.append("}")
    else:
        t = trees[0]
        nodes = tree_nodes(t)
        body = []
        names = {}
        for i, n in enumerate(nodes):
            def nm_(a):
                return "L%d" % a["leaf"] if is_leaf(a) else names[id(a)]
            f = CAT[n["f"]]
            parts = [nm_(a) for a in n["args"]] + [kind_expr(k, attr_names(n, ai)) for ai, (_, k) in enumerate(node_variant(n))]
            names[id(n)] = "v%d" % i
            body.append("    auto v%d = %s(%s);" % (i, f.view, ", ".join(parts)))
        root = "v%d" % (len(nodes) - 1)
        lines.append("VH_OP(%s)\n{" % opname)
        lines += _decls(spec)
        lines += body
        for i in range(len(nodes)):
            lines.append("    c14::emit_subview(out, %d, v%d);" % (i, i))
        lines.append("    c14::emit_operands_of(out, %s, lv);" % root)
        if spec.get("graph", True):
            lines.append("    c14::emit_graph_of(out, %s, lv);" % root)
        lines.append("}")
        lines.append("VH_OP(%sx)\n{" % opname)
        lines += _decls(spec)
        lines += body
        lines.append("    c14::emit_apply_of(out, %s, lv);" % root)
        lines.append("}")
    return "\n".join(lines)


def gen_tu(specs_named):
    """specs_named: list of (opname, spec) -> C++ translation unit text"""
    hs = set()
    posts = set()
    for _, s in specs_named:
        hs |= spec_headers(s)
        posts |= {CAT[f].post for f in spec_functors(s) if CAT[f].post}
    txt = ["// generated by vf/c14_gen.py", PRELUDE]
    for h in sorted(hs):
        txt.append('#include "%s"' % h)
    txt += sorted(posts)
    for name, s in specs_named:
        txt.append("// " + json.dumps(s, sort_keys=True))
        txt.append(gen_ops(s, name))
    txt.append("VH_MAIN()")
    return "\n".join(txt) + "\n"


# ---------------------------------------------------------------------------------------------------------
# run-time arguments
# ---------------------------------------------------------------------------------------------------------
def _rand_shape(rng, rank=None):
    r = rank if rank is not None else rng.choice([1, 2, 2, 2, 3, 3])
    return [rng.randint(2, 4) for _ in range(r)]


def leaf_shape_candidates(rng, spec, base):
    """candidate shapes for leaves derived from a base shape (broadcast-compatible ones plus op specific ones)"""
    c = [list(base), list(base), list(base)]
    if len(base) >= 1:
        c.append(list(base[-1:]))
        c.append([1] * (len(base) - 1) + [base[-1]])
        b2 = list(base)
        b2[rng.randrange(len(base))] = 1
        c.append(b2)
        c.append([1])
    if len(base) >= 2:
        c.append([base[-1], rng.randint(2, 4)])          # matmul rhs
        c.append([rng.randint(2, 4), base[-2]])          # matmul lhs for lhs @ base
        c.append(list(base[-2:]))
        c.append(base[:-1] + [rng.randint(1, 3)])        # concatenate / hstack along last axis
        c.append([rng.randint(1, 3)] + base[1:])
    names = spec_functors(spec)
    for nm_ in sorted(names):
        pr = propose_shapes(rng, nm_)
        if pr:
            c += pr * 3
    return c


def propose_shapes(rng, name):
    """operand shapes for functors whose operands are strongly constrained (None: use the generic candidates)"""
    if name in ("conv1d", "conv1d_bias"):
        n, ci, co, k = rng.randint(1, 2), rng.randint(1, 3), rng.randint(1, 3), rng.randint(1, 2)
        l = k + rng.randint(1, 3)
        return [[n, ci, l], [co, ci, k], [co]]
    if name in ("conv2d", "conv2d_bias"):
        n, ci, co, kh, kw = rng.randint(1, 2), rng.randint(1, 2), rng.randint(1, 2), rng.randint(1, 2), rng.randint(1, 2)
        return [[n, ci, kh + rng.randint(1, 2), kw + rng.randint(1, 2)], [co, ci, kh, kw], [co]]
    if name == "batch_norm":
        n, ch, h, w = rng.randint(1, 2), rng.randint(1, 3), rng.randint(1, 3), rng.randint(1, 3)
        return [[n, ch, h, w], [ch], [ch], [ch], [ch]]
    if name == "matmul":
        a, b, c = rng.randint(1, 4), rng.randint(1, 4), rng.randint(1, 4)
        if rng.random() < 0.3:
            return [[rng.randint(1, 2), a, b], [b, c]]
        return [[a, b], [b, c]]
    if name in ("avg_pool2d", "max_pool2d"):
        return [[rng.randint(1, 2), rng.randint(1, 2), rng.randint(2, 5), rng.randint(2, 5)]]
    return None


class Invalid(Exception):
    pass


def eval_tree(t, leaf_shapes, rng, attr_vals, shapes_out):
    """bottom-up: sample attributes of every op instance (once per instance) and compute shapes"""
    if is_leaf(t):
        return list(leaf_shapes[t["leaf"]])
    f = CAT[t["f"]]
    ins = [eval_tree(a, leaf_shapes, rng, attr_vals, shapes_out) for a in t["args"]]
    variant = node_variant(t)
    k = t["k"]
    if k not in attr_vals:
        fixed = {role: kind_const_value(kind) for role, kind in variant if kind_is_const(kind)}
        try:
            vals = f.sample(rng, ins, fixed)
        except (ValueError, IndexError):
            raise Invalid("sample")
        if vals is None:
            raise Invalid("sample none")
        # only the roles of the variant are passed to the library; defaults apply to the others
        vals = {role: vals[role] for role, _ in variant}
        for role, kind in variant:
            if kind_is_const(kind) and vals[role] != kind_const_value(kind):
                raise Invalid("const attr")
        attr_vals[k] = vals
    vals = attr_vals[k]
    try:
        out = f.shape(ins, vals)
    except Exception:
        raise Invalid("shape")
    out = [int(e) for e in out]
    if any(e <= 0 for e in out) or _prod(out) > 4000:
        raise Invalid("size")
    shapes_out[id(t)] = (ins, out)
    return out


def sample_case(spec, rng, hints=None, tries=60, force=None):
    """returns dict(leaf_shapes, leaf_data, attr_vals{k: {role: value}}, node_shapes) or None"""
    trees, nleaf = spec_tree(spec)
    kinds = spec["leaves"]
    for attempt in range(tries):
        prop = propose_shapes(rng, spec["f"]) if spec["t"] == "A" else None
        if force is not None and attempt < tries // 2:
            shapes = [list(s) for s in force]
        elif hints and (attempt % 2 == 1 or attempt > tries // 2):
            shapes = [list(s) for s in rng.choice(hints)]
        elif prop is not None and all(leaf_fixed_shape(k) is None for k in kinds):
            shapes = prop[:len(kinds)]
        else:
            base = _rand_shape(rng)
            cands = leaf_shape_candidates(rng, spec, base)
            shapes = []
            for i, k in enumerate(kinds):
                fs = leaf_fixed_shape(k)
                if fs is not None:
                    shapes.append(fs)
                elif i == 0 and rng.random() < 0.7:
                    shapes.append(list(base))
                else:
                    shapes.append(list(rng.choice(cands)))
        attr_vals = {}
        node_shapes = {}
        try:
            outs = [eval_tree(t, shapes, rng, attr_vals, node_shapes) for t in trees if not is_leaf(t)]
            # instances that do not appear in the reference tree (cannot happen for well-formed chains)
        except Invalid:
            continue
        for inst in spec_instances(spec):
            if inst["k"] not in attr_vals and node_variant(inst):
                break
        else:
            data = make_data(rng, kinds, shapes)
            return dict(leaf_shapes=shapes, leaf_data=data, attr_vals=attr_vals, out_shapes=outs)
    return None


def make_data(rng, kinds, shapes):
    """unique labels over all leaves of the expression, in (-2, 2) for floats (exactly representable)"""
    total = sum(max(1, _prod(s)) for s in shapes)
    half = total // 2 + 4
    pool = [p for p in range(-half, half + 4) if p != 0]
    rng.shuffle(pool)
    scale = 1.0
    while scale * (half + 4) > 2.0:
        scale /= 2
    data = []
    it = iter(pool)
    for k, s in zip(kinds, shapes):
        n = max(1, _prod(s))
        vals = [next(it) for _ in range(n)]
        if k[1] == "I":
            data.append([float(v % 7 + 1) for v in vals])
        else:
            data.append([v * scale + scale / 4 for v in vals])
    return data


def case_tokens(spec, case):
    toks = []
    for k, s, d in zip(spec["leaves"], case["leaf_shapes"], case["leaf_data"]):
        if k[0] == "s":
            toks.append(_fhex(d[0]))
        else:
            toks.append(_fmt_vec(s))
            toks.append("%d %s" % (len(d), " ".join(_fhex(x) for x in d)))
    for inst in spec_instances(spec):
        vals = case["attr_vals"].get(inst["k"], {})
        for role, kind in node_variant(inst):
            if not kind_is_const(kind):
                toks.append(RUNTIME_KINDS[kind][1](vals[role]))
    return " ".join(toks)


# ---------------------------------------------------------------------------------------------------------
# candidate enumeration (deterministic) and the probe
# ---------------------------------------------------------------------------------------------------------
def _weighted(rng, funs):
    tot = sum(f.weight for f in funs)
    x = rng.uniform(0, tot)
    for f in funs:
        x -= f.weight
        if x <= 0:
            return f
    return funs[-1]


def _rand_leaf_kinds(rng, n, allow_scalar=True):
    out = []
    for i in range(n):
        x = rng.random()
        if x < 0.78:
            out.append("dF")
        elif x < 0.88:
            out.append("dD")
        elif x < 0.93 and allow_scalar and i > 0:
            out.append("sF")
        else:
            out.append("dF")
    return out


def candidates_A():
    out = []
    for name in sorted(CAT):
        f = CAT[name]
        for vi in range(len(f.variants)):
            if f.comb is not None:
                for extra in (0, 1):
                    out.append({"t": "A", "f": name, "v": 0, "leaves": ["dF"] * (f.arity + extra)})
            else:
                out.append({"t": "A", "f": name, "v": vi, "leaves": ["dF"] * f.arity})
    # a few other leaf kinds on representative functors (conv* only accept fixed shapes)
    for name, kinds in (("conv1d", ["xF:1x2x4", "xF:2x2x2"]), ("conv1d_bias", ["xF:1x2x4", "xF:2x2x2", "xF:2"]),
                        ("conv2d", ["xF:1x2x3x3", "xF:2x2x2x2"]), ("conv2d_bias", ["xF:1x2x3x3", "xF:2x2x2x2", "xF:2"]),
                        ("add", ["dD", "dF"]), ("add", ["dF", "sF"]), ("multiply", ["dI", "dI"]), ("tanh", ["dD"]), ("sum", ["dD"]),
                        ("add", ["xF:2x3", "xF:2x3"]), ("tanh", ["xF:2x3"]), ("sum", ["xF:2x3"]), ("matmul", ["xF:2x3", "xF:3x2"]),
                        ("reshape", ["dD"]), ("where", ["dI", "dF", "dF"]), ("transpose", ["xF:2x3"])):
        out.append({"t": "A", "f": name, "v": 0, "leaves": kinds})
    return out


def _usable(f):
    return getattr(f, "shape_ok", True)


def _unary_pool(prim=False):
    return [f for f in CAT.values() if f.arity == 1 and f.comb is None and _usable(f) and (not prim or getattr(f, "primitive", True))]


def _nary_pool(prim=False):
    return [f for f in CAT.values() if f.arity >= 2 and f.comb is None and f.arity <= 3 and _usable(f) and (not prim or getattr(f, "primitive", True))]


def _comb_pool():
    return [f for f in CAT.values() if f.comb is not None]


def candidates_B(rng, n):
    out = []
    seen = set()
    un, na_, cb_ = _unary_pool(), _nary_pool(), _comb_pool()
    guard = 0
    while len(out) < n and guard < n * 50:
        guard += 1
        m = rng.choice([2, 2, 3, 3, 4])
        style = rng.random()
        chain = []
        for pos in range(m):
            x = rng.random()
            if style < 0.3:
                f = _weighted(rng, un)
            elif x < 0.5:
                f = _weighted(rng, un)
            elif x < 0.8:
                f = _weighted(rng, na_)
            else:
                f = _weighted(rng, cb_)
            chain.append({"f": f.name, "v": rng.randrange(len(f.variants))})
        if CAT[chain[0]["f"]].comb is not None:
            continue
        need, have = chain_arity(chain)
        if have != 1 or need < 1 or need > 5:
            continue
        try:
            trees = chain_tree(chain, need)
        except ValueError:
            continue
        if len(trees) != 1 or is_leaf(trees[0]):
            continue
        key = json.dumps(chain, sort_keys=True)
        if key in seen:
            continue
        seen.add(key)
        out.append({"t": "B", "chain": chain, "leaves": _rand_leaf_kinds(rng, need, allow_scalar=False)})
    return out


def candidates_B_combinators():
    """hand-enumerated chain shapes with every combinator in an inner position"""
    out = []

    def add(*names, leaves=None):
        chain = []
        for nm_ in names:
            v = 0
            if ":" in nm_:
                nm_, v = nm_.split(":")
                v = int(v)
            chain.append({"f": nm_, "v": v})
        need, have = chain_arity(chain)
        assert have == 1, (names, need, have)
        out.append({"t": "B", "chain": chain, "leaves": leaves or ["dF"] * need})
    for c2 in ("swap", "dig1", "bury1"):
        for f in ("subtract", "divide", "matmul", "outer_subtract", "concatenate"):
            add(f, c2)
        add("tanh", "subtract", c2)
        add("subtract", c2, "exp")
        add("sum", "divide", c2, "fabs")
        add("subtract", c2, "multiply")
    for f in ("multiply", "subtract", "matmul", "maximum"):
        add(f, "dup")
    add("subtract", "dup", "exp")
    add("divide", "dup", "reshape")
    add("sin", "add", "dup", "transpose:1")
    add("where", "dup3")
    add("subtract", "multiply", "dup3")
    for c3 in ("dig2", "bury2"):
        add("where", c3)
        add("subtract", "multiply", c3)
        add("add", "divide", c3, "exp")
        add("sum", "subtract", "maximum", c3)
    for c4 in ("dig3", "bury3"):
        add("subtract", "multiply", "add", c4)
        add("divide", "where", c4)
    add("subtract", "swap", "swap")
    add("subtract", "dig1", "bury1")
    add("where", "bury2", "dig2")
    add("subtract", "swap", leaves=["dD", "dF"])
    add("divide", "dup", leaves=["dD"])
    return out


def _rand_tree(rng, depth, shape_style, leaf_counter, reuse, prim=True):
    """shape_style: 'left' (view operands only at position 0), 'chain' (at most one view operand), 'any'"""
    def new_leaf():
        if reuse and leaf_counter[0] > 0 and rng.random() < reuse:
            return {"leaf": rng.randrange(leaf_counter[0])}
        leaf_counter[0] += 1
        return {"leaf": leaf_counter[0] - 1}
    if depth == 0:
        return new_leaf()
    x = rng.random()
    f = _weighted(rng, _unary_pool(prim)) if x < 0.55 else _weighted(rng, _nary_pool(prim))
    args = []
    if shape_style == "left":
        vpos = {0}
    elif shape_style == "chain":
        vpos = {rng.randrange(f.arity)}
    else:
        vpos = {i for i in range(f.arity) if rng.random() < 0.7} or {rng.randrange(f.arity)}
    first = True
    for i in range(f.arity):
        if i in vpos:
            d = depth - 1 if first else rng.randint(0, depth - 1)
            first = False
            args.append(_rand_tree(rng, d, shape_style, leaf_counter, reuse, prim))
        else:
            args.append(new_leaf())
    return {"f": f.name, "v": rng.randrange(len(f.variants)), "args": args}


def candidates_C(rng, n):
    out = []
    seen = set()
    guard = 0
    while len(out) < n and guard < n * 50:
        guard += 1
        style = rng.choice(["left", "left", "left", "chain", "chain", "any"])
        depth = rng.choice([1, 2, 2, 3, 3, 4])
        lc = [0]
        prim = rng.random() < 0.85
        t = _rand_tree(rng, depth, style, lc, reuse=rng.choice([0, 0, 0.3]), prim=prim)
        if is_leaf(t) or lc[0] > 5 or len(tree_nodes(t)) > 6:
            continue
        key = json.dumps(t, sort_keys=True)
        if key in seen:
            continue
        seen.add(key)
        sp = {"t": "C", "tree": t, "leaves": _rand_leaf_kinds(rng, lc[0])}
        if not prim:
            sp["graph"] = False      # composite views expand into several primitive views: no expression-tree oracle for the graph
        out.append(sp)
    return out


def L(i):
    return {"leaf": i}


def N(f, *args, v=0):
    return {"f": f, "v": v, "args": list(args)}


def core_specs():
    """deterministic expressions that are part of every run (both tiers, every seed)"""
    c = []
    # ---- extraction / graph: the region the library's own tests live in (left-deep chains)
    c.append({"t": "C", "tree": N("tanh", L(0)), "leaves": ["dF"]})
    c.append({"t": "C", "tree": N("add", L(0), L(1)), "leaves": ["dF", "dF"]})
    c.append({"t": "C", "tree": N("add", L(0), L(0)), "leaves": ["dF"]})
    c.append({"t": "C", "tree": N("sum", N("square", L(0)), v=1), "leaves": ["dF"]})
    c.append({"t": "C", "tree": N("tanh", N("reshape", N("sin", L(0)))), "leaves": ["dF"]})
    c.append({"t": "C", "tree": N("matmul", N("tanh", L(0)), L(1)), "leaves": ["dF", "dF"]})
    c.append({"t": "C", "tree": N("sum", N("matmul", N("transpose", L(0)), L(1)), v=0), "leaves": ["dF", "dF"]})
    c.append({"t": "C", "tree": N("flatten", N("concatenate", N("exp", L(0)), L(1))), "leaves": ["dF", "dF"]})
    # composite view (one call = several primitive views, found by the probe): extraction only, fixed broadcasting shapes in the first case
    c.append({"t": "C", "tree": N("where", L(0), L(1), L(2)), "leaves": ["dF", "dF", "dF"], "graph": False, "force_shapes": [[4, 3], [3], [1, 3]]})
    c.append({"t": "C", "tree": N("mean", N("fabs", L(0))), "leaves": ["dF"], "graph": False})
    c.append({"t": "C", "tree": N("cumsum", N("transpose", N("fabs", N("flip", L(0))))), "leaves": ["dD"]})
    # binary ufunc over a view (the library's own composition tests: multiply_add, reduce_add_tanh, ...)
    c.append({"t": "C", "tree": N("add", N("multiply", L(0), L(1)), L(2)), "leaves": ["dF", "dF", "dF"]})
    c.append({"t": "C", "tree": N("tanh", N("add", N("multiply", L(0), L(1)), L(1))), "leaves": ["dF", "dF"]})
    c.append({"t": "C", "tree": N("divide", N("sum", N("square", L(0)), v=3), L(1)), "leaves": ["dF", "sF"]})
    # ---- a view operand that is not the first operand (chain trees: graph is a tree, composition is linear)
    c.append({"t": "C", "tree": N("matmul", L(0), N("tanh", L(1))), "leaves": ["dF", "dF"]})
    c.append({"t": "C", "tree": N("concatenate", L(0), N("negative", L(1))), "leaves": ["dF", "dF"]})
    c.append({"t": "C", "tree": N("outer_subtract", L(0), N("exp", L(1))), "leaves": ["dF", "dF"]})
    # ---- two view operands (bushy): distinct types / identical types over the same leaf / over different leaves
    c.append({"t": "C", "tree": N("matmul", N("tanh", L(0)), N("sin", L(1))), "leaves": ["dF", "dF"]})
    c.append({"t": "C", "tree": N("matmul", N("transpose", L(0), v=1), N("transpose", L(1), v=1)), "leaves": ["dF", "dF"]})
    c.append({"t": "C", "tree": N("add", N("tanh", L(0)), N("tanh", L(0))), "leaves": ["dF"]})
    c.append({"t": "C", "tree": N("add", N("tanh", L(0)), N("tanh", L(1))), "leaves": ["dF", "dF"]})
    c.append({"t": "C", "tree": N("concatenate", N("sum", L(0), v=0), N("sum", L(0), v=0)), "leaves": ["dF"]})
    # ---- sibling sub-expressions that share an upstream node (the graph of the second must be MERGED into the first's, not replace it)
    c.append({"t": "C", "tree": N("add", N("multiply", L(0), L(1)), N("tanh", L(1))), "leaves": ["dF", "dF"]})
    c.append({"t": "C", "tree": N("multiply", N("subtract", N("exp", L(0)), L(1)), N("add", N("exp", L(0)), L(0))), "leaves": ["dF", "dF"]})
    c.append({"t": "C", "tree": N("subtract", N("add", L(0), L(1)), N("multiply", L(1), L(0))), "leaves": ["dF", "dF"]})
    # ---- an explicit broadcast_to under a unary / binary ufunc (the binary ufunc's own implicit broadcast_to wrappers are skipped by the
    #      extraction code; one written by the user is part of the function)
    c.append({"t": "C", "tree": N("negative", N("broadcast_to", L(0))), "leaves": ["dF"]})
    c.append({"t": "C", "tree": N("tanh", N("negative", N("broadcast_to", L(0)))), "leaves": ["dF"]})
    c.append({"t": "C", "tree": N("subtract", N("broadcast_to", L(0)), L(1)), "leaves": ["dF", "sF"]})
    c.append({"t": "C", "tree": N("sum", N("fabs", N("broadcast_to", L(0), v=1)), v=1), "leaves": ["dF"]})
    # ---- parametrised unary ufuncs inside extracted views: the op object (slope, alpha, min/max ...) is run-time state of the view and
    #      must travel with the extracted function (non-default values are drawn by the sampler)
    c.append({"t": "C", "tree": N("leaky_relu", L(0), v=1), "leaves": ["dF"]})
    c.append({"t": "C", "tree": N("hardtanh", N("add", L(0), L(1)), v=1), "leaves": ["dF", "dF"]})
    c.append({"t": "C", "tree": N("add", N("multiply", N("elu", L(0), v=1), L(1)), L(2)), "leaves": ["dF", "dF", "sF"]})
    c.append({"t": "C", "tree": N("celu", N("transpose", L(0)), v=1), "leaves": ["dF"]})
    # ---- single functors: several attributes (same and different types), n-ary operand splits, attributes after curried operands
    c.append({"t": "A", "f": "sum", "v": 2, "leaves": ["dF"]})
    c.append({"t": "A", "f": "hardtanh", "v": 1, "leaves": ["dF"]})
    c.append({"t": "A", "f": "moveaxis", "v": 0, "leaves": ["dF"]})
    c.append({"t": "A", "f": "roll", "v": 0, "leaves": ["dF"]})
    c.append({"t": "A", "f": "subtract", "v": 0, "leaves": ["dF", "dF"]})
    c.append({"t": "A", "f": "concatenate", "v": 0, "leaves": ["dF", "dF"]})
    c.append({"t": "A", "f": "where", "v": 0, "leaves": ["dF", "dF", "dF"]})
    c.append({"t": "A", "f": "dig2", "v": 0, "leaves": ["dF", "dF", "dF"]})
    # ---- compositions
    c.append({"t": "B", "chain": [{"f": "tanh", "v": 0}, {"f": "add", "v": 0}], "leaves": ["dF", "dF"]})
    c.append({"t": "B", "chain": [{"f": "subtract", "v": 0}, {"f": "tanh", "v": 0}], "leaves": ["dF", "dF"]})
    c.append({"t": "B", "chain": [{"f": "subtract", "v": 0}, {"f": "multiply", "v": 0}], "leaves": ["dF", "dF", "dF"]})
    c.append({"t": "B", "chain": [{"f": "sum", "v": 0}, {"f": "subtract", "v": 0}, {"f": "tanh", "v": 0}], "leaves": ["dF", "dF"]})
    c.append({"t": "B", "chain": [{"f": "subtract", "v": 0}, {"f": "swap", "v": 0}], "leaves": ["dF", "dF"]})
    c.append({"t": "B", "chain": [{"f": "divide", "v": 0}, {"f": "dup", "v": 0}, {"f": "exp", "v": 0}], "leaves": ["dF"]})
    c.append({"t": "B", "chain": [{"f": "subtract", "v": 0}, {"f": "multiply", "v": 0}, {"f": "dig2", "v": 0}], "leaves": ["dF", "dF", "dF"]})
    c.append({"t": "B", "chain": [{"f": "matmul", "v": 0}, {"f": "bury1", "v": 0}, {"f": "transpose", "v": 1}], "leaves": ["dF", "dF"]})
    c.append({"t": "B", "chain": [{"f": "reshape", "v": 0}, {"f": "divide", "v": 0}, {"f": "add", "v": 0}, {"f": "fabs", "v": 0}], "leaves": ["dF", "dF", "dF"]})
    c.append({"t": "B", "chain": [{"f": "where", "v": 0}, {"f": "isfinite", "v": 0}], "leaves": ["dF", "dF", "dF"]})
    # combinators over four operands (bury_n<3> / dig_n<3>: the first arity at which 'bury = dig twice' and similar shortcuts break)
    c.append({"t": "A", "f": "bury3", "v": 0, "leaves": ["dF", "dF", "dF", "dF"]})
    c.append({"t": "A", "f": "dig3", "v": 0, "leaves": ["dF", "dF", "dF", "dF"]})
    c.append({"t": "B", "chain": [{"f": "subtract", "v": 0}, {"f": "add", "v": 0}, {"f": "multiply", "v": 0}, {"f": "bury3", "v": 0}], "leaves": ["dF", "dF", "dF", "dF"]})
    c.append({"t": "B", "chain": [{"f": "subtract", "v": 0}, {"f": "divide", "v": 0}, {"f": "add", "v": 0}, {"f": "dig3", "v": 0}], "leaves": ["dF", "dF", "dF", "dF"]})
    c.append({"t": "B", "chain": [{"f": "subtract", "v": 0}, {"f": "multiply", "v": 0}, {"f": "bury2", "v": 0}], "leaves": ["dF", "dF", "dF"]})
    return c


def _strip_k(o):
    if isinstance(o, dict):
        return {k: _strip_k(v) for k, v in o.items() if k != "k"}
    if isinstance(o, list):
        return [_strip_k(v) for v in o]
    return o


def spec_key(spec):
    """canonical text of a spec (instance numbers are derived data)"""
    return json.dumps(_strip_k(spec), sort_keys=True)


def spec_base_key(spec):
    """key without the fall-back flags set by the probe (graph/nested = false)"""
    return spec_key({k: v for k, v in spec.items() if not (k in ("graph", "nested") and v is False)})


def functor_info():
    """phase-1 facts about the functors (primitive = one view call is one graph node)"""
    return load_supported().get("functors", {})


def is_composite(tree, finfo):
    return any(not finfo.get(n["f"], {}).get("primitive", False) for n in tree_nodes(tree))


def load_supported():
    with open(SUPPORTED) as f:
        return json.load(f)


# ---------------------------------------------------------------------------------------------------------
# probe: compile every candidate once against the unchanged tree (allow-list construction)
#   phase 1: every functor at depth 1 is compiled AND run (-O0): is the view one primitive operation (one graph node)?
#            does the generator's shape model agree with the library?
#   phase 2: deterministic candidate set, g++ -fsyntax-only; a composition is retried without the nested-functor variant,
#            an extraction without the compute-graph part
# ---------------------------------------------------------------------------------------------------------
def _compile(src_text, path, syntax_only=True, out=None, timeout=300):
    """g++ -O0 (syntax only by default).  A compilation that needs more than `timeout` seconds is a template explosion
    (e.g. nested functor calls on maybe-typed results) and counts as unsupported."""
    import subprocess
    import time
    from . import build as B
    with open(path, "w") as f:
        f.write(src_text)
    cmd = ["g++", "-std=c++17", "-O0", "-DNMTOOLS_VERIF", "-D_GLIBCXX_ASSERTIONS", "-isystem", os.path.join(B.REPO, "include"), "-I", B.HARNESS, path]
    cmd += ["-fsyntax-only"] if syntax_only else ["-o", out]
    txt = ""
    for attempt in range(4):
        try:
            p = subprocess.run(cmd, stdout=subprocess.PIPE, stderr=subprocess.STDOUT, text=True, timeout=timeout)
        except subprocess.TimeoutExpired:
            subprocess.run(["pkill", "-f", path])
            os.remove(path)
            return False, "compilation exceeds %d s" % timeout
        txt = p.stdout
        if p.returncode == 0:
            os.remove(path)
            return True, ""
        if "Killed signal" in txt or "out of memory" in txt or "Cannot allocate" in txt:
            time.sleep(20 * (attempt + 1))
            continue
        break
    os.remove(path)
    err = ""
    for ln in txt.splitlines():
        if "error" in ln:
            err = ln[-260:]
            break
    return False, err or txt[-260:]


def _hints_for(spec, seed):
    r = random.Random(seed)
    hints = []
    for _ in range(8):
        c = sample_case(spec, r, tries=80)
        if c is not None and c["leaf_shapes"] not in hints:
            hints.append(c["leaf_shapes"])
        if len(hints) >= 4:
            break
    return hints


def _run_spec(spec, cases, exe):
    """compile (-O0) and run one spec; -> None (does not compile / dies) or {case index: tokens}"""
    import subprocess
    ok, err = _compile(gen_tu([("e0", spec)]), exe + ".cpp", syntax_only=False, out=exe)
    if not ok:
        return None, err
    cf = exe + ".cases"
    with open(cf, "w") as fo:
        for i, c in enumerate(cases):
            fo.write("%d e0 %s\n" % (i, case_tokens(spec, c)))
    p = subprocess.run([exe, cf, exe + ".out"], stdout=subprocess.PIPE, stderr=subprocess.PIPE)
    recs = {}
    if os.path.exists(exe + ".out"):
        for ln in open(exe + ".out"):
            if ln.startswith("R "):
                parts = ln.split()
                toks = parts[2:]
                if "|H" in toks:
                    toks = toks[:toks.index("|H")]
                recs[int(parts[1])] = toks
    for ext in ("", ".cases", ".out"):
        if os.path.exists(exe + ext):
            os.remove(exe + ext)
    if p.returncode != 0 or len(recs) != len(cases):
        return None, "direct view call dies at run time (rc %d)" % p.returncode
    return recs, ""


def _phase1(work, jobs):
    """-> {functor: dict(shape_ok, primitive, why)}"""
    from concurrent.futures import ThreadPoolExecutor
    from . import c14_eval as E
    names = [n for n in sorted(CAT) if CAT[n].comb is None and CAT[n].arity >= 1]

    def one(name):
        f = CAT[name]
        info = dict(shape_ok=False, primitive=False)
        specA = {"t": "A", "f": name, "v": 0, "leaves": ["dF"] * f.arity}
        r = random.Random(name)
        cases = [c for c in (sample_case(specA, r, tries=80) for _ in range(3)) if c]
        if not cases:
            info["why"] = "no argument set"
            return name, info
        exe = os.path.join(work, "f_%s" % name)
        recs, err = _run_spec(specA, cases, exe)
        if recs is None:
            info["why"] = "A: " + err
            return name, info
        try:
            ok = True
            for i, c in enumerate(cases):
                ref, _ = E.parse_ab(recs[i])
                if ref is None or ref[0] != "arr" or ref[2] is None or ref[2]["shape"] != c["out_shapes"][0]:
                    ok = False
                    info["why"] = "shape model %s vs library %s" % (c["out_shapes"][0], None if ref is None or ref[2] is None else ref[2]["shape"])
            info["shape_ok"] = ok
        except Exception as e:
            info["why"] = "A: unparsable %r" % (e,)
        if not info["shape_ok"]:
            return name, info
        specC = {"t": "C", "tree": {"f": name, "v": 0, "args": [{"leaf": i} for i in range(f.arity)]}, "leaves": ["dF"] * f.arity}
        recs, err = _run_spec(specC, cases, exe)
        if recs is None:
            info["why"] = "C: " + err
            return name, info
        try:
            prim = True
            for i, c in enumerate(cases):
                rec = E.parse_c(recs[i])
                if rec["graph"] is None or sum(1 for n in rec["graph"]["nodes"] if n["kind"] == "F") != 1 or len(rec["graph"]["nodes"]) != f.arity + 1:
                    prim = False
                    info["why"] = "one view call is %s graph nodes" % (None if rec["graph"] is None else len(rec["graph"]["nodes"]))
            info["primitive"] = prim
        except Exception as e:
            info["why"] = "C: unparsable %r" % (e,)
        return name, info

    out = {}
    with ThreadPoolExecutor(max_workers=jobs) as ex:
        for name, info in ex.map(one, names):
            out[name] = info
            sys.stderr.write("  phase1 %-22s %s\n" % (name, info))
    return out


def _probe_main(argv):
    from concurrent.futures import ThreadPoolExecutor
    from . import build as B
    nB = 260
    nC = 360
    for a in argv:
        if a.startswith("--nb="):
            nB = int(a[5:])
        if a.startswith("--nc="):
            nC = int(a[5:])
    work = os.path.join(B.BUILD, "c14_probe")
    os.makedirs(work, exist_ok=True)
    jobs = int(os.environ.get("VERIF_JOBS", "8"))
    p1file = os.path.join(work, "phase1.json")
    if os.path.exists(p1file) and "--redo-phase1" not in argv:
        finfo = json.load(open(p1file))
    elif os.path.exists(SUPPORTED) and "--redo-phase1" not in argv and "--fresh" not in argv and json.load(open(SUPPORTED)).get("functors"):
        finfo = json.load(open(SUPPORTED))["functors"]
    else:
        finfo = _phase1(work, jobs)
        json.dump(finfo, open(p1file, "w"), indent=1, sort_keys=True)
    # functors whose shape model disagrees with the library are not used inside trees / chains
    for n, inf in finfo.items():
        CAT[n].shape_ok = bool(inf.get("shape_ok"))
        CAT[n].primitive = bool(inf.get("primitive"))
    rng = random.Random(20260926)
    core = core_specs()
    cands = core + candidates_A() + candidates_B(rng, nB) + candidates_C(rng, nC) + candidates_B_combinators()
    uniq = {}
    for s in cands:
        uniq.setdefault(spec_key(s), s)
    cands = list(uniq.values())
    prev_ok, prev_rej = {}, {}
    if os.path.exists(SUPPORTED) and "--fresh" not in argv:
        old = json.load(open(SUPPORTED))
        for e in old.get("supported", []):
            prev_ok[spec_base_key(e["spec"])] = e
            prev_ok[spec_key(e["spec"])] = e
        for e in old.get("rejected", []):
            prev_rej[spec_key(e["spec"])] = e
    sys.stderr.write("probing %d candidates (%d verdicts kept from the existing file)\n" % (
        len(cands), sum(1 for c in cands if spec_key(c) in prev_ok or spec_key(c) in prev_rej)))

    def one(i):
        k_ = spec_key(cands[i])
        if k_ in prev_ok:
            return i, prev_ok[k_]["spec"], prev_ok[k_]["hints"], ""
        if k_ in prev_rej:
            return i, None, None, prev_rej[k_]["why"]
        spec = dict(cands[i])
        hints = _hints_for(spec, i)
        if not hints:
            return i, None, None, "no valid argument set found"
        attempts = [spec]
        if spec["t"] == "B" and all(CAT[it["f"]].comb is None for it in spec["chain"]):
            attempts.append(dict(spec, nested=False))
        if spec["t"] == "C":
            attempts.append(dict(spec, graph=False))
        err = ""
        for ai, sp in enumerate(attempts):
            ok, err = _compile(gen_tu([("e0", sp)]), os.path.join(work, "p%d.cpp" % i), timeout=120 if (len(attempts) > 1 and ai == 0) else 300)
            if ok:
                return i, sp, hints, ""
        return i, None, None, err

    ok, rejected = [], []
    with ThreadPoolExecutor(max_workers=jobs) as ex:
        for k, (i, sp, hints, err) in enumerate(ex.map(one, range(len(cands)))):
            if sp is not None:
                ok.append({"spec": _strip_k(sp), "hints": hints, "orig": spec_key(cands[i])})
            else:
                rejected.append({"spec": _strip_k(cands[i]), "why": err})
            if k % 25 == 0:
                sys.stderr.write("  %d/%d supported so far %d\n" % (k, len(cands), len(ok)))
    core_keys = {spec_key(s) for s in core}
    core_out = [spec_key(e["spec"]) for e in ok if e["orig"] in core_keys]
    for e in ok:
        del e["orig"]
    with open(SUPPORTED, "w") as f:
        f.write('{"version": 1, "note": "compile-probed once against the unchanged tree by: VERIF_JOBS=8 python3-vt -m vf.c14_gen --probe --nb=130 --nc=190 (incremental: verdicts in this file are kept unless --fresh; --redo-phase1 re-runs the per-functor facts)",\n')
        f.write(' "functors": %s,\n' % json.dumps(finfo, sort_keys=True))
        f.write(' "core": %s,\n' % json.dumps(core_out))
        f.write(' "supported": [\n')
        f.write(",\n".join("  " + json.dumps(e, sort_keys=True) for e in ok))
        f.write('\n ],\n "rejected": [\n')
        f.write(",\n".join("  " + json.dumps(e, sort_keys=True) for e in rejected))
        f.write("\n ]\n}\n")
    sys.stderr.write("supported %d, rejected %d -> %s\n" % (len(ok), len(rejected), SUPPORTED))


if __name__ == "__main__":
    if "--probe" in sys.argv:
        _probe_main(sys.argv[1:])
    else:
        print(__doc__)
