"""C17: neural-network routines (conv1d/conv2d, max/avg pooling, softmax/softmin, batch/layer/instance/group norm, linear,
bilinear, pairwise_distance, cosine_similarity) equal their direct nested-loop definitions (PyTorch semantics)."""
import itertools
import os

import numpy as np

from .. import build as B
from .. import viewrun as V
from .. import c17_model as M
from ..util import fmt_vec, HookAcc
from .c16 import parse, fmt_operand, size, NPDT

CLAIM = dict(
    technique="runtime monitoring: sanitizer-instrumented execution of every neural-network view on dynamic ndarrays with run-time data and parameters, nested-loop reference models (PyTorch semantics, first validated against the repository's 111 shipped test vectors and scipy.signal.correlate) over the recorded shape and every lazily read element",
    text="conv1d/conv2d are executed over the quantifier's grid (batch 1..2, in-channels 1..4 x every divisor as groups, out-channels g..2g, spatial 1..7, kernel 1..3, stride 1..3, padding 0..2, dilation 1..2, bias on/off, positive output size; conv1d: sampled in quick, the full grid in thorough; conv2d: sampled, per-axis stride/padding/dilation pairs and the defaulted (None) call forms included), max/avg pool2d over kernel 1..3 x stride 1..3 x ceil mode on spatial 1..7 incl. overhanging last windows, softmax/softmin over every axis (+/-) of dim 1..4 inputs, batch/layer/instance/group norm over dim 2..4 inputs, linear/bilinear with and without bias, pairwise_distance (ord 1,2,4, keepdims) and cosine_similarity over every axis with broadcasting. Shape and every element read through view(i...) are compared with the model: exactly on integer-valued data where no division occurs, else |got-exp| <= rtol*(|exp|+max|exp|) with rtol 1e-5 (float) / 1e-12 (double). Held-on-observed.",
    note="Trusted: the nested-loop models in vf/c17_model.py (PyTorch conventions: zero padding, floor output size, ceil-mode rule that the last pooling window must start inside the input, avg over the in-bounds part of a window, biased variance). A model that disagrees with a shipped vector makes the run inconclusive, not a violation. Only batched inputs and the fully dynamic ndarray kind; element types int32/float/double for conv, pooling, linear, bilinear and float/double elsewhere.",
    ref="DESIGN.md 4/C17")
HARNESS = ["c17_conv1d_a", "c17_conv1d_b", "c17_conv2d_a", "c17_conv2d_b", "c17_conv2d_c", "c17_conv2d_ct", "c17_pool", "c17_softmax",
           "c17_batch_norm", "c17_layer_norm", "c17_instance_norm", "c17_group_norm", "c17_linear", "c17_bilinear",
           "c17_pairwise", "c17_cosine"]
TARGETS_QUICK = [(h, "asan") for h in HARNESS]

RTOL = {"i": 1e-5, "f": 1e-5, "d": 1e-12}


# ---------------------------------------------------------------- data
def ints(rng, n, lo=-3, hi=3):
    return [rng.randint(lo, hi) for _ in range(n)]


def labels(rng, n):
    v = list(range(-(n // 2), n - n // 2))
    rng.shuffle(v)
    return v


def eighths(rng, n, lo=-24, hi=24, den=8.0):
    return [rng.randint(lo, hi) / den for _ in range(n)]


def fmt_foperand(shape, data):
    return "%s %d %s" % (fmt_vec(shape), len(data), " ".join(float(x).hex() for x in data)) if len(data) else "%s 0" % fmt_vec(shape)


def arr(shape, data, dtype="d"):
    return np.array(data, dtype=NPDT.get(dtype, np.float64)).reshape(shape)


def eps_of(dtype, eps):
    """the value the library sees when eps is converted to the element type"""
    return float(np.float32(eps)) if dtype == "f" else float(eps)


def divisors(n):
    return [d for d in range(1, n + 1) if n % d == 0]


# ---------------------------------------------------------------- generators
def conv1d_grid():
    """the quantifier's grid for conv1d with positive output size (bias added by the caller)"""
    for N in (1, 2):
        for C in range(1, 5):
            for g in divisors(C):
                for O in (g, 2 * g):
                    if O > 4 and O != g:
                        continue
                    for L in range(1, 8):
                        for k in range(1, 4):
                            for s in range(1, 4):
                                for p in range(0, 3):
                                    for d in range(1, 3):
                                        if M.conv_out_size(L, k, s, p, d) > 0:
                                            yield (N, C, g, O, L, k, s, p, d)


def gen_cases(rng, tier):
    quick = tier == "quick"
    cases = []

    def pick(dts):
        return rng.choice(dts)

    # ---------------- conv1d, all-int form
    grid = list(conv1d_grid())
    # quick: batch 2 in ~1/8 of the sample (batch>1 currently dies in index::conv_reshape_input; see findings/c17_conv_batch.md)
    sel = (rng.sample([t for t in grid if t[0] == 1], 1300) + rng.sample([t for t in grid if t[0] == 2], 200)) if quick else grid
    for (N, C, g, O, L, k, s, p, d) in sel:
        for bias in ((rng.randint(0, 1),) if quick else (0, 1)):
            dt = pick("iifd")
            xs, ws = [N, C, L], [O, C // g, k]
            x, w = ints(rng, size(xs)), ints(rng, size(ws))
            b = ints(rng, O, -5, 5) if bias else None
            args = "%s %s %s %d%s %d %d %d %d" % (dt, fmt_operand(xs, x), fmt_operand(ws, w), bias, (" " + fmt_operand([O], b)) if bias else "", s, p, d, g)
            cases.append(dict(op="nn_conv1d", args=args, dtype=dt, xs=xs, x=x, ws=ws, w=w, b=b, stride=s, padding=p, dilation=d, groups=g, form="int"))
    # ---------------- conv1d, defaulted forms
    for _ in range(250 if quick else 3000):
        form = rng.randint(0, 4)
        (N, C, g, O, L, k, s, p, d) = rng.choice(grid)
        if quick and rng.random() < 0.75:
            N = 1
        if form != 4:
            g = 1
            O = rng.randint(1, 3)
        s_, p_, d_, g_ = (s if form == 1 else 1), (p if form == 2 else 0), (d if form == 3 else 1), (g if form == 4 else 1)
        if M.conv_out_size(L, k, s_, p_, d_) <= 0:
            continue
        bias = 1 if form == 4 else (rng.randint(0, 1) if form == 0 else 0)
        dt = "f"
        xs, ws = [N, C, L], [O, C // g_, k]
        x, w = ints(rng, size(xs)), ints(rng, size(ws))
        b = ints(rng, O, -5, 5) if bias else None
        args = "%d %s %s %s %d%s %d %d %d %d" % (form, dt, fmt_operand(xs, x), fmt_operand(ws, w), bias, (" " + fmt_operand([O], b)) if bias else "", s_, p_, d_, g_)
        cases.append(dict(op="nn_conv1d_form", args=args, dtype=dt, xs=xs, x=x, ws=ws, w=w, b=b, stride=s_, padding=p_, dilation=d_, groups=g_, form="form%d" % form))

    # ---------------- conv2d
    def conv2d_draw(pairs):
        N = (2 if rng.random() < 0.125 else 1) if quick else rng.randint(1, 2)
        C = rng.randint(1, 4)
        g = rng.choice(divisors(C))
        O = rng.choice([o for o in (g, 2 * g) if o <= 4 or o == g])
        H, W = rng.randint(1, 7), rng.randint(1, 7)
        kh, kw = rng.randint(1, 3), rng.randint(1, 3)
        if pairs:
            s, p, d = [rng.randint(1, 3), rng.randint(1, 3)], [rng.randint(0, 2), rng.randint(0, 2)], [rng.randint(1, 2), rng.randint(1, 2)]
        else:
            a, b_, c = rng.randint(1, 3), rng.randint(0, 2), rng.randint(1, 2)
            s, p, d = [a, a], [b_, b_], [c, c]
        return N, C, g, O, H, W, kh, kw, s, p, d

    n2 = 0
    want = 1000 if quick else 35000
    while n2 < want:
        N, C, g, O, H, W, kh, kw, s, p, d = conv2d_draw(False)
        if M.conv_out_size(H, kh, s[0], p[0], d[0]) <= 0 or M.conv_out_size(W, kw, s[1], p[1], d[1]) <= 0:
            continue
        n2 += 1
        bias = rng.randint(0, 1)
        dt = pick("iifd")
        xs, ws = [N, C, H, W], [O, C // g, kh, kw]
        x, w = ints(rng, size(xs)), ints(rng, size(ws))
        b = ints(rng, O, -5, 5) if bias else None
        args = "%s %s %s %d%s %d %d %d %d" % (dt, fmt_operand(xs, x), fmt_operand(ws, w), bias, (" " + fmt_operand([O], b)) if bias else "", s[0], p[0], d[0], g)
        cases.append(dict(op="nn_conv2d", args=args, dtype=dt, xs=xs, x=x, ws=ws, w=w, b=b, stride=s, padding=p, dilation=d, groups=g, form="int"))
    # deterministic part: a dilation pair with different entries, every per-axis geometry on each axis in turn
    # (the symptom of a mix-up of the two entries depends on the geometry only, so the key set does not depend on the seed)
    for role in (0, 1):
        for L in range(1, 8):
            for k in range(1, 4):
                for s1 in (1, 2):
                    for p1 in (0, 1):
                        for (d_own, d_other) in ((1, 2), (2, 1)):
                            if M.conv_out_size(L, k, s1, p1, d_own) <= 0:
                                continue
                            geo = [(L, k, s1, p1, d_own), (5, 2, 1, 0, d_other)]
                            if role == 1:
                                geo.reverse()
                            xs, ws = [1, 1, geo[0][0], geo[1][0]], [1, 1, geo[0][1], geo[1][1]]
                            x, w = ints(rng, size(xs)), ints(rng, size(ws))
                            s, p, d = [geo[0][2], geo[1][2]], [geo[0][3], geo[1][3]], [geo[0][4], geo[1][4]]
                            args = "f %s %s 0 %d %d %d %d %d %d 1" % (fmt_operand(xs, x), fmt_operand(ws, w), s[0], s[1], p[0], p[1], d[0], d[1])
                            cases.append(dict(op="nn_conv2d_list", args=args, dtype="f", xs=xs, x=x, ws=ws, w=w, b=None, stride=s, padding=p, dilation=d, groups=1, form="pairs"))
    # ---- compile-time stride and dilation pairs (tuple{a_ct, b_ct}): every combination of {1,2}^2 x {1,2}^2, non-square kernels and inputs
    for s in ([1, 1], [1, 2], [2, 1], [2, 2]):
        for d in ([1, 1], [1, 2], [2, 1], [2, 2]):
            for _ in range(3 if quick else 40):
                kh, kw = rng.choice([(2, 3), (3, 2), (1, 3), (3, 1), (2, 2), (2, 1)])
                H, W = rng.randint(3, 7), rng.randint(3, 7)
                p = [rng.randint(0, 1), rng.randint(0, 1)]
                if M.conv_out_size(H, kh, s[0], p[0], d[0]) <= 0 or M.conv_out_size(W, kw, s[1], p[1], d[1]) <= 0:
                    continue
                N, C, O = rng.randint(1, 2), rng.randint(1, 2), rng.randint(1, 2)
                xs, ws = [N, C, H, W], [O, C, kh, kw]
                x, w = ints(rng, size(xs)), ints(rng, size(ws))
                args = "f %s %s 0 %d %d %d %d %d %d 1" % (fmt_operand(xs, x), fmt_operand(ws, w), s[0], s[1], p[0], p[1], d[0], d[1])
                cases.append(dict(op="nn_conv2d_ct", args=args, dtype="f", xs=xs, x=x, ws=ws, w=w, b=None, stride=list(s), padding=p, dilation=list(d), groups=1, form="ct_pairs"))
    n2 = 0
    want = 350 if quick else 10000
    while n2 < want:
        N, C, g, O, H, W, kh, kw, s, p, d = conv2d_draw(True)
        if M.conv_out_size(H, kh, s[0], p[0], d[0]) <= 0 or M.conv_out_size(W, kw, s[1], p[1], d[1]) <= 0:
            continue
        n2 += 1
        bias = rng.randint(0, 1)
        dt = "f"
        xs, ws = [N, C, H, W], [O, C // g, kh, kw]
        x, w = ints(rng, size(xs)), ints(rng, size(ws))
        b = ints(rng, O, -5, 5) if bias else None
        args = "%s %s %s %d%s %d %d %d %d %d %d %d" % (dt, fmt_operand(xs, x), fmt_operand(ws, w), bias, (" " + fmt_operand([O], b)) if bias else "", s[0], s[1], p[0], p[1], d[0], d[1], g)
        cases.append(dict(op="nn_conv2d_list", args=args, dtype=dt, xs=xs, x=x, ws=ws, w=w, b=b, stride=s, padding=p, dilation=d, groups=g, form="pairs"))
    n2 = 0
    want = 250 if quick else 5000
    while n2 < want:
        form = rng.randint(0, 6)
        N, C, g, O, H, W, kh, kw, s, p, d = conv2d_draw(form >= 5)
        if form != 4:
            g = 1
            O = rng.randint(1, 3)
        s_ = s if form in (1, 5, 6) else [1, 1]
        p_ = p if form in (2, 6) else [0, 0]
        d_ = d if form == 3 else [1, 1]
        g_ = g if form == 4 else 1
        if M.conv_out_size(H, kh, s_[0], p_[0], d_[0]) <= 0 or M.conv_out_size(W, kw, s_[1], p_[1], d_[1]) <= 0:
            continue
        n2 += 1
        bias = 1 if form == 4 else (rng.randint(0, 1) if form == 0 else 0)
        dt = "f"
        xs, ws = [N, C, H, W], [O, C // g_, kh, kw]
        x, w = ints(rng, size(xs)), ints(rng, size(ws))
        b = ints(rng, O, -5, 5) if bias else None
        args = "%d %s %s %s %d%s %d %d %d %d %d %d %d" % (form, dt, fmt_operand(xs, x), fmt_operand(ws, w), bias, (" " + fmt_operand([O], b)) if bias else "", s_[0], s_[1], p_[0], p_[1], d_[0], d_[1], g_)
        cases.append(dict(op="nn_conv2d_form", args=args, dtype=dt, xs=xs, x=x, ws=ws, w=w, b=b, stride=s_, padding=p_, dilation=d_, groups=g_, form="form%d" % form))

    # ---------------- pooling: every (extent, kernel, stride, ceil) per axis is covered by pairing the 1-d grid with itself
    ax = [(L, k, s, c) for L in range(1, 8) for k in range(1, 4) for s in range(1, 4) for c in (0, 1) if L >= k]
    pool = []
    for (L, k, s, c) in ax:
        # this axis setting on H with a random partner (same ceil) on W, and vice versa
        for _ in range(2 if quick else 8):
            L2, k2, s2, _c = rng.choice([a for a in ax if a[3] == c])
            pool.append(((L, L2), (k, k2), (s, s2), c))
            pool.append(((L2, L), (k2, k), (s2, s), c))
    for (hw, kk, ss, c) in pool:
        for op in ("nn_max_pool2d", "nn_avg_pool2d"):
            if quick and rng.random() < 0.25:
                continue
            lead = rng.choice([[1, 1], [1, 2], [2, 1], [2, 3], [3]] if rng.random() < 0.8 else [[], [1, 1]])
            if not lead:
                lead = [1, 1]
            xs = list(lead) + list(hw)
            dt = pick("iifd")
            if op == "nn_max_pool2d":
                x = labels(rng, size(xs))
                if rng.random() < 0.6:
                    x = [v - min(x) for v in x]     # non-negative labels
            else:
                x = ints(rng, size(xs), -8, 8)
            args = "%s %s %d %d %d %d %d" % (dt, fmt_operand(xs, x), kk[0], kk[1], ss[0], ss[1], c)
            mm = dict(op=op, args=args, dtype=dt, xs=xs, x=x, kernel=list(kk), stride=list(ss), ceil=c)
            if op == "nn_max_pool2d":
                e = expected(mm)
                mm["negmax"] = bool(e is not None and np.any(e < 0))
            cases.append(mm)
            # the same geometry with ceil_mode as a compile-time constant (a third of the cases; every case whose last ceil-mode window
            # would start outside the input)
            if mm["dtype"] in ("f", "i", "d") and (rng.random() < 0.33 or argclass(mm) == "ceil:last_window_outside"):
                m2 = dict(mm, op=op + "_ct", dtype="f", args="f %s %d %d %d %d %d" % (fmt_operand(xs, x), kk[0], kk[1], ss[0], ss[1], c))
                cases.append(m2)

    # ---------------- softmax / softmin
    shapes = [[n] for n in range(1, 6)] + [list(s) for s in itertools.product(range(1, 5), repeat=2)] + \
             [list(s) for s in itertools.product(range(1, 4), repeat=3)] + [list(s) for s in itertools.product(range(1, 3), repeat=4)]
    if not quick:
        shapes += [[rng.randint(1, 6) for _ in range(rng.randint(1, 4))] for _ in range(1500)]
    for s in shapes:
        for axis in range(-len(s), len(s)):
            for op in ("nn_softmax", "nn_softmin"):
                if quick and len(s) >= 3 and rng.random() < 0.5:
                    continue
                dt = pick("fd")
                x = eighths(rng, size(s))
                if rng.random() < 0.3:
                    # every lane far from zero (the result is shift invariant; a stabilising shift that is not the lane maximum
                    # under- / overflows exp): offsets are multiples of 1/8, so the data stay exactly representable
                    off = rng.choice([-100.0, -120.5, -750.0, 100.0, 95.25, 730.0]) if dt == "d" else rng.choice([-100.0, -120.5, 100.0, 95.25])
                    x = [v + off for v in x]
                cases.append(dict(op=op, args="%s %s %d" % (dt, fmt_foperand(s, x), axis), dtype=dt, xs=s, x=x, axis=axis))

    # ---------------- normalisations
    def eps_pick():
        return rng.choice([1e-5, 1e-5, 1e-3, 0.5])

    for _ in range(120 if quick else 3000):
        N, C, H, W = rng.randint(1, 3), rng.randint(1, 4), rng.randint(1, 4), rng.randint(1, 4)
        xs = [N, C, H, W]
        dt = pick("fd")
        dflt = 1 if (dt == "f" and rng.random() < 0.3) else 0
        eps = 1e-5 if dflt else eps_pick()
        x, mean, var = eighths(rng, size(xs)), eighths(rng, C), eighths(rng, C, 1, 32)
        w, b = eighths(rng, C, -8, 8, 4.0), eighths(rng, C, -8, 8, 4.0)
        args = "%s %s %s %s %s %s %r %d" % (dt, fmt_foperand(xs, x), fmt_foperand([C], mean), fmt_foperand([C], var), fmt_foperand([C], w), fmt_foperand([C], b), eps, dflt)
        cases.append(dict(op="nn_batch_norm", args=args, dtype=dt, xs=xs, x=x, mean=mean, var=var, w=w, b=b, eps=eps, dflt=dflt))
    for _ in range(200 if quick else 2000):
        while True:
            d = rng.randint(2, 4)
            xs = [rng.randint(1, 4) for _ in range(d)]
            k = rng.randint(1, d)
            ns = xs[d - k:]
            if size(xs) * size(ns) ** 2 <= 2500:
                break
        dt = pick("fd")
        dflt = 1 if (dt == "f" and rng.random() < 0.3) else 0
        eps = 1e-5 if dflt else eps_pick()
        x, w, b = eighths(rng, size(xs)), eighths(rng, size(ns), -8, 8, 4.0), eighths(rng, size(ns), -8, 8, 4.0)
        args = "%s %s %s %s %r %d" % (dt, fmt_foperand(xs, x), fmt_foperand(ns, w), fmt_foperand(ns, b), eps, dflt)
        cases.append(dict(op="nn_layer_norm", args=args, dtype=dt, xs=xs, x=x, ns=ns, w=w, b=b, eps=eps, dflt=dflt))
    for _ in range(150 if quick else 2000):
        while True:
            nd = rng.randint(1, 2)
            xs = [rng.randint(1, 3), rng.randint(1, 4)] + [rng.randint(1, 4) for _ in range(nd)]
            if size(xs) * size(xs[2:]) ** 2 <= 2500:
                break
        C = xs[1]
        dt = pick("fd")
        eps = eps_pick()
        x, w, b = eighths(rng, size(xs)), eighths(rng, C, -8, 8, 4.0), eighths(rng, C, -8, 8, 4.0)
        args = "%d %s %s %s %s %r" % (nd, dt, fmt_foperand(xs, x), fmt_foperand([C], w), fmt_foperand([C], b), eps)
        cases.append(dict(op="nn_instance_norm", args=args, dtype=dt, xs=xs, x=x, w=w, b=b, eps=eps, nd=nd))
    for _ in range(200 if quick else 2000):
        while True:
            nsp = rng.randint(1, 2)
            C = rng.randint(1, 6)
            G = rng.choice(divisors(C))
            xs = [rng.randint(1, 3), C] + [rng.randint(1, 3) for _ in range(nsp)]
            if size(xs) * (size(xs[2:]) * C // G) ** 2 <= 2500:
                break
        dt = pick("fd")
        eps = eps_pick()
        x, w, b = eighths(rng, size(xs)), eighths(rng, C, -8, 8, 4.0), eighths(rng, C, -8, 8, 4.0)
        args = "%s %s %d %s %s %r" % (dt, fmt_foperand(xs, x), G, fmt_foperand([C], w), fmt_foperand([C], b), eps)
        cases.append(dict(op="nn_group_norm", args=args, dtype=dt, xs=xs, x=x, w=w, b=b, eps=eps, G=G))

    # ---------------- linear / bilinear
    for _ in range(250 if quick else 5000):
        d = rng.randint(1, 4)
        xs = [rng.randint(1, 3) for _ in range(d - 1)] + [rng.randint(1, 4)]
        K = xs[-1]
        w1d = rng.random() < 0.2
        O = rng.randint(1, 4)
        ws = [K] if w1d else [O, K]
        bias = 0 if w1d else rng.randint(0, 1)
        dt = pick("iifd")
        x, w = ints(rng, size(xs), -4, 4), ints(rng, size(ws), -4, 4)
        b = ints(rng, O, -9, 9) if bias else None
        args = "%s %s %s %d%s" % (dt, fmt_operand(xs, x), fmt_operand(ws, w), bias, (" " + fmt_operand([O], b)) if bias else "")
        cases.append(dict(op="nn_linear", args=args, dtype=dt, xs=xs, x=x, ws=ws, w=w, b=b))
    for _ in range(250 if quick else 5000):
        d = rng.randint(1, 4)
        lead = [rng.randint(1, 3) for _ in range(d - 1)]
        I, J, O = rng.randint(1, 4), rng.randint(1, 4), rng.randint(1, 3)
        as_, bs, ws = lead + [I], lead + [J], [O, I, J]
        bias = rng.randint(0, 1)
        dt = pick("if")
        a, b2, w = ints(rng, size(as_)), ints(rng, size(bs)), ints(rng, size(ws))
        b = ints(rng, O, -9, 9) if bias else None
        args = "%s %s %s %s %d%s" % (dt, fmt_operand(as_, a), fmt_operand(bs, b2), fmt_operand(ws, w), bias, (" " + fmt_operand([O], b)) if bias else "")
        cases.append(dict(op="nn_bilinear", args=args, dtype=dt, xs=as_, x=a, ys=bs, y=b2, ws=ws, w=w, b=b))

    # ---------------- pairwise_distance / cosine_similarity (broadcasting operands)
    def bcast_pair(dmax=3):
        d = rng.randint(1, dmax)
        full = [rng.randint(1, 4) for _ in range(d)]
        out = []
        for _ in range(2):
            k = rng.randint(1, d) if rng.random() < 0.4 else d
            s = full[d - k:]
            out.append([e if rng.random() < 0.75 else 1 for e in s])
        return out

    for _ in range(250 if quick else 5000):
        sa, sb = bcast_pair()
        K = rng.randint(1, 5)
        sa[-1] = K
        sb[-1] = K
        dt = pick("fd")
        dflt = 1 if (dt == "f" and rng.random() < 0.25) else 0
        ord_ = 2 if dflt else rng.choice([1, 2, 2, 4])
        eps = 1e-6 if dflt else rng.choice([1e-6, 1e-3, 0.25])
        kd = 0 if dflt else rng.randint(0, 1)
        a, b2 = eighths(rng, size(sa)), eighths(rng, size(sb))
        args = "%s %s %s %d %r %d %d" % (dt, fmt_foperand(sa, a), fmt_foperand(sb, b2), ord_, eps, kd, dflt)
        cases.append(dict(op="nn_pairwise_distance", args=args, dtype=dt, xs=sa, x=a, ys=sb, y=b2, ord=ord_, eps=eps, keepdims=kd, dflt=dflt))
    for _ in range(250 if quick else 5000):
        sa, sb = bcast_pair()
        nd = max(len(sa), len(sb))
        dt = pick("fd")
        dflt = 1 if (dt == "f" and nd >= 2 and rng.random() < 0.25) else 0
        axis = 1 if dflt else rng.randint(-nd, nd - 1)
        eps = 1e-8 if dflt else rng.choice([1e-8, 1e-8, 1e-3])
        a, b2 = eighths(rng, size(sa)), eighths(rng, size(sb))
        if rng.random() < 0.1:
            a = [0.0] * len(a)   # a zero vector: the eps clamp decides
        args = "%s %s %s %d %r %d" % (dt, fmt_foperand(sa, a), fmt_foperand(sb, b2), axis, eps, dflt)
        cases.append(dict(op="nn_cosine_similarity", args=args, dtype=dt, xs=sa, x=a, ys=sb, y=b2, axis=axis, eps=eps, dflt=dflt))
    return cases


# ---------------------------------------------------------------- reference
EXACT_OPS = ("nn_conv1d", "nn_conv1d_form", "nn_conv2d", "nn_conv2d_list", "nn_conv2d_ct", "nn_conv2d_form", "nn_max_pool2d", "nn_max_pool2d_ct", "nn_linear", "nn_bilinear")


def expected(m, fast=True):
    """reference result as a float64 / int64 numpy array (None: non-positive output size)"""
    op = m["op"]
    dt = m["dtype"]
    if op.startswith("nn_conv"):
        x = arr(m["xs"], m["x"], "i").astype(np.int64)
        w = arr(m["ws"], m["w"], "i").astype(np.int64)
        b = None if m["b"] is None else np.array(m["b"], dtype=np.int64)
        f = M.conv_fast if fast else M.conv_loops
        return f(x, w, b, m["stride"], m["padding"], m["dilation"], m["groups"])
    if op in ("nn_max_pool2d", "nn_avg_pool2d", "nn_max_pool2d_ct", "nn_avg_pool2d_ct"):
        return M.pool2d_loops(arr(m["xs"], m["x"], "i"), m["kernel"], m["stride"], bool(m["ceil"]), "max" if op.startswith("nn_max_pool2d") else "avg")
    if op == "nn_softmax":
        return M.softmax_loops(arr(m["xs"], m["x"]), m["axis"])
    if op == "nn_softmin":
        return M.softmin_loops(arr(m["xs"], m["x"]), m["axis"])
    if op == "nn_batch_norm":
        return M.batch_norm_loops(arr(m["xs"], m["x"]), m["mean"], m["var"], m["w"], m["b"], eps_of(dt, m["eps"]))
    if op == "nn_layer_norm":
        return M.layer_norm_loops(arr(m["xs"], m["x"]), arr(m["ns"], m["w"]), arr(m["ns"], m["b"]), eps_of(dt, m["eps"]))
    if op == "nn_instance_norm":
        return M.instance_norm_loops(arr(m["xs"], m["x"]), m["w"], m["b"], eps_of(dt, m["eps"]))
    if op == "nn_group_norm":
        return M.group_norm_loops(arr(m["xs"], m["x"]), m["G"], m["w"], m["b"], eps_of(dt, m["eps"]))
    if op == "nn_linear":
        return M.linear_loops(arr(m["xs"], m["x"], "i"), arr(m["ws"], m["w"], "i"), None if m["b"] is None else np.array(m["b"], dtype=np.int64))
    if op == "nn_bilinear":
        return M.bilinear_loops(arr(m["xs"], m["x"], "i"), arr(m["ys"], m["y"], "i"), arr(m["ws"], m["w"], "i"), None if m["b"] is None else np.array(m["b"], dtype=np.int64))
    if op == "nn_pairwise_distance":
        return M.pairwise_distance_loops(arr(m["xs"], m["x"]), arr(m["ys"], m["y"]), m["ord"], eps_of(dt, m["eps"]), bool(m["keepdims"]))
    if op == "nn_cosine_similarity":
        return M.cosine_similarity_loops(arr(m["xs"], m["x"]), arr(m["ys"], m["y"]), m["axis"], eps_of(dt, m["eps"]))
    raise KeyError(op)


def argclass(m):
    op = m["op"]
    if op.startswith("nn_conv"):
        # partition: batch>1 | several output channels per group and/or per-axis dilation pair with different entries |
        # everything else by the set of non-default features
        # (the three special blocks are not split by call form: one cause, one key per op)
        if m["xs"][0] > 1:
            return "batch_gt1"

        def lst(v):
            return [int(t) for t in (v if isinstance(v, list) else [v])]
        if len(set(lst(m["dilation"]))) > 1:
            return "dilation_pair_differs"
        if m["groups"] > 1 and m["ws"][0] // m["groups"] > 1:
            return "groups_multi_out"
        feats = "".join(c for c, on in (("b", m["b"] is not None), ("d", any(t != 1 for t in lst(m["dilation"]))), ("g", m["groups"] > 1),
                                        ("p", any(t != 0 for t in lst(m["padding"]))), ("s", any(t != 1 for t in lst(m["stride"])))) if on)
        return "%s:%s" % (m["form"], feats or "plain")
    if op in ("nn_max_pool2d", "nn_avg_pool2d", "nn_max_pool2d_ct", "nn_avg_pool2d_ct"):
        k, s = m["kernel"], m["stride"]
        H, W = m["xs"][-2:]

        def outside(L, kk, ss):
            # ceil mode would place the start of the last window at or beyond the end of the input (PyTorch drops that window)
            return bool(m["ceil"]) and (-((L - kk) // -ss)) * ss >= L
        if outside(H, k[0], s[0]) or outside(W, k[1], s[1]):
            return "ceil:last_window_outside"
        if op.startswith("nn_max_pool2d") and m.get("negmax"):
            return "negative_window_max"
        over = bool(m["ceil"]) and ((H - k[0]) % s[0] != 0 or (W - k[1]) % s[1] != 0)
        return "%s:%s" % ("ceil" if m["ceil"] else "floor", "overhang" if over else "fit")
    if op in ("nn_softmax", "nn_softmin"):
        return "dim%d:%s" % (len(m["xs"]), "negaxis" if m["axis"] < 0 else "posaxis")
    if op in ("nn_batch_norm", "nn_layer_norm"):
        return "dim%d:%s" % (len(m["xs"]), "default_eps" if m["dflt"] else "eps")
    if op == "nn_instance_norm":
        return "%dd" % m["nd"]
    if op == "nn_group_norm":
        C, G = m["xs"][1], m["G"]
        return "dim%d:%s" % (len(m["xs"]), "one_group" if G == 1 else ("group_per_channel" if G == C else "groups"))
    if op == "nn_linear":
        return "%s:%s" % ("w1d" if len(m["ws"]) == 1 else "w2d", "bias" if m["b"] is not None else "nobias")
    if op == "nn_bilinear":
        return "dim%d:%s" % (len(m["xs"]), "bias" if m["b"] is not None else "nobias")
    if op == "nn_pairwise_distance":
        return "%s:ord%d:%s:%s" % ("defaults" if m["dflt"] else "args", m["ord"], "keepdims" if m["keepdims"] else "nokeepdims", "same" if m["xs"] == m["ys"] else "bcast")
    if op == "nn_cosine_similarity":
        return "%s:%s:%s" % ("defaults" if m["dflt"] else "args", "negaxis" if m["axis"] < 0 else "posaxis", "same" if m["xs"] == m["ys"] else "bcast")
    return "-"


def compare_tol(rec, exp, rtol, floor=0.0):
    """|got-exp| <= rtol*(|exp| + max(floor, max|exp|)); shape first"""
    got = rec["V"]
    if got is None:
        return "result is Nothing, expected shape %s" % (list(exp.shape),)
    if not got.get("scalar") and got.get("shape") is not None and len(got["shape"]) == 0:
        if exp.ndim != 0:
            return "shape [] expected %s" % (list(exp.shape),)
        if rec.get("X0") is None:
            return "0-dim result whose element could not be read"
        g = np.array(float(rec["X0"]))
    elif got.get("scalar"):
        if exp.ndim != 0:
            return "shape [] (number) expected %s" % (list(exp.shape),)
        g = np.array(float(got["data"][0]))
    else:
        g = V.to_np(got)
        if g is None:
            return "result too large to emit"
        if list(g.shape) != list(exp.shape):
            return "shape %s expected %s" % (list(g.shape), list(exp.shape))
        g = g.astype(np.float64)
    e = np.asarray(exp, dtype=np.float64)
    scale = max(floor, float(np.max(np.abs(e))) if e.size else 0.0)
    with np.errstate(all="ignore"):
        ok = np.abs(g - e) <= rtol * (np.abs(e) + scale)
    ok = ok & np.isfinite(g)
    if np.all(ok):
        return None
    bad = np.argwhere(~np.atleast_1d(ok))
    k = tuple(bad[0]) if g.ndim else ()
    return "element %s is %r expected %r (%d of %d outside rtol %g)" % (list(k), float(np.atleast_1d(g)[k] if g.ndim else g), float(np.atleast_1d(e)[k] if g.ndim else e), len(bad), g.size, rtol)


FLOOR = {"nn_softmax": 1.0, "nn_softmin": 1.0, "nn_cosine_similarity": 1.0}
NORM_OPS = ("nn_batch_norm", "nn_layer_norm", "nn_instance_norm", "nn_group_norm")


def scale_floor(m):
    """magnitude against which rounding errors are judged.  The normalisations end in z*weight + bias, which can cancel
    to ~0 although both terms are O(1) (e.g. weight = -bias, z ~ 1): errors are relative to max|z|*max|weight| + max|bias|,
    not to the (possibly tiny) result."""
    op = m["op"]
    if op in NORM_OPS:
        m1 = dict(m)
        m1["w"] = [1.0] * len(m["w"])
        m1["b"] = [0.0] * len(m["b"])
        z = expected(m1)
        zmax = float(np.max(np.abs(z))) if z is not None and z.size else 0.0
        return zmax * max(abs(t) for t in m["w"]) + max(abs(t) for t in m["b"])
    return FLOOR.get(op, 0.0)


def describe(m):
    keep = ("dtype", "xs", "ws", "ys", "ns", "stride", "padding", "dilation", "groups", "form", "kernel", "ceil", "axis", "eps", "dflt", "nd", "G", "ord", "keepdims")
    d = {k: m[k] for k in keep if k in m}
    if "b" in m and m["op"].startswith(("nn_conv", "nn_linear", "nn_bilinear")):
        d["bias"] = m["b"] is not None
    return d


def oracle(ctx, cr):
    m = cr.m
    op = m["op"]
    dt = m["dtype"]
    ac = argclass(m)
    det = dict(case=describe(m), line=cr.line[:800])
    if cr.crash is not None:
        ctx.violation("%s:%s:fault" % (op, ac), "%s %s died: %s" % (op, det["case"], cr.crash.kind()), dict(det, stderr=cr.crash.stderr[-3000:]))
        return
    if cr.timeout:
        ctx.inconc("timeout in %s" % cr.line[:200])
        return
    if cr.rec is None:
        return
    ctx.ev()
    if "error" in cr.rec:
        err = cr.rec["error"]
        if not err.startswith("EXC"):
            ctx.violation("%s:malformed_record" % op, err[:300], det)
        else:
            ctx.violation("%s:%s:fault" % (op, ac), "%s %s threw while the result was read: %s" % (op, det["case"], err[-160:]), det)
        return
    exp = expected(m, fast=True)
    if exp is None:
        return
    exp = np.asarray(exp)
    if op in EXACT_OPS:
        why = compare_tol(cr.rec, exp, 0.0)
    else:
        floor = scale_floor(m)
        why = compare_tol(cr.rec, exp, RTOL[dt], floor)
    if why:
        if why.startswith("element") and op not in EXACT_OPS and compare_tol(cr.rec, exp, 1e-4, scale_floor(m)) is None:
            # right value, computed with less precision than the element type promises: one cause, one key
            ctx.violation("%s:%s:precision" % (op, dt), "%s %s: %s" % (op, det["case"], why), det)
        elif op in EXACT_OPS:
            # integer-valued data: the element type plays no role
            ctx.violation("%s:%s:value" % (op, ac), "%s %s: %s" % (op, det["case"], why), det)
        else:
            ctx.violation("%s:%s:%s:value" % (op, dt, ac), "%s %s: %s" % (op, det["case"], why), det)
    if exp.size > 1:
        ctx.seen((op, ac, str(det["case"])))
    if exp.size > 3 and len(ctx.samples) < 8 and ctx.rng.random() < 0.004:
        got = cr.rec["V"]
        ctx.sample(dict(op=op, case=det["case"], result_shape=got.get("shape") if got else None, first_elements=(got.get("data") or [])[:6] if got else None))


def self_check(ctx, cases):
    """the models against the repository's shipped vectors and against each other; a disagreement is MY bug -> inconclusive"""
    try:
        n, problems = M.validate_against_shipped(B.REPO)
    except Exception as e:  # unreadable data file
        ctx.inconc("cannot validate the models against the shipped vectors: %r" % (e,))
        return
    ctx.set("shipped_vectors_agreeing_with_model", n - len({p.split(":")[0] for p in problems}))
    for p in problems[:5]:
        ctx.inconc("reference model disagrees with a shipped vector: %s" % p)
    if n < 100:
        ctx.inconc("only %d shipped vectors could be parsed" % n)
    # literal nested loops vs the per-kernel-offset arrangement vs scipy on a slice of this run's conv cases
    conv = [c for c in cases if c["op"].startswith("nn_conv")]
    k = 0
    for c in conv[:: max(1, len(conv) // 150)]:
        a, b = expected(c, fast=True), expected(c, fast=False)
        x = arr(c["xs"], c["x"], "i")
        w = arr(c["ws"], c["w"], "i")
        s = M.conv_scipy(x, w, None if c["b"] is None else np.array(c["b"]), c["stride"], c["padding"], c["dilation"], c["groups"])
        if a is None or b is None or not np.array_equal(a, b) or a.shape != s.shape or not np.allclose(a, s, rtol=0, atol=1e-9):
            ctx.inconc("conv models disagree with each other on %s" % describe(c))
            break
        k += 1
    ctx.set("conv_model_cross_checks", k)


def run(ctx):
    cases = gen_cases(ctx.rng, ctx.tier)
    only = [t for t in os.environ.get("VERIF_ONLY_OPS", "").split(",") if t]
    if only:
        # debugging aid (mutant triage): restrict the run to these ops ("name" or "prefix*"); only their binaries are built
        cases = [c for c in cases if any(c["op"] == t or (t.endswith("*") and c["op"].startswith(t[:-1])) for t in only)]
        ctx.set("restricted_to_ops", only)
    self_check(ctx, cases)
    res = V.run_module_cases(HARNESS, cases, "asan", parse=parse)
    acc = HookAcc()
    norec = 0
    per_op = {}
    for cr in res:
        for (site, f0, f1) in V.hook_problems(cr, acc):
            ctx.violation("%s:%s:fault" % (cr.m["op"], argclass(cr.m) if "dtype" in cr.m else "-"), "bounds hook %s: index %d outside bound %d in %s" % (site, f0, f1, cr.line[:300]), dict(line=cr.line[:800], site=site))
        if "dtype" not in cr.m:
            ctx.violation("%s:crash_outside_case:%s" % (cr.m.get("src", "?"), cr.crash.kind()), "runner died outside a case: %s" % cr.crash.kind(), dict(stderr=cr.crash.stderr[-3000:]))
            continue
        oracle(ctx, cr)
        per_op[cr.m["op"]] = per_op.get(cr.m["op"], 0) + 1
        if cr.rec is None and cr.crash is None and not cr.timeout:
            norec += 1
    if norec:
        ctx.inconc("%d cases produced no record" % norec)
    ctx.rule = ("conv grid: batch 1..2, in-channels 1..4 x every divisor as groups, out-channels g|2g, spatial 1..7, kernel 1..3, stride 1..3, padding 0..2, dilation 1..2, bias on/off, positive output "
                "(quick: 1500 sampled conv1d + 250 defaulted forms, 1000 conv2d + 350 sampled and ~290 enumerated per-axis pairs + 250 defaulted forms; thorough: full conv1d grid x bias, 50k conv2d); "
                "pooling: every (extent 1..7, kernel 1..3, stride 1..3, ceil) on each axis paired with a random partner, max and avg; softmax/softmin: every axis of all small shapes dim 1..4; "
                "norms dim 2..4, linear/bilinear, pairwise_distance, cosine_similarity sampled. distinct = (op, argument class, shapes+parameters) whose result has more than one element")
    ctx.set("hook_events", acc.summary())
    ctx.set("cases_per_op", per_op)
    ctx.set("cases_generated", len(cases))
    ctx.set("crashes_contained", sum(1 for cr in res if cr.crash is not None))
    if acc.events.get(2, 0) == 0:
        ctx.inconc("view index hook never fired")
