"""C18: isequal / isclose are exact, shape-aware, symmetric, total comparison oracles."""
import itertools

from .. import run as R
from .. import build as B
from ..util import split_hooks, build_or_fail, HookAcc, SITE_NAMES, fmt_vec, all_shapes, hexf
from .. import c18_gen as G

FLAVORS = ("asan", "asan-ndebug")
CLAIM = dict(
    technique="runtime monitoring: every isequal/isclose call is one contained execution in an ASan+UBSan+_GLIBCXX_ASSERTIONS build with the library's "
              "asserts on (`asan`) and compiled out (`asan-ndebug`, the configuration the baseline ships); the boolean is decided by a Python model",
    text="Calls utils::isequal / isclose (both argument orders, explicit and default eps, reflexive calls) and apply_isequal / apply_isclose on "
         "operand pairs of ~75 compile-probed kind pairings: index arrays (list, static_vector, std::array, tuple, hybrid 1-D), ndarrays (dynamic, "
         "fixed-dim, legacy dynamic/hybrid/fixed, nested std::array, reshape views; int and double), scalars, optionals (both/one empty), eithers "
         "(same/different alternative), tuples; shapes dim 1..3 extents 1..3: same shape with a perturbation at every position, same size but "
         "different shape, different dimension, different size, prefix/longer index arrays; eps at, below and above the difference.  Model: equal "
         "iff same dim and shape and all elements equal (|d|<eps for isclose); empty==empty, empty!=value, eithers alternative-wise, tuples "
         "component-wise.  Any abort / sanitizer report / bounds-hook event for operands of different shape counts as 'did not return false'.  "
         "Held-on-observed, not a proof.",
    note="Trusted: the Python model, the sanitizer build, crash attribution of the runner. Pairings the API rejects at compile time (static_assert: "
         "packed operands of different static length, scalar vs array) are recorded as 'U' and not exercised; NaN/inf handling macros are left at "
         "their defaults (off).",
    ref="DESIGN.md 4/C18")


def _quick_targets():
    return [t for fl in FLAVORS for t, _ in G.targets(fl)]


TARGETS_QUICK = [_quick_targets]

# apply_isequal / apply_isclose of a tuple against an ndarray is applicative (element i of the tuple against at(array,i));
# what that means for a 2-D array is not specified by the property, so the pairing is only exercised with isequal / isclose.
AP_UNSPECIFIED = {(3, 10)}
ND_SHAPES = [s for s in all_shapes(3, 3, mindim=1)]
EPS = 0.25


def kind_shapes(k):
    """shapes an operand kind can take (inner array of optionals / eithers / tuples included)"""
    if k in (0, 1, 4, 32):
        return [[n] for n in (1, 2, 3, 4)]
    if k in (2, 3):
        return [[n] for n in (1, 2, 3)]
    if k in (12, 14):
        return [s for s in ND_SHAPES if len(s) == 2]
    if k in (15, 16):
        return [[2, 3]]
    if k in (20, 21, 22, 31):
        return [[]]
    return ND_SHAPES


def is_float(k):
    return G.KINDS[k][2] == "f"


class Operand:
    """model value of an operand + its spec line"""

    def __init__(self, k, shape, data, flag=1):
        self.k = k
        self.shape = list(shape)
        self.data = list(data)
        self.flag = flag

    def spec(self):
        if self.k == 51:
            d = self.data
        else:
            d = self.data
        return "%d %s %d %s" % (self.flag, fmt_vec(self.shape), len(d), " ".join(hexf(x) for x in d)) if d else "%d %s 0" % (self.flag, fmt_vec(self.shape))

    def model(self):
        k = self.k
        cat = G.KINDS[k][1]
        if cat in ("IDX", "ND"):
            return ("arr", tuple(self.shape), tuple(self.data))
        if cat == "SC":
            return ("num", self.data[0])
        if cat == "OPT":
            if not self.flag:
                return ("none",)
            if k == 31:
                return ("num", self.data[0])
            return ("arr", tuple(self.shape), tuple(self.data))
        if cat == "EITH":
            if k == 43:
                return ("either", int(self.flag != 0), ("num", self.data[0]))
            if k == 44:
                return ("either", int(self.flag != 0), ("arr", tuple(self.shape), tuple(self.data)))
            if self.flag == 0:
                return ("either", 0, ("num", self.data[0]))
            return ("either", 1, ("arr", tuple(self.shape), tuple(self.data)))
        if cat == "TUP":
            n = 1
            for e in self.shape:
                n *= e
            if k == 51:
                return ("tuple", [("arr", tuple(self.shape), tuple(self.data[:n])), ("arr", tuple(self.shape), tuple(self.data[n:2 * n]))])
            return ("tuple", [("num", float(self.flag)), ("arr", tuple(self.shape), tuple(self.data))])
        raise ValueError(k)


def m_cmp(a, b, eps):
    """model: eps None -> isequal; returns True/False"""
    ta, tb = a[0], b[0]
    if ta == "none" or tb == "none":
        return ta == tb
    if ta == "either" and tb == "either":
        return a[1] == b[1] and m_cmp(a[2], b[2], eps)
    if ta == "either":
        return a[2][0] == tb and m_cmp(a[2], b, eps)
    if tb == "either":
        return b[2][0] == ta and m_cmp(a, b[2], eps)
    if ta == "tuple" and tb == "tuple":
        return len(a[1]) == len(b[1]) and all(m_cmp(x, y, eps) for x, y in zip(a[1], b[1]))
    if ta == "num" and tb == "num":
        return (a[1] == b[1]) if eps is None else (abs(a[1] - b[1]) < eps)
    if ta == "arr" and tb == "arr":
        if a[1] != b[1]:
            return False
        if eps is None:
            return all(x == y for x, y in zip(a[2], b[2]))      # (element-wise: NaN != NaN; tuple equality would short-cut on identity)
        return all(abs(x - y) < eps for x, y in zip(a[2], b[2]))   # a NaN difference (NaN operand, inf - inf) is not below eps
    return False


def inner(m):
    while m[0] == "either":
        m = m[2]
    return m


def relation(a, b):
    """coarse relation of two model values (the argument class of the key)"""
    if a[0] == "none" or b[0] == "none":
        return "both_empty" if a[0] == b[0] else "one_empty"
    if a[0] == "either" and b[0] == "either" and a[1] != b[1]:
        return "different_alternative"
    ia, ib = inner(a), inner(b)
    if ia[0] == "tuple" and ib[0] == "tuple":
        rels = [relation(x, y) for x, y in zip(ia[1], ib[1])]
        bad = [r for r in rels if r != "same_shape"]
        return bad[0] if bad else "same_shape"
    if ia[0] != ib[0]:
        return "different_concept"
    if ia[0] == "num":
        return "same_shape"
    sa, sb = ia[1], ib[1]
    if sa == sb:
        return "same_shape"
    na = nb = 1
    for e in sa:
        na *= e
    for e in sb:
        nb *= e
    if len(sa) != len(sb):
        return "different_dim_same_size" if na == nb else "different_dim_and_size"
    return "same_size_different_shape" if na == nb else "different_size"


def numel(shape):
    n = 1
    for e in shape:
        n *= e
    return n


def labels(k, shape, base=1):
    n = numel(shape)
    if k == 51:
        n *= 2
    if is_float(k):
        return [base + 0.5 * i for i in range(max(n, 1))]
    return [base + i for i in range(max(n, 1))]


def gen_pairs(ka, kb, rng, quick):
    """-> list of (Operand a, Operand b, tag)"""
    out = []
    sha, shb = kind_shapes(ka), kind_shapes(kb)
    fl = is_float(ka) or is_float(kb)
    deltas = [0.125, 0.25, 0.5, -0.125] if fl else [1, -1]

    def mk(k, shape, data, flag=1):
        cat = G.KINDS[k][1]
        if cat == "TUP" and k != 51:
            flag = 3
        if cat == "EITH":
            flag = 1
        return Operand(k, shape, data, flag)

    def flat_for(k, shape, src):
        """data of operand kind k / shape: the flat data `src`, truncated or continued"""
        n = numel(shape) * (2 if k == 51 else 1)
        n = max(n, 1)
        d = list(src[:n])
        step = 0.5 if is_float(k) else 1
        while len(d) < n:
            d.append((d[-1] if d else 0) + step)
        if not is_float(k):
            d = [int(x) for x in d]
        return d

    # ---- same shape: equal, and a perturbation at every position (quick: a few positions)
    common = [s for s in sha if s in shb]
    for s in common:
        da = labels(ka, s)
        a = mk(ka, s, da)
        out.append((a, mk(kb, s, flat_for(kb, s, da)), "equal"))
        n = len(flat_for(kb, s, da))
        pos = list(range(n))
        if quick and n > 3:
            pos = sorted(set([0, n - 1, rng.randrange(n)]))
        for p in pos:
            for d in (deltas if not quick else deltas[:3]):
                db = flat_for(kb, s, da)
                db[p] = db[p] + d
                if not is_float(kb):
                    if d != int(d):
                        continue
                    db[p] = int(db[p])
                out.append((a, mk(kb, s, db), "perturbed"))
    # ---- non-finite elements (floating-point kinds on both sides): NaN on either / both sides, equal and opposite infinities.
    #      isequal: NaN != NaN, inf == inf; isclose: a NaN difference (NaN operand, inf - inf) is not below eps
    if is_float(ka) and is_float(kb):
        nan, inf = float("nan"), float("inf")
        for s in common[:3]:
            da = labels(ka, s)
            n = len(flat_for(kb, s, da))
            for p in sorted(set([0, n - 1])):
                for va, vb in ((nan, None), (None, nan), (nan, nan), (inf, inf), (inf, -inf), (-inf, None)):
                    xa, xb = list(flat_for(ka, s, da)), list(flat_for(kb, s, da))
                    if p >= len(xa) or p >= len(xb):
                        continue
                    if va is not None:
                        xa[p] = va
                    if vb is not None:
                        xb[p] = vb
                    out.append((mk(ka, s, xa), mk(kb, s, xb), "nonfinite"))
    # ---- different shapes with the same flat data
    diff = [(s1, s2) for s1 in sha for s2 in shb if s1 != s2]
    # (with the library's asserts on every such call aborts its process, so the number of mismatching pairs is bounded in both tiers)
    if quick or len(diff) > 150:
        # deterministic representatives of every relation + a seeded sample
        by_rel = {}
        for s1, s2 in diff:
            r = relation(("arr", tuple(s1), ()), ("arr", tuple(s2), ()))
            by_rel.setdefault(r, []).append((s1, s2))
        pick = []
        for r in sorted(by_rel):
            lst = by_rel[r]
            pick += lst[:2] + [lst[-1]]
            pick += rng.sample(lst, min(2 if quick else 35, len(lst)))
        diff = []
        for x in pick:
            if x not in diff:
                diff.append(x)
    for s1, s2 in diff:
        da = labels(ka, s1 if numel(s1) >= numel(s2) else s2)
        out.append((mk(ka, s1, flat_for(ka, s1, da)), mk(kb, s2, flat_for(kb, s2, da)), "mismatch"))
    # ---- optionals / eithers: emptiness and alternatives
    cata, catb = G.KINDS[ka][1], G.KINDS[kb][1]
    if cata == "OPT" or catb == "OPT":
        s1, s2 = sha[min(1, len(sha) - 1)], shb[min(1, len(shb) - 1)]
        for fa, fb in ((0, 0), (0, 1), (1, 0)):
            if (fa == 0 and cata != "OPT") or (fb == 0 and catb != "OPT"):
                continue
            out.append((Operand(ka, s1, labels(ka, s1), fa if cata == "OPT" else 1), Operand(kb, s2, labels(kb, s2), fb if catb == "OPT" else 1), "emptiness"))
    if cata == "EITH" or catb == "EITH":
        s1, s2 = sha[min(4, len(sha) - 1)], shb[min(4, len(shb) - 1)]
        for fa, fb in ((0, 0), (0, 1), (1, 0)):
            if (fa == 0 and cata != "EITH") or (fb == 0 and catb != "EITH"):
                continue
            a = Operand(ka, s1, labels(ka, s1), fa if cata == "EITH" else 1)
            b = Operand(kb, s2, labels(kb, s2), fb if catb == "EITH" else 1)
            out.append((a, b, "alternatives"))
            if fa == 0 and fb == 0:
                b2 = Operand(kb, s2, [labels(kb, s2)[0] + (0.125 if fl else 1)] + labels(kb, s2)[1:], 0)
                out.append((a, b2, "alternatives"))
    return out


FN_NAMES = {0: "isequal", 1: "isequal", 2: "isclose", 3: "isclose", 4: "isequal", 5: "isclose", 6: "apply_isequal", 7: "apply_isclose", 8: "isclose"}


def run(ctx):
    quick = ctx.tier == "quick"
    hacc = HookAcc()
    stats = dict(calls=0, unsupported=0, true=0, false=0, crashes=0, mismatch_calls=0, pairs=set(), relations=set())
    for flavor in FLAVORS:
        tgs = G.targets(flavor)
        bins = build_or_fail([t for t, _ in tgs])
        for tg, group in tgs:
            binary = bins[(tg.name, flavor)]
            cases, meta = [], {}
            for (ka, kb), (eq, cl, ap, sym) in group:
                prs = gen_pairs(ka, kb, ctx.rng, quick)
                if (ka, kb) in AP_UNSPECIFIED:
                    ap = False
                for i, (a, b, tag) in enumerate(prs):
                    fns = []
                    if eq:
                        fns += [0] + ([1] if sym else []) + ([6] if ap else [])
                    if cl:
                        fns += [2] + ([3] if sym else []) + ([7, 8] if ap else [8])
                    if tag == "equal":
                        fns += ([4] if eq else []) + ([5] if cl else [])
                    for fn in fns:
                        cid = "%d_%d.%d.%d" % (ka, kb, i, fn)
                        cases.append((cid, "%s p_%d_%d %d %s %s %s" % (cid, ka, kb, fn, hexf(EPS), a.spec(), b.spec())))
                        meta[cid] = (ka, kb, a, b, tag, fn)
            results, crashes, touts = R.run_cases(binary, cases)
            crashed = {}
            for c in crashes:
                stats["crashes"] += 1
                if c.case_id in meta:
                    crashed[c.case_id] = c
                else:
                    ctx.violation("crash:%s:%s:outside_case" % (flavor, tg.name), "runner died outside a case (%s)" % c.kind(), dict(stderr=c.stderr[-2000:]))
            for tmo in touts:
                ctx.inconc("timeout in %s" % (tmo,))
            missing = 0
            recorded = {}
            for cid, line in cases:
                ka, kb, a, b, tag, fn = meta[cid]
                ma, mb = a.model(), b.model()
                cats = "%sx%s" % (G.KINDS[ka][1], G.KINDS[kb][1])
                fname = FN_NAMES[fn]
                if fn in (4, 5):
                    mb = ma
                rel = relation(ma, mb)
                det = dict(flavor=flavor, fn=fname, order="(b,a)" if fn in (1, 3) else "(a,b)", a=dict(kind=G.KINDS[ka][0], shape=a.shape, data=a.data, flag=a.flag),
                           b=dict(kind=G.KINDS[kb][0], shape=b.shape, data=b.data, flag=b.flag), line=line)
                desc = "%s(%s %s %s%s, %s %s %s%s)%s" % (fname, G.KINDS[ka][0], a.shape, a.data[:8], "" if a.flag else " <empty>", G.KINDS[kb][0], b.shape, b.data[:8],
                                                       "" if b.flag else " <empty>", " swapped" if fn in (1, 3) else "")
                mismatch = rel not in ("same_shape", "both_empty")
                # operands of different shape / length: one key per (function, flavor, relation) - the operand categories are in `what`
                base = ("%s:%s:%s" % (fname, flavor, rel)) if mismatch else ("%s:%s:%s:%s" % (fname, flavor, cats, rel))
                eps = None if fname in ("isequal", "apply_isequal") else (EPS if fn in (2, 3, 5) else 1e-6)
                exp = m_cmp(ma, mb, eps)
                if cid in crashed:
                    ctx.ev()
                    stats["calls"] += 1
                    c = crashed[cid]
                    sym_ = "not_false" if mismatch else "crash"
                    ctx.violation(base + ":" + sym_, "%s: process died (%s) instead of returning %s" % (desc, c.kind(), exp), dict(det, stderr=c.stderr[-1500:]))
                    continue
                if cid not in results:
                    missing += 1
                    continue
                toks, hooks = split_hooks(results[cid])
                ctx.ev()
                hv = [(s, v, f0, f1) for (s, v, f0, f1) in hacc.add(hooks) if s in (0, 1, 2, 3, 5, 9, 10)]
                r = toks[0] if toks else "?"
                if r == "EXC":
                    stats["calls"] += 1
                    ctx.violation(base + ":" + ("not_false" if mismatch else "crash"), "%s threw %s instead of returning %s" % (desc, " ".join(toks[1:2])[:120], exp), det)
                    continue
                if r in ("U", "BAD"):
                    stats["unsupported"] += 1
                    if r == "BAD":
                        ctx.violation("harness:%s:bad_spec" % cats, "operand spec rejected by the harness: %s" % line, det)
                    continue
                if r not in ("T", "F"):
                    ctx.violation("harness:%s:malformed" % cats, "unparsable record %s for %s" % (toks[:5], desc), det)
                    continue
                got = r == "T"
                stats["calls"] += 1
                stats["true" if got else "false"] += 1
                stats["pairs"].add((ka, kb, fname))
                stats["relations"].add((cats, rel))
                if mismatch:
                    stats["mismatch_calls"] += 1
                if not mismatch:
                    recorded[(ka, kb, id(a), id(b), fn)] = got
                if hv:
                    s, v, f0, f1 = hv[0]
                    ctx.violation(base + ":" + ("not_false" if mismatch else "read_outside"),
                                  "%s: bounds hook %s saw index %d with bound %d (read outside an operand); returned %s" % (desc, SITE_NAMES.get(s, s), f0, f1, got), det)
                elif got != exp:
                    ctx.violation(base + ":" + ("not_false" if mismatch else "wrong_result"), "%s returned %s, the model says %s" % (desc, got, exp), det)
                if fn in (4, 5) and not got:
                    ctx.violation(base + ":irreflexive", "%s is false" % desc, det)
                if numel(a.shape) > 1 or numel(b.shape) > 1 or mismatch:
                    ctx.seen((flavor, ka, kb, fn, tuple(a.shape), tuple(b.shape), tuple(a.data), tuple(b.data), a.flag, b.flag))
                if len(ctx.samples) < 6 and tag == "mismatch" and fn in (0, 2) and (ka + kb + len(a.data)) % 11 == 3:
                    ctx.sample(dict(flavor=flavor, call=desc, returned=got, model=exp))
            # symmetry on the recorded results
            for (ka, kb, ia, ib, fn), got in recorded.items():
                if fn in (0, 2):
                    other = recorded.get((ka, kb, ia, ib, fn + 1))
                    if other is not None and other != got:
                        cats = "%sx%s" % (G.KINDS[ka][1], G.KINDS[kb][1])
                        ctx.violation("%s:%s:%s:asymmetric" % (FN_NAMES[fn], flavor, cats), "%s(a,b)=%s but (b,a)=%s for kinds %s / %s" % (
                            FN_NAMES[fn], got, other, G.KINDS[ka][0], G.KINDS[kb][0]), dict(flavor=flavor, ka=ka, kb=kb))
            if missing > len(crashes) + len(touts):
                ctx.inconc("%d calls of %s produced no record" % (missing - len(crashes), tg.name))
    ctx.set("calls_returned", stats["calls"])
    ctx.set("calls_on_mismatched_operands", stats["mismatch_calls"])
    ctx.set("returned_true", stats["true"])
    ctx.set("returned_false", stats["false"])
    ctx.set("pairings_rejected_at_compile_time_or_unsupported", stats["unsupported"])
    ctx.set("kind_pairs_x_function_executed", len(stats["pairs"]))
    ctx.set("category_relation_classes_seen", sorted("%s:%s" % x for x in stats["relations"]))
    ctx.set("flavors", list(FLAVORS))
    ctx.set("processes_died_contained", stats["crashes"])
    ctx.set("hook_events", hacc.summary())
    ctx.rule = ("per kind pairing: every common shape (dim 1..3, extents 1..3; index arrays length 1..4) with equal data and a perturbation (+-1 / "
                "+-eps/2, eps, 2eps) at %s position; operands of different shape with the same flat data (%s); emptiness and alternative "
                "combinations; each of isequal/isclose (both orders, explicit/default eps), reflexive calls and apply_* is one contained execution, "
                "in both build flavors. distinct = distinct (flavor, pairing, function, operands) with more than one element or mismatched shapes"
                % ("a few" if quick else "every", "representatives of every relation + seeded sample of 2 per relation" if quick else "all shape pairs up to 150 per pairing, else representatives + 35 sampled per relation"))
    ctx.exhaustive = False
    if stats["calls"] == 0:
        ctx.inconc("no comparison executed")
