"""C08: reductions and accumulations fold exactly the addressed elements, in order (shape, elements, element type; named wrappers)."""
import itertools
import math

import numpy as np

from .. import viewrun as V
from ..util import Tok, fmt_vec, HookAcc
from ..c08_table import OPS, BY_NAME, HARNESS
from .c07 import fmt_val, fmt_data, _bits_equal

NPT = {"i1": np.int8, "i2": np.int16, "i4": np.int32, "i8": np.int64, "u1": np.uint8, "u4": np.uint32, "u8": np.uint64, "f4": np.float32, "f8": np.float64,
       "b1": np.bool_}

CLAIM = dict(
    technique="runtime monitoring: sanitizer-instrumented execution of every reduction / accumulation entry point on arrays with unique labels; the set and order of source elements entering each result element is computed in Python from the definition (non-reduced coordinates match, increasing C order), the fold is replayed in the harness with the library's scalar functor in a plain loop (exact comparison: same bits up to the sign of zero), NumPy ufunc.reduce/accumulate and np.mean/var/std/trace/norm cross-check values and shapes",
    text="view::reduce_{add,multiply,maximum,minimum} (all 54 combinations of axis kind int/list/None x dtype absent/int64/float64 x initial absent/present x keepdims True/False/run-time for add on int32; pairwise-covering 9 for the others and for float64 data), view::reduce with bitwise_and/or/xor, subtract and the order-exposing op acc*31+x, reduce_logical_*, accumulate_* / cumsum / cumprod, sum, prod, amax, amin, mean, var, stddev, vector_norm, trace: result shape == NumPy's; every element == left fold (accumulator of the result type) of exactly the designated source elements in increasing index order; element type == requested dtype / source element type; wrappers == their definitions. Fold order is exposed by subtract and the tagging op. ASan/UBSan/libstdc++ assertions and the bounds hooks watch the same executions. Held-on-observed.",
    note="Trusted: NumPy's reduce/accumulate on exactly representable data (small integers / dyadic rationals; +-1,+-2,+-0.5 for products); the harness' own odometer. Dynamic ndarrays; run-time axis arguments plus compile-time axes (meta::ct_v<k>, group 'ct': reduce_add/multiply/maximum/minimum, sum, prod, cumsum, cumprod) - other kinds: C09. Only NumPy-valid arguments (invalid: C15); no zero-size diagonals / reductions. The result type of mean/var without dtype is taken from the library's documented promotion (integers -> float32), not from NumPy.",
    ref="DESIGN.md 4/C08")
TARGETS_QUICK = [(h, "asan") for h in HARNESS]


# ------------------------------------------------------------------------------------------------ data
def gen_data(rng, o, n):
    T = o["T"]
    kind = o["data"]
    if kind == "labels":
        if T == "u8":
            vals = rng.sample(range(1, 2000), n)
        elif T[0] == "f":
            pool = [k / 16.0 for k in range(-320, 321)]
            vals = rng.sample(pool, n) if n <= len(pool) else [rng.choice(pool) for _ in range(n)]
        else:
            vals = rng.sample(range(-400, 401), n)
    elif kind == "pm12":
        vals = [rng.choice((-1, 1)) for _ in range(n)]
        big = rng.sample(range(n), min(n, rng.randint(0, 10)))
        for k in big:
            vals[k] = rng.choice((2, -2)) if T[0] != "f" else rng.choice((2.0, -2.0, 0.5, -0.5))
    elif kind == "bits":
        pool = list(range(-40, 41)) + [2 ** 31 - 1, -2 ** 31, 0x55555555, 0x0F0F0F0F, -2, 0x7FFF0000]
        vals = [rng.choice(pool) for _ in range(n)]
    elif kind == "zeros":
        vals = [0 if rng.random() < 0.35 else rng.choice((-5, -2, -1, 1, 2, 3, 7)) for _ in range(n)]
    else:
        raise KeyError(kind)
    return np.array(vals, dtype=NPT[T])


def gen_initial(rng, o, data):
    fam = o.get("op", o["fam"])
    T = o["T"]
    if fam == "multiply":
        v = rng.choice((1, -1, 2, 3))
    elif fam in ("maximum", "minimum"):
        lo, hi = float(data.min()), float(data.max())
        v = rng.choice((int(lo) - 3, int(hi) + 3, int((lo + hi) / 2)))
    elif fam == "tag":
        v = rng.randint(0, 50)
    elif fam.startswith("bitwise"):
        v = rng.choice((-1, 0, 0x00FF00FF, 5))
    else:
        v = rng.randint(-50, 50)
    if T[0] == "f":
        v = float(v) + rng.choice((0.0, 0.5, 0.25))
    if T[0] == "u":
        v = abs(int(v))
    return v


# ------------------------------------------------------------------------------------------------ groups (the definition)
def norm_axes(axis, dim):
    if axis is None:
        return list(range(dim))
    if isinstance(axis, int):
        return [axis % dim]
    return [a % dim for a in axis]


def reduce_groups(shape, axes):
    """for every result element (C order of the non-reduced coordinates): source flat indices in increasing order"""
    n = int(np.prod(shape))
    lab = np.arange(n).reshape(shape)
    red = sorted(set(axes))
    non = [d for d in range(len(shape)) if d not in red]
    t = lab.transpose(non + red)
    rows = int(np.prod([shape[d] for d in non])) if non else 1
    return t.reshape(rows, -1)


def accumulate_groups(shape, ax):
    n = int(np.prod(shape))
    lab = np.arange(n).reshape(shape)
    out = []
    for idx in np.ndindex(*shape):
        sl = list(idx)
        g = []
        for j in range(idx[ax] + 1):
            sl[ax] = j
            g.append(int(lab[tuple(sl)]))
        out.append(g)
    return out


def fmt_groups(groups):
    return "%d %s" % (len(groups), " ".join(fmt_vec(list(g)) for g in groups))


def _all_shapes(maxdim, maxext, mindim=1):
    for d in range(mindim, maxdim + 1):
        for s in itertools.product(range(1, maxext + 1), repeat=d):
            yield tuple(s)


def axis_args(rng, kind, dim, exhaustive, unsorted=False, multi=True):
    """list of axis arguments (NumPy-valid) for a source of dimension dim"""
    if kind == "N":
        return [None]
    if kind == "C":
        # compile-time axis: harness/c08_common.hpp instantiates ct_v<k> for k in -3..2
        return [a for a in range(-dim, dim) if -3 <= a <= 2]
    if kind == "I":
        out = []
        for a in range(dim):
            out.append(a)
            out.append(a - dim)
        return out if exhaustive else [rng.choice(out)]
    if kind == "S" and dim != 3:
        return []
    subsets = []
    for L in range(1, (min(dim, 2) if kind == "S" else (dim if multi else 1)) + 1):
        for c in itertools.combinations(range(dim), L):
            subsets.append(list(c))
    out = []
    for c in subsets:
        v = [a - dim if rng.random() < 0.5 else a for a in c]
        if unsorted and len(v) > 1 and rng.random() < 0.5:
            rng.shuffle(v)
        out.append(v)
        if exhaustive:
            out.append([a - dim for a in c])
            out.append(list(c))
            if len(c) > 1:
                # axis lists are sets: order must not matter (deterministic unsorted variants, also in the quick tier)
                out.append(list(reversed(c)))
                out.append([c[-1] - dim] + list(c[:-1]))
    if exhaustive:
        uniq = []
        for v in out:
            if v not in uniq:
                uniq.append(v)
        return uniq
    return [rng.choice(out)]


def fmt_axis(kind, axis):
    if kind == "N":
        return ""
    if kind in ("I", "C"):
        return "%d" % axis
    return fmt_vec(axis)


# ------------------------------------------------------------------------------------------------ cases
def gen_cases(rng, tier):
    quick = tier == "quick"
    maxdim, maxext = (3, 3) if quick else (4, 4)
    shapes = list(_all_shapes(maxdim, maxext))
    cases = []

    def add(o, shape, data, args, **m):
        m.update(op=o["name"], args=args, shape=list(shape), data=[fmt_val(v, o["T"]) for v in data.reshape(-1)])
        cases.append(m)

    for o in OPS:
        T = o["T"]
        kind = o["kind"]
        name = o["name"]
        if kind in ("reduce", "reduce2", "default"):
            exhaustive = ((o["fam"] == "add" and T == "i4" and o["dtype"] == "N" and o.get("grp") == "add") or (o["fam"] == "tag" and o["init"] == "N")
                          or o["fam"].startswith("logical"))
            budget = None if exhaustive else (14 if quick else 150)
            multi = o.get("multi_axis", True)
            combos = []
            for s in shapes:
                if o["axis"] == "C" and len(s) > 3:
                    continue
                for ax in axis_args(rng, o["axis"], len(s), True, unsorted=not quick, multi=multi):
                    kds = (True, False) if o["keep"] == "R" else ((True,) if o["keep"] == "T" else (False,))
                    for kd in kds:
                        combos.append((s, ax, kd))
            if o["axis"] in ("C", "S"):
                budget = 30 if quick else 300
            if budget is not None and len(combos) > budget:
                combos = rng.sample(combos, budget)
            for s, ax, kd in combos:
                n = int(np.prod(s))
                data = gen_data(rng, o, n)
                init = gen_initial(rng, o, data) if o["init"] == "Y" else 0
                groups = reduce_groups(s, norm_axes(ax, len(s)))
                if kind == "default":
                    args = "%s %s %s" % (fmt_vec(s), fmt_data(data, T), fmt_groups(groups))
                else:
                    args = "%s %s %s %d %s %s" % (fmt_vec(s), fmt_data(data, T), fmt_axis(o["axis"], ax), 1 if kd else 0, fmt_val(init, T), fmt_groups(groups))
                add(o, s, data, " ".join(args.split()), axis=ax, keepdims=bool(kd), initial=(init if o["init"] == "Y" else None))
        elif kind in ("accumulate", "accumulate_ct"):
            combos = [(s, ax) for s in shapes for ax in range(-len(s), len(s)) if kind == "accumulate" or (len(s) <= 3)]
            if kind == "accumulate_ct":
                combos = rng.sample(combos, min(len(combos), 30 if quick else 300))
            # exhaustive over (shape, axis) in both tiers (thorough: sampled for the larger scope beyond the exhaustive dim<=3 part)
            if not quick:
                small = [c for c in combos if len(c[0]) <= 3 and max(c[0]) <= 3]
                rest = [c for c in combos if not (len(c[0]) <= 3 and max(c[0]) <= 3)]
                combos = small + rng.sample(rest, min(len(rest), 600))
            for s, ax in combos:
                data = gen_data(rng, o, int(np.prod(s)))
                groups = accumulate_groups(s, ax % len(s))
                args = "%s %s %d %s" % (fmt_vec(s), fmt_data(data, T), ax, fmt_groups(groups))
                add(o, s, data, args, axis=ax)
        elif kind in ("var", "norm"):
            combos = []
            for s in shapes:
                for ax in axis_args(rng, o["axis"], len(s), True, unsorted=not quick):
                    kds = (True, False) if o["keep"] == "R" else ((True,) if o["keep"] == "T" else (False,))
                    for kd in kds:
                        combos.append((s, ax, kd))
            # vector_norm: exhaustive in the small scope (a listed finding lives here: keys must not depend on the seed)
            if kind == "var":
                combos = rng.sample(combos, min(len(combos), 12 if quick else 120))
            elif not quick:
                small = [c for c in combos if len(c[0]) <= 3 and max(c[0]) <= 3]
                rest = [c for c in combos if not (len(c[0]) <= 3 and max(c[0]) <= 3)]
                combos = small + rng.sample(rest, min(len(rest), 300))
            for s, ax, kd in combos:
                data = gen_data(rng, o, int(np.prod(s)))
                groups = reduce_groups(s, norm_axes(ax, len(s)))
                gsize = groups.shape[1]
                if kind == "var":
                    extra = rng.choice([0, 0, 1]) if gsize > 1 else 0      # ddof < N
                else:
                    extra = rng.choice([1, 2, 2, 3])                        # ord
                args = "%s %s %s %d %d %s" % (fmt_vec(s), fmt_data(data, T), fmt_axis(o["axis"], ax), 1 if kd else 0, extra, fmt_groups(groups))
                add(o, s, data, " ".join(args.split()), axis=ax, keepdims=bool(kd), extra=extra)
        elif kind in ("trace", "trace0"):
            tshapes = [s for s in _all_shapes(maxdim if not quick else 3, maxext, 2)]
            combos = []
            for s in tshapes:
                d = len(s)
                if kind == "trace0":
                    combos.append((s, 0, 0, 1))
                    continue
                # non-negative axis1/axis2 only: negative ones are not normalised by view::diagonal (C04's operation), which
                # would mask what trace itself does
                # ... and offset >= 0 only: view::diagonal reads index -1 for a negative offset (again C04's operation)
                for a1, a2 in itertools.permutations(range(d), 2):
                    for off in range(0, s[a2]):
                        combos.append((s, off, a1, a2))
            if kind == "trace":
                combos = rng.sample(combos, min(len(combos), 40 if quick else 600))
            for s, off, a1, a2 in combos:
                data = gen_data(rng, o, int(np.prod(s)))
                lab = np.arange(int(np.prod(s))).reshape(s)
                dg = np.diagonal(lab, off, a1, a2)
                groups = dg.reshape(-1, dg.shape[-1])
                if kind == "trace0":
                    args = "%s %s %s" % (fmt_vec(s), fmt_data(data, T), fmt_groups(groups))
                else:
                    args = "%s %s %d %d %d %s" % (fmt_vec(s), fmt_data(data, T), off, a1, a2, fmt_groups(groups))
                add(o, s, data, args, offset=off, axis1=a1, axis2=a2)
        else:
            raise KeyError(kind)
    return cases


# ------------------------------------------------------------------------------------------------ NumPy reference (layer 2)
def case_array(m):
    o = BY_NAME[m["op"]]
    T = o["T"]
    if T[0] == "f":
        vals = [float.fromhex(x) if "x" in x else float(x) for x in m["data"]]
    else:
        vals = [int(x) for x in m["data"]]
    return np.array(vals, dtype=NPT[T]).reshape(m["shape"])


def _py_fold(o, a, groups, init):
    """subtract / tag folds in Python integers (wrap to the accumulator type)"""
    flat = [int(v) for v in a.reshape(-1)]
    out = []
    for g in groups:
        g = list(g)
        if init is not None:
            acc = int(init)
        else:
            acc = flat[g[0]]
            g = g[1:]
        for k in g:
            if o["op"] == "tag":
                acc = (acc * 31 + flat[k]) % (1 << 64)
            else:
                acc = acc - flat[k]
        out.append(acc)
    return out


def np_reference(m):
    """(reference numpy array in result shape or None, how: 'exact'|('rtol', r))"""
    o = BY_NAME[m["op"]]
    a = case_array(m)
    kind = o["kind"]
    with np.errstate(all="ignore"):
        if kind in ("reduce", "reduce2", "default"):
            ax = m["axis"]
            axis = None if ax is None else (ax if isinstance(ax, int) else tuple(ax))
            kd = m["keepdims"]
            R = NPT[o["R"]]
            npop = o["npop"]
            init = m.get("initial")
            if npop in ("subtract", "tag"):
                groups = reduce_groups(a.shape, norm_axes(ax, a.ndim))
                vals = _py_fold(o, a, groups, init)
                shp = np.add.reduce(a, axis=axis, keepdims=kd).shape
                return np.array(vals, dtype=R if o["R"][0] in "fu" else np.int64).reshape(shp), "exact"
            if npop == "mean":
                s = np.add.reduce(a.astype(np.float64), axis=axis, keepdims=kd)
                cnt = a.size // max(1, s.size)
                return (np.asarray(s).astype(R) / R(cnt)).astype(R), "exact"
            uf = getattr(np, npop)
            kw = {}
            if npop.startswith("logical"):
                return uf.reduce(a != 0, axis=axis, keepdims=kd), "exact"
            if init is not None:
                kw["initial"] = R(init) if o["R"][0] == "f" else int(init)
            return uf.reduce(a.astype(R), axis=axis, keepdims=kd, **kw), "exact"
        if kind in ("accumulate", "accumulate_ct"):
            ax = m["axis"]
            R = NPT[o["R"]]
            if o["npop"] in ("subtract", "tag"):
                vals = _py_fold(o, a, accumulate_groups(a.shape, ax % a.ndim), None)
                return np.array(vals, dtype=R if o["R"][0] in "fu" else np.int64).reshape(a.shape), "exact"
            return getattr(np, o["npop"]).accumulate(a.astype(R), axis=ax), "exact"
        if kind == "var":
            ax = m["axis"]
            axis = None if ax is None else (ax if isinstance(ax, int) else tuple(ax))
            f = np.std if o["fam"] == "stddev" else np.var
            r = f(a.astype(np.float64), axis=axis, ddof=m["extra"], keepdims=m["keepdims"])
            single = (o["dtype"] == "N" and o["T"] != "f8")
            return np.asarray(r), ("rtol", 3e-5 if single else 1e-11)
        if kind == "norm":
            ax = m["axis"]
            axis = None if ax is None else (ax if isinstance(ax, int) else tuple(ax))
            o_ = m["extra"]
            r = np.power(np.add.reduce(np.power(np.abs(a.astype(np.float64)), o_), axis=axis, keepdims=m["keepdims"]), 1.0 / o_)
            return np.asarray(r), ("rtol", 1e-5)
        if kind in ("trace", "trace0"):
            R = NPT[o["R"]]
            return np.asarray(np.trace(a.astype(R), m["offset"], m["axis1"], m["axis2"])), "exact"
    return None, None


def expected(m):
    ref, how = np_reference(m)
    if ref is None or how != "exact":
        return None
    return ref


def parse_x(x):
    t = Tok(x)
    t.expect("X")
    rtag = t.s()
    atag = t.s()
    side = t.s()
    n = t.i()
    vals = [t.num(rtag) for _ in range(n)]
    return rtag, atag, side, vals


def argclass(o, m):
    """coarse class of the arguments: how the axis is given, whether the folded group has one or several elements, run-time keepdims value"""
    parts = []
    ax = m.get("axis", "-")
    dim = len(m["shape"])
    if ax is None:
        parts.append("none")
    elif isinstance(ax, int):
        parts.append("neg" if ax < 0 else "pos")
    elif isinstance(ax, list):
        parts.append("single" if len(ax) == 1 else "multi")
        if any(a < 0 for a in ax):
            parts.append("neg")
        if [a % dim for a in ax] != sorted(a % dim for a in ax):
            parts.append("unsorted")
    else:
        parts.append("-")
    if o["kind"] in ("reduce", "reduce2", "default"):
        gs = 1
        for a in set(norm_axes(ax, dim)):
            gs *= m["shape"][a]
        parts.append("g1" if gs == 1 else "gN")
    if o.get("keep") == "R":
        parts.append("kd%d" % (1 if m.get("keepdims") else 0))
    return ":".join(parts)


def oracle(ctx, cr):
    m = cr.m
    op = m["op"]
    o = BY_NAME.get(op)
    if o is None:
        return
    base = "%s:%s" % (op, argclass(o, m))
    det = dict(case={k: v for k, v in m.items() if k not in ("args",)}, line=cr.line[:2000])
    desc = "%s shape %s axis %s%s%s" % (op, m["shape"], m.get("axis", "-"), (" keepdims %s" % m["keepdims"]) if "keepdims" in m else "",
                                        (" initial %s" % m["initial"]) if m.get("initial") is not None else "")
    if cr.crash is not None:
        ctx.violation("%s:crash:%s" % (base, cr.crash.kind()), "%s died: %s" % (desc, cr.crash.kind()), dict(det, stderr=cr.crash.stderr[-3000:]))
        return
    if cr.timeout:
        ctx.inconc("timeout in %s" % desc)
        return
    if cr.rec is None:
        return
    if "error" in cr.rec:
        ctx.violation("%s:malformed_record" % op, cr.rec["error"][:300], det)
        return
    ctx.ev()
    got = cr.rec["V"]
    ref, how = np_reference(m)
    if got is None:
        ctx.violation("%s:nothing" % base, "%s returned Nothing (NumPy shape %s)" % (desc, list(ref.shape) if ref is not None else "?"), det)
        return
    try:
        rtag, atag, side, svals = parse_x(cr.rec["X"])
    except (ValueError, IndexError) as e:
        ctx.violation("%s:malformed_record" % op, "unparsable X section: %s" % e, det)
        return
    # ---- element type: requested dtype / source element type / what the definition yields
    want = o.get("R")
    if want is not None and rtag != want:
        ctx.violation("%s:malformed_record" % op, "reference fold type %s, table says %s" % (rtag, want), det)
    if got["tag"] != rtag:
        ctx.violation("%s:type" % op, "%s: element type of the view is %s, expected %s" % (desc, got["tag"], rtag), det)
    if atag != rtag and atag != "??":
        ctx.violation("%s:access_type" % op, "%s: view(i...) returns %s, expected %s" % (desc, atag, rtag), det)
    # ---- shape (NumPy)
    eshape = tuple(ref.shape)
    if len(eshape) == 0:
        # NumPy's 0-d result: the library gives a num (axis=None known statically) or a 0-dim view (run-time axis)
        if not got.get("scalar") and list(got["shape"]) != []:
            ctx.violation("%s:shape" % base, "%s: result has shape %s, NumPy gives a 0-d result" % (desc, got.get("shape")), det)
            return
    elif got.get("scalar") or tuple(got["shape"]) != eshape:
        ctx.violation("%s:shape" % base, "%s: result shape %s, NumPy %s" % (desc, "scalar" if got.get("scalar") else got["shape"], list(eshape)), det)
        return
    n = int(np.prod(eshape)) if len(eshape) else 1
    vals = got["data"]
    if vals is None or len(vals) != n or len(svals) != n:
        ctx.violation("%s:malformed_record" % op, "element count mismatch: view %s folds %d expected %d" % (None if vals is None else len(vals), len(svals), n), det)
        return
    # ---- layer 1: element == left fold of the designated elements with the library's scalar functor (bit-exact)
    cmp_tag = rtag if got["tag"] == rtag else ("f8" if "f" in (rtag[0], got["tag"][0]) else "i8")
    bad = [i for i in range(n) if not _bits_equal(vals[i], svals[i], cmp_tag)]
    if bad:
        i = bad[0]
        ctx.violation("%s:element" % base, "%s: element %s is %r, left fold of the addressed elements gives %r (%d of %d differ)" % (
            desc, list(np.unravel_index(i, eshape)) if eshape else [], vals[i], svals[i], len(bad), n), det)
    # ---- layer 2: NumPy / Python-integer reference
    r = ref.reshape(-1)
    if how == "exact":
        if rtag[0] == "f":
            g = np.array(vals, dtype=np.float64)
            rr = np.array([float(x) for x in r], dtype=np.float64)
            ok = (g == rr) | (np.isnan(g) & np.isnan(rr))
        else:
            ok = np.array([int(v) for v in vals], dtype=object) == np.array([int(x) for x in r], dtype=object)
        nb = np.argwhere(~np.asarray(ok, dtype=bool)).reshape(-1)
    else:
        rtol = how[1]
        g = np.array(vals, dtype=np.float64)
        rr = r.astype(np.float64)
        scale = float(np.max(np.abs(case_array(m)))) if m["data"] else 1.0
        atol = rtol * max(1.0, scale) ** (2 if o["fam"] == "var" else 1)
        ok = np.abs(g - rr) <= rtol * np.abs(rr) + atol
        nb = np.argwhere(~ok).reshape(-1)
    if len(nb) and not bad:
        i = int(nb[0])
        ctx.violation("%s:numpy" % base, "%s: element %d is %r, NumPy reference %r (%d of %d differ)" % (desc, i, vals[i], r[i], len(nb), n), det)
    src_n = int(np.prod(m["shape"]))
    if src_n > 1:
        ctx.seen((op, tuple(m["shape"]), str(m.get("axis", m.get("offset"))), m.get("keepdims"), m.get("axis1"), m.get("axis2")))
    if src_n > 3 and len(ctx.samples) < 8 and ctx.rng.random() < 0.003:
        ctx.sample(dict(op=op, shape=m["shape"], axis=m.get("axis"), keepdims=m.get("keepdims"), initial=m.get("initial"), result_shape=got.get("shape"),
                        result_type=got["tag"], first_elements=vals[:6]))


def parse_record(toks):
    return V.parse_view_record(toks)


def run(ctx):
    cases = gen_cases(ctx.rng, ctx.tier)
    res = V.run_module_cases(HARNESS, cases, "asan")
    acc = HookAcc()
    norec = 0
    for cr in res:
        for (site, f0, f1) in V.hook_problems(cr, acc):
            ctx.violation("%s:hook:%s" % (cr.m["op"], site), "hook %s: index %d outside bound %d in %s" % (site, f0, f1, cr.line[:300]), dict(line=cr.line[:2000]))
        oracle(ctx, cr)
        if cr.rec is None and cr.crash is None and not cr.timeout:
            norec += 1
    if norec:
        ctx.inconc("%d cases produced no record" % norec)
    fams = sorted({o["fam"] for o in OPS})
    ctx.rule = ("%d entry-point x configuration ops over families %s; quick: source shapes dim 1..3 extents 1..3, exhaustive (all shapes x every non-empty axis subset as "
                "positive and negative numbers x both keepdims values) for reduce_add int32 without dtype (18 configurations), the tagging op and accumulate add/tag/cumsum, "
                "14 sampled (shape, axis, keepdims) per configuration otherwise; thorough: dim<=4 extents<=4, unsorted axis lists, 150 per configuration; "
                "distinct = (op, shape, axis, keepdims) with more than one source element" % (len(OPS), ",".join(fams)))
    ctx.set("hook_events", acc.summary())
    ctx.set("harness_ops", len(OPS))
    ctx.set("families", fams)
    ctx.set("cases_generated", len(cases))
    ctx.set("crashes_contained", sum(1 for cr in res if cr.crash is not None))
    kinds = {}
    for c in cases:
        k = BY_NAME[c["op"]]["kind"]
        kinds[k] = kinds.get(k, 0) + 1
    ctx.set("cases_per_kind", kinds)
    if acc.events.get(2, 0) == 0:
        ctx.inconc("view index hook never fired")
